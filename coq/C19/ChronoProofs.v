(* MV.C19.ChronoProofs — closed forms of the helpers of moment.go / period.go in fixed-offset zones and the
   properties of C19 derived from them.  Everything is over Z (all instants, all offsets). *)
From Coq Require Import ZArith List Bool Lia.
From MV Require Import C19.ChronoModel C19.CivilProofs.
Open Scope Z_scope.

Ltac Zify.zify_post_hook ::= Z.div_mod_to_equations.
Ltac consts := unfold SECOND, MINUTE, HOUR, DAY, WEEK, DAY_S in *; unfold NS in *.

(* ------------------------------------------------------------------ time.norm and time.Date *)
Lemma norm_spec : forall hi lo base, 0 < base -> norm hi lo base = (hi + lo / base, lo mod base).
Proof.
  intros hi lo base Hb. unfold norm.
  destruct (Z.ltb_spec lo 0) as [Hneg|Hpos].
  - pose proof (Z.div_mod (- lo - 1) base ltac:(lia)) as E.
    pose proof (Z.mod_pos_bound (- lo - 1) base Hb) as B.
    set (q := (- lo - 1) / base) in *. set (r := (- lo - 1) mod base) in *.
    assert (Hlo : lo + (q + 1) * base = base - 1 - r) by nia.
    rewrite Hlo.
    destruct (Z.geb_spec (base - 1 - r) base) as [Hge|Hlt]; [lia|].
    assert (Hd : lo / base = - (q + 1)).
    { symmetry. apply (Z.div_unique_pos lo base (- (q + 1)) (base - 1 - r)); nia. }
    assert (Hm : lo mod base = base - 1 - r).
    { symmetry. apply (Z.mod_unique_pos lo base (- (q + 1)) (base - 1 - r)); nia. }
    rewrite Hd, Hm. f_equal; lia.
  - destruct (Z.geb_spec lo base) as [Hge|Hlt].
    + pose proof (Z.div_mod lo base ltac:(lia)) as E.
      f_equal. rewrite Z.mod_eq by lia. lia.
    + rewrite Z.div_small, Z.mod_small by lia. f_equal; lia.
Qed.


(* time.Date is linear in day, hour, minute, second and nanosecond: overflowing values carry *)
Lemma go_date_spec : forall off y mo d h mi s ns,
  go_date off y mo d h mi s ns =
  (days_from_civil (norm_year y mo) (norm_month mo) d * DAY_S + (h * 3600 + mi * 60 + s) - off) * NS + ns.
Proof.
  intros. unfold go_date, norm_year, norm_month.
  rewrite (norm_spec y (mo - 1) 12) by lia.
  rewrite (norm_spec s ns NS) by (consts; lia).
  rewrite (norm_spec mi _ 60) by lia.
  rewrite (norm_spec h _ 60) by lia.
  rewrite (norm_spec d _ 24) by lia.
  rewrite days_from_civil_day.
  set (D := days_from_civil (y + (mo - 1) / 12) ((mo - 1) mod 12 + 1) d).
  consts. lia.
Qed.

Lemma go_date_valid : forall off y mo d h mi s ns, 1 <= mo <= 12 ->
  go_date off y mo d h mi s ns =
  (days_from_civil y mo d * DAY_S + (h * 3600 + mi * 60 + s) - off) * NS + ns.
Proof.
  intros. rewrite go_date_spec. unfold norm_year, norm_month.
  replace ((mo - 1) / 12) with 0 by lia. replace ((mo - 1) mod 12 + 1) with mo by lia.
  rewrite Z.add_0_r. reflexivity.
Qed.

(* ------------------------------------------------------------------ reading the wall clock *)
Lemma date_of_spec : forall off t y m d, date_of off t = (y, m, d) ->
  valid_date y m d /\ days_from_civil y m d = lday off t.
Proof.
  intros off t y m d E. unfold date_of in E.
  pose proof (civil_from_days_spec (lday off t)) as H. rewrite E in H. exact H.
Qed.

Lemma clock_of_spec : forall off t h mi s, clock_of off t = (h, mi, s) ->
  h * 3600 + mi * 60 + s = sod off t /\ 0 <= h < 24 /\ 0 <= mi < 60 /\ 0 <= s < 60.
Proof.
  intros off t h mi s E. unfold clock_of in E.
  assert (B : 0 <= sod off t < 86400) by (unfold sod; consts; lia).
  set (x := sod off t) in *. inversion E; subst. lia.
Qed.

Lemma t_split : forall t, t = unix t * NS + nsec t /\ 0 <= nsec t < NS.
Proof. intro t. unfold unix, nsec. consts. lia. Qed.

Lemma lsec_split : forall off t, unix t + off = lday off t * DAY_S + sod off t /\ 0 <= sod off t < DAY_S.
Proof. intros. unfold lday, sod, lsec. consts. lia. Qed.

(* wall clock of an instant given as (local day X, second of day r, nanosecond n) *)
Lemma wall_mk : forall off X r n, 0 <= r < DAY_S -> 0 <= n < NS ->
  let t := (X * DAY_S + r - off) * NS + n in
  lday off t = X /\ sod off t = r /\ nsec t = n.
Proof.
  intros off X r n Hr Hn t. unfold lday, sod, lsec, unix, nsec, t. consts. lia.
Qed.

Lemma lday_mk : forall off X r n, 0 <= r < DAY_S -> 0 <= n < NS ->
  lday off ((X * DAY_S + r - off) * NS + n) = X.
Proof. intros. apply (wall_mk off X r n); assumption. Qed.
Lemma sod_mk : forall off X r n, 0 <= r < DAY_S -> 0 <= n < NS ->
  sod off ((X * DAY_S + r - off) * NS + n) = r.
Proof. intros. apply (wall_mk off X r n); assumption. Qed.
Lemma nsec_mk : forall off X r n, 0 <= r < DAY_S -> 0 <= n < NS ->
  nsec ((X * DAY_S + r - off) * NS + n) = n.
Proof. intros. apply (wall_mk off X r n); assumption. Qed.


Lemma midnight_wall : forall off X,
  lday off (midnight off X) = X /\ sod off (midnight off X) = 0 /\ nsec (midnight off X) = 0.
Proof.
  intros. unfold midnight.
  replace ((X * DAY_S - off) * NS) with ((X * DAY_S + 0 - off) * NS + 0) by ring.
  apply wall_mk; consts; lia.
Qed.

Lemma lday_bounds : forall off t, midnight off (lday off t) <= t < midnight off (lday off t) + DAY.
Proof.
  intros. unfold midnight. pose proof (t_split t). pose proof (lsec_split off t). consts. lia.
Qed.

Lemma lday_unique : forall off t X, midnight off X <= t < midnight off X + DAY -> lday off t = X.
Proof.
  intros off t X H. unfold midnight in H.
  pose proof (t_split t). pose proof (lsec_split off t). consts. lia.
Qed.

(* ------------------------------------------------------------------ closed forms: days *)
Lemma start_of_day_cf : forall off t, get_start_of_day off t = midnight off (lday off t).
Proof.
  intros. unfold get_start_of_day, midnight.
  destruct (date_of off t) as [[y m] d] eqn:E. apply date_of_spec in E. destruct E as [[Hm _] Hn].
  rewrite go_date_valid by lia. rewrite Hn. lia.
Qed.

Lemma end_of_day_cf : forall off t, get_end_of_day off t = midnight off (lday off t) + (DAY - SECOND).
Proof.
  intros. unfold get_end_of_day, midnight.
  destruct (date_of off t) as [[y m] d] eqn:E. apply date_of_spec in E. destruct E as [[Hm _] Hn].
  rewrite go_date_valid by lia. rewrite Hn. consts. lia.
Qed.

Lemma add_days_cf : forall off t k, add_date off t 0 0 k = t + k * DAY.
Proof.
  intros. unfold add_date.
  destruct (date_of off t) as [[y m] d] eqn:E. apply date_of_spec in E. destruct E as [[Hm _] Hn].
  destruct (clock_of off t) as [[h mi] s] eqn:C. apply clock_of_spec in C. destruct C as [C _].
  rewrite !Z.add_0_r. rewrite go_date_valid by lia.
  rewrite days_from_civil_day, Hn, C.
  pose proof (t_split t). pose proof (lsec_split off t). consts. lia.
Qed.

Lemma lday_add_days : forall off t k, lday off (t + k * DAY) = lday off t + k.
Proof.
  intros. apply lday_unique. pose proof (lday_bounds off t). unfold midnight in *. consts. lia.
Qed.

Lemma sod_add_days : forall off t k, sod off (t + k * DAY) = sod off t.
Proof.
  intros. pose proof (lday_add_days off t k) as L.
  pose proof (lsec_split off t). pose proof (lsec_split off (t + k * DAY)).
  pose proof (t_split t). pose proof (t_split (t + k * DAY)).
  assert (U : unix (t + k * DAY) = unix t + k * DAY_S) by (unfold unix; consts; lia).
  consts. lia.
Qed.

Lemma nsec_add_days : forall t k, nsec (t + k * DAY) = nsec t.
Proof. intros. unfold nsec. consts. lia. Qed.

Lemma relative_start_of_day_cf : forall off t n,
  get_relative_start_of_day off t n = midnight off (lday off t + n).
Proof.
  intros. unfold get_relative_start_of_day.
  rewrite add_days_cf, !start_of_day_cf.
  destruct (midnight_wall off (lday off (t + n * DAY))) as [L _]. rewrite L.
  rewrite lday_add_days. reflexivity.
Qed.

Lemma relative_end_of_day_cf : forall off t n,
  get_relative_end_of_day off t n = midnight off (lday off t + n) + (DAY - SECOND).
Proof.
  intros. unfold get_relative_end_of_day.
  rewrite add_days_cf, !end_of_day_cf.
  rewrite lday_add_days.
  replace (lday off (midnight off (lday off t + n) + (DAY - SECOND))) with (lday off t + n); [reflexivity|].
  symmetry. apply lday_unique. consts. lia.
Qed.

(* ------------------------------------------------------------------ closed forms: weeks *)
(* day offset that GetStartOfWeek applies: from weekday tw to weekday w of the same Monday-based week *)
Definition week_delta (tw w : Z) : Z :=
  1 - (if tw =? 0 then 7 else tw) + (if w =? 0 then 6 else w - 1).

Lemma start_of_week_cf : forall off t w,
  get_start_of_week off t w =
  midnight off (lday off t + week_delta (weekday_of_days (lday off t)) w).
Proof.
  intros. unfold get_start_of_week. rewrite start_of_day_cf, add_days_cf.
  unfold weekday_of. destruct (midnight_wall off (lday off t)) as [L _]. rewrite L.
  unfold week_delta, midnight.
  set (tw := weekday_of_days (lday off t)).
  destruct (tw =? 0); destruct (w =? 0); consts; lia.
Qed.

Lemma end_of_week_cf : forall off t w,
  get_end_of_week off t w =
  midnight off (lday off t + week_delta (weekday_of_days (lday off t)) w) + (DAY - SECOND).
Proof.
  intros. unfold get_end_of_week. rewrite end_of_day_cf, start_of_week_cf.
  destruct (midnight_wall off (lday off t + week_delta (weekday_of_days (lday off t)) w)) as [L _].
  rewrite L. reflexivity.
Qed.


Lemma week_delta_spec : forall X w, 0 <= w <= 6 ->
  X + week_delta (weekday_of_days X) w = monday_of X + (w + 6) mod 7.
Proof.
  intros X w Hw. unfold week_delta, monday_of, weekday_of_days.
  destruct (Z.eqb_spec ((X + 4) mod 7) 0); destruct (Z.eqb_spec w 0); lia.
Qed.


(* the day on which the relative week starts (before the shift by whole weeks) *)
Lemma relative_week_day : forall X w, 0 <= w <= 6 ->
  let nw := weekday_of_days X in
  let nw' := if nw =? 0 then 7 else nw in
  let wd := if w =? 0 then 7 else w in
  let X' := if nw' <? wd then X - 7 else X in
  X' + week_delta (weekday_of_days X') w = latest_weekday X w.
Proof.
  intros X w Hw. cbv zeta. unfold week_delta, latest_weekday, weekday_of_days.
  destruct (Z.eqb_spec ((X + 4) mod 7) 0) as [E0|E0]; destruct (Z.eqb_spec w 0) as [W0|W0].
  - destruct (Z.ltb_spec 7 7); [lia|].
    destruct (Z.eqb_spec ((X + 4) mod 7) 0); lia.
  - destruct (Z.ltb_spec 7 w); [lia|].
    destruct (Z.eqb_spec ((X + 4) mod 7) 0); lia.
  - destruct (Z.ltb_spec ((X + 4) mod 7) 7) as [L|L]; [|lia].
    destruct (Z.eqb_spec ((X - 7 + 4) mod 7) 0); lia.
  - destruct (Z.ltb_spec ((X + 4) mod 7) w) as [L|L].
    + destruct (Z.eqb_spec ((X - 7 + 4) mod 7) 0); lia.
    + destruct (Z.eqb_spec ((X + 4) mod 7) 0); lia.
Qed.

Lemma relative_start_of_week_cf : forall off t w k, 0 <= w <= 6 ->
  get_relative_start_of_week off t w k = midnight off (latest_weekday (lday off t) w + 7 * k).
Proof.
  intros off t w k Hw. unfold get_relative_start_of_week.
  rewrite !add_days_cf. unfold weekday_of.
  pose proof (relative_week_day (lday off t) w Hw) as R. cbv zeta in R.
  destruct ((if weekday_of_days (lday off t) =? 0 then 7 else weekday_of_days (lday off t))
              <? (if w =? 0 then 7 else w)).
  - rewrite start_of_week_cf, lday_add_days.
    replace (lday off t + -7) with (lday off t - 7) by lia. rewrite R.
    unfold midnight. consts. lia.
  - rewrite start_of_week_cf. rewrite R. unfold midnight. consts. lia.
Qed.

(* the code as written in /repo (168 h added with Add) computes the same instants in fixed-offset zones *)
Lemma get_relative_start_of_week_168h_eq : forall off t w k,
  get_relative_start_of_week_168h off t w k = get_relative_start_of_week off t w k.
Proof.
  intros. unfold get_relative_start_of_week_168h, get_relative_start_of_week, add.
  rewrite !add_days_cf.
  replace (t + - WEEK) with (t + -7 * DAY) by (consts; lia).
  destruct ((if weekday_of off t =? 0 then 7 else weekday_of off t) <? (if w =? 0 then 7 else w));
    consts; lia.
Qed.

Lemma new_period_window_week_168h_eq : forall off t,
  new_period_window_week_168h off t = new_period_window_week off t.
Proof.
  intros. unfold new_period_window_week_168h, new_period_window_week, add.
  rewrite add_days_cf. f_equal; consts; lia.
Qed.

Lemma relative_end_of_week_cf : forall off t w k, 0 <= w <= 6 ->
  get_relative_end_of_week off t w k =
  midnight off (latest_weekday (lday off t) w + 7 * k) + (DAY - SECOND).
Proof.
  intros. unfold get_relative_end_of_week. rewrite end_of_day_cf, relative_start_of_week_cf by assumption.
  destruct (midnight_wall off (latest_weekday (lday off t) w + 7 * k)) as [L _]. rewrite L. reflexivity.
Qed.

Lemma relative_time_of_week_cf : forall off t w k, 0 <= w <= 6 ->
  get_relative_time_of_week off t w k = t + (latest_weekday (lday off t) w + 7 * k - lday off t) * DAY.
Proof.
  intros off t w k Hw. unfold get_relative_time_of_week.
  rewrite relative_start_of_week_cf by assumption.
  set (X := latest_weekday (lday off t) w + 7 * k).
  destruct (date_of off (midnight off X)) as [[y m] d] eqn:E. apply date_of_spec in E.
  destruct E as [[Hm _] Hn]. destruct (midnight_wall off X) as [L _]. rewrite L in Hn.
  destruct (clock_of off t) as [[h mi] s] eqn:C. apply clock_of_spec in C. destruct C as [C _].
  rewrite go_date_valid by lia. rewrite Hn, C.
  pose proof (t_split t). pose proof (lsec_split off t). consts. lia.
Qed.

(* ------------------------------------------------------------------ closed forms: next moment *)
Lemma next_moment_cf : forall off t h m s,
  let mom := midnight off (lday off t) + (h * 3600 + m * 60 + s) * NS in
  get_next_moment off off t h m s = if mom <=? t then mom + DAY else mom.
Proof.
  intros. unfold get_next_moment.
  destruct (date_of off t) as [[y mo] d] eqn:E. apply date_of_spec in E. destruct E as [[Hm _] Hn].
  rewrite !go_date_valid by lia. rewrite days_from_civil_day, Hn.
  unfold after, equal, mom, midnight.
  set (M := (lday off t * DAY_S + (h * 3600 + m * 60 + s) - off) * NS + 0).
  replace ((lday off t * DAY_S - off) * NS + (h * 3600 + m * 60 + s) * NS) with M by (unfold M; lia).
  destruct (Z.leb_spec M t) as [L|L].
  - replace ((t >? M) || (t =? M)) with true.
    + unfold M. consts. lia.
    + symmetry. apply orb_true_iff. destruct (Z.eq_dec t M) as [e|Hne].
      * right. apply Z.eqb_eq. exact e.
      * left. apply Z.gtb_lt. lia.
  - replace ((t >? M) || (t =? M)) with false; [reflexivity|].
    symmetry. apply orb_false_iff. split; [rewrite Z.gtb_ltb; apply Z.ltb_ge; lia | apply Z.eqb_neq; lia].
Qed.

Lemma get_next_moment_adddate_eq : forall off t h m s,
  get_next_moment_adddate off off t h m s = get_next_moment off off t h m s.
Proof.
  intros. unfold get_next_moment_adddate, get_next_moment.
  destruct (date_of off t) as [[y mo] d] eqn:E. apply date_of_spec in E. destruct E as [[Hm _] Hn].
  rewrite add_days_cf. rewrite !go_date_valid by lia. rewrite days_from_civil_day.
  destruct (after t _ || equal t _); consts; lia.
Qed.

(* ================================================================== Part 2: the properties *)

Lemma wall_at : forall off X r n t, t = midnight off X + r * NS + n -> 0 <= r < DAY_S -> 0 <= n < NS ->
  lday off t = X /\ sod off t = r /\ nsec t = n.
Proof.
  intros off X r n t -> Hr Hn.
  replace (midnight off X + r * NS + n) with ((X * DAY_S + r - off) * NS + n) by (unfold midnight; ring).
  apply wall_mk; assumption.
Qed.

Lemma clock_of_sod : forall off t r, sod off t = r -> clock_of off t = (r / 3600, r mod 3600 / 60, r mod 60).
Proof. intros off t r <-. reflexivity. Qed.

Lemma date_of_lday : forall off a b, lday off a = lday off b <-> date_of off a = date_of off b.
Proof.
  intros. unfold date_of. split; [intros ->; reflexivity|]. intro E.
  pose proof (civil_from_days_spec (lday off a)) as Ha.
  pose proof (civil_from_days_spec (lday off b)) as Hb.
  rewrite E in Ha. destruct (civil_from_days (lday off b)) as [[y m] d].
  destruct Ha as [_ Ha]. destruct Hb as [_ Hb]. lia.
Qed.

(* an instant whose wall clock reads h:m:s.000000000 is midnight of its day + that many seconds *)
Lemma clock_inst : forall off x h m s, clock_of off x = (h, m, s) -> nsec x = 0 ->
  x = midnight off (lday off x) + (h * 3600 + m * 60 + s) * NS.
Proof.
  intros off x h m s C N. apply clock_of_spec in C. destruct C as [C _].
  pose proof (t_split x). pose proof (lsec_split off x). unfold midnight. consts. lia.
Qed.

Lemma lday_mono : forall off a b, a <= b -> lday off a <= lday off b.
Proof.
  intros off a b H. pose proof (lday_bounds off a). pose proof (lday_bounds off b).
  unfold midnight in *. consts. lia.
Qed.

(* ------------------------------------------------------------------ start / end of day *)
Lemma start_end_of_day : forall off t,
  let s := get_start_of_day off t in
  let e := get_end_of_day off t in
  (date_of off s = date_of off t /\ clock_of off s = (0, 0, 0) /\ nsec s = 0 /\ s <= t < s + DAY) /\
  (date_of off e = date_of off t /\ clock_of off e = (23, 59, 59) /\ nsec e = 0 /\
   e = s + (DAY - SECOND) /\ t < e + SECOND).
Proof.
  intros off t. cbv zeta. rewrite start_of_day_cf, end_of_day_cf.
  pose proof (lday_bounds off t) as B. set (X := lday off t) in *.
  destruct (midnight_wall off X) as [L [S N]].
  destruct (wall_at off X 86399 0 (midnight off X + (DAY - SECOND))) as [L2 [S2 N2]];
    [consts; lia | consts; lia | consts; lia |].
  repeat split.
  - apply date_of_lday. exact L.
  - rewrite (clock_of_sod _ _ _ S). reflexivity.
  - exact N.
  - lia.
  - lia.
  - apply date_of_lday. exact L2.
  - rewrite (clock_of_sod _ _ _ S2). reflexivity.
  - exact N2.
  - consts; lia.
Qed.

Lemma relative_day : forall off t n,
  let s := get_relative_start_of_day off t n in
  let e := get_relative_end_of_day off t n in
  s = get_start_of_day off t + n * DAY /\ e = get_end_of_day off t + n * DAY /\
  lday off s = lday off t + n /\ clock_of off s = (0, 0, 0) /\ nsec s = 0 /\
  lday off e = lday off t + n /\ clock_of off e = (23, 59, 59) /\ nsec e = 0.
Proof.
  intros off t n. cbv zeta.
  rewrite relative_start_of_day_cf, relative_end_of_day_cf, start_of_day_cf, end_of_day_cf.
  set (X := lday off t).
  destruct (midnight_wall off (X + n)) as [L [S N]].
  destruct (wall_at off (X + n) 86399 0 (midnight off (X + n) + (DAY - SECOND))) as [L2 [S2 N2]];
    [consts; lia | consts; lia | consts; lia |].
  repeat split; try assumption.
  - unfold midnight. consts. lia.
  - unfold midnight. consts. lia.
  - rewrite (clock_of_sod _ _ _ S). reflexivity.
  - rewrite (clock_of_sod _ _ _ S2). reflexivity.
Qed.

(* ------------------------------------------------------------------ start / end of week *)
Lemma monday_of_bounds : forall X, monday_of X <= X < monday_of X + 7 /\ weekday_of_days (monday_of X) = 1.
Proof. intro X. unfold monday_of, weekday_of_days. lia. Qed.

Lemma start_of_week_ok : forall off t w, 0 <= w <= 6 ->
  let r := get_start_of_week off t w in
  let mon := get_start_of_week off t 1 in
  weekday_of off r = w /\ clock_of off r = (0, 0, 0) /\ nsec r = 0 /\
  weekday_of off mon = 1 /\ mon <= t < mon + WEEK /\
  r = mon + ((w + 6) mod 7) * DAY /\ mon <= r < mon + WEEK /\
  get_start_of_week off r 1 = mon /\
  - WEEK < r - t < WEEK /\
  get_end_of_week off t w = r + (DAY - SECOND) /\
  clock_of off (get_end_of_week off t w) = (23, 59, 59) /\
  weekday_of off (get_end_of_week off t w) = w.
Proof.
  intros off t w Hw. cbv zeta.
  rewrite end_of_week_cf, (start_of_week_cf off t w), (start_of_week_cf off t 1).
  rewrite (week_delta_spec (lday off t) w Hw), (week_delta_spec (lday off t) 1) by lia.
  pose proof (lday_bounds off t) as B. set (X := lday off t) in *.
  pose proof (monday_of_bounds X) as [MB MW]. set (M := monday_of X) in *.
  replace ((1 + 6) mod 7) with 0 by reflexivity. rewrite Z.add_0_r.
  set (j := (w + 6) mod 7). assert (Hj : 0 <= j <= 6) by (unfold j; lia).
  destruct (midnight_wall off (M + j)) as [L [S N]].
  destruct (midnight_wall off M) as [LM [SM NM]].
  destruct (wall_at off (M + j) 86399 0 (midnight off (M + j) + (DAY - SECOND))) as [L2 [S2 N2]];
    [consts; lia | consts; lia | consts; lia |].
  assert (WJ : weekday_of_days (M + j) = w).
  { unfold weekday_of_days in *. unfold j. lia. }
  repeat split.
  - unfold weekday_of. rewrite L. exact WJ.
  - rewrite (clock_of_sod _ _ _ S). reflexivity.
  - exact N.
  - unfold weekday_of. rewrite LM. exact MW.
  - unfold midnight in *. consts. lia.
  - unfold midnight in *. consts. lia.
  - unfold midnight. consts. lia.
  - unfold midnight. consts. lia.
  - unfold midnight. consts. lia.
  - rewrite start_of_week_cf, L. rewrite week_delta_spec by lia.
    replace ((1 + 6) mod 7) with 0 by reflexivity. rewrite Z.add_0_r.
    f_equal. unfold monday_of. unfold weekday_of_days in *. unfold j in *. fold M. 
    unfold M, monday_of, weekday_of_days. lia.
  - unfold midnight in *. consts. lia.
  - unfold midnight in *. consts. lia.
  - rewrite (clock_of_sod _ _ _ S2). reflexivity.
  - unfold weekday_of. rewrite L2. exact WJ.
Qed.

(* ------------------------------------------------------------------ relative week start *)
Lemma latest_weekday_spec : forall X w, 0 <= w <= 6 ->
  weekday_of_days (latest_weekday X w) = w /\ latest_weekday X w <= X < latest_weekday X w + 7.
Proof. intros X w Hw. unfold latest_weekday, weekday_of_days. lia. Qed.

Lemma relative_week_start_ok : forall off t w k, 0 <= w <= 6 ->
  let r := get_relative_start_of_week off t w k in
  let r0 := get_relative_start_of_week off t w 0 in
  weekday_of off r0 = w /\ clock_of off r0 = (0, 0, 0) /\ nsec r0 = 0 /\ r0 <= t < r0 + WEEK /\
  (forall x, weekday_of off x = w -> clock_of off x = (0, 0, 0) -> nsec x = 0 -> x <= t -> x <= r0) /\
  r = r0 + k * WEEK /\
  weekday_of off r = w /\ clock_of off r = (0, 0, 0) /\ nsec r = 0 /\
  get_relative_end_of_week off t w k = r + (DAY - SECOND) /\
  let rt := get_relative_time_of_week off t w k in
  date_of off rt = date_of off r /\ clock_of off rt = clock_of off t /\ nsec rt = nsec t.
Proof.
  intros off t w k Hw. cbv zeta.
  rewrite relative_end_of_week_cf, relative_time_of_week_cf, !relative_start_of_week_cf by assumption.
  pose proof (lday_bounds off t) as B. set (X := lday off t) in *.
  pose proof (latest_weekday_spec X w Hw) as [LW LB]. set (D := latest_weekday X w) in *.
  rewrite Z.mul_0_r, Z.add_0_r.
  destruct (midnight_wall off D) as [L0 [S0 N0]].
  destruct (midnight_wall off (D + 7 * k)) as [L [S N]].
  assert (WK : weekday_of_days (D + 7 * k) = w) by (unfold weekday_of_days in *; lia).
  split; [unfold weekday_of; rewrite L0; exact LW|].
  split; [rewrite (clock_of_sod _ _ _ S0); reflexivity|].
  split; [exact N0|].
  split; [unfold midnight in *; consts; lia|].
  split.
  { intros x Wx Cx Nx Hx.
    pose proof (clock_inst off x 0 0 0 Cx Nx) as Ex.
    pose proof (lday_mono off x t Hx) as Hm. fold X in Hm.
    unfold weekday_of in Wx. set (Y := lday off x) in *.
    assert (Y <= D) by (unfold weekday_of_days in *; lia).
    rewrite Ex. unfold midnight. consts. lia. }
  split; [unfold midnight; consts; lia|].
  split; [unfold weekday_of; rewrite L; exact WK|].
  split; [rewrite (clock_of_sod _ _ _ S); reflexivity|].
  split; [exact N|].
  split; [reflexivity|].
  replace (D + 7 * k - X) with (D + 7 * k - X) by reflexivity.
  split; [|split].
  - apply date_of_lday. rewrite lday_add_days, L. fold X. lia.
  - unfold clock_of. rewrite sod_add_days. reflexivity.
  - apply nsec_add_days.
Qed.

(* ------------------------------------------------------------------ next moment *)
Lemma next_moment_ok : forall off t h m s, 0 <= h < 24 -> 0 <= m < 60 -> 0 <= s < 60 ->
  let r := get_next_moment off off t h m s in
  t < r /\ r <= t + DAY /\ clock_of off r = (h, m, s) /\ nsec r = 0 /\
  (forall x, t < x -> clock_of off x = (h, m, s) -> nsec x = 0 -> r <= x) /\
  (is_moment_passed off off t h m s = true <-> lday off r = lday off t + 1 /\ r < t + DAY) /\
  is_moment_future off off t h m s = negb (is_moment_passed off off t h m s).
Proof.
  intros off t h m s Hh Hm Hs. cbv zeta.
  pose proof (next_moment_cf off t h m s) as CF. cbv zeta in CF. rewrite CF.
  pose proof (lday_bounds off t) as B. set (X := lday off t) in *.
  set (q := h * 3600 + m * 60 + s) in *.
  assert (Hq : 0 <= q < 86400) by (unfold q; lia).
  assert (Cq : (q / 3600, q mod 3600 / 60, q mod 60) = (h, m, s)).
  { unfold q. f_equal; [f_equal|]; lia. }
  set (mom := midnight off X + q * NS) in *.
  destruct (wall_at off X q 0 mom) as [L1 [S1 N1]]; [unfold mom; lia | consts; lia | consts; lia |].
  destruct (wall_at off (X + 1) q 0 (mom + DAY)) as [L2 [S2 N2]];
    [unfold mom, midnight; consts; lia | consts; lia | consts; lia |].
  assert (LATEST : forall x, t < x -> clock_of off x = (h, m, s) -> nsec x = 0 ->
                   (if mom <=? t then mom + DAY else mom) <= x).
  { intros x Hx Cx Nx. pose proof (clock_inst off x h m s Cx Nx) as Ex. fold q in Ex.
    pose proof (lday_mono off t x ltac:(lia)) as Hmono. fold X in Hmono.
    set (Y := lday off x) in *.
    destruct (Z.leb_spec mom t) as [Le|Gt]; unfold mom, midnight in *; consts; lia. }
  assert (PASSED : is_moment_passed off off t h m s = (mom <? t)).
  { unfold is_moment_passed.
    destruct (date_of off t) as [[y mo] d] eqn:E. apply date_of_spec in E. destruct E as [[Hmo _] Hn].
    rewrite go_date_valid by lia. rewrite Hn. fold X. fold q. unfold after.
    rewrite Z.gtb_ltb. f_equal. unfold mom, midnight. lia. }
  split; [destruct (Z.leb_spec mom t); unfold mom, midnight in *; consts; lia|].
  split; [destruct (Z.leb_spec mom t); unfold mom, midnight in *; consts; lia|].
  split; [destruct (Z.leb_spec mom t); [rewrite (clock_of_sod _ _ _ S2)|rewrite (clock_of_sod _ _ _ S1)]; exact Cq|].
  split; [destruct (Z.leb_spec mom t); assumption|].
  split; [exact LATEST|].
  split; [|reflexivity].
  rewrite PASSED. rewrite Z.ltb_lt.
  destruct (Z.leb_spec mom t) as [Le|Gt].
  - rewrite L2. split; [intro; split; [reflexivity | unfold mom, midnight in *; consts; lia]|].
    intros [_ H]. lia.
  - rewrite L1. split; [lia|]. intros [H _]. lia.
Qed.

Lemma day_moment_first_delay_ok : forall off t h m s, 0 <= h < 24 -> 0 <= m < 60 -> 0 <= s < 60 ->
  let d := day_moment_first_delay off off t h m s in
  0 < d <= DAY /\ t + d = get_next_moment off off t h m s /\
  clock_of off (t + d) = (h, m, s) /\ nsec (t + d) = 0.
Proof.
  intros off t h m s Hh Hm Hs. cbv zeta.
  destruct (next_moment_ok off t h m s Hh Hm Hs) as [F [B [C [N _]]]]. cbv zeta in *.
  unfold day_moment_first_delay, sub. set (r := get_next_moment off off t h m s) in *.
  assert (E : (if r - t <? MINDUR then MINDUR else if r - t >? MAXDUR then MAXDUR else r - t) = r - t).
  { unfold MINDUR, MAXDUR. consts.
    destruct (Z.ltb_spec (r - t) (-9223372036854775808)); [lia|].
    destruct (Z.gtb_spec (r - t) 9223372036854775807); lia. }
  rewrite E. replace (t + (r - t)) with r by lia.
  split; [lia|]. split; [reflexivity|]. split; assumption.
Qed.

(* ------------------------------------------------------------------ same day / week / month *)
Lemma same_day_iff : forall off a b, is_same_day off a off b = true <-> lday off a = lday off b.
Proof.
  intros. unfold is_same_day, equal. rewrite !start_of_day_cf, Z.eqb_eq.
  unfold midnight. consts. split; [|intros ->; reflexivity]. lia.
Qed.

Lemma same_day_ok : forall off,
  (forall a, is_same_day off a off a = true) /\
  (forall a b, is_same_day off a off b = is_same_day off b off a) /\
  (forall a b c, is_same_day off a off b = true -> is_same_day off b off c = true ->
                 is_same_day off a off c = true) /\
  (forall a b, is_same_day off a off b = true <-> date_of off a = date_of off b) /\
  (forall a b, is_same_day off a off b = true <->
               get_start_of_day off a <= b < get_start_of_day off a + DAY) /\
  (forall a b, is_same_day off a off b = true <-> get_start_of_day off a = get_start_of_day off b) /\
  (forall a b, is_same_day off a off b = true -> get_end_of_day off a = get_end_of_day off b).
Proof.
  intro off.
  split. { intro a. apply same_day_iff. reflexivity. }
  split. { intros. unfold is_same_day, equal. apply Z.eqb_sym. }
  split. { intros a b c H1 H2. apply same_day_iff in H1, H2. apply same_day_iff. congruence. }
  split. { intros a b. rewrite same_day_iff. apply date_of_lday. }
  split. { intros a b. rewrite same_day_iff, start_of_day_cf. split.
           - intro H. rewrite H. apply lday_bounds.
           - intro H. symmetry. apply lday_unique. exact H. }
  split. { intros a b. unfold is_same_day, equal. apply Z.eqb_eq. }
  intros a b H. apply same_day_iff in H. rewrite !end_of_day_cf, H. reflexivity.
Qed.

Lemma same_week_iff : forall off a b,
  is_same_week off a off b = true <-> monday_of (lday off a) = monday_of (lday off b).
Proof.
  intros. unfold is_same_week, equal. rewrite !start_of_week_cf, Z.eqb_eq.
  rewrite !week_delta_spec by lia. replace ((1 + 6) mod 7) with 0 by reflexivity. rewrite !Z.add_0_r.
  unfold midnight. consts. split; [|intros ->; reflexivity]. lia.
Qed.

Lemma same_week_ok : forall off,
  (forall a, is_same_week off a off a = true) /\
  (forall a b, is_same_week off a off b = is_same_week off b off a) /\
  (forall a b c, is_same_week off a off b = true -> is_same_week off b off c = true ->
                 is_same_week off a off c = true) /\
  (forall a b, is_same_week off a off b = true <->
               get_start_of_week off a 1 <= b < get_start_of_week off a 1 + WEEK) /\
  (forall a b, is_same_week off a off b = true <-> get_start_of_week off a 1 = get_start_of_week off b 1) /\
  (forall a b, is_same_day off a off b = true -> is_same_week off a off b = true).
Proof.
  intro off.
  assert (SW : forall a, get_start_of_week off a 1 = midnight off (monday_of (lday off a))).
  { intro a. rewrite start_of_week_cf, week_delta_spec by lia.
    replace ((1 + 6) mod 7) with 0 by reflexivity. rewrite Z.add_0_r. reflexivity. }
  split. { intro a. apply same_week_iff. reflexivity. }
  split. { intros. unfold is_same_week, equal. apply Z.eqb_sym. }
  split. { intros a b c H1 H2. apply same_week_iff in H1, H2. apply same_week_iff. congruence. }
  split. { intros a b. rewrite same_week_iff, SW. split.
           - intro H. rewrite H.
             pose proof (lday_bounds off b). pose proof (monday_of_bounds (lday off b)).
             unfold midnight in *. consts. lia.
           - intro H.
             pose proof (lday_bounds off b) as Bb. pose proof (monday_of_bounds (lday off b)) as [Mb _].
             pose proof (monday_of_bounds (lday off a)) as [Ma Wa].
             set (X := lday off a) in *. set (Y := lday off b) in *.
             assert (monday_of X <= Y < monday_of X + 7) by (unfold midnight in *; consts; lia).
             unfold monday_of, weekday_of_days in *. lia. }
  split. { intros a b. unfold is_same_week, equal. apply Z.eqb_eq. }
  intros a b H. apply same_day_iff in H. apply same_week_iff. rewrite H. reflexivity.
Qed.

(* ------------------------------------------------------------------ same month, month boundaries *)
Lemma next_month_norm : forall y m, 1 <= m <= 12 ->
  norm_year y (m + 1) = (if m =? 12 then y + 1 else y) /\ norm_month (m + 1) = (if m =? 12 then 1 else m + 1).
Proof.
  intros y m Hm. unfold norm_year, norm_month.
  destruct (Z.eqb_spec m 12) as [->|Hne]; [split; reflexivity|].
  replace ((m + 1 - 1) / 12) with 0 by lia. replace ((m + 1 - 1) mod 12) with m by lia. lia.
Qed.

Lemma month_bounds_cf : forall off t y m d, date_of off t = (y, m, d) ->
  month_start off t = midnight off (days_from_civil y m 1) /\
  next_month_start off t = midnight off (days_from_civil y m 1 + days_in_month y m) /\
  lday off t = days_from_civil y m 1 + (d - 1) /\ 1 <= d <= days_in_month y m /\ 1 <= m <= 12.
Proof.
  intros off t y m d E. unfold month_start, next_month_start. rewrite E.
  apply date_of_spec in E. destruct E as [[Hm Hd] Hn].
  rewrite go_date_valid by lia. rewrite go_date_spec.
  destruct (next_month_norm y m Hm) as [-> ->].
  rewrite days_from_civil_month_start_next by lia.
  replace d with (1 + (d - 1)) in Hn by lia. rewrite days_from_civil_day in Hn.
  unfold midnight. repeat split; try lia.
Qed.

Lemma same_month_ok : forall off,
  (forall a, is_same_month off a off a = true) /\
  (forall a b, is_same_month off a off b = is_same_month off b off a) /\
  (forall a b c, is_same_month off a off b = true -> is_same_month off b off c = true ->
                 is_same_month off a off c = true) /\
  (forall a b, is_same_month off a off b = true <->
               year_of off a = year_of off b /\ month_of off a = month_of off b) /\
  (forall a b, is_same_month off a off b = true <-> month_start off a <= b < next_month_start off a) /\
  (forall a, month_start off a <= a < next_month_start off a /\
             day_of off (month_start off a) = 1 /\ clock_of off (month_start off a) = (0, 0, 0) /\
             nsec (month_start off a) = 0 /\
             year_of off (month_start off a) = year_of off a /\ month_of off (month_start off a) = month_of off a /\
             next_month_start off a - month_start off a = get_month_days off a * DAY) /\
  (forall a b, is_same_day off a off b = true -> is_same_month off a off b = true).
Proof.
  intro off.
  assert (IFF : forall a b, is_same_month off a off b = true <->
                year_of off a = year_of off b /\ month_of off a = month_of off b).
  { intros a b. unfold is_same_month, year_of, month_of.
    destruct (date_of off a) as [[y1 m1] d1]. destruct (date_of off b) as [[y2 m2] d2]. cbn [fst snd].
    rewrite andb_true_iff, !Z.eqb_eq. tauto. }
  split. { intro a. apply IFF. split; reflexivity. }
  split. { intros a b. unfold is_same_month.
           destruct (date_of off a) as [[y1 m1] d1]. destruct (date_of off b) as [[y2 m2] d2].
           rewrite (Z.eqb_sym m1 m2), (Z.eqb_sym y1 y2). reflexivity. }
  split. { intros a b c H1 H2. apply IFF in H1, H2. apply IFF. destruct H1, H2. split; congruence. }
  split. { exact IFF. }
  split.
  { intros a b. rewrite IFF. unfold year_of, month_of.
    destruct (date_of off a) as [[y m] d] eqn:Ea. destruct (date_of off b) as [[y2 m2] d2] eqn:Eb.
    cbn [fst snd].
    destruct (month_bounds_cf off a y m d Ea) as [Ms [Ns [La [Hd Hm]]]].
    destruct (month_bounds_cf off b y2 m2 d2 Eb) as [_ [_ [Lb [Hd2 Hm2]]]].
    rewrite Ms, Ns. pose proof (lday_bounds off b) as Bb.
    split.
    - intros [<- <-]. unfold midnight in *. consts. lia.
    - intro H.
      assert (J : 0 <= lday off b - days_from_civil y m 1 < days_in_month y m)
        by (unfold midnight in *; consts; lia).
      set (j := lday off b - days_from_civil y m 1) in *.
      assert (V : valid_date y m (1 + j)) by (unfold valid_date; lia).
      pose proof (days_from_civil_inv y m (1 + j) V) as Inv.
      rewrite days_from_civil_day in Inv.
      replace (days_from_civil y m 1 + j) with (lday off b) in Inv by (unfold j; lia).
      unfold date_of in Eb. rewrite Inv in Eb. inversion Eb. split; reflexivity. }
  split.
  { intro a. unfold year_of, month_of, day_of, get_month_days.
    destruct (date_of off a) as [[y m] d] eqn:Ea.
    destruct (month_bounds_cf off a y m d Ea) as [Ms [Ns [La [Hd Hm]]]].
    rewrite Ms, Ns. pose proof (lday_bounds off a) as Ba.
    destruct (midnight_wall off (days_from_civil y m 1)) as [L [S N]].
    assert (V : valid_date y m 1) by (unfold valid_date; lia).
    pose proof (days_from_civil_inv y m 1 V) as Inv.
    unfold date_of. rewrite L, Inv. cbn [fst snd].
    split; [unfold midnight in *; consts; lia|].
    split; [reflexivity|].
    split; [rewrite (clock_of_sod _ _ _ S); reflexivity|].
    split; [exact N|].
    split; [reflexivity|]. split; [reflexivity|].
    assert (GM : (if negb (m =? 2)
                  then if (m =? 4) || (m =? 6) || (m =? 9) || (m =? 11) then 30 else 31
                  else if (y mod 4 =? 0) && negb (y mod 100 =? 0) || (y mod 400 =? 0) then 29 else 28)
                 = days_in_month y m).
    { unfold days_in_month, is_leap. destruct (m =? 2); reflexivity. }
    rewrite GM. unfold midnight. consts. lia. }
  intros a b H. apply same_day_iff in H. apply IFF. unfold year_of, month_of, date_of. rewrite H. split; reflexivity.
Qed.

(* ------------------------------------------------------------------ periods *)
Lemma period_normalised : forall a b,
  let p := new_period a b in
  pstart p <= pend p /\ ((pstart p = a /\ pend p = b) \/ (pstart p = b /\ pend p = a)) /\
  pstart p = Z.min a b /\ pend p = Z.max a b.
Proof.
  intros a b. cbv zeta. unfold new_period, after.
  destruct (Z.gtb_spec a b); cbn [pstart pend fst snd]; lia.
Qed.

Lemma truncate_spec : forall t d, 0 < d ->
  truncate t d <= t < truncate t d + d /\ (truncate t d - zero_time) mod d = 0.
Proof.
  intros t d Hd. unfold truncate. destruct (Z.leb_spec d 0); [lia|].
  pose proof (Z.mod_pos_bound (t - zero_time) d Hd) as B.
  split; [lia|].
  pose proof (Z.div_mod (t - zero_time) d ltac:(lia)) as E.
  set (q := (t - zero_time) / d) in *. set (r := (t - zero_time) mod d) in *.
  replace (t - r - zero_time) with (q * d) by lia.
  apply Z.mod_mul. lia.
Qed.

Lemma window_contains_anchor : forall t size, 0 < size ->
  let p := new_period_window t size in
  pstart p <= t < pend p /\ pend p - pstart p = size /\ (pstart p - zero_time) mod size = 0.
Proof.
  intros t size Hs. cbv zeta. unfold new_period_window, add. cbn [pstart pend fst snd].
  pose proof (truncate_spec t size Hs). lia.
Qed.

Lemma window_week_contains_anchor : forall off t,
  let p := new_period_window_week off t in
  pstart p <= t < pend p /\ pend p - pstart p = WEEK /\
  pstart p = get_start_of_week off t 1 /\ weekday_of off (pstart p) = 1 /\
  clock_of off (pstart p) = (0, 0, 0) /\ nsec (pstart p) = 0 /\
  weekday_of off (pend p) = 1 /\ clock_of off (pend p) = (0, 0, 0).
Proof.
  intros off t. cbv zeta. unfold new_period_window_week. cbn [pstart pend fst snd].
  rewrite add_days_cf, start_of_week_cf, week_delta_spec by lia.
  replace ((1 + 6) mod 7) with 0 by reflexivity. rewrite Z.add_0_r.
  pose proof (lday_bounds off t) as B. set (X := lday off t) in *.
  pose proof (monday_of_bounds X) as [MB MW]. set (M := monday_of X) in *.
  replace (midnight off M + 7 * DAY) with (midnight off (M + 7)) by (unfold midnight; consts; lia).
  destruct (midnight_wall off M) as [L [S N]].
  destruct (midnight_wall off (M + 7)) as [L7 [S7 _]].
  split; [unfold midnight in *; consts; lia|].
  split; [unfold midnight; consts; lia|].
  split; [reflexivity|].
  split; [unfold weekday_of; rewrite L; exact MW|].
  split; [rewrite (clock_of_sod _ _ _ S); reflexivity|].
  split; [exact N|].
  split; [unfold weekday_of; rewrite L7; unfold weekday_of_days in *; lia|].
  rewrite (clock_of_sod _ _ _ S7). reflexivity.
Qed.

Lemma period_with_ok : forall off t n,
  (let p := new_period_with_day off t n in
   pstart p = Z.min t (t + n * DAY) /\ pend p = Z.max t (t + n * DAY)) /\
  (let p := new_period_with_day_zero off t n in
   pstart p = Z.min t (midnight off (lday off t + n)) /\ pend p = Z.max t (midnight off (lday off t + n))) /\
  (forall unit, let p := new_period_with_dur unit t n in
   pstart p = Z.min t (t + n * unit) /\ pend p = Z.max t (t + n * unit)).
Proof.
  intros off t n.
  split; [|split].
  - cbv zeta. unfold new_period_with_day. rewrite add_days_cf. apply period_normalised.
  - cbv zeta. unfold new_period_with_day_zero. rewrite add_days_cf, start_of_day_cf, lday_add_days.
    apply period_normalised.
  - intro unit. cbv zeta. unfold new_period_with_dur, add. apply period_normalised.
Qed.

Lemma overlap_sym : forall p q, period_is_overlap p q = period_is_overlap q p.
Proof. intros p q. unfold period_is_overlap. apply orb_comm. Qed.

Lemma overlap_iff_interior : forall p q, pstart p < pend p -> pstart q < pend q ->
  (period_is_overlap p q = true <-> Z.max (pstart p) (pstart q) < Z.min (pend p) (pend q)).
Proof.
  intros [a b] [c d]. cbn [pstart pend fst snd]. intros Hp Hq.
  unfold period_is_overlap, period_is_between_or_equal_period, period_is_between, before, after, equal.
  cbn [pstart pend fst snd].
  rewrite !orb_true_iff, !andb_true_iff, !Z.ltb_lt, !Z.gtb_lt, !Z.eqb_eq. lia.
Qed.

(* the other predicates of period.go in terms of the order of instants *)
Lemma period_predicates : forall p t,
  (period_is_before p t = true <-> pend p < t) /\
  (period_is_after p t = true <-> t < pstart p) /\
  (period_is_between p t = true <-> pstart p < t < pend p) /\
  (period_is_ongoing p t = true <-> pstart p <= t < pend p) /\
  (period_is_between_or_equal p t = true <-> (pstart p < t < pend p \/ t = pstart p \/ t = pend p)).
Proof.
  intros [a b] t. unfold period_is_before, period_is_after, period_is_between, period_is_ongoing,
    period_is_between_or_equal, period_is_between, before, after, equal. cbn [pstart pend fst snd].
  rewrite !orb_true_iff, !andb_true_iff, !orb_true_iff, !Z.ltb_lt, !Z.gtb_lt, !Z.eqb_eq. lia.
Qed.

(* ------------------------------------------------------------------ min / max / delta *)
Lemma min_max_ok : forall a b,
  time_max a b = Z.max a b /\ time_min a b = Z.min a b /\
  smaller_first a b = (Z.min a b, Z.max a b) /\ smaller_last a b = (Z.max a b, Z.min a b) /\
  (Z.abs (a - b) <= MAXDUR -> delta a b = Z.abs (a - b)).
Proof.
  intros a b.
  assert (SUB : forall x y, MINDUR <= x - y <= MAXDUR -> sub x y = x - y).
  { intros x y HR. unfold sub.
    destruct (Z.ltb_spec (x - y) MINDUR); [lia|]. destruct (Z.gtb_spec (x - y) MAXDUR); lia. }
  unfold time_max, time_min, smaller_first, smaller_last, delta, after, before.
  destruct (Z.gtb_spec a b) as [G|G]; destruct (Z.ltb_spec a b) as [L|L]; try lia.
  - split; [lia|]. split; [lia|]. split; [f_equal; lia|]. split; [f_equal; lia|].
    intro HR. rewrite SUB by (unfold MINDUR, MAXDUR in *; lia). lia.
  - split; [lia|]. split; [lia|]. split; [f_equal; lia|]. split; [f_equal; lia|].
    intro HR. rewrite SUB by (unfold MINDUR, MAXDUR in *; lia). lia.
  - split; [lia|]. split; [lia|]. split; [f_equal; lia|]. split; [f_equal; lia|].
    intro HR. rewrite SUB by (unfold MINDUR, MAXDUR in *; lia). lia.
Qed.

Lemma delta_days_ok : forall off a b, a <= b -> (lday off b - lday off a) * DAY <= MAXDUR ->
  floor_delta_days off a off b = lday off b - lday off a /\
  floor_delta_days off b off a = lday off b - lday off a /\
  floor_delta_hours off a off b = 24 * (lday off b - lday off a) /\
  floor_delta_minutes off a off b = 1440 * (lday off b - lday off a).
Proof.
  intros off a b Hab Hmax.
  pose proof (lday_mono off a b Hab) as Hm.
  assert (S : sub (midnight off (lday off b)) (midnight off (lday off a)) = (lday off b - lday off a) * DAY).
  { unfold sub, midnight, MINDUR, MAXDUR in *. consts.
    repeat match goal with |- context [?x <? ?y] => destruct (Z.ltb_spec x y) end;
    repeat match goal with |- context [?x >? ?y] => destruct (Z.gtb_spec x y) end; lia. }
  assert (U : forall unit off1 t1 off2 t2, delta_units unit off1 t1 off2 t2 =
              let '(oa, x, ob, y) := if before t1 t2 then (off1, t1, off2, t2) else (off2, t2, off1, t1) in
              Z.quot (sub (get_start_of_day ob y) (get_start_of_day oa x)) unit) by reflexivity.
  set (k := lday off b - lday off a) in *.
  assert (Q1 : Z.quot (k * DAY) DAY = k) by (apply Z.quot_mul; consts; lia).
  assert (Q2 : Z.quot (k * DAY) HOUR = 24 * k).
  { replace (k * DAY) with (24 * k * HOUR) by (consts; lia). apply Z.quot_mul. consts; lia. }
  assert (Q3 : Z.quot (k * DAY) MINUTE = 1440 * k).
  { replace (k * DAY) with (1440 * k * MINUTE) by (consts; lia). apply Z.quot_mul. consts; lia. }
  unfold floor_delta_days, floor_delta_hours, floor_delta_minutes. rewrite !U. unfold before.
  destruct (Z.ltb_spec a b) as [Lt|Ge].
  - destruct (Z.ltb_spec b a); [lia|]. rewrite !start_of_day_cf, S. auto.
  - assert (a = b) by lia. subst b. rewrite Z.ltb_irrefl. rewrite !start_of_day_cf, S. auto.
Qed.

(* ------------------------------------------------------------------ the calendar, gathered *)
Lemma civil_calendar :
  (forall n, let '(y, m, d) := civil_from_days n in valid_date y m d /\ days_from_civil y m d = n) /\
  (forall y m d, valid_date y m d -> civil_from_days (days_from_civil y m d) = (y, m, d)) /\
  days_from_civil 1970 1 1 = 0 /\
  (forall y m d k, days_from_civil y m (d + k) = days_from_civil y m d + k) /\
  (forall y m, 1 <= m < 12 -> days_from_civil y (m + 1) 1 = days_from_civil y m (days_in_month y m) + 1) /\
  (forall y, days_from_civil (y + 1) 1 1 = days_from_civil y 12 31 + 1) /\
  weekday_of_days 0 = 4 /\
  (forall n, weekday_of_days (n + 1) = (weekday_of_days n + 1) mod 7).
Proof.
  split; [exact civil_from_days_spec|].
  split; [exact days_from_civil_inv|].
  split; [exact days_from_civil_epoch|].
  split; [exact days_from_civil_day|].
  split; [intros y m Hm; apply (days_from_civil_next_month y m); lia|].
  split; [intro y; apply (days_from_civil_next_month y 12); lia|].
  split; [reflexivity | exact weekday_succ].
Qed.
