(* MV.C19.ZoneProofs — zones as transition tables (MV.C19.ZoneModel): a table without transitions is a fixed-offset
   zone; Location.lookup is sound; the zone part of time.Date inverts the wall clock (and what it does in gaps);
   a REGULAR wall clock splits the time line (everything earlier shows less, everything later shows more), from which
   the properties of the day / week / next-moment helpers follow for every well-formed table. *)
From Coq Require Import ZArith List Bool Lia.
From MV Require Import C19.ChronoModel C19.CivilProofs C19.ChronoProofs C19.ZoneModel.
Import ListNotations.
Open Scope Z_scope.

Ltac Zify.zify_post_hook ::= Z.div_mod_to_equations.
Ltac zconsts := unfold SECOND, MINUTE, HOUR, DAY, WEEK, DAY_S, ALPHA, OMEGA in *; unfold NS in *.

(* ------------------------------------------------------------------ the offset function of a table *)
Fixpoint zoffs (off : Z) (tr : list (Z * Z)) (u : Z) : Z :=
  match tr with
  | [] => off
  | (w, o) :: rest => if u <? w then off else zoffs o rest u
  end.

Lemma zscan_off : forall tr off start u, fst (fst (zscan off start tr u)) = zoffs off tr u.
Proof.
  induction tr as [|[w o] rest IH]; intros; cbn [zscan zoffs]; [reflexivity|].
  destruct (u <? w); [reflexivity|apply IH].
Qed.

Lemma off_at_zoffs : forall z u, off_at z u = zoffs (z_first z) (z_trans z) u.
Proof. intros. unfold off_at, zlookup. apply zscan_off. Qed.

Fixpoint sorted_from (prev : Z) (tr : list (Z * Z)) : Prop :=
  match tr with
  | [] => True
  | (w, _) :: rest => prev < w /\ sorted_from w rest
  end.

(* Prop forms of the boolean well-formedness predicates *)
Fixpoint trans_ok (B D prev : Z) (tr : list (Z * Z)) : Prop :=
  match tr with
  | [] => True
  | (w, o) :: rest => prev + D < w /\ w < OMEGA /\ - B <= o <= B /\ trans_ok B D w rest
  end.
Definition trans_ok' (B D : Z) (tr : list (Z * Z)) : Prop :=
  match tr with
  | [] => True
  | (w, o) :: rest => - B <= o <= B /\ trans_ok B D w rest
  end.
Definition zone_ok (B D : Z) (z : zone) : Prop :=
  0 <= D /\ - B <= z_first z <= B /\ trans_ok' B D (z_trans z) /\ sorted_from ALPHA (z_trans z).

Lemma trans_okb_ok : forall B D tr prev, trans_okb B D prev tr = true -> trans_ok B D prev tr.
Proof.
  induction tr as [|[w o] rest IH]; intros prev H; cbn [trans_okb trans_ok] in *; [exact I|].
  repeat (apply andb_prop in H; destruct H as [H ?]).
  repeat split; try lia. apply IH. assumption.
Qed.

Lemma trans_ok_sorted : forall B D tr prev, 0 <= D -> trans_ok B D prev tr -> sorted_from prev tr.
Proof.
  induction tr as [|[w o] rest IH]; intros prev HD H; cbn [trans_ok sorted_from] in *; [exact I|].
  destruct H as (H1 & _ & _ & H4). split; [lia|]. apply IH; assumption.
Qed.

Lemma zone_okb_ok : forall B D z, zone_okb B D z = true -> zone_ok B D z.
Proof.
  intros B D z H. unfold zone_okb in H. unfold zone_ok, trans_ok'.
  destruct (z_trans z) as [|[w o] rest].
  - repeat (apply andb_prop in H; destruct H as [H ?]). cbn [sorted_from]. repeat split; try lia.
  - apply andb_prop in H. destruct H as [H M].
    repeat (apply andb_prop in H; destruct H as [H ?]).
    repeat (apply andb_prop in M; destruct M as [M ?]).
    match goal with K : trans_okb _ _ _ _ = true |- _ => apply trans_okb_ok in K; rename K into K0 end.
    cbn [sorted_from]. repeat split; try lia; try assumption.
    eapply trans_ok_sorted; [|exact K0]. lia.
Qed.

(* ------------------------------------------------------------------ (a) Location.lookup is sound *)
Lemma zscan_sound : forall tr off start u o s e, sorted_from start tr ->
  zscan off start tr u = (o, s, e) ->
  (start <= u -> s <= u) /\ start <= s /\ (u < OMEGA -> u < e) /\
  (forall v, s <= v < e -> zscan off start tr v = (o, s, e)).
Proof.
  induction tr as [|[w o1] rest IH]; intros off start u o s e HS E; cbn [zscan sorted_from] in *.
  - inversion E; subst. repeat split; try lia; try (intros; reflexivity).
  - destruct HS as [HS1 HS2]. destruct (Z.ltb_spec u w) as [L|L].
    + inversion E; subst. repeat split; try lia.
      intros v Hv. destruct (Z.ltb_spec v e); [reflexivity|lia].
    + destruct (IH _ _ _ _ _ _ HS2 E) as (A1 & A2 & A3 & A4).
      repeat split; try lia.
      intros v Hv. destruct (Z.ltb_spec v w); [lia|]. apply A4. lia.
Qed.

(* the offset returned is the one "in force": that of the last transition at or before u, the initial offset if none *)
Definition in_force (z : zone) (u o : Z) : Prop :=
  (o = z_first z /\ forall w o', In (w, o') (z_trans z) -> u < w) \/
  (exists w, In (w, o) (z_trans z) /\ w <= u /\ forall w' o', In (w', o') (z_trans z) -> w' <= u -> w' <= w).

Lemma sorted_from_lt : forall tr prev w o, sorted_from prev tr -> In (w, o) tr -> prev < w.
Proof.
  induction tr as [|[w1 o1] rest IH]; intros prev w o HS HI; cbn [sorted_from] in *; [destruct HI|].
  destruct HS as [H1 H2]. destruct HI as [HI|HI]; [inversion HI; subst; lia|].
  pose proof (IH _ _ _ H2 HI). lia.
Qed.

Lemma zoffs_in_force : forall tr off prev u, sorted_from prev tr ->
  (zoffs off tr u = off /\ forall w o', In (w, o') tr -> u < w) \/
  (exists w, In (w, zoffs off tr u) tr /\ w <= u /\ forall w' o', In (w', o') tr -> w' <= u -> w' <= w).
Proof.
  induction tr as [|[w1 o1] rest IH]; intros off prev u HS; cbn [zoffs sorted_from] in *.
  - left. split; [reflexivity|]. intros ? ? [].
  - destruct HS as [H1 H2]. destruct (Z.ltb_spec u w1) as [L|L].
    + left. split; [reflexivity|]. intros w o' [HI|HI]; [inversion HI; subst; lia|].
      pose proof (sorted_from_lt _ _ _ _ H2 HI). lia.
    + right. destruct (IH o1 w1 u H2) as [[E A]|(w & HI & Hw & A)].
      * exists w1. rewrite E. split; [left; reflexivity|]. split; [lia|].
        intros w' o' [HI|HI] Hle; [inversion HI; subst; lia|]. specialize (A _ _ HI). lia.
      * exists w. split; [right; exact HI|]. split; [exact Hw|].
        intros w' o' [HI'|HI'] Hle; [inversion HI'; subst|eauto].
        pose proof (sorted_from_lt _ _ _ _ H2 HI). lia.
Qed.

Theorem lookup_sound : forall B D z u o s e, zone_ok B D z -> ALPHA <= u < OMEGA ->
  zlookup z u = (o, s, e) ->
  in_force z u o /\ s <= u < e /\ (forall v, s <= v < e -> zlookup z v = (o, s, e)) /\ - B <= o <= B.
Proof.
  intros B D z u o s e (HD & HF & HT & HS) Hu E. unfold zlookup in *.
  destruct (zscan_sound _ _ _ _ _ _ _ HS E) as (A1 & A2 & A3 & A4).
  assert (Eo : o = zoffs (z_first z) (z_trans z) u).
  { rewrite <- zscan_off with (start := ALPHA). rewrite E. reflexivity. }
  split; [|split; [lia|split; [exact A4|]]].
  - unfold in_force. rewrite Eo. destruct (zoffs_in_force (z_trans z) (z_first z) ALPHA u HS) as [[E1 A]|A].
    + left. split; assumption.
    + right. exact A.
  - rewrite Eo. clear - HF HT. unfold trans_ok' in HT.
    assert (G : forall tr off prev, - B <= off <= B -> trans_ok B D prev tr -> - B <= zoffs off tr u <= B).
    { induction tr as [|[w1 o1] rest IH]; intros off prev Ho Ht; cbn [zoffs trans_ok] in *; [lia|].
      destruct Ht as (_ & _ & Hb & Ht). destruct (u <? w1); [lia|]. eapply IH; eassumption. }
    destruct (z_trans z) as [|[w1 o1] rest]; cbn [zoffs]; [lia|].
    destruct HT as [Hb Ht]. destruct (u <? w1); [lia|]. eapply G; eassumption.
Qed.

(* ------------------------------------------------------------------ the zone part of time.Date, closed form:
   whatever start/end the lookup reports, the result is  w - off(w - off(w))  (the second lookup is skipped only when
   its argument lies in the piece of the first, where it would return the same offset) *)
Lemma resolve_cf : forall z w, sorted_from ALPHA (z_trans z) ->
  resolve z w = w - off_at z (w - off_at z w).
Proof.
  intros z w HS.
  assert (Eo : off_at z w = fst (fst (zlookup z w))) by reflexivity.
  unfold resolve. rewrite Eo. clear Eo.
  destruct (zlookup z w) as [[o s] e] eqn:E. cbn [fst].
  destruct (Z.eqb_spec o 0) as [Z0|NZ].
  - subst o. rewrite Z.sub_0_r. unfold off_at. rewrite E. cbn [fst]. lia.
  - unfold zlookup in E. destruct (zscan_sound _ _ _ _ _ _ _ HS E) as (_ & _ & _ & A4).
    destruct (Z.ltb_spec (w - o) s) as [L1|L1]; cbn [orb]; [reflexivity|].
    destruct (Z.geb_spec (w - o) e) as [L2|L2]; [reflexivity|].
    unfold off_at, zlookup. rewrite A4 by lia. reflexivity.
Qed.

(* go_date_z in terms of the day count (valid month, nanoseconds in range) *)
Lemma go_date_z_valid : forall z y mo d h mi s ns, 1 <= mo <= 12 -> 0 <= ns < NS ->
  go_date_z z y mo d h mi s ns = resolve z (days_from_civil y mo d * DAY_S + (h * 3600 + mi * 60 + s)) * NS + ns.
Proof.
  intros. unfold go_date_z. rewrite go_date_valid by assumption.
  set (W := days_from_civil y mo d * DAY_S + (h * 3600 + mi * 60 + s)).
  replace ((W - 0) * NS + ns) with (W * NS + ns) by lia.
  replace ((W * NS + ns) / NS) with W by (zconsts; lia).
  replace ((W * NS + ns) mod NS) with ns by (zconsts; lia). reflexivity.
Qed.

(* ------------------------------------------------------------------ a table without transitions is a fixed-offset zone *)
Definition fixed_zone (off : Z) : zone := {| z_first := off; z_trans := [] |}.

Lemma off_at_fixed : forall off u, off_at (fixed_zone off) u = off.
Proof. reflexivity. Qed.
Lemma zoff_fixed : forall off t, zoff (fixed_zone off) t = off.
Proof. reflexivity. Qed.
Lemma resolve_fixed : forall off w, resolve (fixed_zone off) w = w - off.
Proof. intros. rewrite resolve_cf by exact I. rewrite !off_at_fixed. reflexivity. Qed.

Lemma go_date_z_fixed : forall off y mo d h mi s ns,
  go_date_z (fixed_zone off) y mo d h mi s ns = go_date off y mo d h mi s ns.
Proof.
  intros. unfold go_date_z. rewrite resolve_fixed. rewrite !go_date_spec.
  set (W := days_from_civil (norm_year y mo) (norm_month mo) d * DAY_S + (h * 3600 + mi * 60 + s)).
  zconsts. lia.
Qed.

Lemma z_add_date_fixed : forall off t yy mm dd, z_add_date (fixed_zone off) t yy mm dd = add_date off t yy mm dd.
Proof.
  intros. unfold z_add_date, add_date, z_date_of, z_clock_of. rewrite zoff_fixed.
  destruct (date_of off t) as [[y m] d]. destruct (clock_of off t) as [[h mi] s]. apply go_date_z_fixed.
Qed.

Lemma z_start_of_day_fixed : forall off t, z_get_start_of_day (fixed_zone off) t = get_start_of_day off t.
Proof.
  intros. unfold z_get_start_of_day, get_start_of_day, z_date_of. rewrite zoff_fixed.
  destruct (date_of off t) as [[y m] d]. apply go_date_z_fixed.
Qed.
Lemma z_end_of_day_fixed : forall off t, z_get_end_of_day (fixed_zone off) t = get_end_of_day off t.
Proof.
  intros. unfold z_get_end_of_day, get_end_of_day, z_date_of. rewrite zoff_fixed.
  destruct (date_of off t) as [[y m] d]. apply go_date_z_fixed.
Qed.
Lemma z_start_of_week_fixed : forall off t w, z_get_start_of_week (fixed_zone off) t w = get_start_of_week off t w.
Proof.
  intros. unfold z_get_start_of_week, get_start_of_week, z_weekday_of.
  rewrite z_start_of_day_fixed, zoff_fixed, z_add_date_fixed. reflexivity.
Qed.
Lemma z_relative_start_of_week_fixed : forall off t w k,
  z_get_relative_start_of_week (fixed_zone off) t w k = get_relative_start_of_week off t w k.
Proof.
  intros. unfold z_get_relative_start_of_week, get_relative_start_of_week, z_weekday_of.
  rewrite zoff_fixed, !z_add_date_fixed, z_start_of_week_fixed. reflexivity.
Qed.

Theorem zone_table_generalises_fixed_offset : forall off,
  let z := fixed_zone off in
  (forall u, zlookup z u = (off, ALPHA, OMEGA)) /\
  (forall y mo d h mi s ns, go_date_z z y mo d h mi s ns = go_date off y mo d h mi s ns) /\
  (forall t, z_date_of z t = date_of off t /\ z_clock_of z t = clock_of off t /\ z_weekday_of z t = weekday_of off t /\
             z_year_of z t = year_of off t /\ z_month_of z t = month_of off t /\ z_day_of z t = day_of off t /\
             z_hour_of z t = hour_of off t /\ z_minute_of z t = minute_of off t /\ z_second_of z t = second_of off t) /\
  (forall t yy mm dd, z_add_date z t yy mm dd = add_date off t yy mm dd) /\
  (forall t, z_get_start_of_day z t = get_start_of_day off t /\ z_get_end_of_day z t = get_end_of_day off t) /\
  (forall t n, z_get_relative_start_of_day z t n = get_relative_start_of_day off t n /\
               z_get_relative_end_of_day z t n = get_relative_end_of_day off t n) /\
  (forall t w, z_get_start_of_week z t w = get_start_of_week off t w /\ z_get_end_of_week z t w = get_end_of_week off t w) /\
  (forall t w k, z_get_relative_start_of_week z t w k = get_relative_start_of_week off t w k /\
                 z_get_relative_start_of_week_168h z t w k = get_relative_start_of_week_168h off t w k /\
                 z_get_relative_end_of_week z t w k = get_relative_end_of_week off t w k /\
                 z_get_relative_time_of_week z t w k = get_relative_time_of_week off t w k) /\
  (forall loff t h m s, z_get_next_moment (fixed_zone loff) z t h m s = get_next_moment loff off t h m s /\
                   z_get_next_moment_adddate (fixed_zone loff) z t h m s = get_next_moment_adddate loff off t h m s /\
                   z_is_moment_passed (fixed_zone loff) z t h m s = is_moment_passed loff off t h m s /\
                   z_is_moment_future (fixed_zone loff) z t h m s = is_moment_future loff off t h m s) /\
  (forall off2 t1 t2, let z2 := fixed_zone off2 in
     z_is_same_day z t1 z2 t2 = is_same_day off t1 off2 t2 /\ z_is_same_hour z t1 z2 t2 = is_same_hour off t1 off2 t2 /\
     z_is_same_minute z t1 z2 t2 = is_same_minute off t1 off2 t2 /\ z_is_same_week z t1 z2 t2 = is_same_week off t1 off2 t2 /\
     z_is_same_month z t1 z2 t2 = is_same_month off t1 off2 t2 /\ z_is_same_year z t1 z2 t2 = is_same_year off t1 off2 t2 /\
     (forall unit, z_delta_units unit z t1 z2 t2 = delta_units unit off t1 off2 t2)) /\
  (forall t, z_get_month_days z t = get_month_days off t) /\
  (forall t n, z_new_period_window_week z t = new_period_window_week off t /\
               z_new_period_window_week_168h z t = new_period_window_week_168h off t /\
               z_new_period_with_day_zero z t n = new_period_with_day_zero off t n /\
               z_new_period_with_day z t n = new_period_with_day off t n).
Proof.
  intros off z. subst z.
  split; [reflexivity|]. split; [apply go_date_z_fixed|].
  split; [intro t; repeat split; reflexivity|].
  split; [apply z_add_date_fixed|].
  split; [intro t; split; [apply z_start_of_day_fixed|apply z_end_of_day_fixed]|].
  split.
  { intros t n. unfold z_get_relative_start_of_day, z_get_relative_end_of_day, get_relative_start_of_day, get_relative_end_of_day.
    rewrite z_add_date_fixed. split; [rewrite !z_start_of_day_fixed; reflexivity|rewrite !z_end_of_day_fixed; reflexivity]. }
  split.
  { intros t w. unfold z_get_end_of_week, get_end_of_week. rewrite z_start_of_week_fixed, z_end_of_day_fixed. split; reflexivity. }
  split.
  { intros t w k. split; [apply z_relative_start_of_week_fixed|]. split.
    - unfold z_get_relative_start_of_week_168h, get_relative_start_of_week_168h, z_weekday_of.
      rewrite zoff_fixed, z_start_of_week_fixed. reflexivity.
    - unfold z_get_relative_end_of_week, get_relative_end_of_week, z_get_relative_time_of_week, get_relative_time_of_week,
        z_date_of, z_clock_of.
      rewrite z_relative_start_of_week_fixed, z_end_of_day_fixed, !zoff_fixed. split; [reflexivity|].
      destruct (date_of off _) as [[y m] d]. destruct (clock_of off t) as [[h mi] s]. apply go_date_z_fixed. }
  split.
  { intros loff t h m s.
    unfold z_get_next_moment, z_get_next_moment_adddate, z_is_moment_passed, z_is_moment_future, z_is_moment_passed,
      get_next_moment, get_next_moment_adddate, is_moment_future, is_moment_passed, z_date_of.
    rewrite zoff_fixed. destruct (date_of off t) as [[y mo] d].
    rewrite !go_date_z_fixed, z_add_date_fixed. repeat split; reflexivity. }
  split.
  { intros off2 t1 t2 z2. subst z2.
    unfold z_is_same_minute, z_is_same_hour, z_is_same_day, z_is_same_week, z_is_same_month, z_is_same_year,
      is_same_minute, is_same_hour, is_same_day, is_same_week, is_same_month, is_same_year,
      z_hour_of, z_minute_of, z_year_of, z_date_of.
    rewrite !z_start_of_day_fixed, !z_start_of_week_fixed, !zoff_fixed.
    repeat split; try reflexivity.
    intro unit. unfold z_delta_units, delta_units.
    destruct (before t1 t2); rewrite !z_start_of_day_fixed; reflexivity. }
  split; [intro t; reflexivity|].
  intros t n.
  unfold z_new_period_window_week, z_new_period_window_week_168h, z_new_period_with_day_zero, z_new_period_with_day,
    new_period_window_week, new_period_window_week_168h, new_period_with_day_zero, new_period_with_day.
  rewrite !z_start_of_week_fixed, !z_add_date_fixed, z_start_of_day_fixed. repeat split; reflexivity.
Qed.

(* ------------------------------------------------------------------ at most one transition in any window of length D *)
Lemma zoffs_bound : forall B D tr off prev u, - B <= off <= B -> trans_ok B D prev tr -> - B <= zoffs off tr u <= B.
Proof.
  induction tr as [|[w1 o1] rest IH]; intros off prev u Ho Ht; cbn [zoffs trans_ok] in *; [lia|].
  destruct Ht as (_ & _ & Hb & Ht). destruct (u <? w1); [lia|]. eapply IH; eassumption.
Qed.

Lemma zoffs_window : forall B D tr off a, 0 <= D -> - B <= off <= B -> trans_ok' B D tr ->
  exists s o o', - B <= o <= B /\ - B <= o' <= B /\
    forall v, a <= v <= a + D -> zoffs off tr v = if v <? s then o else o'.
Proof.
  induction tr as [|[w1 o1] rest IH]; intros off a HD Ho Ht.
  - exists a, off, off. repeat split; try lia. intros v _. cbn [zoffs]. destruct (v <? a); reflexivity.
  - cbn [trans_ok'] in Ht. destruct Ht as [Hb Ht].
    destruct (Z.lt_ge_cases (a + D) w1) as [C1|C1].
    + exists w1, off, o1. repeat split; try lia. intros v Hv. cbn [zoffs].
      destruct (Z.ltb_spec v w1); [reflexivity|lia].
    + destruct (Z.le_gt_cases w1 a) as [C2|C2].
      * assert (Ht' : trans_ok' B D rest).
        { destruct rest as [|[w2 o2] rest']; cbn [trans_ok' trans_ok] in *; [exact I|]. tauto. }
        destruct (IH o1 a HD Hb Ht') as (s & o & o' & B1 & B2 & A).
        exists s, o, o'. repeat split; try lia. intros v Hv. cbn [zoffs].
        destruct (Z.ltb_spec v w1); [lia|]. apply A. exact Hv.
      * exists w1, off, o1. repeat split; try lia. intros v Hv. cbn [zoffs].
        destruct (Z.ltb_spec v w1); [reflexivity|].
        destruct rest as [|[w2 o2] rest']; cbn [zoffs trans_ok] in *; [reflexivity|].
        destruct Ht as (G & _). destruct (Z.ltb_spec v w2); [reflexivity|lia].
Qed.

Lemma off_at_bound : forall B D z u, zone_ok B D z -> - B <= off_at z u <= B.
Proof.
  intros B D z u (HD & HF & HT & HS). rewrite off_at_zoffs. unfold trans_ok' in HT.
  destruct (z_trans z) as [|[w1 o1] rest]; cbn [zoffs]; [lia|].
  destruct HT as [Hb Ht]. destruct (u <? w1); [lia|]. eapply zoffs_bound; eassumption.
Qed.

Lemma off_at_window : forall B D z a, zone_ok B D z ->
  exists s o o', - B <= o <= B /\ - B <= o' <= B /\
    forall v, a <= v <= a + D -> off_at z v = if v <? s then o else o'.
Proof.
  intros B D z a (HD & HF & HT & HS).
  destruct (zoffs_window B D (z_trans z) (z_first z) a HD HF HT) as (s & o & o' & B1 & B2 & A).
  exists s, o, o'. repeat split; try lia. intros v Hv. rewrite off_at_zoffs. apply A. exact Hv.
Qed.

(* ------------------------------------------------------------------ (b) time.Date inverts the wall clock.
   Abstractly, for an offset function f bounded by B that has at most one change in every window of length D >= 2B. *)
Section DateInverts.
  Variables (f : Z -> Z) (B D : Z).
  Hypothesis HB : forall v, - B <= f v <= B.
  Hypothesis HW : forall a, exists s o o', - B <= o <= B /\ - B <= o' <= B /\
                    forall v, a <= v <= a + D -> f v = if v <? s then o else o'.
  Hypothesis HD : 2 * B <= D.

  Lemma date_exists : forall w u, u + f u = w -> let r := w - f (w - f w) in r + f r = w.
  Proof.
    intros w u Hu r. subst r.
    destruct (HW (w - B)) as (s & o & o' & B1 & B2 & A).
    pose proof (HB w) as Bw. pose proof (HB u) as Bu. pose proof (HB (w - f w)) as B1'.
    pose proof (HB (w - f (w - f w))) as Br.
    pose proof (A w ltac:(lia)) as Aw. pose proof (A u ltac:(lia)) as Au.
    pose proof (A (w - f w) ltac:(lia)) as A1. pose proof (A (w - f (w - f w)) ltac:(lia)) as Ar.
    destruct (Z.ltb_spec w s); destruct (Z.ltb_spec u s); destruct (Z.ltb_spec (w - f w) s);
      destruct (Z.ltb_spec (w - f (w - f w)) s); lia.
  Qed.

  Lemma date_gap : forall w, (forall u, u + f u <> w) ->
    let r := w - f (w - f w) in
    exists s o o', o < o' /\ s + o <= w < s + o' /\
      (forall v, w - B <= v <= w + B -> f v = if v <? s then o else o') /\
      ((s <= w - f w /\ r = w - o' /\ r < s /\ r + f r = w - (o' - o)) \/
       (w - f w < s /\ r = w - o /\ s <= r /\ r + f r = w + (o' - o))).
  Proof.
    intros w Hn r. subst r.
    destruct (HW (w - B)) as (s & o & o' & B1 & B2 & A).
    pose proof (HB w) as Bw. pose proof (HB (w - f w)) as B1'. pose proof (HB (w - f (w - f w))) as Br.
    pose proof (A w ltac:(lia)) as Aw.
    pose proof (A (w - f w) ltac:(lia)) as A1. pose proof (A (w - f (w - f w)) ltac:(lia)) as Ar.
    pose proof (A (w - o) ltac:(lia)) as Aa. pose proof (A (w - o') ltac:(lia)) as Ab.
    pose proof (Hn (w - o)) as Na. pose proof (Hn (w - o')) as Nb.
    exists s, o, o'.
    assert (G1 : s <= w - o) by (destruct (Z.ltb_spec (w - o) s); lia).
    assert (G2 : w - o' < s) by (destruct (Z.ltb_spec (w - o') s); lia).
    split; [lia|]. split; [lia|]. split; [intros v Hv; apply A; lia|].
    destruct (Z.ltb_spec w s); destruct (Z.ltb_spec (w - f w) s);
      destruct (Z.ltb_spec (w - f (w - f w)) s); lia.
  Qed.
End DateInverts.

(* ------------------------------------------------------------------ a regular wall clock splits the time line *)
Lemma zoffs_before : forall tr o s v, sorted_from s tr -> v <= s -> zoffs o tr v = o.
Proof.
  intros [|[w2 o2] rest] o s v HS Hv; cbn [zoffs sorted_from] in *; [reflexivity|].
  destruct (Z.ltb_spec v w2); [reflexivity|lia].
Qed.

Lemma split_exists : forall tr off prev w, sorted_from prev tr -> wall_regular_from off tr w = true ->
  exists u0, u0 + zoffs off tr u0 = w /\
    (forall v, v < u0 -> v + zoffs off tr v < w) /\ (forall v, u0 < v -> w < v + zoffs off tr v).
Proof.
  induction tr as [|[s o'] rest IH]; intros off prev w HS HR.
  - exists (w - off). cbn [zoffs]. repeat split; intros; lia.
  - cbn [sorted_from wall_regular_from] in *. destruct HS as [HS1 HS2].
    apply andb_prop in HR. destruct HR as [HR1 HR2].
    destruct (IH o' s w HS2 HR2) as (u0' & E' & Lo' & Hi').
    pose proof (zoffs_before rest o' s s HS2 ltac:(lia)) as Es.
    apply orb_prop in HR1. destruct HR1 as [C|C].
    + apply Z.ltb_lt in C.
      assert (U : u0' < s).
      { destruct (Z.lt_trichotomy u0' s) as [?|[?|?]]; [assumption|subst u0'; lia|].
        pose proof (Lo' s ltac:(lia)). lia. }
      exists (w - off). cbn [zoffs].
      destruct (Z.ltb_spec (w - off) s) as [L|L]; [|lia].
      split; [lia|]. split.
      * intros v Hv. destruct (Z.ltb_spec v s); lia.
      * intros v Hv. destruct (Z.ltb_spec v s); [lia|]. apply Hi'. lia.
    + apply Z.leb_le in C.
      assert (U : s <= u0').
      { destruct (Z.le_gt_cases s u0') as [?|?]; [assumption|]. pose proof (Hi' s ltac:(lia)). lia. }
      exists u0'. cbn [zoffs].
      destruct (Z.ltb_spec u0' s) as [L|L]; [lia|].
      split; [exact E'|]. split.
      * intros v Hv. destruct (Z.ltb_spec v s); [lia|]. apply Lo'. exact Hv.
      * intros v Hv. destruct (Z.ltb_spec v s); [lia|]. apply Hi'. exact Hv.
Qed.

(* the instant that time.Date returns for a regular wall clock: THE instant that shows it; earlier instants show
   less, later instants show more *)
Theorem resolve_regular : forall B D z w, zone_ok B D z -> 2 * B <= D -> wall_regular z w = true ->
  let r := resolve z w in
  wall z r = w /\ (forall v, v < r -> wall z v < w) /\ (forall v, r < v -> w < wall z v).
Proof.
  intros B D z w HZ HD HR r.
  pose proof HZ as (HD0 & HF & HT & HS).
  destruct (split_exists (z_trans z) (z_first z) ALPHA w HS HR) as (u0 & E & Lo & Hi).
  assert (R : r = u0).
  { subst r. rewrite resolve_cf by exact HS.
    pose proof (date_exists (off_at z) B D (fun v => off_at_bound B D z v HZ) (fun a => off_at_window B D z a HZ) HD
                  w u0 ltac:(rewrite off_at_zoffs; exact E)) as G. cbv zeta in G.
    set (r := w - off_at z (w - off_at z w)) in *. rewrite off_at_zoffs in G.
    destruct (Z.lt_trichotomy r u0) as [L|[L|L]]; [pose proof (Lo r L); lia|exact L|pose proof (Hi r L); lia]. }
  rewrite R. unfold wall. rewrite off_at_zoffs. split; [exact E|].
  split; intros v Hv; rewrite off_at_zoffs; [apply Lo|apply Hi]; exact Hv.
Qed.

Corollary regular_order : forall B D z w, zone_ok B D z -> 2 * B <= D -> wall_regular z w = true ->
  forall v, (w <= wall z v <-> resolve z w <= v) /\ (wall z v <= w <-> v <= resolve z w) /\
            (wall z v = w <-> v = resolve z w).
Proof.
  intros B D z w HZ HD HR v. destruct (resolve_regular B D z w HZ HD HR) as (E & Lo & Hi).
  set (r := resolve z w) in *.
  destruct (Z.lt_trichotomy v r) as [L|[L|L]].
  - pose proof (Lo v L). lia.
  - subst v. lia.
  - pose proof (Hi v L). lia.
Qed.

(* ------------------------------------------------------------------ reading the wall clock in a table zone *)
Lemma z_wall_split : forall z t,
  wall z (unix t) = z_lday z t * DAY_S + z_sod z t /\ 0 <= z_sod z t < DAY_S.
Proof. intros. unfold wall, z_lday, z_sod, zoff. apply lsec_split. Qed.

Lemma inst_unix : forall u n, 0 <= n < NS -> unix (u * NS + n) = u /\ nsec (u * NS + n) = n.
Proof. intros. unfold unix, nsec. zconsts. lia. Qed.

Lemma inst_le : forall u x, u * NS <= x <-> u <= unix x.
Proof. intros. unfold unix. zconsts. lia. Qed.
Lemma inst_lt : forall u x, x < (u + 1) * NS <-> unix x <= u.
Proof. intros. unfold unix. zconsts. lia. Qed.

Lemma z_date_of_lday : forall z a b, z_lday z a = z_lday z b <-> z_date_of z a = z_date_of z b.
Proof.
  intros. unfold z_date_of, date_of. fold (z_lday z a). fold (z_lday z b).
  split; [intros ->; reflexivity|]. intro E.
  pose proof (civil_from_days_spec (z_lday z a)) as Ha. pose proof (civil_from_days_spec (z_lday z b)) as Hb.
  rewrite E in Ha. destruct (civil_from_days (z_lday z b)) as [[y m] d]. lia.
Qed.

(* closed forms that need no hypothesis on the table *)
Lemma z_start_of_day_cf : forall z t, z_get_start_of_day z t = z_midnight z (z_lday z t).
Proof.
  intros. unfold z_get_start_of_day, z_midnight, z_date_of, z_lday.
  destruct (date_of (zoff z t) t) as [[y m] d] eqn:E. apply date_of_spec in E. destruct E as [[Hm _] Hn].
  rewrite go_date_z_valid by (zconsts; lia). rewrite Hn.
  replace (lday (zoff z t) t * DAY_S + (0 * 3600 + 0 * 60 + 0)) with (lday (zoff z t) t * DAY_S) by lia. lia.
Qed.

Lemma z_end_of_day_cf : forall z t, z_get_end_of_day z t = z_wall_inst z (z_lday z t) 86399.
Proof.
  intros. unfold z_get_end_of_day, z_wall_inst, z_date_of, z_lday.
  destruct (date_of (zoff z t) t) as [[y m] d] eqn:E. apply date_of_spec in E. destruct E as [[Hm _] Hn].
  rewrite go_date_z_valid by (zconsts; lia). rewrite Hn.
  replace (23 * 3600 + 59 * 60 + 59) with 86399 by lia. lia.
Qed.

(* AddDate(0,0,k): the same wall clock k civil days later (whatever package time resolves it to) *)
Lemma z_add_days_cf : forall z t k,
  z_add_date z t 0 0 k = z_wall_inst z (z_lday z t + k) (z_sod z t) + nsec t.
Proof.
  intros. unfold z_add_date, z_wall_inst, z_date_of, z_clock_of, z_lday, z_sod.
  destruct (date_of (zoff z t) t) as [[y m] d] eqn:E. apply date_of_spec in E. destruct E as [[Hm _] Hn].
  destruct (clock_of (zoff z t) t) as [[h mi] s] eqn:C. apply clock_of_spec in C. destruct C as [C _].
  rewrite !Z.add_0_r. pose proof (t_split t) as [_ Hns].
  rewrite go_date_z_valid by lia. rewrite days_from_civil_day, Hn, C. reflexivity.
Qed.

Lemma z_midnight_wall_inst : forall z X, z_midnight z X = z_wall_inst z X 0.
Proof. intros. unfold z_midnight, z_wall_inst. rewrite Z.add_0_r. reflexivity. Qed.

(* the instant of a regular wall clock (second c of local day X): reads back X and c, and is the boundary between the
   instants showing less and those showing at least that wall clock *)
Lemma wall_inst_reads : forall B D z X c, zone_ok B D z -> 2 * B <= D -> 0 <= c < DAY_S ->
  wall_regular z (X * DAY_S + c) = true ->
  let r := z_wall_inst z X c in
  z_lday z r = X /\ z_sod z r = c /\ nsec r = 0 /\
  (forall x, r <= x <-> X * DAY_S + c <= wall z (unix x)) /\
  (forall x, x < r + SECOND <-> wall z (unix x) <= X * DAY_S + c) /\
  (forall x, wall z (unix x) = X * DAY_S + c -> nsec x = 0 -> x = r).
Proof.
  intros B D z X c HZ HD Hc HR r. subst r. unfold z_wall_inst.
  pose proof (regular_order B D z _ HZ HD HR) as O.
  destruct (resolve_regular B D z _ HZ HD HR) as (E & _ & _).
  set (u := resolve z (X * DAY_S + c)) in *.
  destruct (inst_unix u 0 ltac:(zconsts; lia)) as [U N]. rewrite Z.add_0_r in U, N.
  pose proof (z_wall_split z (u * NS)) as [S1 S2]. rewrite U in S1. rewrite E in S1.
  assert (L : z_lday z (u * NS) = X) by (zconsts; lia).
  split; [exact L|]. split; [zconsts; lia|]. split; [exact N|].
  split; [|split].
  - intro x. rewrite inst_le. destruct (O (unix x)) as (O1 & _ & _). tauto.
  - intro x. replace (u * NS + SECOND) with ((u + 1) * NS) by (zconsts; lia). rewrite inst_lt.
    destruct (O (unix x)) as (_ & O2 & _). tauto.
  - intros x Hx Nx. destruct (O (unix x)) as (_ & _ & O3). apply O3 in Hx.
    pose proof (t_split x) as [Sx _]. rewrite Sx, Hx, Nx. subst u. lia.
Qed.

Lemma z_clock_of_sod : forall z t r, z_sod z t = r -> z_clock_of z t = (r / 3600, r mod 3600 / 60, r mod 60).
Proof. intros z t r <-. reflexivity. Qed.

Lemma lday_order : forall z x X,
  (X * DAY_S <= wall z (unix x) <-> X <= z_lday z x) /\ (wall z (unix x) <= X * DAY_S + 86399 <-> z_lday z x <= X).
Proof. intros. pose proof (z_wall_split z x). zconsts. lia. Qed.

(* ------------------------------------------------------------------ (c) start / end of day *)
Theorem dst_start_of_day : forall B D z t, zone_ok B D z -> 2 * B <= D ->
  midnight_regular z (z_lday z t) = true ->
  let r := z_get_start_of_day z t in
  z_date_of z r = z_date_of z t /\ z_clock_of z r = (0, 0, 0) /\ nsec r = 0 /\ r <= t /\
  (forall x, r <= x <-> z_lday z t <= z_lday z x) /\
  t - r = (z_sod z t + (zoff z r - zoff z t)) * NS + nsec t /\
  t - r < DAY + 2 * B * NS.
Proof.
  intros B D z t HZ HD HR r. subst r. rewrite z_start_of_day_cf, z_midnight_wall_inst.
  unfold midnight_regular in HR. set (X := z_lday z t) in *.
  replace (X * DAY_S) with (X * DAY_S + 0) in HR by lia.
  destruct (wall_inst_reads B D z X 0 HZ HD ltac:(zconsts; lia) HR) as (L & S & N & O1 & _ & _).
  set (r := z_wall_inst z X 0) in *.
  assert (Ox : forall x, r <= x <-> X <= z_lday z x).
  { intro x. rewrite O1. rewrite Z.add_0_r. apply lday_order. }
  split; [apply z_date_of_lday; exact L|]. split; [rewrite (z_clock_of_sod z r 0 S); reflexivity|].
  split; [exact N|]. split; [apply Ox; subst X; lia|]. split; [exact Ox|].
  pose proof (z_wall_split z t) as [W1 W2]. pose proof (z_wall_split z r) as [W3 _].
  rewrite L, S in W3. fold X in W1. unfold wall in W1, W3. fold (zoff z t) in W1. fold (zoff z r) in W3.
  pose proof (t_split t) as [T1 T2]. pose proof (t_split r) as [T3 _]. rewrite N in T3.
  pose proof (off_at_bound B D z (unix t) HZ) as B1. pose proof (off_at_bound B D z (unix r) HZ) as B2.
  fold (zoff z t) in B1. fold (zoff z r) in B2.
  split; zconsts; lia.
Qed.

Theorem dst_end_of_day : forall B D z t, zone_ok B D z -> 2 * B <= D ->
  wall_regular z (z_lday z t * DAY_S + 86399) = true ->
  let e := z_get_end_of_day z t in
  z_date_of z e = z_date_of z t /\ z_clock_of z e = (23, 59, 59) /\ nsec e = 0 /\ t < e + SECOND /\
  (forall x, x < e + SECOND <-> z_lday z x <= z_lday z t) /\
  e + SECOND - t = (DAY_S - z_sod z t + (zoff z t - zoff z e)) * NS - nsec t /\
  e + SECOND - t <= DAY + 2 * B * NS.
Proof.
  intros B D z t HZ HD HR e. subst e. rewrite z_end_of_day_cf.
  set (X := z_lday z t) in *.
  destruct (wall_inst_reads B D z X 86399 HZ HD ltac:(zconsts; lia) HR) as (L & S & N & _ & O2 & _).
  set (e := z_wall_inst z X 86399) in *.
  assert (Ox : forall x, x < e + SECOND <-> z_lday z x <= X).
  { intro x. rewrite O2. apply lday_order. }
  split; [apply z_date_of_lday; exact L|]. split; [rewrite (z_clock_of_sod z e 86399 S); reflexivity|].
  split; [exact N|]. split; [apply Ox; subst X; lia|]. split; [exact Ox|].
  pose proof (z_wall_split z t) as [W1 W2]. pose proof (z_wall_split z e) as [W3 _].
  rewrite L, S in W3. fold X in W1. unfold wall in W1, W3. fold (zoff z t) in W1. fold (zoff z e) in W3.
  pose proof (t_split t) as [T1 T2]. pose proof (t_split e) as [T3 _]. rewrite N in T3.
  pose proof (off_at_bound B D z (unix t) HZ) as B1. pose proof (off_at_bound B D z (unix e) HZ) as B2.
  fold (zoff z t) in B1. fold (zoff z e) in B2.
  split; zconsts; lia.
Qed.

(* ------------------------------------------------------------------ (b) assembled *)
Theorem date_inverts_wall_clock : forall B D z w, zone_okb B D z = true -> 2 * B <= D ->
  let r := resolve z w in
  (forall y mo d h mi s ns, 1 <= mo <= 12 -> 0 <= ns < NS ->
     go_date_z z y mo d h mi s ns = resolve z (days_from_civil y mo d * DAY_S + (h * 3600 + mi * 60 + s)) * NS + ns) /\
  r = w - off_at z (w - off_at z w) /\
  (forall u, wall z u = w -> wall z r = w /\ (r = u <-> off_at z (w - off_at z w) = off_at z u)) /\
  (wall_regular z w = true ->
     wall z r = w /\ (forall v, v < r -> wall z v < w) /\ (forall v, r < v -> w < wall z v)) /\
  ((forall u, wall z u <> w) ->
     exists s o o', o < o' /\ s + o <= w < s + o' /\
       (forall v, w - B <= v <= w + B -> off_at z v = if v <? s then o else o') /\
       ((s <= w - off_at z w /\ r = w - o' /\ r < s /\ wall z r = w - (o' - o)) \/
        (w - off_at z w < s /\ r = w - o /\ s <= r /\ wall z r = w + (o' - o)))).
Proof.
  intros B D z w Hb HD r. pose proof (zone_okb_ok B D z Hb) as HZ. pose proof HZ as (_ & _ & _ & HS).
  assert (R : r = w - off_at z (w - off_at z w)) by (subst r; apply resolve_cf; exact HS).
  split; [intros; apply go_date_z_valid; assumption|]. split; [exact R|].
  split; [|split].
  - intros u Hu. unfold wall in *.
    pose proof (date_exists (off_at z) B D (fun v => off_at_bound B D z v HZ) (fun a => off_at_window B D z a HZ) HD w u Hu) as G.
    cbv zeta in G. rewrite <- R in G. split; [exact G|]. rewrite R. lia.
  - intro HR. exact (resolve_regular B D z w HZ HD HR).
  - intro Hn. unfold wall in *.
    destruct (date_gap (off_at z) B D (fun v => off_at_bound B D z v HZ) (fun a => off_at_window B D z a HZ) HD w Hn)
      as (s & o & o' & G1 & G2 & G3 & G4).
    rewrite <- R in G4. exists s, o, o'. tauto.
Qed.

(* ------------------------------------------------------------------ (g) the code as written fails on the New_York table *)
Lemma relative_week_168h_refuted :
  exists z t w k, zone_okb 64800 129600 z = true /\ 0 <= w <= 6 /\
    z_date_of z (z_get_relative_start_of_week_168h z t w k) = (2024, 2, 27) /\
    z_date_of z (z_get_relative_start_of_week z t w k) = (2024, 3, 5) /\
    z_weekday_of z (z_get_relative_start_of_week z t w k) = w /\ z_get_relative_start_of_week z t w k <= t /\
    z_get_relative_start_of_week_168h z t w k < z_get_relative_start_of_week z t w k.
Proof.
  exists ny_table, (1710131400 * NS), 2, 0. vm_compute. repeat split; try reflexivity; discriminate.
Qed.

Lemma week_window_168h_refuted :
  exists z t, zone_okb 64800 129600 z = true /\
    ~ (pstart (z_new_period_window_week_168h z t) <= t < pend (z_new_period_window_week_168h z t)) /\
    pstart (z_new_period_window_week z t) <= t < pend (z_new_period_window_week z t).
Proof.
  exists ny_table, (1730694600 * NS). split; [vm_compute; reflexivity|]. split.
  - intros [_ H]. vm_compute in H. discriminate.
  - vm_compute. split; [discriminate|reflexivity].
Qed.

Lemma next_moment_adddate_refuted :
  exists z t h m s, zone_okb 64800 129600 z = true /\ 0 <= h < 24 /\ 0 <= m < 60 /\ 0 <= s < 60 /\
    z_clock_of z (z_get_next_moment_adddate z z t h m s) = (1, 30, 0) /\
    z_clock_of z (z_get_next_moment z z t h m s) = (h, m, s) /\
    z_date_of z (z_get_next_moment z z t h m s) = z_date_of z (z_get_next_moment_adddate z z t h m s).
Proof.
  exists ny_table, (1710057600 * NS), 2, 30, 0. vm_compute. repeat split; try reflexivity; discriminate.
Qed.
