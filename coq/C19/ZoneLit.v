(* MV.C19.ZoneLit — decoder of the transition tables printed by the harness into the generated case files.
   A table entry is written as two primitive-integer literals (elaborating a binary Z literal costs ~20 us per bit):
   the transition time biased by 2^40 and the offset biased by 2^20.  Used by generated shards only; no theorem
   depends on it. *)
From Coq Require Import ZArith List.
From Coq Require Export Uint63.
From MV Require Import C19.ZoneModel.
Import ListNotations.
Open Scope Z_scope.

Definition zl_when (x : int) : Z := Uint63.to_Z x - 1099511627776.
Definition zl_off (x : int) : Z := Uint63.to_Z x - 1048576.
Definition zone_of_lits (first : int) (tr : list (int * int)) : zone :=
  {| z_first := zl_off first; z_trans := map (fun p => (zl_when (fst p), zl_off (snd p))) tr |}.
