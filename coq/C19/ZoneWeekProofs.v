(* MV.C19.ZoneWeekProofs — the week / relative-week / week-window / next-moment / same-day helpers of
   toolkit/chrono over TRANSITION TABLES (MV.C19.ZoneModel), from the ingredients of MV.C19.ZoneProofs:
   z_add_days_cf (AddDate(0,0,k) = the same wall clock k civil days later), wall_inst_reads (a regular wall clock
   reads back and is an exact boundary of the time line).  Every hypothesis is a decidable predicate on the table. *)
From Coq Require Import ZArith List Bool Lia ZifyBool.
From MV Require Import C19.ChronoModel C19.CivilProofs C19.ChronoProofs C19.ZoneModel C19.ZoneProofs.
Import ListNotations.
Open Scope Z_scope.

Ltac Zify.zify_post_hook ::= Z.div_mod_to_equations.

(* ------------------------------------------------------------------ reading a regular wall clock *)
Lemma z_weekday_lday : forall z t, z_weekday_of z t = weekday_of_days (z_lday z t).
Proof. reflexivity. Qed.

(* local midnight of day X, when regular: reads back, is THE boundary of day X *)
Lemma midnight_reads : forall B D z X, zone_ok B D z -> 2 * B <= D -> midnight_regular z X = true ->
  let r := z_midnight z X in
  z_lday z r = X /\ z_sod z r = 0 /\ nsec r = 0 /\
  (forall x, r <= x <-> X <= z_lday z x) /\
  (forall x, z_lday z x = X -> z_sod z x = 0 -> nsec x = 0 -> x = r).
Proof.
  intros B D z X HZ HD HR r. subst r. rewrite z_midnight_wall_inst.
  unfold midnight_regular in HR. replace (X * DAY_S) with (X * DAY_S + 0) in HR by lia.
  destruct (wall_inst_reads B D z X 0 HZ HD ltac:(zconsts; lia) HR) as (L & S & N & O1 & _ & U).
  split; [exact L|]. split; [exact S|]. split; [exact N|]. split.
  - intro x. rewrite O1, Z.add_0_r. apply lday_order.
  - intros x Lx Sx Nx. apply U; [|exact Nx]. pose proof (z_wall_split z x) as [W _]. rewrite W, Lx, Sx. reflexivity.
Qed.

(* the instant of a regular wall clock (day X, second c): reads back, boundary in terms of (day, second) *)
Lemma clock_reads : forall B D z X c, zone_ok B D z -> 2 * B <= D -> 0 <= c < DAY_S ->
  wall_regular z (X * DAY_S + c) = true ->
  let r := z_wall_inst z X c in
  z_lday z r = X /\ z_sod z r = c /\ nsec r = 0 /\
  (forall x, r <= x <-> X * DAY_S + c <= z_lday z x * DAY_S + z_sod z x) /\
  (forall x, z_lday z x = X -> z_sod z x = c -> nsec x = 0 -> x = r).
Proof.
  intros B D z X c HZ HD Hc HR r. subst r.
  destruct (wall_inst_reads B D z X c HZ HD Hc HR) as (L & S & N & O1 & _ & U).
  split; [exact L|]. split; [exact S|]. split; [exact N|]. split.
  - intro x. rewrite O1. pose proof (z_wall_split z x) as [W _]. rewrite W. reflexivity.
  - intros x Lx Sx Nx. apply U; [|exact Nx]. pose proof (z_wall_split z x) as [W _]. rewrite W, Lx, Sx. reflexivity.
Qed.

(* distance between two instants from their wall clocks and offsets *)
Lemma inst_diff : forall z a b,
  a - b = ((z_lday z a - z_lday z b) * DAY_S + (z_sod z a - z_sod z b) - (zoff z a - zoff z b)) * NS + (nsec a - nsec b).
Proof.
  intros. pose proof (z_wall_split z a) as [Wa _]. pose proof (z_wall_split z b) as [Wb _].
  unfold wall in Wa, Wb. fold (zoff z a) in Wa. fold (zoff z b) in Wb.
  pose proof (t_split a) as [Ta _]. pose proof (t_split b) as [Tb _]. zconsts. lia.
Qed.

Lemma zoff_bound : forall B D z t, zone_ok B D z -> - B <= zoff z t <= B.
Proof. intros. unfold zoff. eapply off_at_bound; eassumption. Qed.

(* ------------------------------------------------------------------ (1) same day / week / month *)
Lemma z_start_of_week_of_day : forall z a b w, z_get_start_of_day z a = z_get_start_of_day z b ->
  z_get_start_of_week z a w = z_get_start_of_week z b w.
Proof. intros z a b w E. unfold z_get_start_of_week. rewrite E. reflexivity. Qed.

Lemma z_same_day_iff_regular : forall B D z a b, zone_ok B D z -> 2 * B <= D ->
  midnight_regular z (z_lday z a) = true -> midnight_regular z (z_lday z b) = true ->
  (z_is_same_day z a z b = true <-> z_lday z a = z_lday z b).
Proof.
  intros B D z a b HZ HD Ha Hb. unfold z_is_same_day, equal. rewrite Z.eqb_eq, !z_start_of_day_cf.
  destruct (midnight_reads B D z _ HZ HD Ha) as (La & _). destruct (midnight_reads B D z _ HZ HD Hb) as (Lb & _).
  split; [|intros ->; reflexivity]. intro E. rewrite E in La. congruence.
Qed.

Lemma z_day_interval : forall B D z a, zone_ok B D z -> 2 * B <= D ->
  midnight_regular z (z_lday z a) = true -> midnight_regular z (z_lday z a + 1) = true ->
  let s := z_get_start_of_day z a in
  let e := z_midnight z (z_lday z a + 1) in
  (forall b, z_lday z a = z_lday z b <-> s <= b < e) /\
  e - s = (DAY_S - (zoff z e - zoff z s)) * NS /\ DAY - 2 * B * NS <= e - s <= DAY + 2 * B * NS.
Proof.
  intros B D z a HZ HD Ha Hn s e. subst s e. rewrite z_start_of_day_cf. set (X := z_lday z a) in *.
  destruct (midnight_reads B D z _ HZ HD Ha) as (Ls & Ss & Ns & Os & _).
  destruct (midnight_reads B D z _ HZ HD Hn) as (Le & Se & Ne & Oe & _).
  set (s := z_midnight z X) in *. set (e := z_midnight z (X + 1)) in *.
  split.
  - intro b. pose proof (Os b). pose proof (Oe b). lia.
  - pose proof (inst_diff z e s) as Df. rewrite Ls, Le, Ss, Se, Ns, Ne in Df.
    pose proof (zoff_bound B D z e HZ). pose proof (zoff_bound B D z s HZ).
    split; zconsts; lia.
Qed.

Theorem dst_same_day_ok : forall z,
  (* equivalence relations, for EVERY table *)
  ((forall a, z_is_same_day z a z a = true) /\
   (forall a b, z_is_same_day z a z b = z_is_same_day z b z a) /\
   (forall a b c, z_is_same_day z a z b = true -> z_is_same_day z b z c = true -> z_is_same_day z a z c = true)) /\
  ((forall a, z_is_same_week z a z a = true) /\
   (forall a b, z_is_same_week z a z b = z_is_same_week z b z a) /\
   (forall a b c, z_is_same_week z a z b = true -> z_is_same_week z b z c = true -> z_is_same_week z a z c = true)) /\
  ((forall a, z_is_same_month z a z a = true) /\
   (forall a b, z_is_same_month z a z b = z_is_same_month z b z a) /\
   (forall a b c, z_is_same_month z a z b = true -> z_is_same_month z b z c = true -> z_is_same_month z a z c = true)) /\
  (forall a b, z_is_same_day z a z b = true <-> z_get_start_of_day z a = z_get_start_of_day z b) /\
  (forall a b, z_date_of z a = z_date_of z b -> z_is_same_day z a z b = true) /\
  (forall a b, z_is_same_day z a z b = true -> z_is_same_week z a z b = true) /\
  (forall a b, z_is_same_month z a z b = true <-> z_year_of z a = z_year_of z b /\ z_month_of z a = z_month_of z b) /\
  (forall a b, z_date_of z a = z_date_of z b -> z_is_same_month z a z b = true) /\
  (* with regular midnights: same day = equal civil dates = b inside [start of a's day, start of the next day) *)
  (forall B D, zone_okb B D z = true -> 2 * B <= D ->
     (forall a b, midnight_regular z (z_lday z a) = true -> midnight_regular z (z_lday z b) = true ->
        (z_is_same_day z a z b = true <-> z_date_of z a = z_date_of z b)) /\
     (forall a, midnight_regular z (z_lday z a) = true -> midnight_regular z (z_lday z a + 1) = true ->
        let s := z_get_start_of_day z a in
        let e := z_midnight z (z_lday z a + 1) in
        (forall b, z_date_of z a = z_date_of z b <-> s <= b < e) /\
        (forall b, midnight_regular z (z_lday z b) = true -> (z_is_same_day z a z b = true <-> s <= b < e)) /\
        e - s = (DAY_S - (zoff z e - zoff z s)) * NS /\ DAY - 2 * B * NS <= e - s <= DAY + 2 * B * NS)).
Proof.
  intro z.
  assert (EQ : forall f : Z -> Z,
     (forall a, equal (f a) (f a) = true) /\ (forall a b, equal (f a) (f b) = equal (f b) (f a)) /\
     (forall a b c, equal (f a) (f b) = true -> equal (f b) (f c) = true -> equal (f a) (f c) = true)).
  { intro f. unfold equal. split; [intro; apply Z.eqb_refl|]. split; [intros; apply Z.eqb_sym|].
    intros a b c H1 H2. apply Z.eqb_eq in H1, H2. apply Z.eqb_eq. congruence. }
  assert (SM : forall a b, z_is_same_month z a z b = true <-> z_year_of z a = z_year_of z b /\ z_month_of z a = z_month_of z b).
  { intros a b. unfold z_is_same_month, z_year_of, z_month_of, year_of, month_of, z_date_of.
    destruct (date_of (zoff z a) a) as [[y1 m1] d1]. destruct (date_of (zoff z b) b) as [[y2 m2] d2]. cbn [fst snd]. lia. }
  split; [exact (EQ (z_get_start_of_day z))|].
  split; [exact (EQ (fun t => z_get_start_of_week z t 1))|].
  split.
  { split; [intro a; apply SM; split; reflexivity|]. split.
    - intros a b. destruct (z_is_same_month z a z b) eqn:E1; destruct (z_is_same_month z b z a) eqn:E2; try reflexivity.
      + apply SM in E1. assert (E3 : z_is_same_month z b z a = true) by (apply SM; lia). congruence.
      + apply SM in E2. assert (E3 : z_is_same_month z a z b = true) by (apply SM; lia). congruence.
    - intros a b c H1 H2. apply SM in H1, H2. apply SM. lia. }
  split; [intros a b; unfold z_is_same_day, equal; apply Z.eqb_eq|].
  split; [intros a b E; unfold z_is_same_day, z_get_start_of_day, equal; rewrite E; apply Z.eqb_refl|].
  split.
  { intros a b E. unfold z_is_same_day, equal in E. apply Z.eqb_eq in E.
    unfold z_is_same_week, equal. rewrite (z_start_of_week_of_day z a b 1 E). apply Z.eqb_refl. }
  split; [exact SM|].
  split; [intros a b E; apply SM; unfold z_year_of, z_month_of, year_of, month_of; fold (z_date_of z a); fold (z_date_of z b);
          rewrite E; split; reflexivity|].
  intros B D Hb HD. pose proof (zone_okb_ok B D z Hb) as HZ.
  split.
  { intros a b Ha Hb'. rewrite <- z_date_of_lday. apply (z_same_day_iff_regular B D z a b HZ HD Ha Hb'). }
  intros a Ha Hn.
  destruct (z_day_interval B D z a HZ HD Ha Hn) as (I1 & I2 & I3). cbv zeta.
  split; [intro b; rewrite <- z_date_of_lday; apply I1|].
  split; [|split; [exact I2|exact I3]].
  intros b Hb'. rewrite (z_same_day_iff_regular B D z a b HZ HD Ha Hb'). apply I1.
Qed.

(* ------------------------------------------------------------------ (2) start / end of week *)
(* the civil day GetStartOfWeek aims at: weekday w of the Monday-based week of day X *)
Definition week_day (X w : Z) : Z := monday_of X + (w + 6) mod 7.

(* closed form: once today's midnight is regular the result is time.Date(midnight of the target day) *)
Lemma z_start_of_week_cf : forall B D z t w, zone_ok B D z -> 2 * B <= D -> 0 <= w <= 6 ->
  midnight_regular z (z_lday z t) = true ->
  z_get_start_of_week z t w = z_midnight z (week_day (z_lday z t) w).
Proof.
  intros B D z t w HZ HD Hw HR. unfold z_get_start_of_week. rewrite z_add_days_cf, z_start_of_day_cf.
  destruct (midnight_reads B D z _ HZ HD HR) as (L & S & N & _).
  rewrite z_weekday_lday, L, S, N, Z.add_0_r, z_midnight_wall_inst. f_equal.
  unfold week_day. rewrite <- (week_delta_spec (z_lday z t) w Hw). unfold week_delta.
  destruct (weekday_of_days (z_lday z t) =? 0); destruct (w =? 0); lia.
Qed.

Lemma week_day_spec : forall X w, 0 <= w <= 6 ->
  weekday_of_days (week_day X w) = w /\ monday_of X <= week_day X w < monday_of X + 7 /\
  monday_of (week_day X w) = monday_of X /\ week_day X 1 = monday_of X /\ -7 < week_day X w - X < 7.
Proof. intros X w Hw. unfold week_day, monday_of, weekday_of_days. lia. Qed.

Theorem dst_start_of_week : forall B D z t w, zone_ok B D z -> 2 * B <= D -> 0 <= w <= 6 ->
  midnight_regular z (z_lday z t) = true ->
  midnight_regular z (week_day (z_lday z t) w) = true ->
  let r := z_get_start_of_week z t w in
  z_lday z r = week_day (z_lday z t) w /\
  z_weekday_of z r = w /\ z_clock_of z r = (0, 0, 0) /\ nsec r = 0 /\
  (forall x, r <= x <-> week_day (z_lday z t) w <= z_lday z x) /\
  (r <= t <-> week_day (z_lday z t) w <= z_lday z t) /\
  r - t = ((week_day (z_lday z t) w - z_lday z t) * DAY_S - z_sod z t - (zoff z r - zoff z t)) * NS - nsec t /\
  - (WEEK + 2 * B * NS) < r - t < WEEK + 2 * B * NS /\
  (midnight_regular z (monday_of (z_lday z t)) = true ->
     let mon := z_get_start_of_week z t 1 in
     z_lday z mon = monday_of (z_lday z t) /\ z_weekday_of z mon = 1 /\ z_clock_of z mon = (0, 0, 0) /\ nsec mon = 0 /\
     mon <= t /\ t - mon < WEEK + 2 * B * NS /\ mon <= r /\
     r - mon = (((w + 6) mod 7) * DAY_S - (zoff z r - zoff z mon)) * NS /\ r - mon < WEEK + 2 * B * NS /\
     z_get_start_of_week z r 1 = mon) /\
  (wall_regular z (week_day (z_lday z t) w * DAY_S + 86399) = true ->
     let e := z_get_end_of_week z t w in
     z_lday z e = week_day (z_lday z t) w /\ z_weekday_of z e = w /\ z_clock_of z e = (23, 59, 59) /\ nsec e = 0 /\
     e + SECOND - r = (DAY_S - (zoff z e - zoff z r)) * NS /\
     (forall x, r <= x < e + SECOND <-> z_lday z x = week_day (z_lday z t) w)).
Proof.
  intros B D z t w HZ HD Hw HX HR r. subst r.
  assert (CF : forall v, 0 <= v <= 6 -> z_get_start_of_week z t v = z_midnight z (week_day (z_lday z t) v)).
  { intros v Hv. apply (z_start_of_week_cf B D z t v HZ HD Hv HX). }
  rewrite (CF w Hw). set (X := z_lday z t) in *.
  destruct (week_day_spec X w Hw) as (WD & WB & WM & W1 & WR). set (Y := week_day X w) in *.
  destruct (midnight_reads B D z Y HZ HD HR) as (L & S & N & O & _). set (r := z_midnight z Y) in *.
  pose proof (inst_diff z r t) as Df. rewrite L, S, N in Df. fold X in Df.
  pose proof (z_wall_split z t) as [_ St]. pose proof (t_split t) as [_ Nt].
  pose proof (zoff_bound B D z r HZ) as Br. pose proof (zoff_bound B D z t HZ) as Bt.
  split; [exact L|]. split; [rewrite z_weekday_lday, L; exact WD|].
  split; [rewrite (z_clock_of_sod z r 0 S); reflexivity|]. split; [exact N|]. split; [exact O|].
  split; [apply O|]. split; [rewrite Df; zconsts; lia|]. split; [rewrite Df; zconsts; lia|].
  split.
  - intros HM mon. subst mon. rewrite (CF 1 ltac:(lia)). fold X. rewrite W1. set (M := monday_of X) in *.
    destruct (midnight_reads B D z M HZ HD HM) as (LM & SM & NM & OM & _). set (mon := z_midnight z M) in *.
    pose proof (inst_diff z t mon) as D1. rewrite LM, SM, NM in D1. fold X in D1.
    pose proof (inst_diff z r mon) as D2. rewrite L, S, N, LM, SM, NM in D2.
    pose proof (zoff_bound B D z mon HZ) as Bm.
    assert (MX : M <= X < M + 7) by (unfold M, monday_of, weekday_of_days; lia).
    assert (YM : Y - M = (w + 6) mod 7) by (unfold Y, week_day; fold M; lia).
    split; [exact LM|]. split; [rewrite z_weekday_lday, LM; unfold M, monday_of, weekday_of_days; lia|].
    split; [rewrite (z_clock_of_sod z mon 0 SM); reflexivity|]. split; [exact NM|].
    split; [apply OM; fold X; lia|]. split; [rewrite D1; zconsts; lia|].
    split; [apply OM; rewrite L; lia|]. split; [rewrite D2, YM; zconsts; lia|]. split; [rewrite D2; zconsts; lia|].
    rewrite (z_start_of_week_cf B D z r 1 HZ HD ltac:(lia)) by (rewrite L; exact HR).
    rewrite L. unfold week_day. rewrite WM. unfold mon. f_equal. lia.
  - intros HE e. subst e. unfold z_get_end_of_week. rewrite (CF w Hw). fold X Y r.
    rewrite z_end_of_day_cf, L.
    destruct (wall_inst_reads B D z Y 86399 HZ HD ltac:(zconsts; lia) HE) as (Le & Se & Ne & _ & O2 & _).
    set (e := z_wall_inst z Y 86399) in *.
    pose proof (inst_diff z e r) as D3. rewrite L, S, N, Le, Se, Ne in D3.
    split; [exact Le|]. split; [rewrite z_weekday_lday, Le; exact WD|].
    split; [rewrite (z_clock_of_sod z e 86399 Se); reflexivity|]. split; [exact Ne|].
    split; [zconsts; lia|].
    intro x. pose proof (O x) as Ox. pose proof (O2 x) as O2x. pose proof (lday_order z x Y) as [_ LO]. lia.
Qed.

(* ------------------------------------------------------------------ (3) relative week start (repaired, AddDate-based) *)
(* GetRelativeStartOfWeek first steps back a week when now's weekday (Sunday = 7) is before the requested one *)
Definition steps_back (X w : Z) : bool :=
  (if weekday_of_days X =? 0 then 7 else weekday_of_days X) <? (if w =? 0 then 7 else w).
Definition rel_week_base (X w : Z) : Z := if steps_back X w then X - 7 else X.

Lemma unix_reads : forall z a b, unix a = unix b -> z_lday z a = z_lday z b /\ z_sod z a = z_sod z b /\ zoff z a = zoff z b.
Proof. intros z a b E. unfold z_lday, z_sod, zoff, lday, sod, lsec. rewrite E. repeat split; reflexivity. Qed.

Lemma wall_inst_plus : forall z X c n, 0 <= n < NS ->
  unix (z_wall_inst z X c + n) = unix (z_wall_inst z X c) /\ nsec (z_wall_inst z X c + n) = n.
Proof.
  intros z X c n Hn. unfold z_wall_inst. set (u := resolve z (X * DAY_S + c)).
  destruct (inst_unix u n Hn) as [U1 N1]. destruct (inst_unix u 0 ltac:(zconsts; lia)) as [U2 _].
  rewrite Z.add_0_r in U2. rewrite U1, U2, N1. split; reflexivity.
Qed.

Lemma rel_week_base_day : forall X w, 0 <= w <= 6 -> week_day (rel_week_base X w) w = latest_weekday X w.
Proof.
  intros X w Hw. pose proof (relative_week_day X w Hw) as R. cbv zeta in R.
  unfold rel_week_base, steps_back. unfold week_day. rewrite <- week_delta_spec by exact Hw. exact R.
Qed.

Lemma z_relative_start_of_week_cf : forall B D z t w k, zone_ok B D z -> 2 * B <= D -> 0 <= w <= 6 ->
  (steps_back (z_lday z t) w = true -> wall_regular z ((z_lday z t - 7) * DAY_S + z_sod z t) = true) ->
  midnight_regular z (rel_week_base (z_lday z t) w) = true ->
  midnight_regular z (latest_weekday (z_lday z t) w) = true ->
  z_get_relative_start_of_week z t w k = z_midnight z (latest_weekday (z_lday z t) w + 7 * k).
Proof.
  intros B D z t w k HZ HD Hw H1 H2 H3. unfold z_get_relative_start_of_week.
  rewrite z_weekday_lday. fold (steps_back (z_lday z t) w).
  set (X := z_lday z t) in *. pose proof (rel_week_base_day X w Hw) as RB.
  assert (M : z_get_start_of_week z (if steps_back X w then z_add_date z t 0 0 (-7) else t) w
              = z_midnight z (latest_weekday X w)).
  { unfold rel_week_base in *. destruct (steps_back X w) eqn:SB.
    - rewrite z_add_days_cf. fold X. replace (X + -7) with (X - 7) by lia.
      pose proof (z_wall_split z t) as [_ St]. pose proof (t_split t) as [_ Nt].
      destruct (wall_inst_reads B D z (X - 7) (z_sod z t) HZ HD St (H1 eq_refl)) as (L & _).
      destruct (wall_inst_plus z (X - 7) (z_sod z t) (nsec t) Nt) as [U _].
      destruct (unix_reads z _ _ U) as (L' & _). rewrite L in L'.
      rewrite (z_start_of_week_cf B D z _ w HZ HD Hw) by (rewrite L'; exact H2).
      rewrite L', RB. reflexivity.
    - rewrite (z_start_of_week_cf B D z t w HZ HD Hw) by exact H2. fold X. rewrite RB. reflexivity. }
  rewrite M, z_add_days_cf.
  destruct (midnight_reads B D z _ HZ HD H3) as (L & S & N & _).
  rewrite L, S, N, Z.add_0_r, z_midnight_wall_inst. reflexivity.
Qed.

Lemma z_relative_time_of_week_cf : forall z t w k,
  z_get_relative_time_of_week z t w k =
  z_wall_inst z (z_lday z (z_get_relative_start_of_week z t w k)) (z_sod z t) + nsec t.
Proof.
  intros. unfold z_get_relative_time_of_week. set (r := z_get_relative_start_of_week z t w k).
  unfold z_wall_inst, z_date_of, z_clock_of, z_lday, z_sod.
  destruct (date_of (zoff z r) r) as [[y m] d] eqn:E. apply date_of_spec in E. destruct E as [[Hm _] Hn].
  destruct (clock_of (zoff z t) t) as [[h mi] s] eqn:C. apply clock_of_spec in C. destruct C as [C _].
  pose proof (t_split t) as [_ Hns]. rewrite go_date_z_valid by lia. rewrite Hn, C. reflexivity.
Qed.

Lemma clock_zero_sod : forall z x, z_clock_of z x = (0, 0, 0) -> z_sod z x = 0.
Proof. intros z x C. unfold z_clock_of in C. apply clock_of_spec in C. unfold z_sod. lia. Qed.

Theorem dst_relative_week_start : forall B D z t w k, zone_ok B D z -> 2 * B <= D -> 0 <= w <= 6 ->
  (steps_back (z_lday z t) w = true -> wall_regular z ((z_lday z t - 7) * DAY_S + z_sod z t) = true) ->
  midnight_regular z (rel_week_base (z_lday z t) w) = true ->
  midnight_regular z (latest_weekday (z_lday z t) w) = true ->
  midnight_regular z (latest_weekday (z_lday z t) w + 7 * k) = true ->
  let r := z_get_relative_start_of_week z t w k in
  let r0 := z_get_relative_start_of_week z t w 0 in
  z_lday z r0 = latest_weekday (z_lday z t) w /\
  z_weekday_of z r0 = w /\ z_clock_of z r0 = (0, 0, 0) /\ nsec r0 = 0 /\
  z_lday z r0 <= z_lday z t < z_lday z r0 + 7 /\ r0 <= t /\ t - r0 < WEEK + 2 * B * NS /\
  (forall x, r0 <= x <-> latest_weekday (z_lday z t) w <= z_lday z x) /\
  (midnight_regular z (z_lday z t + 1) = true ->
     forall x, z_weekday_of z x = w -> z_clock_of z x = (0, 0, 0) -> nsec x = 0 -> x <= t -> x <= r0) /\
  z_lday z r = z_lday z r0 + 7 * k /\
  z_weekday_of z r = w /\ z_clock_of z r = (0, 0, 0) /\ nsec r = 0 /\
  (forall x, r <= x <-> latest_weekday (z_lday z t) w + 7 * k <= z_lday z x) /\
  r - r0 = (7 * k * DAY_S - (zoff z r - zoff z r0)) * NS /\
  (wall_regular z ((latest_weekday (z_lday z t) w + 7 * k) * DAY_S + 86399) = true ->
     let e := z_get_relative_end_of_week z t w k in
     z_lday z e = z_lday z r /\ z_clock_of z e = (23, 59, 59) /\ nsec e = 0 /\
     e + SECOND - r = (DAY_S - (zoff z e - zoff z r)) * NS) /\
  (wall_regular z ((latest_weekday (z_lday z t) w + 7 * k) * DAY_S + z_sod z t) = true ->
     let rt := z_get_relative_time_of_week z t w k in
     z_lday z rt = z_lday z r /\ z_clock_of z rt = z_clock_of z t /\ nsec rt = nsec t).
Proof.
  intros B D z t w k HZ HD Hw H1 H2 H3 H4 r r0.
  pose proof (z_relative_start_of_week_cf B D z t w k HZ HD Hw H1 H2 H3) as CF. fold r in CF.
  pose proof (z_relative_start_of_week_cf B D z t w 0 HZ HD Hw H1 H2 H3) as CF0. fold r0 in CF0.
  rewrite Z.mul_0_r, Z.add_0_r in CF0.
  set (X := z_lday z t) in *. pose proof (latest_weekday_spec X w Hw) as [LW LB]. set (D0 := latest_weekday X w) in *.
  destruct (midnight_reads B D z D0 HZ HD H3) as (L0 & S0 & N0 & O0 & U0). rewrite <- CF0 in L0, S0, N0, O0, U0.
  destruct (midnight_reads B D z (D0 + 7 * k) HZ HD H4) as (L & S & N & O & _). rewrite <- CF in L, S, N, O.
  assert (WK : weekday_of_days (D0 + 7 * k) = w) by (unfold weekday_of_days in *; lia).
  pose proof (inst_diff z t r0) as D1. rewrite L0, S0, N0 in D1. fold X in D1.
  pose proof (inst_diff z r r0) as D2. rewrite L, S, N, L0, S0, N0 in D2.
  pose proof (z_wall_split z t) as [_ St]. pose proof (t_split t) as [_ Nt].
  pose proof (zoff_bound B D z r0 HZ) as Br0. pose proof (zoff_bound B D z t HZ) as Bt.
  split; [exact L0|]. split; [rewrite z_weekday_lday, L0; exact LW|].
  split; [rewrite (z_clock_of_sod z r0 0 S0); reflexivity|]. split; [exact N0|].
  split; [rewrite L0; exact LB|]. split; [apply O0; fold X; lia|]. split; [rewrite D1; zconsts; lia|].
  split; [exact O0|].
  split.
  { intros HN x Wx Cx Nx Hx. apply clock_zero_sod in Cx. rewrite z_weekday_lday in Wx.
    destruct (midnight_reads B D z (X + 1) HZ HD HN) as (_ & _ & _ & O1 & _).
    destruct (Z.lt_trichotomy (z_lday z x) D0) as [C|[C|C]].
    - pose proof (O0 x). lia.
    - rewrite (U0 x C Cx Nx). lia.
    - assert (X + 1 <= z_lday z x) by (unfold weekday_of_days in *; lia).
      pose proof (O1 x) as O1x. pose proof (O1 t) as O1t. fold X in O1t. lia. }
  split; [rewrite L, L0; reflexivity|]. split; [rewrite z_weekday_lday, L; exact WK|].
  split; [rewrite (z_clock_of_sod z r 0 S); reflexivity|]. split; [exact N|]. split; [exact O|].
  split; [rewrite D2; zconsts; lia|].
  split.
  - intros HE e. subst e. unfold z_get_relative_end_of_week. fold r. rewrite z_end_of_day_cf, L.
    destruct (wall_inst_reads B D z (D0 + 7 * k) 86399 HZ HD ltac:(zconsts; lia) HE) as (Le & Se & Ne & _).
    set (e := z_wall_inst z (D0 + 7 * k) 86399) in *.
    pose proof (inst_diff z e r) as D3. rewrite L, S, N, Le, Se, Ne in D3.
    split; [exact Le|]. split; [rewrite (z_clock_of_sod z e 86399 Se); reflexivity|]. split; [exact Ne|].
    zconsts; lia.
  - intros HT rt. subst rt. rewrite z_relative_time_of_week_cf. fold r. rewrite L.
    destruct (wall_inst_reads B D z (D0 + 7 * k) (z_sod z t) HZ HD St HT) as (Lt & S't & _).
    destruct (wall_inst_plus z (D0 + 7 * k) (z_sod z t) (nsec t) Nt) as [U Nn].
    destruct (unix_reads z _ _ U) as (L' & S' & _). rewrite Lt in L'. rewrite S't in S'.
    split; [exact L'|]. split; [|exact Nn].
    rewrite (z_clock_of_sod z _ _ S'). symmetry. apply z_clock_of_sod. reflexivity.
Qed.

(* ------------------------------------------------------------------ (4) the week window (repaired: AddDate(0,0,7)) *)
Theorem dst_week_window : forall B D z t, zone_ok B D z -> 2 * B <= D ->
  midnight_regular z (z_lday z t) = true ->
  midnight_regular z (monday_of (z_lday z t)) = true ->
  midnight_regular z (monday_of (z_lday z t) + 7) = true ->
  let p := z_new_period_window_week z t in
  pstart p <= t < pend p /\
  pstart p = z_get_start_of_week z t 1 /\
  z_lday z (pstart p) = monday_of (z_lday z t) /\ z_weekday_of z (pstart p) = 1 /\
  z_clock_of z (pstart p) = (0, 0, 0) /\ nsec (pstart p) = 0 /\
  z_lday z (pend p) = z_lday z (pstart p) + 7 /\ z_weekday_of z (pend p) = 1 /\
  z_clock_of z (pend p) = (0, 0, 0) /\ nsec (pend p) = 0 /\
  (forall x, pstart p <= x < pend p <-> monday_of (z_lday z t) <= z_lday z x < monday_of (z_lday z t) + 7) /\
  pend p - pstart p = (7 * DAY_S - (zoff z (pend p) - zoff z (pstart p))) * NS /\
  WEEK - 2 * B * NS <= pend p - pstart p <= WEEK + 2 * B * NS /\
  pstart (z_new_period_window_week z (pend p)) = pend p.
Proof.
  intros B D z t HZ HD HX HM HE p. subst p. unfold z_new_period_window_week, pstart, pend. cbn [fst snd].
  rewrite (z_start_of_week_cf B D z t 1 HZ HD ltac:(lia) HX). set (X := z_lday z t) in *.
  destruct (week_day_spec X 1 ltac:(lia)) as (_ & _ & _ & W1 & _). rewrite W1.
  assert (MB : monday_of X <= X < monday_of X + 7 /\ weekday_of_days (monday_of X) = 1 /\
               weekday_of_days (monday_of X + 7) = 1 /\ week_day (monday_of X + 7) 1 = monday_of X + 7).
  { unfold week_day, monday_of, weekday_of_days. lia. }
  destruct MB as (MB & MW & MW7 & WD7). set (M := monday_of X) in *.
  destruct (midnight_reads B D z M HZ HD HM) as (Ls & Ss & Ns & Os & _).
  assert (EE : z_add_date z (z_midnight z M) 0 0 7 = z_midnight z (M + 7)).
  { rewrite z_add_days_cf, Ls, Ss, Ns, Z.add_0_r, <- z_midnight_wall_inst. reflexivity. }
  rewrite EE. clear EE.
  destruct (midnight_reads B D z (M + 7) HZ HD HE) as (Le & Se & Ne & Oe & _).
  set (s := z_midnight z M) in *. set (e := z_midnight z (M + 7)) in *.
  pose proof (inst_diff z e s) as Df. rewrite Ls, Ss, Ns, Le, Se, Ne in Df.
  pose proof (zoff_bound B D z s HZ) as Bs. pose proof (zoff_bound B D z e HZ) as Be.
  pose proof (Os t) as Ost. pose proof (Oe t) as Oet. fold X in Ost, Oet.
  split; [lia|]. split; [reflexivity|]. split; [exact Ls|]. split; [rewrite z_weekday_lday, Ls; exact MW|].
  split; [rewrite (z_clock_of_sod z s 0 Ss); reflexivity|]. split; [exact Ns|].
  split; [rewrite Le, Ls; reflexivity|]. split; [rewrite z_weekday_lday, Le; exact MW7|].
  split; [rewrite (z_clock_of_sod z e 0 Se); reflexivity|]. split; [exact Ne|].
  split; [intro x; pose proof (Os x); pose proof (Oe x); lia|].
  split; [rewrite Df; zconsts; lia|]. split; [rewrite Df; zconsts; lia|].
  rewrite (z_start_of_week_cf B D z e 1 HZ HD ltac:(lia)) by (rewrite Le; exact HE).
  rewrite Le, WD7. reflexivity.
Qed.

(* ------------------------------------------------------------------ (5) next moment (repaired: time.Date(day + 1)) *)
Lemma z_next_moment_cf : forall z t h m s,
  let q := h * 3600 + m * 60 + s in
  let mom := z_wall_inst z (z_lday z t) q in
  z_get_next_moment z z t h m s = (if mom <=? t then z_wall_inst z (z_lday z t + 1) q else mom) /\
  z_is_moment_passed z z t h m s = (mom <? t).
Proof.
  intros. subst q mom. unfold z_get_next_moment, z_is_moment_passed, z_wall_inst, z_date_of, z_lday.
  destruct (date_of (zoff z t) t) as [[y mo] d] eqn:E. apply date_of_spec in E. destruct E as [[Hm _] Hn].
  rewrite !go_date_z_valid by (zconsts; lia). rewrite days_from_civil_day, Hn, !Z.add_0_r.
  set (M := resolve z (lday (zoff z t) t * DAY_S + (h * 3600 + m * 60 + s)) * NS).
  unfold after, equal. split; [|apply Z.gtb_ltb].
  destruct (Z.leb_spec M t) as [L|L].
  - replace ((t >? M) || (t =? M)) with true; [reflexivity|].
    symmetry. apply orb_true_iff. destruct (Z.eq_dec t M) as [e|Hne].
    + right. apply Z.eqb_eq. exact e.
    + left. apply Z.gtb_lt. lia.
  - replace ((t >? M) || (t =? M)) with false; [reflexivity|].
    symmetry. apply orb_false_iff. split; [rewrite Z.gtb_ltb; apply Z.ltb_ge; lia | apply Z.eqb_neq; lia].
Qed.

(* the civil day GetNextMoment lands on: tomorrow iff today's h:m:s is not after now *)
Definition next_moment_day (z : zone) (t q : Z) : Z :=
  if z_wall_inst z (z_lday z t) q <=? t then z_lday z t + 1 else z_lday z t.

Theorem dst_next_moment : forall B D z t h m s, zone_ok B D z -> 2 * B <= D ->
  0 <= h < 24 -> 0 <= m < 60 -> 0 <= s < 60 ->
  let q := h * 3600 + m * 60 + s in
  let Y := next_moment_day z t q in
  wall_regular z (z_lday z t * DAY_S + q) = true ->
  wall_regular z (Y * DAY_S + q) = true ->
  let r := z_get_next_moment z z t h m s in
  t < r /\ z_lday z r = Y /\ z_lday z t <= Y <= z_lday z t + 1 /\ z_clock_of z r = (h, m, s) /\ nsec r = 0 /\
  r - t = ((Y - z_lday z t) * DAY_S + q - z_sod z t - (zoff z r - zoff z t)) * NS - nsec t /\
  r - t <= DAY + 2 * B * NS /\
  (forall x, r <= x <-> Y * DAY_S + q <= z_lday z x * DAY_S + z_sod z x) /\
  (wall_regular z ((Y - 1) * DAY_S + q) = true ->
     forall x, t < x -> z_clock_of z x = (h, m, s) -> nsec x = 0 -> r <= x) /\
  (z_is_moment_passed z z t h m s = true -> Y = z_lday z t + 1) /\
  (Y = z_lday z t <-> t < z_wall_inst z (z_lday z t) q) /\
  z_is_moment_future z z t h m s = negb (z_is_moment_passed z z t h m s).
Proof.
  intros B D z t h m s HZ HD Hh Hm Hs q Y R1 RY r.
  destruct (z_next_moment_cf z t h m s) as [CF PS]. fold q in CF, PS. fold r in CF.
  assert (Hq : 0 <= q < DAY_S) by (unfold q; zconsts; lia).
  assert (Cq : (q / 3600, q mod 3600 / 60, q mod 60) = (h, m, s)) by (unfold q; f_equal; [f_equal|]; lia).
  set (X := z_lday z t) in *.
  destruct (clock_reads B D z X q HZ HD Hq R1) as (L1 & S1 & N1 & O1 & U1).
  destruct (clock_reads B D z Y q HZ HD Hq RY) as (LY & SY & NY & OY & UY).
  set (mom := z_wall_inst z X q) in *.
  assert (RE : r = z_wall_inst z Y q /\ X <= Y <= X + 1 /\ (mom <= t -> Y = X + 1) /\ (t < mom -> Y = X)).
  { unfold Y, next_moment_day in *. fold X mom in CF |- *. rewrite CF.
    destruct (Z.leb_spec mom t); repeat split; try reflexivity; lia. }
  destruct RE as (RE & YB & Y1 & Y0). rewrite <- RE in LY, SY, NY, OY, UY.
  pose proof (inst_diff z r t) as Df. rewrite LY, SY, NY in Df. fold X in Df.
  pose proof (z_wall_split z t) as [_ St]. pose proof (t_split t) as [_ Nt].
  pose proof (zoff_bound B D z r HZ) as Br. pose proof (zoff_bound B D z t HZ) as Bt.
  pose proof (O1 t) as O1t. fold X in O1t. pose proof (OY t) as OYt. fold X in OYt.
  assert (TR : t < r).
  { destruct (Z.le_gt_cases mom t) as [C|C]; [specialize (Y1 C); zconsts; lia|].
    specialize (Y0 C). rewrite RE, Y0. exact C. }
  split; [exact TR|]. split; [exact LY|]. split; [exact YB|].
  split; [rewrite (z_clock_of_sod z r q SY); exact Cq|]. split; [exact NY|].
  split; [rewrite Df; zconsts; lia|].
  split.
  { rewrite Df. destruct (Z.le_gt_cases mom t) as [C|C]; [specialize (Y1 C)|specialize (Y0 C)];
      clear - C Y1 Y0 O1t St Nt Br Bt Hq; zconsts; lia. }
  split; [exact OY|].
  split.
  { intros RP x Hx Cx Nx.
    destruct (clock_reads B D z (Y - 1) q HZ HD Hq RP) as (_ & _ & _ & OP & UP).
    set (p := z_wall_inst z (Y - 1) q) in *.
    unfold z_clock_of in Cx. apply clock_of_spec in Cx. destruct Cx as [Cx _]. fold (z_sod z x) in Cx. fold q in Cx.
    apply OY. rewrite <- Cx.
    destruct (Z.le_gt_cases Y (z_lday z x)) as [C|C]; [clear - C; zconsts; lia|exfalso].
    assert (PT : p <= t).
    { apply OP. fold X. destruct (Z.le_gt_cases mom t) as [C'|C']; [specialize (Y1 C')|specialize (Y0 C')];
        clear - C' Y1 Y0 O1t St Hq; zconsts; lia. }
    destruct (Z.eq_dec (z_lday z x) (Y - 1)) as [E|NE].
    - rewrite (UP x E (eq_sym Cx) Nx) in Hx. lia.
    - pose proof (OP x) as OPx. rewrite <- Cx in OPx. clear - OPx PT Hx C NE. zconsts. lia. }
  split; [rewrite PS; intro P; apply Z.ltb_lt in P; apply Y1; lia|].
  split; [split; [intro E; destruct (Z.le_gt_cases mom t) as [C|C]; [specialize (Y1 C); lia|exact C]|exact Y0]|].
  reflexivity.
Qed.
