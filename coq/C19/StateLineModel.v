(* MV.C19.StateLineModel — executable model of /repo/toolkit/chrono/state_line.go: a time line of (state, point)
   pairs kept in chronological order.  States are integers (the Go type parameter is any comparable type), points are
   instants (nanoseconds since the Unix epoch, as in ChronoModel).  Triggers are opaque function values in Go and are
   not modelled (they are stored at the same index as their state and never inspected by the container).
   Functions that index a slice (GetTimeByIndex, GetStateByIndex, GetNext/PrevStateTimeByIndex) return None where Go
   panics with index out of range.  Model only. *)
From Coq Require Import ZArith List Bool.
From MV Require Import C19.ChronoModel.
Import ListNotations.
Open Scope Z_scope.

Record sline := { sl_states : list Z; sl_points : list Z }.

(* NewStateLine(zero): one state at the zero time *)
Definition new_state_line (zero : Z) : sline := {| sl_states := [zero]; sl_points := [zero_time] |}.

Fixpoint mem (x : Z) (l : list Z) : bool :=            (* collection.InComparableSlice *)
  match l with
  | [] => false
  | y :: t => (y =? x) || mem x t
  end.

(* AddState: the loop `for i := range points { if points[i].After(t) { insert (state, t) at i; return } }`, else append *)
Fixpoint insert_point (st t : Z) (ss ps : list Z) : list Z * list Z :=
  match ss, ps with
  | s :: ss', p :: ps' =>
      if after p t then (st :: s :: ss', t :: p :: ps')
      else let '(a, b) := insert_point st t ss' ps' in (s :: a, p :: b)
  | _, _ => (ss ++ [st], ps ++ [t])
  end.

Definition add_state (st t : Z) (l : sline) : sline :=
  if mem st (sl_states l) then l
  else let '(a, b) := insert_point st t (sl_states l) (sl_points l) in {| sl_states := a; sl_points := b |}.

(* first index whose state is st *)
Fixpoint index_of (st : Z) (ss : list Z) (i : Z) : Z :=
  match ss with
  | [] => -1
  | s :: t => if s =? st then i else index_of st t (i + 1)
  end.
Definition get_index_by_state (st : Z) (l : sline) : Z := index_of st (sl_states l) 0.

Definition nthZ (l : list Z) (i : Z) : option Z := if i <? 0 then None else nth_error l (Z.to_nat i).
Definition lenZ (l : list Z) : Z := Z.of_nat (length l).

(* GetTimeByState: the point of the first entry with that state, else the zero time *)
Definition get_time_by_state (st : Z) (l : sline) : Z :=
  match nthZ (sl_points l) (get_index_by_state st l) with Some p => p | None => zero_time end.

(* GetNextTimeByState: `for i { if states[i] == state && i+1 < len(points) { return points[i+1] } }; return points[0]` *)
Fixpoint next_time_loop (st : Z) (ss ps : list Z) : option Z :=
  match ss, ps with
  | s :: ss', _ :: ps' =>
      match (if s =? st then hd_error ps' else None) with
      | Some p => Some p
      | None => next_time_loop st ss' ps'
      end
  | _, _ => None
  end.
Definition get_next_time_by_state (st : Z) (l : sline) : Z :=
  match next_time_loop st (sl_states l) (sl_points l) with
  | Some p => p
  | None => hd zero_time (sl_points l)
  end.

(* GetPrevTimeByState: `for i := len-1; i >= 0; i-- { if states[i] == state && i > 0 { return points[i-1] } }`, else zero *)
Fixpoint prev_time_loop (st : Z) (ss ps : list Z) (prev : option Z) : option Z :=
  match ss, ps with
  | s :: ss', p :: ps' =>
      match prev_time_loop st ss' ps' (Some p) with    (* later indices are visited first *)
      | Some r => Some r
      | None => if s =? st then prev else None
      end
  | _, _ => None
  end.
Definition get_prev_time_by_state (st : Z) (l : sline) : Z :=
  match prev_time_loop st (sl_states l) (sl_points l) None with Some p => p | None => zero_time end.

Definition get_last_state (l : sline) : option Z := nthZ (sl_states l) (lenZ (sl_states l) - 1).

(* scanning from the end: the last index whose point is not after t *)
Fixpoint last_le (t : Z) (ps : list Z) (i : Z) : Z :=
  match ps with
  | [] => -1
  | p :: ps' => let r := last_le t ps' (i + 1) in
                if 0 <=? r then r else if before p t || equal p t then i else -1
  end.
Definition get_state_index_by_time (t : Z) (l : sline) : Z := last_le t (sl_points l) 0.
(* GetStateByTime: that state, else states[len(points)-1] *)
Definition get_state_by_time (t : Z) (l : sline) : option Z :=
  let i := get_state_index_by_time t l in
  if 0 <=? i then nthZ (sl_states l) i else nthZ (sl_states l) (lenZ (sl_points l) - 1).

Definition get_time_by_index (i : Z) (l : sline) : option Z := nthZ (sl_points l) i.
Definition get_state_by_index (i : Z) (l : sline) : option Z := nthZ (sl_states l) i.
Definition get_next_state_time_by_index (i : Z) (l : sline) : option Z := nthZ (sl_points l) (i + 1).
Definition get_prev_state_time_by_index (i : Z) (l : sline) : option Z := nthZ (sl_points l) (i - 1).
Definition get_state_count (l : sline) : Z := lenZ (sl_states l).
Definition has_state (st : Z) (l : sline) : bool := mem st (sl_states l).
Definition get_missing_states (sts : list Z) (l : sline) : list Z := filter (fun s => negb (mem s (sl_states l))) sts.
Definition move (d : Z) (l : sline) : sline := {| sl_states := sl_states l; sl_points := map (fun p => add p d) (sl_points l) |}.

(* Check(missingAllowed, states...): two-cursor scan; fuel = number of loop iterations possible *)
Fixpoint check_loop (fuel : nat) (allowed : bool) (stored input : list Z) : option (list Z * list Z) :=
  match fuel with
  | O => Some (stored, input)
  | S f =>
      match stored, input with
      | s :: stored', x :: input' =>
          if s =? x then check_loop f allowed stored' input'
          else if allowed then check_loop f allowed stored input'
          else None                                          (* return false *)
      | _, _ => Some (stored, input)
      end
  end.
Definition check (allowed : bool) (sts : list Z) (l : sline) : bool :=
  match check_loop (length (sl_states l) + length sts) allowed (sl_states l) sts with
  | None => false
  | Some (stored, input) =>
      match stored, input with
      | _ :: _, [] => false                                   (* stored left over, input exhausted *)
      | [], _ :: _ => allowed                                 (* input left over: only if missing states are allowed *)
      | _, _ => true
      end
  end.

(* ------------------------------------------------------------------ specification-level notions *)
Fixpoint sorted (l : list Z) : Prop :=                   (* chronological (non-decreasing) order *)
  match l with
  | [] => True
  | x :: t => (forall y, In y t -> x <= y) /\ sorted t
  end.

(* the representation invariant of a StateLine: one point per state, states pairwise distinct, points in chronological order, never empty *)
Definition line_inv (l : sline) : Prop :=
  length (sl_states l) = length (sl_points l) /\ NoDup (sl_states l) /\ sorted (sl_points l) /\ sl_states l <> [].
