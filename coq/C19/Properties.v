(* MV.C19.Properties — the statements of property C19 and nothing else.
   Every theorem is closed by [exact <lemma>] and followed by Print Assumptions.

   Vocabulary (MV.C19.ChronoModel): an instant is a number of nanoseconds since the Unix epoch (any Z);
   [off] is the fixed UTC offset, in seconds, of the Location of the time.Time values (any Z; UTC = 0);
   date_of / clock_of / nsec / weekday_of read the wall clock of an instant in that zone
   (weekday: Sunday = 0 ... Saturday = 6); DAY, WEEK, SECOND are durations in nanoseconds;
   midnight off X is the instant at which local day number X starts. *)
From Coq Require Import ZArith List Bool.
From MV Require Import C19.ChronoModel C19.ChronoRun C19.CivilProofs C19.ChronoProofs C19.FastProofs
  C19.StateLineModel C19.StateLineRun C19.StateLineProofs C19.ZoneModel C19.ZoneProofs C19.ZoneWeekProofs.
Import ListNotations.
Open Scope Z_scope.

(* ---- the calendar itself: days_from_civil / civil_from_days are mutually inverse bijections between ALL day
   numbers and the valid civil dates, anchored at 1970-01-01 = day 0 (a Thursday), and the day after y-m-d is the
   next day of the month, else the first of the next month, else January 1st of the next year, with the Gregorian
   leap rule in days_in_month: i.e. the proleptic Gregorian calendar. (Complete sweep of one 400-year era by
   vm_compute + periodicity in the era proved by arithmetic.) *)
Theorem C19_civil_calendar :
  (forall n, let '(y, m, d) := civil_from_days n in valid_date y m d /\ days_from_civil y m d = n) /\
  (forall y m d, valid_date y m d -> civil_from_days (days_from_civil y m d) = (y, m, d)) /\
  days_from_civil 1970 1 1 = 0 /\
  (forall y m d k, days_from_civil y m (d + k) = days_from_civil y m d + k) /\
  (forall y m, 1 <= m < 12 -> days_from_civil y (m + 1) 1 = days_from_civil y m (days_in_month y m) + 1) /\
  (forall y, days_from_civil (y + 1) 1 1 = days_from_civil y 12 31 + 1) /\
  weekday_of_days 0 = 4 /\
  (forall n, weekday_of_days (n + 1) = (weekday_of_days n + 1) mod 7).
Proof. exact civil_calendar. Qed.
Print Assumptions C19_civil_calendar.

Example C19_civil_calendar_example :
  civil_from_days 19782 = (2024, 2, 29) /\ days_from_civil 2024 2 29 = 19782 /\ weekday_of_days 19782 = 4 /\
  civil_from_days (-25509) = (1900, 2, 28) /\ civil_from_days (-25508) = (1900, 3, 1) /\
  valid_date 2024 2 29 /\ ~ valid_date 1900 2 29.
Proof. vm_compute. intuition discriminate. Qed.

(* ---- time.Date normalisation: months overflow into the year, and day / hour / minute / second / nanosecond
   values outside their range carry linearly (this is what every helper relies on when it passes day+n, 23:59:59...) *)
Theorem C19_date_normalises : forall off y mo d h mi s ns,
  go_date off y mo d h mi s ns =
  (days_from_civil (norm_year y mo) (norm_month mo) d * DAY_S + (h * 3600 + mi * 60 + s) - off) * NS + ns.
Proof. exact go_date_spec. Qed.
Print Assumptions C19_date_normalises.

Example C19_date_normalises_example :   (* 2023-14-(-1) 25:61:61.-1 UTC = 2024-01-31 02:02:00.999999999 *)
  go_date 0 2023 14 (-1) 25 61 61 (-1) = go_date 0 2024 1 31 2 2 0 999999999.
Proof. vm_compute. reflexivity. Qed.

(* ---- AddDate(0,0,k) is a shift by k*24 h in a fixed-offset zone *)
Theorem C19_add_days : forall off t k, add_date off t 0 0 k = t + k * DAY.
Proof. exact add_days_cf. Qed.
Print Assumptions C19_add_days.

(* ---- start / end of day: same civil date, 00:00:00.0 resp. 23:59:59.0, the day contains the instant *)
Theorem C19_start_end_of_day : forall off t,
  let s := get_start_of_day off t in
  let e := get_end_of_day off t in
  (date_of off s = date_of off t /\ clock_of off s = (0, 0, 0) /\ nsec s = 0 /\ s <= t < s + DAY) /\
  (date_of off e = date_of off t /\ clock_of off e = (23, 59, 59) /\ nsec e = 0 /\
   e = s + (DAY - SECOND) /\ t < e + SECOND).
Proof. exact start_end_of_day. Qed.
Print Assumptions C19_start_end_of_day.

Example C19_start_end_of_day_example :   (* 2024-03-01 07:00:00.5 in +08:00 *)
  let t := (1709247600 * NS + 500000000) in
  date_of 28800 t = (2024, 3, 1) /\ clock_of 28800 t = (7, 0, 0) /\
  get_start_of_day 28800 t = 1709222400 * NS /\ get_end_of_day 28800 t = 1709308799 * NS.
Proof. vm_compute. intuition reflexivity. Qed.

(* ---- relative start / end of day: the boundaries of the day n days later (earlier) *)
Theorem C19_relative_day : forall off t n,
  let s := get_relative_start_of_day off t n in
  let e := get_relative_end_of_day off t n in
  s = get_start_of_day off t + n * DAY /\ e = get_end_of_day off t + n * DAY /\
  lday off s = lday off t + n /\ clock_of off s = (0, 0, 0) /\ nsec s = 0 /\
  lday off e = lday off t + n /\ clock_of off e = (23, 59, 59) /\ nsec e = 0.
Proof. exact relative_day. Qed.
Print Assumptions C19_relative_day.

(* ---- start / end of week: the requested weekday at 00:00:00 (23:59:59), inside the Monday-based week
   [mon, mon + 7 d) that contains the instant, less than a week away from it *)
Theorem C19_start_of_week : forall off t w, 0 <= w <= 6 ->
  let r := get_start_of_week off t w in
  let mon := get_start_of_week off t 1 in
  weekday_of off r = w /\ clock_of off r = (0, 0, 0) /\ nsec r = 0 /\
  weekday_of off mon = 1 /\ mon <= t < mon + WEEK /\
  r = mon + ((w + 6) mod 7) * DAY /\ mon <= r < mon + WEEK /\
  get_start_of_week off r 1 = mon /\
  - WEEK < r - t < WEEK /\
  get_end_of_week off t w = r + (DAY - SECOND) /\
  clock_of off (get_end_of_week off t w) = (23, 59, 59) /\
  weekday_of off (get_end_of_week off t w) = w.
Proof. exact start_of_week_ok. Qed.
Print Assumptions C19_start_of_week.

Example C19_start_of_week_example :   (* Sunday 2024-03-03 23:59:59 UTC: Monday is Feb 26, the Sunday of that week is Mar 3 itself *)
  let t := 1709510399 * NS in
  weekday_of 0 t = 0 /\ get_start_of_week 0 t 1 = 1708905600 * NS /\ get_start_of_week 0 t 0 = 1709424000 * NS /\
  get_start_of_week 0 (t + SECOND) 1 = 1709510400 * NS.
Proof. vm_compute. intuition reflexivity. Qed.

(* ---- relative week start: r0 = the latest instant <= now that is 00:00:00 on the requested weekday; the result is
   r0 shifted by k whole weeks; relative end / time of week are 23:59:59 / now's wall clock on that day.
   (Model = the code repaired by fixes/C19-dst-calendar-arithmetic.patch; C19_fixed_offset_week_arithmetic shows that the
   unrepaired code computes the same instants in every fixed-offset zone.) *)
Theorem C19_relative_week_start : forall off t w k, 0 <= w <= 6 ->
  let r := get_relative_start_of_week off t w k in
  let r0 := get_relative_start_of_week off t w 0 in
  weekday_of off r0 = w /\ clock_of off r0 = (0, 0, 0) /\ nsec r0 = 0 /\ r0 <= t < r0 + WEEK /\
  (forall x, weekday_of off x = w -> clock_of off x = (0, 0, 0) -> nsec x = 0 -> x <= t -> x <= r0) /\
  r = r0 + k * WEEK /\
  weekday_of off r = w /\ clock_of off r = (0, 0, 0) /\ nsec r = 0 /\
  get_relative_end_of_week off t w k = r + (DAY - SECOND) /\
  let rt := get_relative_time_of_week off t w k in
  date_of off rt = date_of off r /\ clock_of off rt = clock_of off t /\ nsec rt = nsec t.
Proof. exact relative_week_start_ok. Qed.
Print Assumptions C19_relative_week_start.

Example C19_relative_week_start_example :   (* the doc comment of GetRelativeStartOfWeek: Saturday, -1 *)
  get_relative_start_of_week 0 (1709251200 * NS) 6 (-1) = 1708128000 * NS /\    (* 2024-03-01 -> 2024-02-17 *)
  get_relative_start_of_week 0 (1709337600 * NS) 6 (-1) = 1708732800 * NS /\    (* 2024-03-02 -> 2024-02-24 *)
  get_relative_start_of_week 0 (1709424000 * NS) 6 (-1) = 1708732800 * NS.      (* 2024-03-03 -> 2024-02-24 *)
Proof. vm_compute. intuition reflexivity. Qed.

(* ---- the 168-hour arithmetic of the unrepaired /repo code and the moment+AddDate form of GetNextMoment coincide
   with the repaired (AddDate / time.Date) forms in every fixed-offset zone: the defects exist only under DST rules *)
Theorem C19_fixed_offset_week_arithmetic : forall off t w k h m s,
  get_relative_start_of_week_168h off t w k = get_relative_start_of_week off t w k /\
  new_period_window_week_168h off t = new_period_window_week off t /\
  get_next_moment_adddate off off t h m s = get_next_moment off off t h m s.
Proof.
  intros. exact (conj (get_relative_start_of_week_168h_eq off t w k)
                      (conj (new_period_window_week_168h_eq off t) (get_next_moment_adddate_eq off t h m s))).
Qed.
Print Assumptions C19_fixed_offset_week_arithmetic.

(* ---- next moment (instant in the process-local zone: Location of now = time.Local): strictly in the future, at most
   24 h away, wall clock exactly h:m:s.0, and no earlier future instant has that wall clock; the first delay of
   the day-moment scheduling (moment.Sub(now)) is therefore in (0, 24 h] *)
Theorem C19_next_moment : forall off t h m s, 0 <= h < 24 -> 0 <= m < 60 -> 0 <= s < 60 ->
  let r := get_next_moment off off t h m s in
  t < r /\ r <= t + DAY /\ clock_of off r = (h, m, s) /\ nsec r = 0 /\
  (forall x, t < x -> clock_of off x = (h, m, s) -> nsec x = 0 -> r <= x) /\
  (is_moment_passed off off t h m s = true <-> lday off r = lday off t + 1 /\ r < t + DAY) /\
  is_moment_future off off t h m s = negb (is_moment_passed off off t h m s).
Proof. exact next_moment_ok. Qed.
Print Assumptions C19_next_moment.

(* ---- the day-moment scheduling (Scheduler.RegisterDayMomentTask) derives its first delay from GetNextMoment:
   the delay is positive, at most 24 h, and leads exactly to the next occurrence of the wall clock h:m:s.0 *)
Theorem C19_day_moment_first_delay : forall off t h m s, 0 <= h < 24 -> 0 <= m < 60 -> 0 <= s < 60 ->
  let d := day_moment_first_delay off off t h m s in
  0 < d <= DAY /\ t + d = get_next_moment off off t h m s /\
  clock_of off (t + d) = (h, m, s) /\ nsec (t + d) = 0.
Proof. exact day_moment_first_delay_ok. Qed.
Print Assumptions C19_day_moment_first_delay.

Example C19_next_moment_example :   (* now = 12:30:00 exactly: the 12:30:00 of tomorrow; one nanosecond earlier: today's *)
  let t := 1709296200 * NS in
  get_next_moment 0 0 t 12 30 0 = t + DAY /\ get_next_moment 0 0 (t - 1) 12 30 0 = t /\
  is_moment_passed 0 0 t 12 30 0 = false /\ is_moment_passed 0 0 (t + 1) 12 30 0 = true.
Proof. vm_compute. intuition reflexivity. Qed.

(* ---- same day: an equivalence relation, = equal civil dates = b inside [start of day a, +24 h) *)
Theorem C19_same_day_equivalence : forall off,
  (forall a, is_same_day off a off a = true) /\
  (forall a b, is_same_day off a off b = is_same_day off b off a) /\
  (forall a b c, is_same_day off a off b = true -> is_same_day off b off c = true ->
                 is_same_day off a off c = true) /\
  (forall a b, is_same_day off a off b = true <-> date_of off a = date_of off b) /\
  (forall a b, is_same_day off a off b = true <->
               get_start_of_day off a <= b < get_start_of_day off a + DAY) /\
  (forall a b, is_same_day off a off b = true <-> get_start_of_day off a = get_start_of_day off b) /\
  (forall a b, is_same_day off a off b = true -> get_end_of_day off a = get_end_of_day off b).
Proof. exact same_day_ok. Qed.
Print Assumptions C19_same_day_equivalence.

(* ---- same week (Monday-based): an equivalence relation, = b inside [Monday 00:00 of a's week, + 7 d) *)
Theorem C19_same_week_equivalence : forall off,
  (forall a, is_same_week off a off a = true) /\
  (forall a b, is_same_week off a off b = is_same_week off b off a) /\
  (forall a b c, is_same_week off a off b = true -> is_same_week off b off c = true ->
                 is_same_week off a off c = true) /\
  (forall a b, is_same_week off a off b = true <->
               get_start_of_week off a 1 <= b < get_start_of_week off a 1 + WEEK) /\
  (forall a b, is_same_week off a off b = true <-> get_start_of_week off a 1 = get_start_of_week off b 1) /\
  (forall a b, is_same_day off a off b = true -> is_same_week off a off b = true).
Proof. exact same_week_ok. Qed.
Print Assumptions C19_same_week_equivalence.

(* ---- same month: an equivalence relation, = equal (year, month) = b inside [first of a's month 00:00, first of the
   next month 00:00); the month length of GetMonthDays is the distance between those two boundaries *)
Theorem C19_same_month_equivalence : forall off,
  (forall a, is_same_month off a off a = true) /\
  (forall a b, is_same_month off a off b = is_same_month off b off a) /\
  (forall a b c, is_same_month off a off b = true -> is_same_month off b off c = true ->
                 is_same_month off a off c = true) /\
  (forall a b, is_same_month off a off b = true <->
               year_of off a = year_of off b /\ month_of off a = month_of off b) /\
  (forall a b, is_same_month off a off b = true <-> month_start off a <= b < next_month_start off a) /\
  (forall a, month_start off a <= a < next_month_start off a /\
             day_of off (month_start off a) = 1 /\ clock_of off (month_start off a) = (0, 0, 0) /\
             nsec (month_start off a) = 0 /\
             year_of off (month_start off a) = year_of off a /\ month_of off (month_start off a) = month_of off a /\
             next_month_start off a - month_start off a = get_month_days off a * DAY) /\
  (forall a b, is_same_day off a off b = true -> is_same_month off a off b = true).
Proof. exact same_month_ok. Qed.
Print Assumptions C19_same_month_equivalence.

Example C19_same_equivalence_example :   (* Sun 2024-03-03 23:59:59.999999999 vs Mon 2024-03-04 00:00:00 UTC: same month only *)
  let a := 1709510399 * NS + 999999999 in let b := 1709510400 * NS in
  is_same_day 0 a 0 b = false /\ is_same_week 0 a 0 b = false /\ is_same_month 0 a 0 b = true /\
  is_same_week 0 b 0 (b + 6 * DAY) = true /\ get_month_days 0 (1709164800 * NS) = 29.
Proof. vm_compute. intuition reflexivity. Qed.

(* ---- periods are normalised *)
Theorem C19_period_normalised : forall a b,
  let p := new_period a b in
  pstart p <= pend p /\ ((pstart p = a /\ pend p = b) \/ (pstart p = b /\ pend p = a)) /\
  pstart p = Z.min a b /\ pend p = Z.max a b.
Proof. exact period_normalised. Qed.
Print Assumptions C19_period_normalised.

(* ---- NewPeriodWith{DayZero,Day,Hour,...,Nanosecond}: the normalised period between the anchor and the shifted anchor *)
Theorem C19_period_with : forall off t n,
  (let p := new_period_with_day off t n in
   pstart p = Z.min t (t + n * DAY) /\ pend p = Z.max t (t + n * DAY)) /\
  (let p := new_period_with_day_zero off t n in
   pstart p = Z.min t (midnight off (lday off t + n)) /\ pend p = Z.max t (midnight off (lday off t + n))) /\
  (forall unit, let p := new_period_with_dur unit t n in
   pstart p = Z.min t (t + n * unit) /\ pend p = Z.max t (t + n * unit)).
Proof. exact period_with_ok. Qed.
Print Assumptions C19_period_with.

(* ---- a window of positive size contains its anchor, has that size and is aligned to multiples of the size
   counted from the zero time *)
Theorem C19_window_contains_anchor : forall t size, 0 < size ->
  let p := new_period_window t size in
  pstart p <= t < pend p /\ pend p - pstart p = size /\ (pstart p - zero_time) mod size = 0.
Proof. exact window_contains_anchor. Qed.
Print Assumptions C19_window_contains_anchor.

(* ---- the week window is [Monday 00:00:00 of the anchor's week, next Monday 00:00:00) and contains its anchor *)
Theorem C19_week_window_contains_anchor : forall off t,
  let p := new_period_window_week off t in
  pstart p <= t < pend p /\ pend p - pstart p = WEEK /\
  pstart p = get_start_of_week off t 1 /\ weekday_of off (pstart p) = 1 /\
  clock_of off (pstart p) = (0, 0, 0) /\ nsec (pstart p) = 0 /\
  weekday_of off (pend p) = 1 /\ clock_of off (pend p) = (0, 0, 0).
Proof. exact window_week_contains_anchor. Qed.
Print Assumptions C19_week_window_contains_anchor.

Example C19_window_example :
  new_period_window (1709296200 * NS + 7) HOUR = (1709294400 * NS, 1709298000 * NS) /\
  new_period_window_week 0 (1709510399 * NS) = (1708905600 * NS, 1709510400 * NS).
Proof. vm_compute. intuition reflexivity. Qed.

(* ---- overlap is symmetric, and for positive-length periods true exactly when they share interior time *)
Theorem C19_overlap_sym : forall p q : period, period_is_overlap p q = period_is_overlap q p.
Proof. exact overlap_sym. Qed.
Print Assumptions C19_overlap_sym.

Theorem C19_overlap_iff_interior : forall p q : period, pstart p < pend p -> pstart q < pend q ->
  (period_is_overlap p q = true <-> Z.max (pstart p) (pstart q) < Z.min (pend p) (pend q)).
Proof. exact overlap_iff_interior. Qed.
Print Assumptions C19_overlap_iff_interior.

Example C19_overlap_example :   (* touching periods do not overlap, nested ones do *)
  period_is_overlap (0, 10) (10, 20) = false /\ period_is_overlap (0, 10) (3, 4) = true /\
  period_is_overlap (3, 4) (0, 10) = true /\ period_is_overlap (0, 10) (9, 20) = true.
Proof. vm_compute. intuition reflexivity. Qed.

(* ---- the remaining predicates of period.go, as order relations on instants *)
Theorem C19_period_predicates : forall (p : period) t,
  (period_is_before p t = true <-> pend p < t) /\
  (period_is_after p t = true <-> t < pstart p) /\
  (period_is_between p t = true <-> pstart p < t < pend p) /\
  (period_is_ongoing p t = true <-> pstart p <= t < pend p) /\
  (period_is_between_or_equal p t = true <-> (pstart p < t < pend p \/ t = pstart p \/ t = pend p)).
Proof. exact period_predicates. Qed.
Print Assumptions C19_period_predicates.

(* ---- Max / Min / SmallerFirst / SmallerLast / Delta, and the day distance of FloorDeltaDays & co.
   (Duration results: as long as the difference fits in an int64 number of nanoseconds, ~292 years) *)
Theorem C19_min_max_delta : forall a b,
  time_max a b = Z.max a b /\ time_min a b = Z.min a b /\
  smaller_first a b = (Z.min a b, Z.max a b) /\ smaller_last a b = (Z.max a b, Z.min a b) /\
  (Z.abs (a - b) <= MAXDUR -> delta a b = Z.abs (a - b)).
Proof. exact min_max_ok. Qed.
Print Assumptions C19_min_max_delta.

Theorem C19_delta_days : forall off a b, a <= b -> (lday off b - lday off a) * DAY <= MAXDUR ->
  floor_delta_days off a off b = lday off b - lday off a /\
  floor_delta_days off b off a = lday off b - lday off a /\
  floor_delta_hours off a off b = 24 * (lday off b - lday off a) /\
  floor_delta_minutes off a off b = 1440 * (lday off b - lday off a).
Proof. exact delta_days_ok. Qed.
Print Assumptions C19_delta_days.

(* ---- soundness of the evaluator used by the correspondence sweep (every day of the 400-year cycle): the digest
   that the check recomputes with the closed-form evaluator [sweep_fast] is, for every zone offset, seed, first day,
   day count and digest state, the digest of the outputs of the model's own functions ([sweep] folds [eval_inst],
   i.e. get_start_of_day, get_start_of_week, get_relative_start_of_week, get_next_moment, ... themselves) *)
Theorem C19_sweep_evaluator_sound : forall count z seed day h,
  sweep_fast z seed day count h = sweep z seed day count h.
Proof. exact sweep_fast_correct. Qed.
Print Assumptions C19_sweep_evaluator_sound.

(* ================================================================== state_line.go (an ordered container of time points;
   not named by the property statement, covered because it is built on the same Before/After/Equal comparisons) *)

(* ---- for every history of AddState / Move / queries from NewStateLine: one point per state, states pairwise distinct,
   points in chronological order, never empty *)
Theorem C19_stateline_invariant : forall (ops : list lop) (zero : Z),
  line_inv (fst (lrun (new_state_line zero) ops)).
Proof. exact line_invariant. Qed.
Print Assumptions C19_stateline_invariant.

(* ---- AddState of an existing state changes nothing; a new state is inserted with its time after every point that is
   not later and before every later point, the rest of the line unchanged *)
Theorem C19_stateline_add_state : forall st t l, line_inv l ->
  (In st (sl_states l) -> add_state st t l = l) /\
  (~ In st (sl_states l) ->
   exists ss1 ss2 ps1 ps2,
     sl_states l = ss1 ++ ss2 /\ sl_points l = ps1 ++ ps2 /\ length ss1 = length ps1 /\
     sl_states (add_state st t l) = ss1 ++ st :: ss2 /\ sl_points (add_state st t l) = ps1 ++ t :: ps2 /\
     (forall p, In p ps1 -> p <= t) /\ (forall p, In p ps2 -> t < p)).
Proof. exact add_state_spec. Qed.
Print Assumptions C19_stateline_add_state.

(* ---- GetStateByTime / GetStateIndexByTime: the entry with the latest point that is not after t (every later point is
   after t, every earlier one is not); when all points are after t: index -1 and, as the Go code does, the last state *)
Theorem C19_stateline_state_by_time : forall l t, line_inv l ->
  let i := get_state_index_by_time t l in
  (i = -1 /\ (forall p, In p (sl_points l) -> t < p) /\ get_state_by_time t l = get_last_state l) \/
  (exists k p, i = Z.of_nat k /\ nth_error (sl_points l) k = Some p /\ p <= t /\
     (forall j q, (k < j)%nat -> nth_error (sl_points l) j = Some q -> t < q) /\
     (forall j q, (j < k)%nat -> nth_error (sl_points l) j = Some q -> q <= t) /\
     get_state_by_time t l = nth_error (sl_states l) k).
Proof. exact state_by_time_spec. Qed.
Print Assumptions C19_stateline_state_by_time.

Example C19_stateline_example :   (* states 0@zero, 5@100, 7@100 (added later: after the equal point), 3@50 *)
  let l := add_state 3 50 (add_state 5 999 (add_state 7 100 (add_state 5 100 (new_state_line 0)))) in
  sl_states l = [0; 3; 5; 7] /\ sl_points l = [zero_time; 50; 100; 100] /\
  get_state_by_time 100 l = Some 7 /\ get_state_by_time 99 l = Some 3 /\ get_state_by_time (zero_time - 1) l = Some 7.
Proof. vm_compute. intuition reflexivity. Qed.

(* ================================================================== zones with offset changes: TRANSITION TABLES
   (MV.C19.ZoneModel).  A zone is an initial offset and a list of (UTC second, offset in force from then on); zlookup is
   Location.lookup, resolve the zone part of time.Date, go_date_z time.Date, z_<helper> the helper of moment.go /
   period.go over the table.  Vocabulary: off_at z u = offset in force at UTC second u; wall z u = u + off_at z u, the
   wall clock shown at u (seconds since the epoch "as if UTC"); unix t = the UTC second of instant t.
   Hypotheses, all decidable and evaluated by the harness on the tables extracted from package time:
     zone_okb B D z      every offset within [-B, B]; transition times strictly increasing inside (alpha, omega),
                         consecutive ones MORE than D seconds apart.  The theorems need D >= 2B: time.Date guesses the
                         offset at the wall clock taken as UTC and corrects once, which is right only if no two offset
                         changes lie within 2B of each other (real zones: B <= 14 h, changes weeks apart; the harness
                         checks zone_okb (18 h) (36 h) on seven IANA tables).
     wall_regular z w    no transition makes the wall clock w non-existent or ambiguous: for every transition at s from
                         offset o to o', w is outside [s + min o o', s + max o o').
     midnight_regular z X = wall_regular z (X * 86400): local midnight of local day number X exists exactly once. *)

(* ---- a table without transitions IS the fixed-offset zone of the theorems above: every z_ function equals the
   fixed-offset function of the same name, so the two models are one *)
Theorem C19_zone_table_generalises_fixed_offset : forall off,
  let z := fixed_zone off in
  (forall u, zlookup z u = (off, ALPHA, OMEGA)) /\
  (forall y mo d h mi s ns, go_date_z z y mo d h mi s ns = go_date off y mo d h mi s ns) /\
  (forall t, z_date_of z t = date_of off t /\ z_clock_of z t = clock_of off t /\ z_weekday_of z t = weekday_of off t /\
             z_year_of z t = year_of off t /\ z_month_of z t = month_of off t /\ z_day_of z t = day_of off t /\
             z_hour_of z t = hour_of off t /\ z_minute_of z t = minute_of off t /\ z_second_of z t = second_of off t) /\
  (forall t yy mm dd, z_add_date z t yy mm dd = add_date off t yy mm dd) /\
  (forall t, z_get_start_of_day z t = get_start_of_day off t /\ z_get_end_of_day z t = get_end_of_day off t) /\
  (forall t n, z_get_relative_start_of_day z t n = get_relative_start_of_day off t n /\
               z_get_relative_end_of_day z t n = get_relative_end_of_day off t n) /\
  (forall t w, z_get_start_of_week z t w = get_start_of_week off t w /\ z_get_end_of_week z t w = get_end_of_week off t w) /\
  (forall t w k, z_get_relative_start_of_week z t w k = get_relative_start_of_week off t w k /\
                 z_get_relative_start_of_week_168h z t w k = get_relative_start_of_week_168h off t w k /\
                 z_get_relative_end_of_week z t w k = get_relative_end_of_week off t w k /\
                 z_get_relative_time_of_week z t w k = get_relative_time_of_week off t w k) /\
  (forall loff t h m s, z_get_next_moment (fixed_zone loff) z t h m s = get_next_moment loff off t h m s /\
                   z_get_next_moment_adddate (fixed_zone loff) z t h m s = get_next_moment_adddate loff off t h m s /\
                   z_is_moment_passed (fixed_zone loff) z t h m s = is_moment_passed loff off t h m s /\
                   z_is_moment_future (fixed_zone loff) z t h m s = is_moment_future loff off t h m s) /\
  (forall off2 t1 t2, let z2 := fixed_zone off2 in
     z_is_same_day z t1 z2 t2 = is_same_day off t1 off2 t2 /\ z_is_same_hour z t1 z2 t2 = is_same_hour off t1 off2 t2 /\
     z_is_same_minute z t1 z2 t2 = is_same_minute off t1 off2 t2 /\ z_is_same_week z t1 z2 t2 = is_same_week off t1 off2 t2 /\
     z_is_same_month z t1 z2 t2 = is_same_month off t1 off2 t2 /\ z_is_same_year z t1 z2 t2 = is_same_year off t1 off2 t2 /\
     (forall unit, z_delta_units unit z t1 z2 t2 = delta_units unit off t1 off2 t2)) /\
  (forall t, z_get_month_days z t = get_month_days off t) /\
  (forall t n, z_new_period_window_week z t = new_period_window_week off t /\
               z_new_period_window_week_168h z t = new_period_window_week_168h off t /\
               z_new_period_with_day_zero z t n = new_period_with_day_zero off t n /\
               z_new_period_with_day z t n = new_period_with_day off t n).
Proof. exact zone_table_generalises_fixed_offset. Qed.
Print Assumptions C19_zone_table_generalises_fixed_offset.

Example C19_zone_table_example :   (* the tables used by the examples below are well formed with B = 18 h, D = 36 h *)
  zone_okb 64800 129600 ny_table = true /\ zone_okb 64800 129600 berlin_table = true /\
  zone_okb 64800 129600 havana_table = true /\ zone_okb 64800 129600 (fixed_zone 20700) = true.
Proof. vm_compute. intuition reflexivity. Qed.

(* ---- (a) Location.lookup: the offset returned is the one in force at u (that of the last transition at or before u,
   the initial offset if there is none), start <= u < end, and the whole answer is constant on [start, end) *)
Theorem C19_dst_lookup_sound : forall B D z u o s e, zone_okb B D z = true -> ALPHA <= u < OMEGA ->
  zlookup z u = (o, s, e) ->
  ((o = z_first z /\ forall w o', In (w, o') (z_trans z) -> u < w) \/
   (exists w, In (w, o) (z_trans z) /\ w <= u /\ forall w' o', In (w', o') (z_trans z) -> w' <= u -> w' <= w)) /\
  s <= u < e /\ (forall v, s <= v < e -> zlookup z v = (o, s, e)) /\ - B <= o <= B.
Proof. intros B D z u o s e H. exact (lookup_sound B D z u o s e (zone_okb_ok B D z H)). Qed.
Print Assumptions C19_dst_lookup_sound.

Example C19_dst_lookup_example :   (* New_York: 2024-03-10 06:59:59 UTC is still EST, 07:00:00 UTC is EDT until 2024-11-03 06:00 UTC *)
  zlookup ny_table 1710053999 = (-18000, 1699164000, 1710054000) /\
  zlookup ny_table 1710054000 = (-14400, 1710054000, 1730613600) /\
  zlookup ny_table 0 = (-18000, ALPHA, 1678604400) /\ zlookup ny_table 1800000000 = (-18000, 1762063200, OMEGA).
Proof. vm_compute. intuition reflexivity. Qed.

(* ---- (b) time.Date inverts the wall clock.  w = the requested wall clock (civil date and time as seconds since the
   epoch "as if UTC"), r = resolve z w = the UTC second time.Date returns (go_date_z = resolve on the normalised
   fields).  Whatever start/end the lookups report, r = w - off(w - off(w)).
   * If some instant shows w, so does r; if two instants show w (repeated hour) r is the one whose offset is
     off(w - off(w)): the EARLIER one in New_York (first 01:30 on 2024-11-03), the LATER one in Berlin (second 02:30 on
     2024-10-27).  If w is regular, r is THE instant showing w, every earlier instant shows less and every later more.
   * If no instant shows w (w inside the gap [s + o, s + o') of a transition at s from offset o to o' > o), r shows w
     shifted by the size of the gap: BACKWARDS (r = w - o', just before the transition) when the first guess
     w - off(w) is at or after s — New_York: 02:30 on 2024-03-10 becomes 01:30 EST — and FORWARDS (r = w - o, after
     the transition) otherwise — Berlin: 02:30 on 2024-03-31 becomes 03:30 CEST. *)
Theorem C19_dst_date_inverts_wall_clock : forall B D z w, zone_okb B D z = true -> 2 * B <= D ->
  let r := resolve z w in
  (forall y mo d h mi s ns, 1 <= mo <= 12 -> 0 <= ns < NS ->
     go_date_z z y mo d h mi s ns = resolve z (days_from_civil y mo d * DAY_S + (h * 3600 + mi * 60 + s)) * NS + ns) /\
  r = w - off_at z (w - off_at z w) /\
  (forall u, wall z u = w -> wall z r = w /\ (r = u <-> off_at z (w - off_at z w) = off_at z u)) /\
  (wall_regular z w = true ->
     wall z r = w /\ (forall v, v < r -> wall z v < w) /\ (forall v, r < v -> w < wall z v)) /\
  ((forall u, wall z u <> w) ->
     exists s o o', o < o' /\ s + o <= w < s + o' /\
       (forall v, w - B <= v <= w + B -> off_at z v = if v <? s then o else o') /\
       ((s <= w - off_at z w /\ r = w - o' /\ r < s /\ wall z r = w - (o' - o)) \/
        (w - off_at z w < s /\ r = w - o /\ s <= r /\ wall z r = w + (o' - o)))).
Proof. exact date_inverts_wall_clock. Qed.
Print Assumptions C19_dst_date_inverts_wall_clock.

Example C19_dst_date_example :
  (* gaps: New_York 2024-03-10 02:30 -> 06:30 UTC = 01:30 EST; Berlin 2024-03-31 02:30 -> 01:30 UTC = 03:30 CEST *)
  go_date_z ny_table 2024 3 10 2 30 0 0 = 1710052200 * NS /\ z_clock_of ny_table (1710052200 * NS) = (1, 30, 0) /\
  go_date_z berlin_table 2024 3 31 2 30 0 0 = 1711848600 * NS /\ z_clock_of berlin_table (1711848600 * NS) = (3, 30, 0) /\
  wall_regular ny_table (19792 * DAY_S + 9000) = false /\
  (* repeated hours: New_York 2024-11-03 01:30 -> the first (EDT, 05:30 UTC); Berlin 2024-10-27 02:30 -> the second (CET, 01:30 UTC) *)
  go_date_z ny_table 2024 11 3 1 30 0 0 = 1730611800 * NS /\ zoff ny_table (1730611800 * NS) = -14400 /\
  go_date_z berlin_table 2024 10 27 2 30 0 0 = 1729992600 * NS /\ zoff berlin_table (1729992600 * NS) = 3600 /\
  (* a regular wall clock on a transition day: New_York 2024-03-10 03:00 = 07:00 UTC, the instant of the transition *)
  wall_regular ny_table (19792 * DAY_S + 10800) = true /\ go_date_z ny_table 2024 3 10 3 0 0 0 = 1710054000 * NS.
Proof. vm_compute. intuition reflexivity. Qed.

(* ---- (c) start of day: if local midnight of t's civil day exists exactly once, the result has t's civil date, reads
   00:00:00.0, is not after t, is THE boundary of the day (an instant is at or after it iff its civil day is t's or a
   later one), and the distance to t is t's time of day corrected by the offset change in between — below 24 h + 2B
   (a civil day has 23..25 h in real zones) *)
Theorem C19_dst_start_of_day : forall B D z t, zone_okb B D z = true -> 2 * B <= D ->
  midnight_regular z (z_lday z t) = true ->
  let r := z_get_start_of_day z t in
  z_date_of z r = z_date_of z t /\ z_clock_of z r = (0, 0, 0) /\ nsec r = 0 /\ r <= t /\
  (forall x, r <= x <-> z_lday z t <= z_lday z x) /\
  t - r = (z_sod z t + (zoff z r - zoff z t)) * NS + nsec t /\
  t - r < DAY + 2 * B * NS.
Proof. intros B D z t H. exact (dst_start_of_day B D z t (zone_okb_ok B D z H)). Qed.
Print Assumptions C19_dst_start_of_day.

(* ---- end of day: if 23:59:59 of t's civil day exists exactly once, the result has t's civil date, reads 23:59:59.0,
   t is before the next second, and an instant is before that next second iff its civil day is t's or an earlier one *)
Theorem C19_dst_end_of_day : forall B D z t, zone_okb B D z = true -> 2 * B <= D ->
  wall_regular z (z_lday z t * DAY_S + 86399) = true ->
  let e := z_get_end_of_day z t in
  z_date_of z e = z_date_of z t /\ z_clock_of z e = (23, 59, 59) /\ nsec e = 0 /\ t < e + SECOND /\
  (forall x, x < e + SECOND <-> z_lday z x <= z_lday z t) /\
  e + SECOND - t = (DAY_S - z_sod z t + (zoff z t - zoff z e)) * NS - nsec t /\
  e + SECOND - t <= DAY + 2 * B * NS.
Proof. intros B D z t H. exact (dst_end_of_day B D z t (zone_okb_ok B D z H)). Qed.
Print Assumptions C19_dst_end_of_day.

Example C19_dst_day_example :   (* New_York 2024-03-10 12:00 EDT (a 23-hour day): 00:00 EST = 05:00 UTC .. 23:59:59 EDT = 03:59:59 UTC *)
  let t := 1710086400 * NS in
  z_date_of ny_table t = (2024, 3, 10) /\ z_lday ny_table t = 19792 /\ midnight_regular ny_table 19792 = true /\
  wall_regular ny_table (19792 * DAY_S + 86399) = true /\
  z_get_start_of_day ny_table t = 1710046800 * NS /\ z_get_end_of_day ny_table t = 1710129599 * NS /\
  z_get_end_of_day ny_table t + SECOND - z_get_start_of_day ny_table t = 23 * HOUR /\
  (* Havana 2024-03-10 has no 00:00:00 (DST starts at local midnight): the hypothesis fails, GetStartOfDay returns 23:00 of March 9th *)
  midnight_regular havana_table 19792 = false /\
  z_date_of havana_table (z_get_start_of_day havana_table (1710088200 * NS)) = (2024, 3, 9).
Proof. vm_compute. intuition reflexivity. Qed.

(* ---- (d) same day / same week / same month over a table.  IsSameDay compares GetStartOfDay of the two instants,
   IsSameWeek the Monday-based GetStartOfWeek, IsSameMonth (year, month): each is an equivalence relation for EVERY table
   (no hypothesis at all, not even sortedness), equal civil dates are always the same day, the same day is always the
   same week.  With regular midnights (zone_okb B D z, 2B <= D): same day = equal civil dates (midnights of both days
   regular: without the second one a day whose midnight was skipped can be "the same day" as the day time.Date moved
   that midnight into), = b inside [start of a's day, start of the NEXT civil day) (midnights of a's day and of the
   next day regular), and that civil day lasts 24 h minus the offset change in between (23 h / 25 h on transition days) *)
Theorem C19_dst_same_day_equivalence : forall z,
  ((forall a, z_is_same_day z a z a = true) /\
   (forall a b, z_is_same_day z a z b = z_is_same_day z b z a) /\
   (forall a b c, z_is_same_day z a z b = true -> z_is_same_day z b z c = true -> z_is_same_day z a z c = true)) /\
  ((forall a, z_is_same_week z a z a = true) /\
   (forall a b, z_is_same_week z a z b = z_is_same_week z b z a) /\
   (forall a b c, z_is_same_week z a z b = true -> z_is_same_week z b z c = true -> z_is_same_week z a z c = true)) /\
  ((forall a, z_is_same_month z a z a = true) /\
   (forall a b, z_is_same_month z a z b = z_is_same_month z b z a) /\
   (forall a b c, z_is_same_month z a z b = true -> z_is_same_month z b z c = true -> z_is_same_month z a z c = true)) /\
  (forall a b, z_is_same_day z a z b = true <-> z_get_start_of_day z a = z_get_start_of_day z b) /\
  (forall a b, z_date_of z a = z_date_of z b -> z_is_same_day z a z b = true) /\
  (forall a b, z_is_same_day z a z b = true -> z_is_same_week z a z b = true) /\
  (forall a b, z_is_same_month z a z b = true <-> z_year_of z a = z_year_of z b /\ z_month_of z a = z_month_of z b) /\
  (forall a b, z_date_of z a = z_date_of z b -> z_is_same_month z a z b = true) /\
  (forall B D, zone_okb B D z = true -> 2 * B <= D ->
     (forall a b, midnight_regular z (z_lday z a) = true -> midnight_regular z (z_lday z b) = true ->
        (z_is_same_day z a z b = true <-> z_date_of z a = z_date_of z b)) /\
     (forall a, midnight_regular z (z_lday z a) = true -> midnight_regular z (z_lday z a + 1) = true ->
        let s := z_get_start_of_day z a in
        let e := z_midnight z (z_lday z a + 1) in
        (forall b, z_date_of z a = z_date_of z b <-> s <= b < e) /\
        (forall b, midnight_regular z (z_lday z b) = true -> (z_is_same_day z a z b = true <-> s <= b < e)) /\
        e - s = (DAY_S - (zoff z e - zoff z s)) * NS /\ DAY - 2 * B * NS <= e - s <= DAY + 2 * B * NS)).
Proof. exact dst_same_day_ok. Qed.
Print Assumptions C19_dst_same_day_equivalence.

Example C19_dst_same_day_example :   (* New_York 2024-03-10 (23 h): 00:00 EST = 05:00 UTC .. 2024-03-11 00:00 EDT = 04:00 UTC *)
  let a := 1710086400 * NS in          (* 2024-03-10 12:00 EDT *)
  midnight_regular ny_table (z_lday ny_table a) = true /\ midnight_regular ny_table (z_lday ny_table a + 1) = true /\
  z_midnight ny_table (z_lday ny_table a + 1) - z_get_start_of_day ny_table a = 23 * HOUR /\
  z_is_same_day ny_table a ny_table (1710046800 * NS) = true /\            (* 00:00:00 EST *)
  z_is_same_day ny_table a ny_table (1710129600 * NS - 1) = true /\        (* 23:59:59.999999999 EDT *)
  z_is_same_day ny_table a ny_table (1710129600 * NS) = false /\           (* next midnight, only 23 h later *)
  z_is_same_day ny_table a ny_table (1710046800 * NS - 1) = false /\
  z_is_same_week ny_table a ny_table (1710129600 * NS) = false /\ z_is_same_month ny_table a ny_table (1710129600 * NS) = true /\
  (* Havana 2024-03-10 has no midnight: GetStartOfDay of that day is 23:00 of the 9th, not the 00:00 of the 9th, so even
     there the two days are not confused; the hypothesis midnight_regular fails *)
  midnight_regular havana_table 19792 = false /\
  z_is_same_day havana_table (1710088200 * NS) havana_table (1710000000 * NS) = false.
Proof. vm_compute. intuition reflexivity. Qed.

(* ---- (e) start / end of week over a table.  week_day X w = monday_of X + (w + 6) mod 7 is the civil day the
   fixed-offset computation aims at (weekday w of the Monday-based week of civil day X).  If local midnight of t's
   civil day and of that target day exist exactly once: the result IS on that civil day, has weekday w, reads
   00:00:00.0, is the exact boundary of that day (so it is <= t iff the target day is not after t's day), at the stated
   distance from t (below 7 x 24 h + 2B).  With Monday's midnight regular: Monday 00:00:00 <= t, less than
   7 x 24 h + 2B before t, r is (w+6) mod 7 civil days after it, and r's own week starts at the same Monday.  With
   23:59:59 of the target day regular: GetEndOfWeek is 23:59:59.0 of that civil day, and [r, e + 1 s) is exactly that day *)
Theorem C19_dst_start_of_week : forall B D z t w, zone_okb B D z = true -> 2 * B <= D -> 0 <= w <= 6 ->
  midnight_regular z (z_lday z t) = true ->
  midnight_regular z (week_day (z_lday z t) w) = true ->
  let r := z_get_start_of_week z t w in
  z_lday z r = week_day (z_lday z t) w /\
  z_weekday_of z r = w /\ z_clock_of z r = (0, 0, 0) /\ nsec r = 0 /\
  (forall x, r <= x <-> week_day (z_lday z t) w <= z_lday z x) /\
  (r <= t <-> week_day (z_lday z t) w <= z_lday z t) /\
  r - t = ((week_day (z_lday z t) w - z_lday z t) * DAY_S - z_sod z t - (zoff z r - zoff z t)) * NS - nsec t /\
  - (WEEK + 2 * B * NS) < r - t < WEEK + 2 * B * NS /\
  (midnight_regular z (monday_of (z_lday z t)) = true ->
     let mon := z_get_start_of_week z t 1 in
     z_lday z mon = monday_of (z_lday z t) /\ z_weekday_of z mon = 1 /\ z_clock_of z mon = (0, 0, 0) /\ nsec mon = 0 /\
     mon <= t /\ t - mon < WEEK + 2 * B * NS /\ mon <= r /\
     r - mon = (((w + 6) mod 7) * DAY_S - (zoff z r - zoff z mon)) * NS /\ r - mon < WEEK + 2 * B * NS /\
     z_get_start_of_week z r 1 = mon) /\
  (wall_regular z (week_day (z_lday z t) w * DAY_S + 86399) = true ->
     let e := z_get_end_of_week z t w in
     z_lday z e = week_day (z_lday z t) w /\ z_weekday_of z e = w /\ z_clock_of z e = (23, 59, 59) /\ nsec e = 0 /\
     e + SECOND - r = (DAY_S - (zoff z e - zoff z r)) * NS /\
     (forall x, r <= x < e + SECOND <-> z_lday z x = week_day (z_lday z t) w)).
Proof. intros B D z t w H. exact (dst_start_of_week B D z t w (zone_okb_ok B D z H)). Qed.
Print Assumptions C19_dst_start_of_week.

Example C19_dst_start_of_week_example :
  (* New_York, Sunday 2024-03-10 12:00 EDT (the transition day): Monday = 2024-03-04 00:00 EST, 6 d 11 h earlier (not
     6 d 12 h); the Sunday of that week is the transition day itself, 00:00 EST *)
  let t := 1710086400 * NS in
  z_lday ny_table t = 19792 /\ week_day 19792 1 = 19786 /\ week_day 19792 0 = 19792 /\
  midnight_regular ny_table 19792 = true /\ midnight_regular ny_table 19786 = true /\
  wall_regular ny_table (19792 * DAY_S + 86399) = true /\
  z_get_start_of_week ny_table t 1 = 1709528400 * NS /\ t - z_get_start_of_week ny_table t 1 = 6 * DAY + 11 * HOUR /\
  z_get_start_of_week ny_table t 0 = 1710046800 * NS /\ z_get_end_of_week ny_table t 0 = 1710129599 * NS /\
  z_get_end_of_week ny_table t 0 + SECOND - z_get_start_of_week ny_table t 1 = WEEK - HOUR.
Proof. vm_compute. intuition reflexivity. Qed.

(* ---- (f) relative week start over a table (the code REPAIRED by fixes/C19-dst-calendar-arithmetic.patch: AddDate(0,0,-7)
   and AddDate(0,0,7k) instead of 168-hour shifts; C19_dst_relative_week_168h_refuted below shows that the code as
   written violates the statement).  X = civil day of t; steps_back X w = the code first goes back a week (t's weekday,
   Sunday counted 7, is before the requested one); latest_weekday X w = the latest civil day <= X whose weekday is w.
   Hypotheses (decidable): when stepping back, t's wall clock a week earlier is regular; the midnights of the day the
   week computation starts from (X or X - 7), of the day latest_weekday X w and of the resulting day are regular.
   Then r0 (k = 0) is 00:00:00.0 of civil day latest_weekday X w — weekday w, at most 6 civil days before t's day,
   not after t, the exact boundary of that civil day, and (tomorrow's midnight regular) the LATEST instant not after t
   that reads weekday w 00:00:00.0; r is 00:00:00.0 exactly 7k CIVIL days later (weekday w), at 7k x 24 h minus the
   offset change; the relative end / time of week are 23:59:59.0 / t's own wall clock on that civil day when those
   wall clocks are regular there *)
Theorem C19_dst_relative_week_start : forall B D z t w k, zone_okb B D z = true -> 2 * B <= D -> 0 <= w <= 6 ->
  (steps_back (z_lday z t) w = true -> wall_regular z ((z_lday z t - 7) * DAY_S + z_sod z t) = true) ->
  midnight_regular z (rel_week_base (z_lday z t) w) = true ->
  midnight_regular z (latest_weekday (z_lday z t) w) = true ->
  midnight_regular z (latest_weekday (z_lday z t) w + 7 * k) = true ->
  let r := z_get_relative_start_of_week z t w k in
  let r0 := z_get_relative_start_of_week z t w 0 in
  z_lday z r0 = latest_weekday (z_lday z t) w /\
  z_weekday_of z r0 = w /\ z_clock_of z r0 = (0, 0, 0) /\ nsec r0 = 0 /\
  z_lday z r0 <= z_lday z t < z_lday z r0 + 7 /\ r0 <= t /\ t - r0 < WEEK + 2 * B * NS /\
  (forall x, r0 <= x <-> latest_weekday (z_lday z t) w <= z_lday z x) /\
  (midnight_regular z (z_lday z t + 1) = true ->
     forall x, z_weekday_of z x = w -> z_clock_of z x = (0, 0, 0) -> nsec x = 0 -> x <= t -> x <= r0) /\
  z_lday z r = z_lday z r0 + 7 * k /\
  z_weekday_of z r = w /\ z_clock_of z r = (0, 0, 0) /\ nsec r = 0 /\
  (forall x, r <= x <-> latest_weekday (z_lday z t) w + 7 * k <= z_lday z x) /\
  r - r0 = (7 * k * DAY_S - (zoff z r - zoff z r0)) * NS /\
  (wall_regular z ((latest_weekday (z_lday z t) w + 7 * k) * DAY_S + 86399) = true ->
     let e := z_get_relative_end_of_week z t w k in
     z_lday z e = z_lday z r /\ z_clock_of z e = (23, 59, 59) /\ nsec e = 0 /\
     e + SECOND - r = (DAY_S - (zoff z e - zoff z r)) * NS) /\
  (wall_regular z ((latest_weekday (z_lday z t) w + 7 * k) * DAY_S + z_sod z t) = true ->
     let rt := z_get_relative_time_of_week z t w k in
     z_lday z rt = z_lday z r /\ z_clock_of z rt = z_clock_of z t /\ nsec rt = nsec t).
Proof. intros B D z t w k H. exact (dst_relative_week_start B D z t w k (zone_okb_ok B D z H)). Qed.
Print Assumptions C19_dst_relative_week_start.

Example C19_dst_relative_week_start_example :
  (* the witness of C19_dst_relative_week_168h_refuted: New_York, Monday 2024-03-11 00:30 EDT, week starts on Tuesday:
     steps back to Monday 2024-03-04 00:30 EST (regular), answer Tuesday 2024-03-05 00:00 EST; k = 1: Tuesday 2024-03-12
     00:00 EDT, 167 h later *)
  let t := 1710131400 * NS in
  z_lday ny_table t = 19793 /\ steps_back 19793 2 = true /\ rel_week_base 19793 2 = 19786 /\ latest_weekday 19793 2 = 19787 /\
  wall_regular ny_table ((19793 - 7) * DAY_S + z_sod ny_table t) = true /\ midnight_regular ny_table 19786 = true /\
  midnight_regular ny_table 19787 = true /\ midnight_regular ny_table (19787 + 7 * 1) = true /\
  midnight_regular ny_table (19793 + 1) = true /\
  z_get_relative_start_of_week ny_table t 2 0 = 1709614800 * NS /\
  z_get_relative_start_of_week ny_table t 2 1 - z_get_relative_start_of_week ny_table t 2 0 = WEEK - HOUR /\
  (* Sunday 2024-03-10 12:00 EDT, week starts on Sunday: the transition day itself, 00:00 EST; k = -1: 2024-03-03 *)
  steps_back 19792 0 = false /\ latest_weekday 19792 0 = 19792 /\ midnight_regular ny_table 19792 = true /\
  z_get_relative_start_of_week ny_table (1710086400 * NS) 0 0 = 1710046800 * NS /\
  z_date_of ny_table (z_get_relative_start_of_week ny_table (1710086400 * NS) 0 (-1)) = (2024, 3, 3).
Proof. vm_compute. intuition reflexivity. Qed.

(* ---- (h) the week window over a table (REPAIRED form: end = start.AddDate(0,0,7); C19_dst_week_window_168h_refuted shows
   that start + 168 h can end before its anchor).  If the midnights of t's civil day, of its Monday and of the next
   Monday exist exactly once: the window contains its anchor, starts at Monday 00:00:00.0 of t's week, ends at the next
   Monday 00:00:00.0, is EXACTLY the set of instants whose civil day is one of those 7 days, lasts 7 x 24 h minus the
   offset change between its ends (167 h / 169 h in a week with a transition), and the window of its end starts there
   (consecutive windows tile the time line) *)
Theorem C19_dst_week_window_contains_anchor : forall B D z t, zone_okb B D z = true -> 2 * B <= D ->
  midnight_regular z (z_lday z t) = true ->
  midnight_regular z (monday_of (z_lday z t)) = true ->
  midnight_regular z (monday_of (z_lday z t) + 7) = true ->
  let p := z_new_period_window_week z t in
  pstart p <= t < pend p /\
  pstart p = z_get_start_of_week z t 1 /\
  z_lday z (pstart p) = monday_of (z_lday z t) /\ z_weekday_of z (pstart p) = 1 /\
  z_clock_of z (pstart p) = (0, 0, 0) /\ nsec (pstart p) = 0 /\
  z_lday z (pend p) = z_lday z (pstart p) + 7 /\ z_weekday_of z (pend p) = 1 /\
  z_clock_of z (pend p) = (0, 0, 0) /\ nsec (pend p) = 0 /\
  (forall x, pstart p <= x < pend p <-> monday_of (z_lday z t) <= z_lday z x < monday_of (z_lday z t) + 7) /\
  pend p - pstart p = (7 * DAY_S - (zoff z (pend p) - zoff z (pstart p))) * NS /\
  WEEK - 2 * B * NS <= pend p - pstart p <= WEEK + 2 * B * NS /\
  pstart (z_new_period_window_week z (pend p)) = pend p.
Proof. intros B D z t H. exact (dst_week_window B D z t (zone_okb_ok B D z H)). Qed.
Print Assumptions C19_dst_week_window_contains_anchor.

Example C19_dst_week_window_example :
  (* Berlin, Sunday 2024-03-31 12:00 CEST (the transition day): [Monday 03-25 00:00 CET, Monday 04-01 00:00 CEST), 167 h;
     New_York, the anchor of C19_dst_week_window_168h_refuted (Sunday 2024-11-03 23:30 EST): a window of 169 h *)
  let t := 1711879200 * NS in
  z_lday berlin_table t = 19813 /\ monday_of 19813 = 19807 /\
  midnight_regular berlin_table 19813 = true /\ midnight_regular berlin_table 19807 = true /\
  midnight_regular berlin_table (19807 + 7) = true /\
  z_new_period_window_week berlin_table t = (1711321200 * NS, 1711922400 * NS) /\
  1711922400 * NS - 1711321200 * NS = WEEK - HOUR /\
  (let p := z_new_period_window_week ny_table (1730694600 * NS) in
   midnight_regular ny_table (z_lday ny_table (1730694600 * NS)) = true /\
   midnight_regular ny_table (monday_of (z_lday ny_table (1730694600 * NS))) = true /\
   midnight_regular ny_table (monday_of (z_lday ny_table (1730694600 * NS)) + 7) = true /\
   pend p - pstart p = WEEK + HOUR).
Proof. vm_compute. intuition reflexivity. Qed.

(* ---- (i) next moment over a table (REPAIRED form: tomorrow's moment rebuilt with time.Date(day + 1); instant and time.Local
   in the same zone).  q = h:m:s as second of the day, X = civil day of t, Y = next_moment_day z t q = the civil day the
   helper lands on (X + 1 iff today's h:m:s, as time.Date resolves it, is not after t).
   Hypotheses: h:m:s is regular today (on X) and on the landing day Y.  Then the result is strictly after t, on civil
   day Y (today or tomorrow), reads h:m:s.0, at the stated distance (at most 24 h + 2B), is the exact boundary "wall
   clock >= Y h:m:s", and — when h:m:s is also regular on day Y - 1 (yesterday if the result is today's, else already
   assumed) — no instant in (t, r) reads h:m:s.0.
   EXCLUDED, precisely: (1) today's h:m:s in a gap or repeated interval of the table (the comparison with now is then
   made against what time.Date substitutes; C19_dst_next_moment_adddate_refuted is about that case); (2) the landing
   day's h:m:s in a gap: the open finding C19-next-moment-in-a-midnight-gap — when tomorrow's h:m:s is skipped and
   time.Date resolves it backwards across midnight the result is in the PAST (Example below, Havana); (3) for minimality,
   yesterday's h:m:s shown twice with the second showing after t. *)
Theorem C19_dst_next_moment : forall B D z t h m s, zone_okb B D z = true -> 2 * B <= D ->
  0 <= h < 24 -> 0 <= m < 60 -> 0 <= s < 60 ->
  let q := h * 3600 + m * 60 + s in
  let Y := next_moment_day z t q in
  wall_regular z (z_lday z t * DAY_S + q) = true ->
  wall_regular z (Y * DAY_S + q) = true ->
  let r := z_get_next_moment z z t h m s in
  t < r /\ z_lday z r = Y /\ z_lday z t <= Y <= z_lday z t + 1 /\ z_clock_of z r = (h, m, s) /\ nsec r = 0 /\
  r - t = ((Y - z_lday z t) * DAY_S + q - z_sod z t - (zoff z r - zoff z t)) * NS - nsec t /\
  r - t <= DAY + 2 * B * NS /\
  (forall x, r <= x <-> Y * DAY_S + q <= z_lday z x * DAY_S + z_sod z x) /\
  (wall_regular z ((Y - 1) * DAY_S + q) = true ->
     forall x, t < x -> z_clock_of z x = (h, m, s) -> nsec x = 0 -> r <= x) /\
  (z_is_moment_passed z z t h m s = true -> Y = z_lday z t + 1) /\
  (Y = z_lday z t <-> t < z_wall_inst z (z_lday z t) q) /\
  z_is_moment_future z z t h m s = negb (z_is_moment_passed z z t h m s).
Proof. intros B D z t h m s H. exact (dst_next_moment B D z t h m s (zone_okb_ok B D z H)). Qed.
Print Assumptions C19_dst_next_moment.

Example C19_dst_next_moment_example :
  (* New_York 2024-03-10 01:00 EST, 03:00:00 asked: regular on the transition day (it is the instant of the transition),
     one hour away, not two *)
  let t := 1710050400 * NS in
  z_lday ny_table t = 19792 /\ next_moment_day ny_table t 10800 = 19792 /\
  wall_regular ny_table (19792 * DAY_S + 10800) = true /\ wall_regular ny_table ((19792 - 1) * DAY_S + 10800) = true /\
  z_get_next_moment ny_table ny_table t 3 0 0 = t + HOUR /\
  (* 2024-03-09 12:00 EST, 03:30:00 asked: today's has passed, tomorrow's (the transition day) is regular: 14.5 h away *)
  (let t2 := 1710003600 * NS in
   next_moment_day ny_table t2 12600 = 19792 /\ wall_regular ny_table (19791 * DAY_S + 12600) = true /\
   wall_regular ny_table (19792 * DAY_S + 12600) = true /\
   z_get_next_moment ny_table ny_table t2 3 30 0 - t2 = 14 * HOUR + 30 * MINUTE) /\
  (* excluded: Havana 2024-03-09 23:56:40 CST, 00:12:32 asked: tomorrow's 00:12:32 is in the gap at local midnight, the
     hypothesis on the landing day fails and the result is 23:12:32 of TODAY, before now (C19-next-moment-in-a-midnight-gap) *)
  (let t3 := 1710046600 * NS in
   next_moment_day havana_table t3 752 = 19792 /\ wall_regular havana_table (19792 * DAY_S + 752) = false /\
   z_get_next_moment havana_table havana_table t3 0 12 32 = 1710043952 * NS /\
   z_clock_of havana_table (1710043952 * NS) = (23, 12, 32) /\ (1710043952 * NS <? t3) = true).
Proof. vm_compute. intuition reflexivity. Qed.

(* ---- (g) the code AS WRITTEN before fixes/C19-dst-calendar-arithmetic.patch (168-hour weeks, AddDate applied to a
   moment that time.Date moved out of a gap) violates the property on the New_York table: the three defects of
   docs/C19-NOTES.md, now visible inside Coq (in fixed-offset zones the two forms are equal:
   C19_fixed_offset_week_arithmetic) *)
Theorem C19_dst_relative_week_168h_refuted :
  exists z t w k, zone_okb 64800 129600 z = true /\ 0 <= w <= 6 /\
    (* now = Monday 2024-03-11 00:30 EDT, week starts on Tuesday: the code as written answers Tuesday 2024-02-27, the
       latest Tuesday 00:00 not after now is 2024-03-05 (and the repaired code returns it) *)
    z_date_of z (z_get_relative_start_of_week_168h z t w k) = (2024, 2, 27) /\
    z_date_of z (z_get_relative_start_of_week z t w k) = (2024, 3, 5) /\
    z_weekday_of z (z_get_relative_start_of_week z t w k) = w /\ z_get_relative_start_of_week z t w k <= t /\
    z_get_relative_start_of_week_168h z t w k < z_get_relative_start_of_week z t w k.
Proof. exact relative_week_168h_refuted. Qed.
Print Assumptions C19_dst_relative_week_168h_refuted.

Theorem C19_dst_week_window_168h_refuted :
  exists z t, zone_okb 64800 129600 z = true /\
    (* anchor Sunday 2024-11-03 23:30 EST, a week of 169 h: the window of the code as written ends at 23:00 EST, before
       its anchor; the repaired window contains it *)
    ~ (pstart (z_new_period_window_week_168h z t) <= t < pend (z_new_period_window_week_168h z t)) /\
    pstart (z_new_period_window_week z t) <= t < pend (z_new_period_window_week z t).
Proof. exact week_window_168h_refuted. Qed.
Print Assumptions C19_dst_week_window_168h_refuted.

Theorem C19_dst_next_moment_adddate_refuted :
  exists z t h m s, zone_okb 64800 129600 z = true /\ 0 <= h < 24 /\ 0 <= m < 60 /\ 0 <= s < 60 /\
    (* now = 2024-03-10 04:00 EDT, 02:30:00 asked: today's 02:30 does not exist and time.Date moved it to 01:30; the
       code as written adds a day to THAT and answers 2024-03-11 01:30, the repaired code 2024-03-11 02:30 *)
    z_clock_of z (z_get_next_moment_adddate z z t h m s) = (1, 30, 0) /\
    z_clock_of z (z_get_next_moment z z t h m s) = (h, m, s) /\
    z_date_of z (z_get_next_moment z z t h m s) = z_date_of z (z_get_next_moment_adddate z z t h m s).
Proof. exact next_moment_adddate_refuted. Qed.
Print Assumptions C19_dst_next_moment_adddate_refuted.
