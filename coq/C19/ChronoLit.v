(* MV.C19.ChronoLit — decoder of large integer literals in the generated case files.
   Elaborating a binary Z literal costs ~20 us per bit (1 ms for a 61-bit instant), a primitive-integer literal
   nothing, so the harness writes large integers as two primitive limbs: W hi lo = (hi - 2^20) * 2^62 + lo.
   Primitive integers are used for this decoding only (imported by the generated shards, not by the model, the
   evaluators or any theorem). *)
From Coq Require Import ZArith.
From Coq Require Export Uint63.
Open Scope Z_scope.

Definition W (hi lo : int) : Z := Z.shiftl (Uint63.to_Z hi - 1048576) 62 + Uint63.to_Z lo.
