(* MV.C19.CivilProofs — the day-count algorithms of ChronoModel are the proleptic Gregorian calendar:
   both round trips for ALL day numbers / all valid dates, and the successor characterisation.

   Method.  The algorithms split a day number into (era, day-of-era) and a year into (era, year-of-era); that part
   is arithmetic (lia).  Inside an era the year-of-era formula  yoe_of doe = (doe - doe/1460 + doe/36524 -
   doe/146096) / 365  is monotone (lia), and a complete sweep of the 400 years of an era (vm_compute, all_below)
   shows that it returns y at the first and at the last day of year y and that consecutive years are adjacent; so it
   returns y exactly on the days of year y.  Months inside a year: (5*doy+2)/153 and (153*mp+2)/5 are inverse on the
   month table (lia).  The successor rule for month ends is a sweep over the 4800 months of an era + periodicity. *)
From Coq Require Import ZArith List Bool Lia.
From MV Require Import C19.ChronoModel.
Open Scope Z_scope.

Ltac Zify.zify_post_hook ::= Z.div_mod_to_equations.

(* ------------------------------------------------------------------ complete sweeps of a finite range *)
Fixpoint all_from (n : nat) (z : Z) (f : Z -> bool) : bool :=
  match n with
  | O => true
  | S k => f z && all_from k (z + 1) f
  end.
Definition all_below (n : nat) (f : Z -> bool) : bool := all_from n 0 f.

Lemma all_from_spec : forall n z0 f, all_from n z0 f = true ->
  forall z, z0 <= z < z0 + Z.of_nat n -> f z = true.
Proof.
  induction n as [|k IH]; intros z0 f H z Hz.
  - simpl in Hz. lia.
  - cbn [all_from] in H. apply andb_true_iff in H. destruct H as [H1 H2].
    destruct (Z.eq_dec z z0) as [->|Hne]; [exact H1|].
    apply (IH (z0 + 1) f H2). lia.
Qed.

Lemma all_below_spec : forall n f, all_below n f = true ->
  forall z, 0 <= z < Z.of_nat n -> f z = true.
Proof. intros n f H z Hz. apply (all_from_spec n 0 f H). lia. Qed.

(* ------------------------------------------------------------------ years inside an era *)
Definition g (y : Z) : Z := 365 * y + y / 4 - y / 100.      (* days of the era before (March-based) year y *)
Definition yoe_of (doe : Z) : Z := (doe - doe / 1460 + doe / 36524 - doe / 146096) / 365.
(* 1 if the (March-based) year y of the era ends with a February 29th *)
Definition lnext (y : Z) : Z :=
  if ((y + 1) mod 4 =? 0) && (negb ((y + 1) mod 100 =? 0) || (y =? 399)) then 1 else 0.

Lemma yoe_mono : forall a b, 0 <= a <= b -> b < 146097 -> yoe_of a <= yoe_of b.
Proof.
  intros a b H1 H2. unfold yoe_of.
  assert (a - a / 1460 + a / 36524 - a / 146096 <= b - b / 1460 + b / 36524 - b / 146096) by lia.
  lia.
Qed.

Definition check_year (y : Z) : bool :=
  (yoe_of (g y) =? y) && (yoe_of (g y + 364 + lnext y) =? y) &&
  (if y =? 399 then g y + 365 + lnext y =? 146097 else g (y + 1) =? g y + 365 + lnext y).

Lemma sweep_years : all_below (Z.to_nat 400) check_year = true.
Proof. vm_cast_no_check (eq_refl true). Qed.

Lemma year_facts : forall y, 0 <= y <= 399 ->
  yoe_of (g y) = y /\ yoe_of (g y + 364 + lnext y) = y /\
  (y = 399 -> g y + 365 + lnext y = 146097) /\ (y < 399 -> g (y + 1) = g y + 365 + lnext y).
Proof.
  intros y Hy.
  assert (Hi : 0 <= y < Z.of_nat (Z.to_nat 400)) by (rewrite Z2Nat.id; lia).
  pose proof (all_below_spec _ _ sweep_years y Hi) as Hc. unfold check_year in Hc.
  apply andb_true_iff in Hc. destruct Hc as [Hc H3]. apply andb_true_iff in Hc. destruct Hc as [H1 H2].
  apply Z.eqb_eq in H1, H2.
  destruct (Z.eqb_spec y 399) as [E|E]; apply Z.eqb_eq in H3; repeat split; auto; lia.
Qed.

Lemma lnext_range : forall y, 0 <= lnext y <= 1.
Proof. intro y. unfold lnext. destruct (_ && _); lia. Qed.

Lemma g_bound : forall y, 0 <= y <= 399 -> 0 <= g y <= 145731.
Proof. intros y Hy. unfold g. lia. Qed.

(* every day of the era lies in the year that the formula returns *)
Lemma year_of_doe : forall doe, 0 <= doe < 146097 ->
  let y := yoe_of doe in 0 <= y <= 399 /\ g y <= doe <= g y + 364 + lnext y.
Proof.
  intros doe Hd. cbv zeta.
  assert (Y0 : yoe_of 0 = 0) by reflexivity.
  assert (Y1 : yoe_of 146096 = 399) by reflexivity.
  pose proof (yoe_mono 0 doe ltac:(lia) ltac:(lia)) as L0.
  pose proof (yoe_mono doe 146096 ltac:(lia) ltac:(lia)) as L1.
  set (y := yoe_of doe) in *.
  assert (Hy : 0 <= y <= 399) by lia.
  split; [exact Hy|].
  destruct (year_facts y Hy) as [E1 [E2 [E3 E4]]].
  pose proof (lnext_range y) as LR. pose proof (g_bound y Hy) as GB.
  split.
  - (* doe < g y would put doe in an earlier year *)
    destruct (Z.le_gt_cases (g y) doe) as [H|H]; [exact H|exfalso].
    assert (Hy1 : 0 <= y - 1 <= 399).
    { assert (g 0 = 0) by reflexivity. destruct (Z.eq_dec y 0) as [E0|]; [rewrite E0 in H; lia | lia]. }
    destruct (year_facts (y - 1) Hy1) as [_ [F2 [_ F4]]].
    replace (y - 1 + 1) with y in F4 by lia. specialize (F4 ltac:(lia)).
    pose proof (lnext_range (y - 1)).
    pose proof (yoe_mono doe (g (y - 1) + 364 + lnext (y - 1)) ltac:(lia) ltac:(lia)) as M.
    fold y in M. lia.
  - destruct (Z.le_gt_cases doe (g y + 364 + lnext y)) as [H|H]; [exact H|exfalso].
    destruct (Z.eq_dec y 399) as [E|E]; [specialize (E3 E); lia|].
    specialize (E4 ltac:(lia)).
    assert (Hy1 : 0 <= y + 1 <= 399) by lia.
    destruct (year_facts (y + 1) Hy1) as [F1 _].
    pose proof (yoe_mono (g (y + 1)) doe ltac:(lia) ltac:(lia)) as M.
    fold y in M. lia.
Qed.

(* conversely every day of year y is mapped to y *)
Lemma doe_of_year : forall y doy, 0 <= y <= 399 -> 0 <= doy <= 364 + lnext y ->
  yoe_of (g y + doy) = y /\ 0 <= g y + doy < 146097.
Proof.
  intros y doy Hy Hd.
  destruct (year_facts y Hy) as [E1 [E2 [E3 E4]]].
  pose proof (lnext_range y) as LR. pose proof (g_bound y Hy) as GB.
  assert (LAST : g y + 364 + lnext y < 146097).
  { destruct (Z.eq_dec y 399) as [E|E]; [specialize (E3 E); lia|].
    specialize (E4 ltac:(lia)). pose proof (g_bound (y + 1) ltac:(lia)). lia. }
  split; [|lia].
  pose proof (yoe_mono (g y) (g y + doy) ltac:(lia) ltac:(lia)) as M1.
  pose proof (yoe_mono (g y + doy) (g y + 364 + lnext y) ltac:(lia) ltac:(lia)) as M2.
  lia.
Qed.

(* ------------------------------------------------------------------ months inside a (March-based) year *)
Definition mstart (mp : Z) : Z := (153 * mp + 2) / 5.     (* day of year on which month mp (0 = March) starts *)

Lemma month_of_doy : forall doy, 0 <= doy <= 365 ->
  let mp := (5 * doy + 2) / 153 in
  0 <= mp <= 11 /\ mstart mp <= doy /\ (mp < 11 -> doy < mstart (mp + 1)).
Proof. intros doy H. cbv zeta. unfold mstart. lia. Qed.

Lemma doy_of_month : forall mp d, 0 <= mp <= 11 -> 1 <= d ->
  (mp < 11 -> mstart mp + d - 1 < mstart (mp + 1)) -> (mp = 11 -> d <= 29) ->
  (5 * (mstart mp + d - 1) + 2) / 153 = mp.
Proof. intros mp d H1 H2. unfold mstart. lia. Qed.

(* civil month number of the March-based month index *)
Definition month_of_mp (mp : Z) : Z := if mp <? 10 then mp + 3 else mp - 9.

Lemma month_len : forall y mp, 0 <= mp <= 10 ->
  mstart (mp + 1) - mstart mp = days_in_month y (month_of_mp mp).
Proof.
  intros y mp H.
  assert (C : mp = 0 \/ mp = 1 \/ mp = 2 \/ mp = 3 \/ mp = 4 \/ mp = 5 \/ mp = 6 \/ mp = 7 \/ mp = 8 \/ mp = 9 \/ mp = 10) by lia.
  repeat (destruct C as [->|C]); try subst mp; reflexivity.
Qed.

Lemma mp_of_month : forall m, 1 <= m <= 12 ->
  0 <= (m + 9) mod 12 <= 11 /\ month_of_mp ((m + 9) mod 12) = m /\ ((m <=? 2) = negb ((m + 9) mod 12 <? 10)).
Proof.
  intros m H.
  assert (C : m = 1 \/ m = 2 \/ m = 3 \/ m = 4 \/ m = 5 \/ m = 6 \/ m = 7 \/ m = 8 \/ m = 9 \/ m = 10 \/ m = 11 \/ m = 12) by lia.
  repeat (destruct C as [->|C]); try subst m; cbn; lia.
Qed.

(* leap status of the civil year that contains the February of March-based year (era, yoe) *)
Lemma lnext_leap : forall yoe era, 0 <= yoe <= 399 ->
  (if is_leap (yoe + era * 400 + 1) then 1 else 0) = lnext yoe.
Proof.
  intros yoe era H. unfold is_leap, lnext.
  replace ((yoe + era * 400 + 1) mod 4) with ((yoe + 1) mod 4) by lia.
  replace ((yoe + era * 400 + 1) mod 100) with ((yoe + 1) mod 100) by lia.
  destruct (Z.eqb_spec ((yoe + era * 400 + 1) mod 400) 0) as [E4|E4];
  destruct (Z.eqb_spec yoe 399) as [E|E]; try lia;
  destruct (Z.eqb_spec ((yoe + 1) mod 4) 0); destruct (Z.eqb_spec ((yoe + 1) mod 100) 0); cbn; lia.
Qed.

(* ------------------------------------------------------------------ round trip 1: days -> civil -> days *)
Theorem civil_from_days_spec : forall n,
  let '(y, m, d) := civil_from_days n in valid_date y m d /\ days_from_civil y m d = n.
Proof.
  intro n. unfold civil_from_days, civil_of_doe.
  set (z := n + 719468). set (era := z / 146097). set (doe := z - era * 146097).
  assert (Hdoe : 0 <= doe < 146097) by (unfold doe, era; lia).
  pose proof (year_of_doe doe Hdoe) as YD. cbv zeta in YD. fold (yoe_of doe).
  set (yoe := yoe_of doe) in *. destruct YD as [Hy [G1 G2]].
  pose proof (lnext_range yoe) as LR.
  fold (g yoe). set (doy := doe - g yoe).
  assert (Hdoy : 0 <= doy <= 365) by (unfold doy; lia).
  pose proof (month_of_doy doy Hdoy) as MD. cbv zeta in MD.
  set (mp := (5 * doy + 2) / 153) in *. destruct MD as [Hmp [M1 M2]].
  fold (mstart mp). fold (month_of_mp mp).
  set (d := doy - mstart mp + 1).
  assert (Hm : 1 <= month_of_mp mp <= 12) by (unfold month_of_mp; destruct (Z.ltb_spec mp 10); lia).
  assert (MP : (month_of_mp mp + 9) mod 12 = mp) by (unfold month_of_mp; destruct (Z.ltb_spec mp 10); lia).
  assert (LE2 : (month_of_mp mp <=? 2) = negb (mp <? 10)).
  { unfold month_of_mp. destruct (Z.ltb_spec mp 10); destruct (Z.leb_spec (mp + 3) 2); destruct (Z.leb_spec (mp - 9) 2); cbn; lia. }
  set (Y := yoe + era * 400).
  split.
  - (* the date is valid *)
    unfold valid_date. split; [exact Hm|]. split; [unfold d; lia|].
    destruct (Z.eq_dec mp 11) as [E11|N11].
    + (* February: its length follows the leap status of the civil year Y + 1 *)
      assert (D11 : mstart mp = 337) by (rewrite E11; reflexivity).
      rewrite LE2. rewrite E11. cbn [Z.ltb Z.compare negb].
      unfold month_of_mp. cbn. unfold days_in_month. cbn.
      pose proof (lnext_leap yoe era Hy) as LL. fold Y in LL.
      destruct (is_leap (Y + 1)); unfold d, doy; lia.
    + rewrite <- (month_len _ mp) by lia. specialize (M2 ltac:(lia)). unfold d. lia.
  - (* and counts back to n *)
    unfold days_from_civil. rewrite LE2.
    assert (EY : (if negb (mp <? 10) then (if negb (mp <? 10) then Y + 1 else Y) - 1 else (if negb (mp <? 10) then Y + 1 else Y)) = Y)
      by (destruct (mp <? 10); cbn; lia).
    rewrite EY.
    replace (Y / 400) with era by (unfold Y; lia).
    replace (Y - era * 400) with yoe by (unfold Y; lia).
    unfold doe_of. rewrite MP. fold (mstart mp).
    unfold d, doy, doe, z, g. lia.
Qed.

(* ------------------------------------------------------------------ round trip 2: civil -> days -> civil *)
Theorem days_from_civil_inv : forall y m d, valid_date y m d ->
  civil_from_days (days_from_civil y m d) = (y, m, d).
Proof.
  intros y m d [Hm Hd].
  destruct (mp_of_month m Hm) as [Hmp [MM LE2]].
  set (mp := (m + 9) mod 12) in *.
  set (Y := if m <=? 2 then y - 1 else y).
  set (era := Y / 400). set (yoe := Y - era * 400).
  assert (Hy : 0 <= yoe <= 399) by (unfold yoe, era; lia).
  pose proof (lnext_range yoe) as LR.
  set (doy := mstart mp + d - 1).
  (* the day lies inside the month, hence inside the year *)
  assert (INM : (mp < 11 -> doy < mstart (mp + 1)) /\ (mp = 11 -> d <= 28 + lnext yoe)).
  { split.
    - intro L. rewrite <- MM in Hd. rewrite <- (month_len y mp) in Hd by lia. unfold doy. lia.
    - intro E. assert (M2 : m = 2) by (rewrite <- MM, E; reflexivity).
      rewrite M2 in Hd. unfold days_in_month in Hd. cbn in Hd.
      pose proof (lnext_leap yoe era Hy) as LL.
      replace (yoe + era * 400 + 1) with y in LL by (unfold yoe, Y; rewrite M2; cbn; lia).
      destruct (is_leap y); lia. }
  destruct INM as [IN1 IN2].
  assert (Hdoy : 0 <= doy <= 364 + lnext yoe).
  { unfold doy. assert (mstart mp >= 0) by (unfold mstart; lia).
    destruct (Z.eq_dec mp 11) as [E|N].
    - specialize (IN2 E). rewrite E. change (mstart 11) with 337. lia.
    - specialize (IN1 ltac:(lia)). assert (mstart (mp + 1) <= 337) by (unfold mstart; lia). unfold doy in IN1. lia. }
  destruct (doe_of_year yoe doy Hy Hdoy) as [YO DR].
  unfold days_from_civil. fold Y era yoe. unfold doe_of. fold mp. fold (mstart mp).
  replace (yoe * 365 + yoe / 4 - yoe / 100 + (mstart mp + d - 1)) with (g yoe + doy) by (unfold doy, g; lia).
  unfold civil_from_days.
  replace (era * 146097 + (g yoe + doy) - 719468 + 719468) with (era * 146097 + (g yoe + doy)) by lia.
  replace ((era * 146097 + (g yoe + doy)) / 146097) with era by lia.
  replace (era * 146097 + (g yoe + doy) - era * 146097) with (g yoe + doy) by lia.
  unfold civil_of_doe. fold (yoe_of (g yoe + doy)). rewrite YO. fold (g yoe).
  replace (g yoe + doy - g yoe) with doy by lia.
  assert (MPD : (5 * doy + 2) / 153 = mp).
  { unfold doy. apply doy_of_month; [lia | lia | exact IN1 | intro E; specialize (IN2 E); lia]. }
  rewrite MPD. fold (mstart mp). fold (month_of_mp mp). rewrite MM, LE2.
  f_equal; [f_equal|].
  - rewrite <- LE2. unfold yoe, Y. destruct (m <=? 2); lia.
  - unfold doy. lia.
Qed.

(* ------------------------------------------------------------------ periodicity (400 years = 146097 days) *)
Lemma is_leap_period : forall y k, is_leap (y + 400 * k) = is_leap y.
Proof.
  intros y k. unfold is_leap.
  replace ((y + 400 * k) mod 4) with (y mod 4) by lia.
  replace ((y + 400 * k) mod 100) with (y mod 100) by lia.
  replace ((y + 400 * k) mod 400) with (y mod 400) by lia.
  reflexivity.
Qed.

Lemma days_in_month_period : forall y k m, days_in_month (y + 400 * k) m = days_in_month y m.
Proof. intros. unfold days_in_month. rewrite is_leap_period. reflexivity. Qed.

Lemma days_from_civil_period : forall y k m d,
  days_from_civil (y + 400 * k) m d = days_from_civil y m d + 146097 * k.
Proof.
  intros y k m d. unfold days_from_civil.
  destruct (m <=? 2).
  - replace ((y + 400 * k - 1) / 400) with ((y - 1) / 400 + k) by lia.
    replace (y + 400 * k - 1 - ((y - 1) / 400 + k) * 400) with (y - 1 - (y - 1) / 400 * 400) by lia. lia.
  - replace ((y + 400 * k) / 400) with (y / 400 + k) by lia.
    replace (y + 400 * k - (y / 400 + k) * 400) with (y - y / 400 * 400) by lia. lia.
Qed.

(* ------------------------------------------------------------------ the successor characterisation *)
Lemma days_from_civil_day : forall y m d k, days_from_civil y m (d + k) = days_from_civil y m d + k.
Proof. intros. unfold days_from_civil, doe_of. lia. Qed.

Lemma days_from_civil_epoch : days_from_civil 1970 1 1 = 0.
Proof. vm_compute. reflexivity. Qed.

(* the first day of the next month follows the last day of this month: the 4800 months of one era *)
Definition check_month (i : Z) : bool :=
  let y := i / 12 in
  let m := i mod 12 + 1 in
  if m =? 12 then days_from_civil (y + 1) 1 1 =? days_from_civil y 12 31 + 1
  else days_from_civil y (m + 1) 1 =? days_from_civil y m (days_in_month y m) + 1.

Lemma sweep_month : all_below (Z.to_nat 4800) check_month = true.
Proof. vm_cast_no_check (eq_refl true). Qed.

Theorem days_from_civil_next_month : forall y m, 1 <= m <= 12 ->
  (m < 12 -> days_from_civil y (m + 1) 1 = days_from_civil y m (days_in_month y m) + 1) /\
  (m = 12 -> days_from_civil (y + 1) 1 1 = days_from_civil y 12 31 + 1).
Proof.
  intros y m Hm.
  set (k := y / 400). set (y0 := y mod 400).
  assert (Hy : y = y0 + 400 * k) by (unfold k, y0; lia).
  set (i := y0 * 12 + (m - 1)).
  assert (Hi : 0 <= i < Z.of_nat (Z.to_nat 4800)).
  { rewrite Z2Nat.id by lia. unfold i, y0. lia. }
  pose proof (all_below_spec _ _ sweep_month i Hi) as Hc.
  unfold check_month in Hc.
  assert (E1 : i / 12 = y0) by (unfold i, y0; lia).
  assert (E2 : i mod 12 + 1 = m) by (unfold i, y0; lia).
  rewrite E1, E2 in Hc.
  destruct (Z.eqb_spec m 12) as [E|E]; apply Z.eqb_eq in Hc.
  - split; [lia|]. intros _.
    replace (y + 1) with (y0 + 1 + 400 * k) by lia.
    rewrite Hy, !days_from_civil_period. lia.
  - split; [|lia]. intros _.
    rewrite Hy, !days_from_civil_period, days_in_month_period. lia.
Qed.

Lemma weekday_succ : forall n, weekday_of_days (n + 1) = (weekday_of_days n + 1) mod 7.
Proof. intro n. unfold weekday_of_days. lia. Qed.

Lemma days_from_civil_month_start_next : forall y m, 1 <= m <= 12 ->
  days_from_civil (if m =? 12 then y + 1 else y) (if m =? 12 then 1 else m + 1) 1
  = days_from_civil y m 1 + days_in_month y m.
Proof.
  intros y m Hm. destruct (days_from_civil_next_month y m Hm) as [H1 H2].
  destruct (Z.eqb_spec m 12) as [->|Hne].
  - rewrite H2 by reflexivity.
    replace 31 with (1 + 30) by lia. rewrite days_from_civil_day.
    unfold days_in_month. cbn. lia.
  - rewrite H1 by lia.
    replace (days_in_month y m) with (1 + (days_in_month y m - 1)) at 1 by lia.
    rewrite days_from_civil_day. lia.
Qed.
