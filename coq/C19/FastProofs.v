(* MV.C19.FastProofs — the fast evaluator used for the digest sweep (ChronoRun.sweep_fast) computes exactly
   the digest of the model's outputs (ChronoRun.sweep), for every zone, seed, day range and digest state. *)
From Coq Require Import ZArith List Bool Lia.
From MV Require Import Lib.ListX C19.ChronoModel C19.ChronoRun C19.CivilProofs C19.ChronoProofs.
Open Scope Z_scope.

Ltac Zify.zify_post_hook ::= Z.div_mod_to_equations.
Ltac consts := unfold SECOND, MINUTE, HOUR, DAY, WEEK, DAY_S in *; unfold NS in *.

Lemma dout_scalars : forall o st, dout st o = fold_left dscalar (scalars_of o) st.
Proof. intros [t|b|x|a e|y m d hh mi s wd|] st; reflexivity. Qed.

Lemma fold_dout_scalars : forall outs st,
  fold_left dout outs st = fold_left dscalar (flat_map scalars_of outs) st.
Proof.
  induction outs as [|o outs IH]; intro st; [reflexivity|].
  cbn [fold_left flat_map]. rewrite fold_left_app, <- dout_scalars. apply IH.
Qed.

Lemma div_eucl_eq : forall a b, Z.div_eucl a b = (a / b, a mod b).
Proof. intros. unfold Z.div, Z.modulo. destruct (Z.div_eucl a b). reflexivity. Qed.

(* unix seconds and nanoseconds of an instant given as a*NS + n *)
Lemma un_at : forall t a n, t = a * NS + n -> 0 <= n < NS -> unix t = a /\ nsec t = n.
Proof. intros t a n -> Hn. unfold unix, nsec. consts. lia. Qed.

Lemma gtb_inst : forall sec ns a, 0 <= ns < NS ->
  (sec * NS + ns >? a * NS) = (a <? sec) || ((a =? sec) && (0 <? ns)).
Proof.
  intros sec ns a Hn. consts.
  destruct (Z.gtb_spec (sec * 1000000000 + ns) (a * 1000000000));
  destruct (Z.ltb_spec a sec); destruct (Z.eqb_spec a sec); destruct (Z.ltb_spec 0 ns); cbn; lia.
Qed.

Theorem fast_inst_correct : forall z sec ns w k n h m s, 0 <= ns < NS -> 0 <= w <= 6 ->
  flat_map scalars_of (eval_inst z z (sec * NS + ns) w k n h m s) = fast_inst z sec ns w k n h m s.
Proof.
  intros z sec ns w k n h m s Hns Hw.
  set (t := sec * NS + ns).
  destruct (un_at t sec ns eq_refl Hns) as [Ut Nt].
  unfold fast_inst. rewrite div_eucl_eq.
  assert (LX : lday z t = (sec + z) / DAY_S) by (unfold lday, lsec; rewrite Ut; reflexivity).
  assert (SX : sod z t = (sec + z) mod DAY_S) by (unfold sod, lsec; rewrite Ut; reflexivity).
  set (X := (sec + z) / DAY_S) in *. set (r := (sec + z) mod DAY_S) in *.
  assert (SPLIT : sec + z = X * DAY_S + r /\ 0 <= r < DAY_S) by (unfold X, r; consts; lia).
  assert (DT : date_of z t = civil_from_days X) by (unfold date_of; rewrite LX; reflexivity).
  destruct (civil_from_days X) as [[y mo] d] eqn:CX.
  set (wd := weekday_of_days X).
  set (m0 := X * DAY_S - z).
  assert (MID : forall Y c, midnight z Y + c = ((Y * DAY_S - z) * NS + c)) by (intros; unfold midnight; ring).
  (* each output, as scalars *)
  assert (E1 : unix (get_start_of_day z t) = m0 /\ nsec (get_start_of_day z t) = 0).
  { apply un_at; [rewrite start_of_day_cf, LX; unfold midnight, m0; ring | consts; lia]. }
  assert (E2 : unix (get_end_of_day z t) = m0 + 86399 /\ nsec (get_end_of_day z t) = 0).
  { apply un_at; [rewrite end_of_day_cf, LX; unfold midnight, m0; consts; ring | consts; lia]. }
  assert (E3 : unix (get_relative_start_of_day z t n) = m0 + n * DAY_S /\ nsec (get_relative_start_of_day z t n) = 0).
  { apply un_at; [rewrite relative_start_of_day_cf, LX; unfold midnight, m0; ring | consts; lia]. }
  assert (E4 : unix (get_relative_end_of_day z t n) = m0 + n * DAY_S + 86399 /\ nsec (get_relative_end_of_day z t n) = 0).
  { apply un_at; [rewrite relative_end_of_day_cf, LX; unfold midnight, m0; consts; ring | consts; lia]. }
  set (sw := m0 + ((w + 6) mod 7 - (wd + 6) mod 7) * DAY_S).
  assert (SWD : X + week_delta (weekday_of_days X) w = X + ((w + 6) mod 7 - (wd + 6) mod 7)).
  { rewrite week_delta_spec by assumption. unfold monday_of. fold wd. lia. }
  assert (E5 : unix (get_start_of_week z t w) = sw /\ nsec (get_start_of_week z t w) = 0).
  { apply un_at; [rewrite start_of_week_cf, LX, SWD; unfold midnight, sw, m0; ring | consts; lia]. }
  assert (E6 : unix (get_end_of_week z t w) = sw + 86399 /\ nsec (get_end_of_week z t w) = 0).
  { apply un_at; [rewrite end_of_week_cf, LX, SWD; unfold midnight, sw, m0; consts; ring | consts; lia]. }
  set (lw := (7 * k - (wd - w) mod 7) * DAY_S).
  assert (LWD : latest_weekday X w + 7 * k = X + (7 * k - (wd - w) mod 7)).
  { unfold latest_weekday. fold wd. lia. }
  assert (E7 : unix (get_relative_start_of_week z t w k) = m0 + lw /\ nsec (get_relative_start_of_week z t w k) = 0).
  { apply un_at; [rewrite relative_start_of_week_cf, LX, LWD by assumption; unfold midnight, lw, m0; ring | consts; lia]. }
  assert (E8 : unix (get_relative_end_of_week z t w k) = m0 + lw + 86399 /\ nsec (get_relative_end_of_week z t w k) = 0).
  { apply un_at; [rewrite relative_end_of_week_cf, LX, LWD by assumption; unfold midnight, lw, m0; consts; ring | consts; lia]. }
  assert (E9 : unix (get_relative_time_of_week z t w k) = sec + lw /\ nsec (get_relative_time_of_week z t w k) = ns).
  { apply un_at; [|assumption]. rewrite relative_time_of_week_cf, LX by assumption.
    replace (latest_weekday X w + 7 * k - X) with (7 * k - (wd - w) mod 7) by lia.
    unfold t, lw. consts. ring. }
  set (q := h * 3600 + m * 60 + s).
  set (mom := m0 + q).
  assert (MOM : midnight z (lday z t) + q * NS = mom * NS) by (rewrite LX; unfold midnight, mom, m0; ring).
  assert (E10 : unix (get_next_moment z z t h m s) = (if mom <=? sec then mom + DAY_S else mom)
                /\ nsec (get_next_moment z z t h m s) = 0).
  { pose proof (next_moment_cf z t h m s) as CF. cbv zeta in CF. fold q in CF. rewrite MOM in CF. rewrite CF.
    replace (mom * NS <=? t) with (mom <=? sec).
    - destruct (mom <=? sec); apply un_at; try (consts; lia).
    - unfold t. consts. destruct (Z.leb_spec mom sec); destruct (Z.leb_spec (mom * 1000000000) (sec * 1000000000 + ns)); lia. }
  assert (E11 : is_moment_passed z z t h m s = (mom <? sec) || ((mom =? sec) && (0 <? ns))).
  { unfold is_moment_passed. rewrite DT.
    pose proof (date_of_spec z t y mo d DT) as [[Hmo _] Hn].
    rewrite go_date_valid by lia. rewrite Hn, LX. fold q. unfold after.
    replace ((X * DAY_S + q - z) * NS + 0) with (mom * NS) by (unfold mom, m0; ring).
    apply gtb_inst. assumption. }
  assert (E12 : is_moment_future z z t h m s = negb ((mom <? sec) || ((mom =? sec) && (0 <? ns)))).
  { unfold is_moment_future. rewrite E11. reflexivity. }
  assert (E13 : time_is_zero t = (sec =? ZERO_UNIX) && (ns =? 0)).
  { unfold time_is_zero, zero_time, t, ZERO_UNIX. consts.
    destruct (Z.eqb_spec (sec * 1000000000 + ns) (-62135596800 * 1000000000));
    destruct (Z.eqb_spec sec (-62135596800)); destruct (Z.eqb_spec ns 0); cbn; lia. }
  set (mon := m0 - (wd + 6) mod 7 * DAY_S).
  assert (E14 : let p := new_period_window_week z t in
                unix (fst p) = mon /\ nsec (fst p) = 0 /\ unix (snd p) = mon + 604800 /\ nsec (snd p) = 0).
  { cbv zeta. unfold new_period_window_week. cbn [fst snd]. rewrite add_days_cf, start_of_week_cf, LX.
    rewrite week_delta_spec by lia. replace ((1 + 6) mod 7) with 0 by reflexivity. rewrite Z.add_0_r.
    unfold monday_of. fold wd.
    destruct (un_at (midnight z (X - (wd + 6) mod 7)) mon 0) as [A1 A2];
      [unfold midnight, mon, m0; ring | consts; lia |].
    destruct (un_at (midnight z (X - (wd + 6) mod 7) + 7 * DAY) (mon + 604800) 0) as [A3 A4];
      [unfold midnight, mon, m0; consts; ring | consts; lia |].
    auto. }
  set (dz := m0 + n * DAY_S).
  assert (E15 : scalars_of (opair (new_period_with_day_zero z t n)) =
                if (dz <? sec) || ((dz =? sec) && (0 <? ns)) then [dz; 0; sec; ns] else [sec; ns; dz; 0]).
  { unfold new_period_with_day_zero. rewrite add_days_cf, start_of_day_cf, lday_add_days, LX.
    replace (midnight z (X + n)) with (dz * NS) by (unfold midnight, dz, m0; ring).
    unfold new_period, after. unfold t at 1. rewrite gtb_inst by assumption.
    destruct (un_at (dz * NS) dz 0) as [A1 A2]; [ring | consts; lia|].
    destruct ((dz <? sec) || ((dz =? sec) && (0 <? ns))); unfold opair; cbn [scalars_of fst snd];
      rewrite A1, A2, Ut, Nt; reflexivity. }
  set (dd := sec + n * DAY_S).
  assert (E16 : scalars_of (opair (new_period_with_day z t n)) =
                if dd <? sec then [dd; ns; sec; ns] else [sec; ns; dd; ns]).
  { unfold new_period_with_day. rewrite add_days_cf.
    destruct (un_at (t + n * DAY) dd ns) as [A1 A2]; [unfold t, dd; consts; ring | assumption |].
    unfold new_period, after.
    replace (t >? t + n * DAY) with (dd <? sec).
    - destruct (dd <? sec); unfold opair; cbn [scalars_of fst snd]; rewrite A1, A2, Ut, Nt; reflexivity.
    - unfold dd. consts. destruct (Z.ltb_spec (sec + n * 86400) sec);
        destruct (Z.gtb_spec t (t + n * (86400 * 1000000000))); lia. }
  (* assemble *)
  unfold eval_inst.
  cbn [flat_map]. unfold opair at 1.
  rewrite E15, E16, app_nil_r.
  cbn [scalars_of app].
  unfold year_of, month_of, day_of, hour_of, minute_of, second_of, weekday_of, get_month_days.
  rewrite DT, SX, LX. cbn [fst snd].
  destruct E1 as [-> ->]. destruct E2 as [-> ->]. destruct E3 as [-> ->]. destruct E4 as [-> ->].
  destruct E5 as [-> ->]. destruct E6 as [-> ->]. destruct E7 as [-> ->]. destruct E8 as [-> ->].
  destruct E9 as [-> ->]. destruct E10 as [-> ->]. rewrite E11, E12, E13.
  cbv zeta in E14. destruct E14 as [-> [-> [-> ->]]].
  fold wd m0 sw lw q mom mon dz dd.
  reflexivity.
Qed.

Lemma sweep_inst_fast_correct : forall z seed day j,
  flat_map scalars_of (sweep_inst z seed day j) = sweep_inst_fast z seed day j.
Proof.
  intros. unfold sweep_inst, sweep_inst_fast, T. apply fast_inst_correct.
  - unfold sweep_ns. destruct (j =? 4); consts; lia.
  - lia.
Qed.

Lemma sweep_day_fast_correct : forall z seed h day, sweep_day_fast z seed h day = sweep_day z seed h day.
Proof.
  intros. unfold sweep_day_fast, sweep_day. cbn [fold_left].
  rewrite !fold_dout_scalars, !sweep_inst_fast_correct. reflexivity.
Qed.

Theorem sweep_fast_correct : forall count z seed day h,
  sweep_fast z seed day count h = sweep z seed day count h.
Proof.
  induction count as [|c IH]; intros; cbn [sweep_fast sweep]; [reflexivity|].
  rewrite sweep_day_fast_correct. apply IH.
Qed.
