(* MV.C19.ZoneModel — zones as TRANSITION TABLES: the parts of Go's package time that read or build a wall clock in a
   Location with offset changes (Location.lookup, the zone part of time.Date, Year/Month/Day/Clock/Weekday, AddDate),
   and the helpers of /repo/toolkit/chrono/{moment.go,period.go} that read wall clocks, re-stated over such a table.

   A zone is [z_first] (UTC offset, seconds east, in force before the first transition) and [z_trans], the list of
   (UTC unix second at which an offset starts to apply, that offset), strictly increasing in the first component
   (Go: Location.tx / Location.zone, plus the pieces produced by the TZ "extend" rule; the harness extracts the list
   from package time with Time.ZoneBounds).  A table without transitions is a fixed-offset zone:
   ZoneProofs.zone_table_generalises_fixed_offset proves that every [z_] function below then equals the function
   of ChronoModel of the same name.

   Model only: Definitions/Fixpoints, no proofs.  Instants are nanoseconds since the Unix epoch as in ChronoModel. *)
From Coq Require Import ZArith List Bool.
From MV Require Import C19.ChronoModel.
Import ListNotations.
Open Scope Z_scope.

Record zone := { z_first : Z; z_trans : list (Z * Z) }.

(* time/zoneinfo.go: alpha = -1 << 63, omega = 1<<63 - 1: "the beginning / end of time" *)
Definition ALPHA : Z := -9223372036854775808.
Definition OMEGA : Z := 9223372036854775807.

(* Location.lookup(sec): (offset, start, end) of the piece of the table that contains sec.  Go finds the last
   transition with when <= sec by binary search over the sorted tx; the model scans the sorted list from the left,
   carrying the offset and start of the current piece (same result on a sorted table). *)
Fixpoint zscan (off start : Z) (tr : list (Z * Z)) (u : Z) : Z * Z * Z :=
  match tr with
  | [] => (off, start, OMEGA)
  | (w, o) :: rest => if u <? w then (off, start, w) else zscan o w rest u
  end.
Definition zlookup (z : zone) (u : Z) : Z * Z * Z := zscan (z_first z) ALPHA (z_trans z) u.
Definition off_at (z : zone) (u : Z) : Z := fst (fst (zlookup z u)).     (* offset in force at UTC second u *)

(* the zone part of time.Date (time.go, Go 1.23):
     _, offset, start, end, _ := loc.lookup(unix)
     if offset != 0 {
         utc := unix - int64(offset)
         if utc < start || utc >= end { _, offset, _, _, _ = loc.lookup(utc) }
         unix -= int64(offset)
     }
   [w] is the wall clock written as seconds since the epoch "as if UTC"; the result is a UTC second. *)
Definition resolve (z : zone) (w : Z) : Z :=
  let '(offset, start, end_) := zlookup z w in
  if offset =? 0 then w
  else
    let utc := w - offset in
    let offset := if (utc <? start) || (utc >=? end_) then off_at z utc else offset in
    w - offset.

(* time.Date(y, mo, d, h, mi, s, ns, loc): the civil part (norm steps, day count) is ChronoModel.go_date at offset 0,
   which yields abs * 1e9 + nsec with 0 <= nsec < 1e9; the zone part is [resolve] on abs. *)
Definition go_date_z (z : zone) (y mo d h mi s ns : Z) : Z :=
  let a := go_date 0 y mo d h mi s ns in
  resolve z (a / NS) * NS + a mod NS.

(* wall-clock readers: t.abs() = unix + offset with offset = lookup(unix) *)
Definition zoff (z : zone) (t : Z) : Z := off_at z (unix t).
Definition z_lday (z : zone) (t : Z) : Z := lday (zoff z t) t.
Definition z_sod (z : zone) (t : Z) : Z := sod (zoff z t) t.
Definition z_date_of (z : zone) (t : Z) : Z * Z * Z := date_of (zoff z t) t.
Definition z_year_of (z : zone) (t : Z) : Z := year_of (zoff z t) t.
Definition z_month_of (z : zone) (t : Z) : Z := month_of (zoff z t) t.
Definition z_day_of (z : zone) (t : Z) : Z := day_of (zoff z t) t.
Definition z_hour_of (z : zone) (t : Z) : Z := hour_of (zoff z t) t.
Definition z_minute_of (z : zone) (t : Z) : Z := minute_of (zoff z t) t.
Definition z_second_of (z : zone) (t : Z) : Z := second_of (zoff z t) t.
Definition z_clock_of (z : zone) (t : Z) : Z * Z * Z := clock_of (zoff z t) t.
Definition z_weekday_of (z : zone) (t : Z) : Z := weekday_of (zoff z t) t.

(* t.AddDate(years, months, days) = Date(year+years, month+months, day+days, hour, min, sec, nsec, t.Location()) *)
Definition z_add_date (z : zone) (t yy mm dd : Z) : Z :=
  let '(y, m, d) := z_date_of z t in
  let '(h, mi, s) := z_clock_of z t in
  go_date_z z (y + yy) (m + mm) (d + dd) h mi s (nsec t).

(* ------------------------------------------------------------------ moment.go over a table
   ([lz] = table of time.Local, [z] = table of the Location of the argument).  Repaired forms (see ChronoModel and
   docs/C19-NOTES.md "Repaired vs as written"); the as-written forms carry the suffix _168h / _adddate. *)
Definition z_get_next_moment (lz z : zone) (now h m s : Z) : Z :=
  let '(y, mo, d) := z_date_of z now in
  let moment := go_date_z lz y mo d h m s 0 in
  if after now moment || equal now moment then go_date_z lz y mo (d + 1) h m s 0 else moment.
Definition z_get_next_moment_adddate (lz z : zone) (now h m s : Z) : Z :=
  let '(y, mo, d) := z_date_of z now in
  let moment := go_date_z lz y mo d h m s 0 in
  if after now moment || equal now moment then z_add_date lz moment 0 0 1 else moment.
Definition z_is_moment_passed (lz z : zone) (now h m s : Z) : bool :=
  let '(y, mo, d) := z_date_of z now in
  after now (go_date_z lz y mo d h m s 0).
Definition z_is_moment_future (lz z : zone) (now h m s : Z) : bool := negb (z_is_moment_passed lz z now h m s).

Definition z_get_start_of_day (z : zone) (t : Z) : Z :=
  let '(y, m, d) := z_date_of z t in go_date_z z y m d 0 0 0 0.
Definition z_get_end_of_day (z : zone) (t : Z) : Z :=
  let '(y, m, d) := z_date_of z t in go_date_z z y m d 23 59 59 0.
Definition z_get_relative_start_of_day (z : zone) (t n : Z) : Z :=
  z_get_start_of_day z (z_get_start_of_day z (z_add_date z t 0 0 n)).
Definition z_get_relative_end_of_day (z : zone) (t n : Z) : Z :=
  z_get_end_of_day z (z_get_end_of_day z (z_add_date z t 0 0 n)).

Definition z_get_start_of_week (z : zone) (t w : Z) : Z :=
  let t := z_get_start_of_day z t in
  let tw := z_weekday_of z t in
  let tw := if tw =? 0 then 7 else tw in
  let d := 1 - tw in
  let d := if w =? 0 then d + 6 else d + (w - 1) in
  z_add_date z t 0 0 d.
Definition z_get_end_of_week (z : zone) (t w : Z) : Z := z_get_end_of_day z (z_get_start_of_week z t w).

Definition z_get_relative_start_of_week (z : zone) (now w k : Z) : Z :=
  let nw := z_weekday_of z now in
  let nw := if nw =? 0 then 7 else nw in
  let wd := if w =? 0 then 7 else w in
  let now := if nw <? wd then z_add_date z now 0 0 (-7) else now in
  let moment := z_get_start_of_week z now w in
  z_add_date z moment 0 0 (7 * k).
Definition z_get_relative_start_of_week_168h (z : zone) (now w k : Z) : Z :=
  let nw := z_weekday_of z now in
  let nw := if nw =? 0 then 7 else nw in
  let wd := if w =? 0 then 7 else w in
  let now := if nw <? wd then add now (- WEEK) else now in
  let moment := z_get_start_of_week z now w in
  add moment (WEEK * k).
Definition z_get_relative_end_of_week (z : zone) (now w k : Z) : Z :=
  z_get_end_of_day z (z_get_relative_start_of_week z now w k).
Definition z_get_relative_time_of_week (z : zone) (now w k : Z) : Z :=
  let moment := z_get_relative_start_of_week z now w k in
  let '(y, m, d) := z_date_of z moment in
  let '(h, mi, s) := z_clock_of z now in
  go_date_z z y m d h mi s (nsec now).

Definition z_delta_units (unit : Z) (z1 : zone) (t1 : Z) (z2 : zone) (t2 : Z) : Z :=
  let '(za, a, zb, b) := if before t1 t2 then (z1, t1, z2, t2) else (z2, t2, z1, t1) in
  Z.quot (sub (z_get_start_of_day zb b) (z_get_start_of_day za a)) unit.

Definition z_is_same_day (z1 : zone) (t1 : Z) (z2 : zone) (t2 : Z) : bool :=
  equal (z_get_start_of_day z1 t1) (z_get_start_of_day z2 t2).
Definition z_is_same_hour (z1 : zone) (t1 : Z) (z2 : zone) (t2 : Z) : bool :=
  (z_hour_of z1 t1 =? z_hour_of z2 t2) && z_is_same_day z1 t1 z2 t2.
Definition z_is_same_minute (z1 : zone) (t1 : Z) (z2 : zone) (t2 : Z) : bool :=
  (z_minute_of z1 t1 =? z_minute_of z2 t2) && z_is_same_hour z1 t1 z2 t2.
Definition z_is_same_week (z1 : zone) (t1 : Z) (z2 : zone) (t2 : Z) : bool :=
  equal (z_get_start_of_week z1 t1 1) (z_get_start_of_week z2 t2 1).
Definition z_is_same_month (z1 : zone) (t1 : Z) (z2 : zone) (t2 : Z) : bool :=
  let '(y1, m1, _) := z_date_of z1 t1 in
  let '(y2, m2, _) := z_date_of z2 t2 in
  (m1 =? m2) && (y1 =? y2).
Definition z_is_same_year (z1 : zone) (t1 : Z) (z2 : zone) (t2 : Z) : bool := z_year_of z1 t1 =? z_year_of z2 t2.
Definition z_get_month_days (z : zone) (t : Z) : Z := get_month_days (zoff z t) t.

(* ------------------------------------------------------------------ period.go over a table *)
Definition z_new_period_window_week (z : zone) (t : Z) : period :=
  let start := z_get_start_of_week z t 1 in (start, z_add_date z start 0 0 7).
Definition z_new_period_window_week_168h (z : zone) (t : Z) : period :=
  let start := z_get_start_of_week z t 1 in (start, add start WEEK).
Definition z_new_period_with_day_zero (z : zone) (t n : Z) : period :=
  new_period t (z_get_start_of_day z (z_add_date z t 0 0 n)).
Definition z_new_period_with_day (z : zone) (t n : Z) : period := new_period t (z_add_date z t 0 0 n).

(* ------------------------------------------------------------------ specification-level notions and the decidable
   hypotheses of the theorems (not in the Go code) *)

(* local wall clock (seconds since the epoch "as if UTC") shown at UTC second u *)
Definition wall (z : zone) (u : Z) : Z := u + off_at z u.

(* well-formed table, parameters B (bound on |offset|) and D (minimal distance between consecutive transitions):
   every offset within [-B, B]; transition times strictly inside (ALPHA, OMEGA), strictly increasing, and consecutive
   ones MORE than D seconds apart. *)
Fixpoint trans_okb (B D prev : Z) (tr : list (Z * Z)) : bool :=
  match tr with
  | [] => true
  | (w, o) :: rest => (prev + D <? w) && (w <? OMEGA) && (- B <=? o) && (o <=? B) && trans_okb B D w rest
  end.
Definition zone_okb (B D : Z) (z : zone) : bool :=
  (0 <=? D) && (- B <=? z_first z) && (z_first z <=? B) &&
  match z_trans z with
  | [] => true
  | (w, o) :: rest => (ALPHA <? w) && (w <? OMEGA) && (- B <=? o) && (o <=? B) && trans_okb B D w rest
  end.

(* the wall clock w is REGULAR in the table: no transition makes it non-existent or ambiguous, i.e. for every
   transition at s from offset o to offset o', w is outside [s + min o o', s + max o o')
   (o < o': the wall clocks in [s+o, s+o') are skipped; o' < o: those in [s+o', s+o) are shown twice). *)
Fixpoint wall_regular_from (off : Z) (tr : list (Z * Z)) (w : Z) : bool :=
  match tr with
  | [] => true
  | (s, o) :: rest => ((w <? s + Z.min off o) || (s + Z.max off o <=? w)) && wall_regular_from o rest w
  end.
Definition wall_regular (z : zone) (w : Z) : bool := wall_regular_from (z_first z) (z_trans z) w.
(* local midnight of local day number X exists exactly once *)
Definition midnight_regular (z : zone) (X : Z) : bool := wall_regular z (X * DAY_S).

(* the instant at which local day X starts: what time.Date(day X, 00:00:00) returns *)
Definition z_midnight (z : zone) (X : Z) : Z := resolve z (X * DAY_S) * NS.
(* the instant at which the wall clock reads second c of local day X *)
Definition z_wall_inst (z : zone) (X c : Z) : Z := resolve z (X * DAY_S + c) * NS.

(* ------------------------------------------------------------------ example tables (the transitions of 2023..2025 as
   package time reports them; used by the Examples of Properties.v) *)
Definition ny_table : zone :=        (* America/New_York: EST -05:00 / EDT -04:00, shifts at 02:00 local *)
  {| z_first := -18000;
     z_trans := [(1678604400, -14400); (1699164000, -18000);     (* 2023-03-12 07:00 UTC, 2023-11-05 06:00 UTC *)
                 (1710054000, -14400); (1730613600, -18000);     (* 2024-03-10 07:00 UTC, 2024-11-03 06:00 UTC *)
                 (1741503600, -14400); (1762063200, -18000)] |}. (* 2025-03-09 07:00 UTC, 2025-11-02 06:00 UTC *)
Definition berlin_table : zone :=    (* Europe/Berlin: CET +01:00 / CEST +02:00, shifts at 01:00 UTC *)
  {| z_first := 3600;
     z_trans := [(1679792400, 7200); (1698541200, 3600);         (* 2023-03-26, 2023-10-29 01:00 UTC *)
                 (1711846800, 7200); (1729990800, 3600);         (* 2024-03-31, 2024-10-27 01:00 UTC *)
                 (1743296400, 7200); (1761440400, 3600)] |}.     (* 2025-03-30, 2025-10-26 01:00 UTC *)
Definition havana_table : zone :=    (* America/Havana: CST -05:00 / CDT -04:00, DST starts at 00:00 local: no midnight that day *)
  {| z_first := -18000;
     z_trans := [(1710046800, -14400); (1730610000, -18000)] |}. (* 2024-03-10 05:00 UTC, 2024-11-03 05:00 UTC *)
