(* MV.C19.StateLineProofs — the state time line stays chronologically ordered with distinct states for every
   sequence of operations, AddState inserts after every point that is not later, and GetStateByTime returns the state
   of the latest point that is not after the given time. *)
From Coq Require Import ZArith List Bool Lia Permutation.
From MV Require Import Lib.ListX C19.ChronoModel C19.StateLineModel C19.StateLineRun.
Open Scope Z_scope.

Lemma mem_spec : forall x l, mem x l = true <-> In x l.
Proof.
  induction l as [|y t IH]; cbn [mem In]; [split; [discriminate|tauto]|].
  rewrite orb_true_iff, Z.eqb_eq, IH. tauto.
Qed.

Lemma sorted_app : forall a b, sorted (a ++ b) <->
  sorted a /\ sorted b /\ (forall x y, In x a -> In y b -> x <= y).
Proof.
  induction a as [|h a IH]; intro b; cbn [app sorted].
  - split; [intro H; repeat split; auto; intros x y []|tauto].
  - rewrite IH. split.
    + intros [H1 [H2 [H3 H4]]]. repeat split; auto.
      * intros y Hy. apply H1, in_or_app. auto.
      * intros x y [<-|Hx] Hy; [apply H1, in_or_app; auto | apply H4; auto].
    + intros [[H1 H2] [H3 H4]]. repeat split; auto.
      * intros y Hy. apply in_app_or in Hy. destruct Hy as [Hy|Hy]; [apply H1; auto | apply H4; cbn; auto].
      * intros x y Hx Hy. apply H4; cbn; auto.
Qed.

Lemma insert_point_split : forall st t ss ps, length ss = length ps ->
  exists ss1 ss2 ps1 ps2, ss = ss1 ++ ss2 /\ ps = ps1 ++ ps2 /\ length ss1 = length ps1 /\
    insert_point st t ss ps = (ss1 ++ st :: ss2, ps1 ++ t :: ps2) /\
    (forall p, In p ps1 -> p <= t) /\ (forall p, hd_error ps2 = Some p -> t < p).
Proof.
  intros st t. induction ss as [|s ss IH]; intros [|p ps] Hl; cbn [length] in Hl; try discriminate.
  - exists [], [], [], []. cbn. repeat split; auto; [intros p []|discriminate].
  - cbn [insert_point]. unfold after. destruct (Z.gtb_spec p t) as [Hgt|Hle].
    + exists [], (s :: ss), [], (p :: ps). cbn. repeat split; auto; [intros q []|]. intros q [= <-]. lia.
    + destruct (IH ps ltac:(lia)) as [ss1 [ss2 [ps1 [ps2 [E1 [E2 [E3 [E4 [E5 E6]]]]]]]]].
      rewrite E4. exists (s :: ss1), ss2, (p :: ps1), ps2. cbn [app length]. repeat split; try congruence; auto.
      intros q [<-|Hq]; [lia | auto].
Qed.

Theorem add_state_spec : forall st t l, line_inv l ->
  (In st (sl_states l) -> add_state st t l = l) /\
  (~ In st (sl_states l) ->
   exists ss1 ss2 ps1 ps2,
     sl_states l = ss1 ++ ss2 /\ sl_points l = ps1 ++ ps2 /\ length ss1 = length ps1 /\
     sl_states (add_state st t l) = ss1 ++ st :: ss2 /\ sl_points (add_state st t l) = ps1 ++ t :: ps2 /\
     (forall p, In p ps1 -> p <= t) /\ (forall p, In p ps2 -> t < p)).
Proof.
  intros st t l [Hlen [Hnd [Hs Hne]]]. unfold add_state. split.
  - intro Hin. apply mem_spec in Hin. rewrite Hin. reflexivity.
  - intro Hnin. destruct (mem st (sl_states l)) eqn:M; [apply mem_spec in M; contradiction|].
    destruct (insert_point_split st t _ _ Hlen) as [ss1 [ss2 [ps1 [ps2 [E1 [E2 [E3 [E4 [E5 E6]]]]]]]]].
    rewrite E4. cbn [sl_states sl_points]. exists ss1, ss2, ps1, ps2. repeat split; auto.
    rewrite E2 in Hs. apply sorted_app in Hs. destruct Hs as [_ [Hs2 _]].
    destruct ps2 as [|q ps2]; intros p Hp; [destruct Hp|].
    specialize (E6 q eq_refl). destruct Hp as [<-|Hp]; [lia|].
    cbn [sorted] in Hs2. destruct Hs2 as [Hq _]. specialize (Hq p Hp). lia.
Qed.

Lemma add_state_inv : forall st t l, line_inv l -> line_inv (add_state st t l).
Proof.
  intros st t l Hinv. destruct (add_state_spec st t l Hinv) as [Hin Hnin].
  destruct (in_dec Z.eq_dec st (sl_states l)) as [H|H]; [rewrite (Hin H); exact Hinv|].
  destruct (Hnin H) as [ss1 [ss2 [ps1 [ps2 [E1 [E2 [E3 [E4 [E5 [E6 E7]]]]]]]]]].
  destruct Hinv as [Hlen [Hnd [Hs Hne]]].
  unfold line_inv. rewrite E4, E5. repeat split.
  - rewrite !app_length in *. cbn [length]. rewrite E1, E2, !app_length in Hlen. lia.
  - apply (Permutation_NoDup (l := st :: ss1 ++ ss2)); [apply Permutation_middle|].
    constructor; [rewrite <- E1; exact H | rewrite <- E1; exact Hnd].
  - rewrite E2 in Hs. apply sorted_app in Hs. destruct Hs as [Hs1 [Hs2 Hs12]].
    apply sorted_app. split; [exact Hs1|]. split.
    + cbn [sorted]. split; [intros y Hy; specialize (E7 y Hy); lia | exact Hs2].
    + intros x y Hx [<-|Hy]; [apply E6; exact Hx | apply Hs12; assumption].
  - destruct ss1; discriminate.
Qed.

Lemma move_inv : forall d l, line_inv l -> line_inv (move d l).
Proof.
  intros d l [Hlen [Hnd [Hs Hne]]]. unfold line_inv, move. cbn [sl_states sl_points]. repeat split; auto.
  - rewrite map_length. exact Hlen.
  - clear Hlen. induction (sl_points l) as [|p ps IH]; cbn [map sorted] in *; [exact I|].
    destruct Hs as [H1 H2]. split; [|apply IH; exact H2].
    intros y Hy. apply in_map_iff in Hy. destruct Hy as [q [<- Hq]]. specialize (H1 q Hq). unfold add. lia.
Qed.

Lemma new_state_line_inv : forall zero, line_inv (new_state_line zero).
Proof.
  intro zero. unfold line_inv, new_state_line. cbn. repeat split; auto.
  - constructor; [intros []|constructor].
  - intros y [].
  - discriminate.
Qed.

Lemma lstep_inv : forall l o, line_inv l -> line_inv (fst (lstep l o)).
Proof. intros l o H. destruct o; cbn [lstep fst]; auto using add_state_inv, move_inv. Qed.

Theorem line_invariant : forall ops zero, line_inv (fst (lrun (new_state_line zero) ops)).
Proof.
  intros ops zero. generalize (new_state_line zero) (new_state_line_inv zero).
  induction ops as [|o ops IH]; intros l Hl; cbn [lrun]; [exact Hl|].
  pose proof (lstep_inv l o Hl) as H1. destruct (lstep l o) as [l1 r]. cbn [fst] in H1.
  specialize (IH l1 H1). destruct (lrun l1 ops) as [l2 rs]. exact IH.
Qed.

(* ---- GetStateIndexByTime / GetStateByTime *)
Lemma last_le_spec : forall t ps i0, 0 <= i0 ->
  (last_le t ps i0 = -1 /\ forall p, In p ps -> t < p) \/
  (exists k p, last_le t ps i0 = i0 + Z.of_nat k /\ nth_error ps k = Some p /\ p <= t /\
               forall j q, (k < j)%nat -> nth_error ps j = Some q -> t < q).
Proof.
  intros t. induction ps as [|p ps IH]; intros i0 Hi0; cbn [last_le].
  - left. split; [reflexivity|intros p []].
  - destruct (IH (i0 + 1) ltac:(lia)) as [[E Hall]|[k [q [E [Hn [Hq Hlater]]]]]].
    + rewrite E. cbn [Z.leb Z.compare]. unfold before, equal.
      destruct (Z.ltb_spec p t) as [Hlt|Hge]; [|destruct (Z.eqb_spec p t) as [He|Hne]]; cbn [orb].
      * right. exists 0%nat, p. cbn. repeat split; [lia | lia |].
        intros [|j] q Hj Hq; [lia|]. cbn in Hq. apply Hall. eapply nth_error_In; eauto.
      * right. exists 0%nat, p. cbn. repeat split; [lia | lia |].
        intros [|j] q Hj Hq; [lia|]. cbn in Hq. apply Hall. eapply nth_error_In; eauto.
      * left. split; [reflexivity|]. intros q [<-|Hq]; [lia | auto].
    + rewrite E. destruct (Z.leb_spec 0 (i0 + 1 + Z.of_nat k)) as [Hpos|Hneg]; [|lia].
      right. exists (S k), q. cbn [nth_error]. repeat split; auto; [lia|].
      intros [|j] q' Hj Hq'; [lia|]. cbn in Hq'. apply (Hlater j); [lia | exact Hq'].
Qed.

(* GetStateByTime: the state stored with the latest point that is not after t (all later points are after t,
   and by the ordering invariant all earlier ones are not); when every point is after t the Go code falls back to
   the last state *)
Theorem state_by_time_spec : forall l t, line_inv l ->
  let i := get_state_index_by_time t l in
  (i = -1 /\ (forall p, In p (sl_points l) -> t < p) /\ get_state_by_time t l = get_last_state l) \/
  (exists k p, i = Z.of_nat k /\ nth_error (sl_points l) k = Some p /\ p <= t /\
     (forall j q, (k < j)%nat -> nth_error (sl_points l) j = Some q -> t < q) /\
     (forall j q, (j < k)%nat -> nth_error (sl_points l) j = Some q -> q <= t) /\
     get_state_by_time t l = nth_error (sl_states l) k).
Proof.
  intros l t [Hlen [Hnd [Hs Hne]]]. cbv zeta. unfold get_state_by_time, get_state_index_by_time.
  destruct (last_le_spec t (sl_points l) 0 ltac:(lia)) as [[E Hall]|[k [p [E [Hn [Hp Hlater]]]]]].
  - left. rewrite E. split; [reflexivity|]. split; [exact Hall|].
    cbn [Z.leb Z.compare]. unfold get_last_state, lenZ. rewrite Hlen. reflexivity.
  - right. exists k, p. rewrite E, Z.add_0_l. split; [reflexivity|]. split; [exact Hn|]. split; [exact Hp|].
    split; [exact Hlater|]. split.
    + intros j q Hj Hq.
      (* sortedness: the j-th point is not after the k-th *)
      assert (SORT : forall (ps : list Z) a b x y, sorted ps -> (a < b)%nat ->
                nth_error ps a = Some x -> nth_error ps b = Some y -> x <= y).
      { induction ps as [|h ps IHp]; intros a b x y Hsp Hab Ha Hb; [destruct a; discriminate|].
        destruct Hsp as [H1 H2]. destruct a as [|a]; destruct b as [|b]; try lia.
        - cbn in Ha, Hb. inversion Ha; subst. apply H1. eapply nth_error_In; eauto.
        - cbn in Ha, Hb. apply (IHp a b x y H2); [lia | assumption | assumption]. }
      pose proof (SORT _ j k q p Hs Hj Hq Hn). lia.
    + destruct (Z.leb_spec 0 (Z.of_nat k)); [|lia]. unfold nthZ.
      destruct (Z.ltb_spec (Z.of_nat k) 0); [lia|]. rewrite Nat2Z.id. reflexivity.
Qed.
