(* MV.C19.ZoneRun — evaluation of recorded implementation runs in IANA zones against the transition-table model
   (tie T1 for zones with offset changes).  A case = the zone's table (extracted by the harness from package time
   with Time.ZoneBounds) + one query + the outputs the Go code and package time produced.  [zmismatches] recomputes
   the model outputs (vm_compute) and returns the ids of the cases that differ. *)
From MV Require Import Lib.ListX C19.ChronoModel C19.ChronoRun C19.ZoneModel.
Open Scope Z_scope.

Inductive zquery :=
| ZInst (t w k n h m s : Z)          (* the one-instant helpers, time.Local = the zone; + is local midnight of t's day regular *)
| ZPair (t1 t2 : Z)                  (* the two-instant helpers, both instants in the zone *)
| ZDate (y mo d h mi s ns : Z)       (* time.Date in the zone, fields possibly overflowing / inside gaps and repeated hours *)
| ZAddDate (t yy mm dd : Z)          (* t.AddDate *)
| ZLookup (u : Z)                    (* Location.lookup(u): offset, start, end *)
| ZOffset (u : Z)                    (* Location.lookup(u): offset only (where package time's start/end are not a partition) *)
| ZOk (B D : Z).                     (* is the extracted table well formed: zone_okb B D *)

Record zcase := { zid : nat; ztab : zone; zq : zquery; zimpl : list out }.

Definition zeval_inst (z : zone) (t w k n h m s : Z) : list out :=
  [ OD (z_year_of z t) (z_month_of z t) (z_day_of z t) (z_hour_of z t) (z_minute_of z t) (z_second_of z t)
       (z_weekday_of z t);
    OT (z_get_start_of_day z t); OT (z_get_end_of_day z t);
    OT (z_get_relative_start_of_day z t n); OT (z_get_relative_end_of_day z t n);
    OT (z_get_start_of_week z t w); OT (z_get_end_of_week z t w);
    OT (z_get_relative_start_of_week z t w k); OT (z_get_relative_end_of_week z t w k);
    OT (z_get_relative_time_of_week z t w k);
    OT (z_get_next_moment z z t h m s); OB (z_is_moment_passed z z t h m s); OB (z_is_moment_future z z t h m s);
    OZ (z_get_month_days z t); OB (time_is_zero t);
    opair (z_new_period_window_week z t); opair (z_new_period_with_day_zero z t n); opair (z_new_period_with_day z t n);
    OB (midnight_regular z (z_lday z t)) ].

Definition zeval_pair (z : zone) (t1 t2 : Z) : list out :=
  [ OT (time_max t1 t2); OT (time_min t1 t2); opair (smaller_first t1 t2); opair (smaller_last t1 t2);
    OZ (delta t1 t2);
    OZ (z_delta_units DAY z t1 z t2); OZ (z_delta_units HOUR z t1 z t2); OZ (z_delta_units MINUTE z t1 z t2);
    OB (is_same_second t1 t2); OB (z_is_same_minute z t1 z t2); OB (z_is_same_hour z t1 z t2);
    OB (z_is_same_day z t1 z t2); OB (z_is_same_week z t1 z t2); OB (z_is_same_month z t1 z t2);
    OB (z_is_same_year z t1 z t2) ].

Definition zeval (z : zone) (q : zquery) : list out :=
  match q with
  | ZInst t w k n h m s => zeval_inst z t w k n h m s
  | ZPair t1 t2 => zeval_pair z t1 t2
  | ZDate y mo d h mi s ns => [ OT (go_date_z z y mo d h mi s ns) ]
  | ZAddDate t yy mm dd => [ OT (z_add_date z t yy mm dd) ]
  | ZLookup u => let '(o, s, e) := zlookup z u in [ OZ o; OZ s; OZ e ]
  | ZOffset u => [ OZ (off_at z u) ]
  | ZOk B D => [ OB (zone_okb B D z) ]
  end.

Definition zcase_ok (c : zcase) : bool := list_eqb out_eqb (zeval (ztab c) (zq c)) (zimpl c).
Definition zmismatches (cs : list zcase) : list nat := fail_ids zcase_ok zid cs.
