(* MV.C19.ChronoModel — executable model (over Z) of the calendar arithmetic that
   /repo/toolkit/chrono/{moment.go,period.go} perform through Go's time package.

   An INSTANT is the number of nanoseconds since the Unix epoch (Go: t.Unix()*1e9 + t.Nanosecond()),
   so Before/After/Equal are <, >, = and Add is +.  A ZONE is a fixed offset in seconds east of UTC
   (time.FixedZone; UTC = 0).  Every function that reads the wall clock of a time.Time takes the offset
   of that value's Location as its first argument ([off]); helpers that build a time in time.Local
   take the offset of time.Local as [loff].

   Part 1 is the model of the parts of Go's time package that the helpers call (Date with its norm
   steps, Year/Month/Day/Clock/Weekday, AddDate, Add, Sub with saturation, Truncate).  The day count is
   the classic proleptic-Gregorian algorithm with eras of 146097 days (days_from_civil/civil_from_days);
   Go's own implementation uses year tables: that the two agree is checked by the correspondence runs
   (every day of a 400-year cycle), it is not a translation.
   Part 2 transcribes moment.go and Part 3 period.go statement by statement.

   Model only: Definitions/Fixpoints, no proofs. *)
From Coq Require Import ZArith List Bool.
Import ListNotations.
Open Scope Z_scope.

(* ------------------------------------------------------------------ constants (chrono/constants.go) *)
Definition NS : Z := 1000000000.          (* nanoseconds per second *)
Definition DAY_S : Z := 86400.            (* seconds per day *)
Definition SECOND : Z := NS.              (* time.Duration values, in ns *)
Definition MINUTE : Z := 60 * NS.
Definition HOUR : Z := 3600 * NS.
Definition DAY : Z := 86400 * NS.         (* chrono.Day  = Hour * 24 *)
Definition WEEK : Z := 604800 * NS.       (* chrono.Week = Day * 7 = 168 h *)

(* ------------------------------------------------------------------ Part 1a: the civil calendar *)

Definition is_leap (y : Z) : bool :=
  ((y mod 4 =? 0) && negb (y mod 100 =? 0)) || (y mod 400 =? 0).

Definition days_in_month (y m : Z) : Z :=
  if m =? 2 then (if is_leap y then 29 else 28)
  else if (m =? 4) || (m =? 6) || (m =? 9) || (m =? 11) then 30 else 31.

Definition valid_date (y m d : Z) : Prop := 1 <= m <= 12 /\ 1 <= d <= days_in_month y m.
Definition valid_dateb (y m d : Z) : bool :=
  (1 <=? m) && (m <=? 12) && (1 <=? d) && (d <=? days_in_month y m).

(* day of era (0..146096) of year-of-era yoe (March based), month m (1..12), day d; linear in d *)
Definition doe_of (yoe m d : Z) : Z :=
  let mp := (m + 9) mod 12 in
  let doy := (153 * mp + 2) / 5 + d - 1 in
  yoe * 365 + yoe / 4 - yoe / 100 + doy.

(* days since 1970-01-01 of the civil date y-m-d (m in 1..12; any d: day overflow is linear) *)
Definition days_from_civil (y m d : Z) : Z :=
  let y' := if m <=? 2 then y - 1 else y in
  let era := y' / 400 in
  let yoe := y' - era * 400 in
  era * 146097 + doe_of yoe m d - 719468.

Definition civil_of_doe (era doe : Z) : Z * Z * Z :=
  let yoe := (doe - doe / 1460 + doe / 36524 - doe / 146096) / 365 in
  let y := yoe + era * 400 in
  let doy := doe - (365 * yoe + yoe / 4 - yoe / 100) in
  let mp := (5 * doy + 2) / 153 in
  let d := doy - (153 * mp + 2) / 5 + 1 in
  let m := if mp <? 10 then mp + 3 else mp - 9 in
  (if m <=? 2 then y + 1 else y, m, d).

(* civil date (year, month 1..12, day 1..31) of a day count since 1970-01-01 *)
Definition civil_from_days (n : Z) : Z * Z * Z :=
  let z := n + 719468 in
  let era := z / 146097 in
  let doe := z - era * 146097 in
  civil_of_doe era doe.

(* time.Weekday numbering: Sunday = 0 ... Saturday = 6; 1970-01-01 was a Thursday *)
Definition weekday_of_days (n : Z) : Z := (n + 4) mod 7.

(* ------------------------------------------------------------------ Part 1b: time.Time accessors *)

Definition unix (t : Z) : Z := t / NS.                    (* t.Unix() *)
Definition nsec (t : Z) : Z := t mod NS.                  (* t.Nanosecond() *)
Definition lsec (off t : Z) : Z := unix t + off.          (* local seconds: t.abs() up to a constant *)
Definition lday (off t : Z) : Z := lsec off t / DAY_S.    (* local day number *)
Definition sod (off t : Z) : Z := lsec off t mod DAY_S.   (* second of the local day *)

Definition date_of (off t : Z) : Z * Z * Z := civil_from_days (lday off t).   (* t.Date() *)
Definition year_of (off t : Z) : Z := fst (fst (date_of off t)).
Definition month_of (off t : Z) : Z := snd (fst (date_of off t)).
Definition day_of (off t : Z) : Z := snd (date_of off t).
Definition hour_of (off t : Z) : Z := sod off t / 3600.
Definition minute_of (off t : Z) : Z := sod off t mod 3600 / 60.
Definition second_of (off t : Z) : Z := sod off t mod 60.
Definition clock_of (off t : Z) : Z * Z * Z :=                                 (* t.Clock() *)
  let s := sod off t in (s / 3600, s mod 3600 / 60, s mod 60).
Definition weekday_of (off t : Z) : Z := weekday_of_days (lday off t).        (* t.Weekday() *)

(* time.norm: nhi, nlo with hi*base+lo == nhi*base+nlo and 0 <= nlo < base (as written in time.go) *)
Definition norm (hi lo base : Z) : Z * Z :=
  let '(hi, lo) := if lo <? 0 then let n := (- lo - 1) / base + 1 in (hi - n, lo + n * base) else (hi, lo) in
  if lo >=? base then let n := lo / base in (hi + n, lo - n * base) else (hi, lo).

(* time.Date(year, month, day, hour, min, sec, nsec, loc) for a fixed-offset loc *)
Definition go_date (off y mo d h mi s ns : Z) : Z :=
  let '(y, m0) := norm y (mo - 1) 12 in
  let mo := m0 + 1 in
  let '(s, ns) := norm s ns NS in
  let '(mi, s) := norm mi s 60 in
  let '(h, mi) := norm h mi 60 in
  let '(d, h) := norm d h 24 in
  let days := days_from_civil y mo d in
  let abs := days * DAY_S + (h * 3600 + mi * 60 + s) in
  (abs - off) * NS + ns.

(* t.AddDate(years, months, days) *)
Definition add_date (off t yy mm dd : Z) : Z :=
  let '(y, m, d) := date_of off t in
  let '(h, mi, s) := clock_of off t in
  go_date off (y + yy) (m + mm) (d + dd) h mi s (nsec t).

Definition add (t d : Z) : Z := t + d.                      (* t.Add(d), no overflow in the modelled range *)
Definition MAXDUR : Z := 9223372036854775807.
Definition MINDUR : Z := -9223372036854775808.
Definition sub (t u : Z) : Z :=                              (* t.Sub(u): saturates to the int64 range *)
  let d := t - u in if d <? MINDUR then MINDUR else if d >? MAXDUR then MAXDUR else d.
Definition after (t u : Z) : bool := t >? u.
Definition before (t u : Z) : bool := t <? u.
Definition equal (t u : Z) : bool := t =? u.

(* the zero time.Time{} = 0001-01-01 00:00:00 UTC *)
Definition ZERO_UNIX : Z := -62135596800.
Definition zero_time : Z := ZERO_UNIX * NS.
Definition time_is_zero (t : Z) : bool := t =? zero_time.

(* t.Truncate(d): multiples of d counted from the zero time; d <= 0 returns t *)
Definition truncate (t d : Z) : Z :=
  if d <=? 0 then t else t - (t - zero_time) mod d.

(* ------------------------------------------------------------------ Part 2: moment.go *)

(* GetNextMoment: [zoff] = offset of now.Location(), [loff] = offset of time.Local.
   Line 16 of moment.go is `moment = moment.AddDate(0, 0, 1)`; fixes/C19-dst-calendar-arithmetic.patch rebuilds the
   moment with time.Date(..., now.Day()+1, hour, min, sec, ...) instead; [get_next_moment_adddate] is the code as
   written, [get_next_moment] the repaired one; they coincide in every fixed-offset zone
   (ChronoProofs.get_next_moment_adddate_eq). *)
Definition get_next_moment (loff zoff now h m s : Z) : Z :=
  let '(y, mo, d) := date_of zoff now in
  let moment := go_date loff y mo d h m s 0 in
  if after now moment || equal now moment then go_date loff y mo (d + 1) h m s 0 else moment.
Definition get_next_moment_adddate (loff zoff now h m s : Z) : Z :=
  let '(y, mo, d) := date_of zoff now in
  let moment := go_date loff y mo d h m s 0 in
  if after now moment || equal now moment then add_date loff moment 0 0 1 else moment.

Definition is_moment_passed (loff zoff now h m s : Z) : bool :=
  let '(y, mo, d) := date_of zoff now in
  let moment := go_date loff y mo d h m s 0 in
  after now moment.
Definition is_moment_future (loff zoff now h m s : Z) : bool := negb (is_moment_passed loff zoff now h m s).

(* Scheduler.RegisterDayMomentTask (scheduler.go:139-146): with now := time.Now().Add(offset),
     moment := GetNextMoment(now, hour, min, sec); s.RegisterRepeatedTask(name, moment.Sub(now), time.Hour*24, ...)
   — the delay before the first execution; and the condition of the immediate catch-up call. *)
Definition day_moment_first_delay (loff zoff now h m s : Z) : Z := sub (get_next_moment loff zoff now h m s) now.
Definition day_moment_catch_up (last_executed now : Z) : bool := before last_executed now && (sub now last_executed >? DAY).

Definition get_start_of_day (off t : Z) : Z :=
  let '(y, m, d) := date_of off t in go_date off y m d 0 0 0 0.
Definition get_end_of_day (off t : Z) : Z :=
  let '(y, m, d) := date_of off t in go_date off y m d 23 59 59 0.
Definition get_relative_start_of_day (off t n : Z) : Z :=
  get_start_of_day off (get_start_of_day off (add_date off t 0 0 n)).
Definition get_relative_end_of_day (off t n : Z) : Z :=
  get_end_of_day off (get_end_of_day off (add_date off t 0 0 n)).

Definition get_start_of_week (off t w : Z) : Z :=
  let t := get_start_of_day off t in
  let tw := weekday_of off t in
  let tw := if tw =? 0 then 7 else tw in
  let d := 1 - tw in
  let d := if w =? 0 then d + 6 else d + (w - 1) in
  add_date off t 0 0 d.
Definition get_end_of_week (off t w : Z) : Z := get_end_of_day off (get_start_of_week off t w).

(* GetRelativeStartOfWeek. moment.go:96/99 shift by `Week` (168 h) with Add;
   fixes/C19-dst-calendar-arithmetic.patch shifts by AddDate(0,0,7*k). [get_relative_start_of_week] is the repaired
   code, [get_relative_start_of_week_168h] the code as written; equal in every fixed-offset zone
   (ChronoProofs.get_relative_start_of_week_168h_eq). *)
Definition get_relative_start_of_week (off now w k : Z) : Z :=
  let nw := weekday_of off now in
  let nw := if nw =? 0 then 7 else nw in
  let wd := if w =? 0 then 7 else w in
  let now := if nw <? wd then add_date off now 0 0 (-7) else now in
  let moment := get_start_of_week off now w in
  add_date off moment 0 0 (7 * k).
Definition get_relative_start_of_week_168h (off now w k : Z) : Z :=
  let nw := weekday_of off now in
  let nw := if nw =? 0 then 7 else nw in
  let wd := if w =? 0 then 7 else w in
  let now := if nw <? wd then add now (- WEEK) else now in
  let moment := get_start_of_week off now w in
  add moment (WEEK * k).
Definition get_relative_end_of_week (off now w k : Z) : Z :=
  get_end_of_day off (get_relative_start_of_week off now w k).
Definition get_relative_time_of_week (off now w k : Z) : Z :=
  let moment := get_relative_start_of_week off now w k in
  let '(y, m, d) := date_of off moment in
  let '(h, mi, s) := clock_of off now in
  go_date off y m d h mi s (nsec now).

Definition time_max (t1 t2 : Z) : Z := if after t1 t2 then t1 else t2.
Definition time_min (t1 t2 : Z) : Z := if before t1 t2 then t1 else t2.
Definition smaller_first (t1 t2 : Z) : Z * Z := if before t1 t2 then (t1, t2) else (t2, t1).
Definition smaller_last (t1 t2 : Z) : Z * Z := if before t1 t2 then (t2, t1) else (t1, t2).
Definition delta (t1 t2 : Z) : Z := if before t1 t2 then sub t2 t1 else sub t1 t2.

(* Floor/Ceil/RoundDelta{Days,Hours,Minutes}: all nine compute int(startOfDay(t2) - startOfDay(t1)) / unit with
   Go's truncating Duration division; math.Ceil / math.Round are applied to the already integral quotient.
   Each time keeps its own Location: (off1,t1) (off2,t2). *)
Definition delta_units (unit off1 t1 off2 t2 : Z) : Z :=
  let '(oa, a, ob, b) := if before t1 t2 then (off1, t1, off2, t2) else (off2, t2, off1, t1) in
  Z.quot (sub (get_start_of_day ob b) (get_start_of_day oa a)) unit.
Definition floor_delta_days := delta_units DAY.
Definition floor_delta_hours := delta_units HOUR.
Definition floor_delta_minutes := delta_units MINUTE.

Definition is_same_second (t1 t2 : Z) : bool := unix t1 =? unix t2.
Definition is_same_day (off1 t1 off2 t2 : Z) : bool :=
  equal (get_start_of_day off1 t1) (get_start_of_day off2 t2).
Definition is_same_hour (off1 t1 off2 t2 : Z) : bool :=
  (hour_of off1 t1 =? hour_of off2 t2) && is_same_day off1 t1 off2 t2.
Definition is_same_minute (off1 t1 off2 t2 : Z) : bool :=
  (minute_of off1 t1 =? minute_of off2 t2) && is_same_hour off1 t1 off2 t2.
Definition is_same_week (off1 t1 off2 t2 : Z) : bool :=
  equal (get_start_of_week off1 t1 1) (get_start_of_week off2 t2 1).
Definition is_same_month (off1 t1 off2 t2 : Z) : bool :=
  let '(y1, m1, _) := date_of off1 t1 in
  let '(y2, m2, _) := date_of off2 t2 in
  (m1 =? m2) && (y1 =? y2).
Definition is_same_year (off1 t1 off2 t2 : Z) : bool := year_of off1 t1 =? year_of off2 t2.

Definition get_month_days (off t : Z) : Z :=
  let '(year, month, _) := date_of off t in
  if negb (month =? 2) then
    (if (month =? 4) || (month =? 6) || (month =? 9) || (month =? 11) then 30 else 31)
  else if ((year mod 4 =? 0) && negb (year mod 100 =? 0)) || (year mod 400 =? 0) then 29 else 28.

(* ------------------------------------------------------------------ Part 3: period.go *)

Definition period : Type := Z * Z.
Definition pstart (p : period) : Z := fst p.
Definition pend (p : period) : Z := snd p.

Definition new_period (s e : Z) : period := if after s e then (e, s) else (s, e).
Definition new_period_window (t size : Z) : period :=
  let start := truncate t size in (start, add start size).
(* NewPeriodWindowWeek. period.go:26 is `start.Add(Week)`; the patch uses start.AddDate(0,0,7)
   ([new_period_window_week] = repaired, [new_period_window_week_168h] = as written; equal for fixed offsets). *)
Definition new_period_window_week (off t : Z) : period :=
  let start := get_start_of_week off t 1 in (start, add_date off start 0 0 7).
Definition new_period_window_week_168h (off t : Z) : period :=
  let start := get_start_of_week off t 1 in (start, add start WEEK).
Definition new_period_with_day_zero (off t n : Z) : period :=
  new_period t (get_start_of_day off (add_date off t 0 0 n)).
Definition new_period_with_day (off t n : Z) : period := new_period t (add_date off t 0 0 n).
Definition new_period_with_dur (unit t n : Z) : period := new_period t (add t (n * unit)).

Definition period_duration (p : period) : Z := sub (pend p) (pstart p).
Definition period_milliseconds (p : period) : Z := Z.quot (period_duration p) 1000000.
Definition period_microseconds (p : period) : Z := Z.quot (period_duration p) 1000.
Definition period_nanoseconds (p : period) : Z := period_duration p.
Definition period_is_zero (p : period) : bool := time_is_zero (pstart p) && time_is_zero (pend p).
Definition period_is_invalid (p : period) : bool := time_is_zero (pstart p) || time_is_zero (pend p).
Definition period_is_before (p : period) (t : Z) : bool := before (pend p) t.
Definition period_is_after (p : period) (t : Z) : bool := after (pstart p) t.
Definition period_is_between (p : period) (t : Z) : bool := before (pstart p) t && after (pend p) t.
Definition period_is_ongoing (p : period) (t : Z) : bool :=
  (before (pstart p) t || equal (pstart p) t) && after (pend p) t.
Definition period_is_between_or_equal (p : period) (t : Z) : bool :=
  period_is_between p t || equal (pstart p) t || equal (pend p) t.
Definition period_is_between_or_equal_period (p t : period) : bool :=
  period_is_between p (pstart t) || period_is_between p (pend t)
  || equal (pstart p) (pstart t) || equal (pend p) (pend t).
Definition period_is_overlap (p t : period) : bool :=
  period_is_between_or_equal_period p t || period_is_between_or_equal_period t p.

(* ------------------------------------------------------------------ Part 4: specification-level notions
   (not in the Go code: what the theorems compare the helpers against) *)

(* the instant at which local day X starts in the zone *)
Definition midnight (off X : Z) : Z := (X * DAY_S - off) * NS.
(* the Monday (local day number) of the Monday-based week that contains local day X *)
Definition monday_of (X : Z) : Z := X - (weekday_of_days X + 6) mod 7.
(* the latest local day <= X that falls on weekday w *)
Definition latest_weekday (X w : Z) : Z := X - (weekday_of_days X - w) mod 7.
(* a month number normalised into 1..12, overflowing into the year (time.Date) *)
Definition norm_year (y mo : Z) : Z := y + (mo - 1) / 12.
Definition norm_month (mo : Z) : Z := (mo - 1) mod 12 + 1.

(* boundaries of the civil month that contains t (specification-level: moment.go has no such helper;
   they are what IsSameMonth is compared against) *)
Definition month_start (off t : Z) : Z :=
  let '(y, m, _) := date_of off t in go_date off y m 1 0 0 0 0.
Definition next_month_start (off t : Z) : Z :=
  let '(y, m, _) := date_of off t in go_date off y (m + 1) 1 0 0 0 0.

