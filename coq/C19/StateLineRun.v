(* MV.C19.StateLineRun — recorded runs of chrono.StateLine against the model (tie T1). *)
From MV Require Import Lib.ListX C19.ChronoModel C19.ChronoRun C19.StateLineModel.
Open Scope Z_scope.

Inductive lop :=
| LAdd (st t : Z) | LMove (d : Z)
| LTimeByState (st : Z) | LNextTimeByState (st : Z) | LPrevTimeByState (st : Z) | LIndexByState (st : Z)
| LLastState | LStateByTime (t : Z) | LStateIndexByTime (t : Z)
| LTimeByIndex (i : Z) | LStateByIndex (i : Z) | LNextTimeByIndex (i : Z) | LPrevTimeByIndex (i : Z)
| LCount | LHasState (st : Z) | LMissing (sts : list Z) | LCheck (allowed : bool) (sts : list Z)
| LDump.                                (* Iterate: all (state, point) pairs in order *)

Inductive lout :=
| LUnit | LT (t : Z) | LZ (z : Z) | LB (b : bool) | LO (o : option Z) | LL (l : list Z) | LBad.

Definition lout_eqb (a b : lout) : bool :=
  match a, b with
  | LUnit, LUnit => true
  | LT x, LT y => x =? y
  | LZ x, LZ y => x =? y
  | LB x, LB y => Bool.eqb x y
  | LO x, LO y => opt_eqb Z.eqb x y
  | LL x, LL y => list_eqb Z.eqb x y
  | _, _ => false
  end.

Fixpoint interleave (a b : list Z) : list Z :=
  match a, b with
  | x :: a', y :: b' => x :: y :: interleave a' b'
  | _, _ => []
  end.

Definition lstep (l : sline) (o : lop) : sline * lout :=
  match o with
  | LAdd st t => (add_state st t l, LUnit)
  | LMove d => (move d l, LUnit)
  | LTimeByState st => (l, LT (get_time_by_state st l))
  | LNextTimeByState st => (l, LT (get_next_time_by_state st l))
  | LPrevTimeByState st => (l, LT (get_prev_time_by_state st l))
  | LIndexByState st => (l, LZ (get_index_by_state st l))
  | LLastState => (l, LO (get_last_state l))
  | LStateByTime t => (l, LO (get_state_by_time t l))
  | LStateIndexByTime t => (l, LZ (get_state_index_by_time t l))
  | LTimeByIndex i => (l, LO (get_time_by_index i l))
  | LStateByIndex i => (l, LO (get_state_by_index i l))
  | LNextTimeByIndex i => (l, LO (get_next_state_time_by_index i l))
  | LPrevTimeByIndex i => (l, LO (get_prev_state_time_by_index i l))
  | LCount => (l, LZ (get_state_count l))
  | LHasState st => (l, LB (has_state st l))
  | LMissing sts => (l, LL (get_missing_states sts l))
  | LCheck allowed sts => (l, LB (check allowed sts l))
  | LDump => (l, LL (interleave (sl_states l) (sl_points l)))
  end.

Fixpoint lrun (l : sline) (ops : list lop) : sline * list lout :=
  match ops with
  | [] => (l, [])
  | o :: rest => let '(l1, r) := lstep l o in let '(l2, rs) := lrun l1 rest in (l2, r :: rs)
  end.

Record lcase := { lid : nat; lzero : Z; lops : list lop; limpl : list lout }.
Definition lcase_ok (c : lcase) : bool :=
  list_eqb lout_eqb (snd (lrun (new_state_line (lzero c)) (lops c))) (limpl c).
Definition lmismatches (cs : list lcase) : list nat := fail_ids lcase_ok lid cs.
