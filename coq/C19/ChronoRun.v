(* MV.C19.ChronoRun — evaluation of recorded implementation runs against the model (tie T1).
   A case = zone offsets + one query + the outputs the Go code produced.  [mismatches] recomputes the
   model outputs (vm_compute) and returns the ids of the cases that differ. *)
From MV Require Import Lib.ListX C19.ChronoModel.
Open Scope Z_scope.

Definition T (s n : Z) : Z := s * NS + n.

Inductive out :=
| OT (t : Z)                         (* a time.Time, as instant *)
| OB (b : bool)
| OZ (z : Z)                         (* int / Duration *)
| OP (s e : Z)                       (* a Period or a pair of times *)
| OD (y m d h mi s wd : Z)           (* t.Date(), t.Clock(), t.Weekday() *)
| OBad.                              (* panic / unrepresentable: never produced by the model *)

Definition out_eqb (a b : out) : bool :=
  match a, b with
  | OT x, OT y => x =? y
  | OB x, OB y => Bool.eqb x y
  | OZ x, OZ y => x =? y
  | OP a1 a2, OP b1 b2 => (a1 =? b1) && (a2 =? b2)
  | OD a1 a2 a3 a4 a5 a6 a7, OD b1 b2 b3 b4 b5 b6 b7 =>
      (a1 =? b1) && (a2 =? b2) && (a3 =? b3) && (a4 =? b4) && (a5 =? b5) && (a6 =? b6) && (a7 =? b7)
  | _, _ => false
  end.

Inductive query :=
| QInst (t w k n h m s : Z)          (* every one-instant helper of moment.go + the calendar windows of period.go *)
| QDate (y mo d h mi s ns : Z)       (* time.Date with overflowing fields (the normalisation the helpers rely on) *)
| QAddDate (t yy mm dd : Z)          (* t.AddDate *)
| QPair (t1 off2 t2 : Z)             (* two-instant helpers; t2 lives in the zone with offset off2 *)
| QPer (raw : bool) (a b c d : Z)    (* p = NewPeriod(a,b) (raw: Period{a,b}), q likewise from c d *)
| QWin (t size n : Z)                (* NewPeriodWindow(t,size), NewPeriodWith{Hour..Nanosecond}(t,n) *)
| QSweep (day0 : Z) (count : nat) (seed : Z).   (* digest over [count] consecutive local days, 5 instants each *)

Record case := { cid : nat; czone : Z; clocal : Z; cq : query; cimpl : list out }.

Definition opair (p : Z * Z) : out := OP (fst p) (snd p).

Definition eval_inst (z l t w k n h m s : Z) : list out :=
  [ OD (year_of z t) (month_of z t) (day_of z t) (hour_of z t) (minute_of z t) (second_of z t) (weekday_of z t);
    OT (get_start_of_day z t); OT (get_end_of_day z t);
    OT (get_relative_start_of_day z t n); OT (get_relative_end_of_day z t n);
    OT (get_start_of_week z t w); OT (get_end_of_week z t w);
    OT (get_relative_start_of_week z t w k); OT (get_relative_end_of_week z t w k);
    OT (get_relative_time_of_week z t w k);
    OT (get_next_moment l z t h m s); OB (is_moment_passed l z t h m s); OB (is_moment_future l z t h m s);
    OZ (get_month_days z t); OB (time_is_zero t);
    opair (new_period_window_week z t); opair (new_period_with_day_zero z t n); opair (new_period_with_day z t n) ].

Definition eval_pair (z t1 z2 t2 : Z) : list out :=
  [ OT (time_max t1 t2); OT (time_min t1 t2); opair (smaller_first t1 t2); opair (smaller_last t1 t2);
    OZ (delta t1 t2);
    OZ (floor_delta_days z t1 z2 t2); OZ (floor_delta_hours z t1 z2 t2); OZ (floor_delta_minutes z t1 z2 t2);
    OB (is_same_second t1 t2); OB (is_same_minute z t1 z2 t2); OB (is_same_hour z t1 z2 t2);
    OB (is_same_day z t1 z2 t2); OB (is_same_week z t1 z2 t2); OB (is_same_month z t1 z2 t2);
    OB (is_same_year z t1 z2 t2) ].

Definition eval_per (raw : bool) (a b c d : Z) : list out :=
  let p := if raw then (a, b) else new_period a b in
  let q := if raw then (c, d) else new_period c d in
  [ opair p; opair q; OZ (period_duration p); OZ (period_milliseconds p); OZ (period_microseconds p);
    OZ (period_nanoseconds p); OB (period_is_zero p); OB (period_is_invalid p);
    OB (period_is_before p c); OB (period_is_after p c); OB (period_is_between p c); OB (period_is_ongoing p c);
    OB (period_is_between_or_equal p c); OB (period_is_between_or_equal_period p q);
    OB (period_is_overlap p q); OB (period_is_overlap q p) ].

Definition eval_win (t size n : Z) : list out :=
  [ opair (new_period_window t size);
    opair (new_period_with_dur HOUR t n); opair (new_period_with_dur MINUTE t n);
    opair (new_period_with_dur SECOND t n); opair (new_period_with_dur 1000000 t n);
    opair (new_period_with_dur 1000 t n); opair (new_period_with_dur 1 t n) ].

(* ---- digest sweep: the instants are generated identically on both sides from (zone, day0, count, seed);
   the harness records only a digest of every output scalar (position-weighted sum, weights cycling 1..251,
   reduced mod 2^63 — the low 63 bits of Go's wrapping uint64 arithmetic); the model recomputes it. *)
Definition dstate : Type := Z * Z.              (* accumulator (exact), current weight *)
Definition dscalar (st : dstate) (x : Z) : dstate :=
  let '(acc, w) := st in (acc + w * x, if w =? 251 then 1 else w + 1).
Definition dtime (st : dstate) (t : Z) : dstate := dscalar (dscalar st (unix t)) (nsec t).
Definition dout (st : dstate) (o : out) : dstate :=
  match o with
  | OT t => dtime st t
  | OB b => dscalar st (if b then 1 else 0)
  | OZ z => dscalar st z
  | OP s e => dtime (dtime st s) e
  | OD y m d hh mi s wd => dscalar (dscalar (dscalar (dscalar (dscalar (dscalar (dscalar st y) m) d) hh) mi) s) wd
  | OBad => dscalar st 999
  end.
Definition dfinal (st : dstate) : Z := Z.land (fst st) 9223372036854775807.

Definition sweep_tod (seed day j : Z) : Z :=
  if j =? 0 then 0 else if j =? 1 then 1 else if j =? 2 then 43200 else if j =? 3 then 86399
  else ((day * 1103515245 + seed) mod 2147483648) mod 86400.
Definition sweep_ns (seed day j : Z) : Z := if j =? 4 then (day * 7919 + seed) mod NS else 0.

Definition sweep_inst (z seed day j : Z) : list out :=
  let t := T (day * DAY_S + sweep_tod seed day j - z) (sweep_ns seed day j) in
  eval_inst z z t ((day + j) mod 7) ((day / 7 + j) mod 7 - 3) ((day + 3 * j) mod 11 - 5)
            ((day + j) mod 24) ((day * 7 + j) mod 60) ((day * 13 + 5 * j) mod 60).

Definition sweep_day (z seed : Z) (h : dstate) (day : Z) : dstate :=
  fold_left (fun h j => fold_left dout (sweep_inst z seed day j) h) [0; 1; 2; 3; 4] h.

Fixpoint sweep (z seed day : Z) (count : nat) (h : dstate) : dstate :=
  match count with
  | O => h
  | S c => sweep z seed (day + 1) c (sweep_day z seed h day)
  end.

(* ---- fast evaluator for the sweep: the same scalars as the flattened outputs of [eval_inst] on the instant
   sec*NS + ns with time.Local = the zone, computed from the closed forms (one split of the local seconds into
   day and second-of-day, one civil_from_days); MV.C19.FastProofs.sweep_fast_correct proves
   sweep_fast = sweep for every input, so evaluating the digest with it is evaluating the model. *)
Definition b2z (b : bool) : Z := if b then 1 else 0.
Definition scalars_of (o : out) : list Z :=
  match o with
  | OT t => [unix t; nsec t]
  | OB b => [b2z b]
  | OZ z => [z]
  | OP s e => [unix s; nsec s; unix e; nsec e]
  | OD y m d hh mi s wd => [y; m; d; hh; mi; s; wd]
  | OBad => [999]
  end.

Definition fast_inst (z sec ns w k n h m s : Z) : list Z :=
  let '(X, r) := Z.div_eucl (sec + z) DAY_S in
  let '(y, mo, d) := civil_from_days X in
  let wd := weekday_of_days X in
  let m0 := X * DAY_S - z in
  let sw := m0 + ((w + 6) mod 7 - (wd + 6) mod 7) * DAY_S in
  let lw := (7 * k - (wd - w) mod 7) * DAY_S in
  let rs := m0 + lw in
  let mom := m0 + (h * 3600 + m * 60 + s) in
  let nm := if mom <=? sec then mom + DAY_S else mom in
  let passed := (mom <? sec) || ((mom =? sec) && (0 <? ns)) in
  let mon := m0 - (wd + 6) mod 7 * DAY_S in
  let dz := m0 + n * DAY_S in
  let dd := sec + n * DAY_S in
  let mdays :=
    if negb (mo =? 2) then
      (if (mo =? 4) || (mo =? 6) || (mo =? 9) || (mo =? 11) then 30 else 31)
    else if ((y mod 4 =? 0) && negb (y mod 100 =? 0)) || (y mod 400 =? 0) then 29 else 28 in
  [ y; mo; d; r / 3600; r mod 3600 / 60; r mod 60; wd;
    m0; 0;  m0 + 86399; 0;
    dz; 0;  dz + 86399; 0;
    sw; 0;  sw + 86399; 0;
    rs; 0;  rs + 86399; 0;
    sec + lw; ns;
    nm; 0;  b2z passed; b2z (negb passed);
    mdays; b2z ((sec =? ZERO_UNIX) && (ns =? 0));
    mon; 0; mon + 604800; 0 ]
  ++ (if (dz <? sec) || ((dz =? sec) && (0 <? ns)) then [dz; 0; sec; ns] else [sec; ns; dz; 0])
  ++ (if dd <? sec then [dd; ns; sec; ns] else [sec; ns; dd; ns]).

Definition sweep_inst_fast (z seed day j : Z) : list Z :=
  fast_inst z (day * DAY_S + sweep_tod seed day j - z) (sweep_ns seed day j)
            ((day + j) mod 7) ((day / 7 + j) mod 7 - 3) ((day + 3 * j) mod 11 - 5)
            ((day + j) mod 24) ((day * 7 + j) mod 60) ((day * 13 + 5 * j) mod 60).

Definition sweep_day_fast (z seed : Z) (h : dstate) (day : Z) : dstate :=
  fold_left (fun h j => fold_left dscalar (sweep_inst_fast z seed day j) h) [0; 1; 2; 3; 4] h.

Fixpoint sweep_fast (z seed day : Z) (count : nat) (h : dstate) : dstate :=
  match count with
  | O => h
  | S c => sweep_fast z seed (day + 1) c (sweep_day_fast z seed h day)
  end.

Definition eval (z l : Z) (q : query) : list out :=
  match q with
  | QInst t w k n h m s => eval_inst z l t w k n h m s
  | QDate y mo d h mi s ns => [ OT (go_date z y mo d h mi s ns) ]
  | QAddDate t yy mm dd => [ OT (add_date z t yy mm dd) ]
  | QPair t1 z2 t2 => eval_pair z t1 z2 t2
  | QPer raw a b c d => eval_per raw a b c d
  | QWin t size n => eval_win t size n
  | QSweep day0 count seed => [ OZ (dfinal (sweep_fast z seed day0 count (0, 1))) ]
  end.

Definition case_ok (c : case) : bool := list_eqb out_eqb (eval (czone c) (clocal c) (cq c)) (cimpl c).
Definition mismatches (cs : list case) : list nat := fail_ids case_ok cid cs.
