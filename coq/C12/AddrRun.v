(* MV.C12.AddrRun — evaluation of recorded results of prc.ProcessId methods (and of the name rule of
   vivid.ActorDescriptor.WithName) against the address model (tie T1). Strings travel as byte lists. *)
From MV Require Import Lib.ListX C12.AddrModel.
From Coq Require Import NArith.

Fixpoint S (l : list N) : string :=
  match l with [] => EmptyString | n :: t => String (ascii_of_N n) (S t) end.

Definition P (ph ld : list N) : pid := {| phys := S ph; logic := S ld |}.

Inductive acase :=
| CDeriv (id : nat) (parent : pid) (names : list string) (impl : list (string * string))  (* physical, logical of each child *)
| CEqual (id : nat) (a b : option pid) (impl : bool)
| CUrl (id : nat) (a : option pid) (impl_scheme impl_host impl_path : string) (impl_text : option string)
| CName (id : nat) (name : string) (impl_ok : bool)
| CCrash (id : nat).                       (* the implementation panicked: never equal to the model *)

Definition str_pair_eqb (x y : string * string) : bool :=
  String.eqb (fst x) (fst y) && String.eqb (snd x) (snd y).

Definition acase_id (c : acase) : nat :=
  match c with CDeriv i _ _ _ | CEqual i _ _ _ | CUrl i _ _ _ _ _ | CName i _ _ | CCrash i => i end.

Definition acase_ok (c : acase) : bool :=
  match c with
  | CDeriv _ p names impl =>
      list_eqb str_pair_eqb (map (fun n => let d := Derivation p n in (phys d, logic d)) names) impl
  | CEqual _ a b impl => Bool.eqb (Equal a b) impl
  | CUrl _ a sc ho pa tx =>
      let u := URL a in
      String.eqb (scheme u) sc && String.eqb (host u) ho && String.eqb (path u) pa &&
      match a, tx with
      | Some x, Some t => match url_text x with Some m => String.eqb m t | None => false end
      | _, None => true
      | None, Some _ => false
      end
  | CName _ n ok => Bool.eqb (name_ok n) ok
  | CCrash _ => false
  end.

Definition mismatches (cs : list acase) : list nat := fail_ids acase_ok acase_id cs.
