(* MV.C12.RegProofs — the sequential registry: invariants over every operation sequence and the
   refinement to a plain address->process map. *)
From MV Require Import Lib.ListX C12.RegModel.

Ltac fu :=
  repeat match goal with
  | |- context [fupd _ ?k _ ?k] => rewrite fupd_same
  | H : context [fupd _ ?k _ ?k] |- _ => rewrite fupd_same in H
  | H : ?x <> ?k |- context [fupd _ ?k _ ?x] => rewrite (fupd_other _ k _ x H)
  | H : ?x <> ?k, H2 : context [fupd _ ?k _ ?x] |- _ => rewrite (fupd_other _ k _ x H) in H2
  end.

(* ---- invariant that holds for every kind of process object ---- *)
Record InvG (refs : list rinfo) (s : st) : Prop := {
  g_map_regd : forall a p, mp s a = Some p -> In (p, a) (regd s);
  g_regd_lt : forall p a, In (p, a) (regd s) -> p < next s;
  g_regd_one : forall p a a', In (p, a) (regd s) -> In (p, a') (regd s) -> a = a';
  g_live : forall p a, In (p, a) (regd s) -> ~ In p (gone s) -> mp s a = Some p;
  g_cache : forall r q, cache s r = Some q ->
            In (q, raddr (rget refs r)) (regd s) /\ rforeign (rget refs r) = false;
  g_gone : forall p, In p (gone s) -> (exists a, In (p, a) (regd s)) /\ forall a, mp s a <> Some p
}.

(* ---- facts that need the Process contract (Terminate makes IsTerminated true for ever) ---- *)
Record InvA (s : st) : Prop := {
  a_kind : forall p, p < next s -> knd s p = KActor;
  a_flag : forall q a, In (q, a) (regd s) -> term s q = false -> mp s a = Some q;
  a_gone : forall p, In p (gone s) -> term s p = true
}.

Lemma invG_init refs : InvG refs init.
Proof. split; simpl; intros; try discriminate; try contradiction. Qed.

Lemma invA_init : InvA init.
Proof. split; simpl; intros; try lia; try contradiction. Qed.

Lemma invG_set_cache refs s r v :
  InvG refs s ->
  (forall q, v = Some q -> In (q, raddr (rget refs r)) (regd s) /\ rforeign (rget refs r) = false) ->
  InvG refs (set_cache s r v).
Proof.
  intros [H1 H2 H3 H4 H5 H6] Hv. split; simpl; auto.
  intros r0 q. unfold fupd. destruct (Nat.eqb_spec r0 r) as [->|]; auto.
Qed.

Lemma invA_set_cache s r v : InvA s -> InvA (set_cache s r v).
Proof. intros [H1 H2 H3]. split; simpl; auto. Qed.

Lemma invG_step refs s o : InvG refs s -> InvG refs (fst (step refs s o)).
Proof.
  intros G. destruct o as [r k|r|r| |p]; simpl.
  - (* Register *)
    unfold do_register. set (a := raddr (rget refs r)).
    destruct (mp s a) as [q|] eqn:E; simpl.
    + destruct G as [H1 H2 H3 H4 H5 H6]. split; simpl; auto.
      intros p a0 Hin. specialize (H2 _ _ Hin). lia.
    + pose proof G as [H1 H2 H3 H4 H5 H6]. split; simpl.
      * intros a0 p. unfold fupd. destruct (Nat.eqb_spec a0 a) as [->|].
        -- intros X; inversion X; subst. left; reflexivity.
        -- intros X. right. auto.
      * intros p a0 [X|X]; [inversion X; lia|]. specialize (H2 _ _ X). lia.
      * intros p a0 a1 [X|X] [Y|Y].
        -- inversion X; inversion Y; subst; reflexivity.
        -- inversion X; subst. specialize (H2 _ _ Y). lia.
        -- inversion Y; subst. specialize (H2 _ _ X). lia.
        -- eauto.
      * intros p a0 [X|X] Hg.
        -- inversion X; subst. apply fupd_same.
        -- unfold fupd. destruct (Nat.eqb_spec a0 a) as [->|]; [|auto].
           specialize (H4 _ _ X Hg). congruence.
      * intros r0 q Hc. destruct (H5 _ _ Hc). split; [right|]; assumption.
      * intros p Hg. destruct (H6 _ Hg) as [[a0 Ha0] Hn]. split; [exists a0; right; exact Ha0|].
        intros a1. unfold fupd. destruct (Nat.eqb_spec a1 a) as [->|]; [|apply Hn].
        intros X; inversion X; subst. specialize (H2 _ _ Ha0). lia.
  - (* Unregister *)
    unfold do_unregister. set (a := raddr (rget refs r)).
    destruct (mp s a) as [p|] eqn:E; simpl; [|exact G].
    pose proof G as [H1 H2 H3 H4 H5 H6]. split; simpl; auto.
    + intros a0 q. unfold fupd. destruct (Nat.eqb_spec a0 a) as [->|]; [discriminate|auto].
    + intros q a0 Hin Hg. unfold fupd. destruct (Nat.eqb_spec a0 a) as [->|].
      * (* q is registered under the address being unregistered and not yet gone: it is the process removed now *)
        exfalso. apply Hg. left.
        assert (I : ~ In q (gone s)) by (intros I; apply Hg; right; exact I).
        specialize (H4 _ _ Hin I). congruence.
      * apply H4; [assumption|]. intros X. apply Hg. right. exact X.
    + intros q [X|X].
      * subst q. split; [exists a; apply H1; exact E|].
        intros a0. unfold fupd. destruct (Nat.eqb_spec a0 a) as [->|]; [discriminate|].
        intros Y. apply n. apply (H3 p); apply H1; assumption.
      * destruct (H6 _ X) as [Hx Hn]. split; [exact Hx|].
        intros a0. unfold fupd. destruct (Nat.eqb_spec a0 a) as [->|]; [discriminate|apply Hn].
  - (* Get *)
    unfold do_get.
    assert (L : forall s1, InvG refs s1 ->
      InvG refs (fst (if rforeign (rget refs r) then (s1, OProc None)
                      else match mp s1 (raddr (rget refs r)) with
                           | Some p => (set_cache s1 r (Some p), OProc (Some p))
                           | None => (s1, OProc None)
                           end))).
    { intros s1 G1. destruct (rforeign (rget refs r)) eqn:F; simpl; [exact G1|].
      destruct (mp s1 (raddr (rget refs r))) as [p|] eqn:E; simpl; [|exact G1].
      apply invG_set_cache; [exact G1|]. intros q X; inversion X; subst. split; [|exact F].
      apply (g_map_regd _ _ G1). exact E. }
    destruct (cache s r) as [q|] eqn:C.
    + destruct (term s q); [|exact G]. apply L. apply invG_set_cache; [exact G|]. intros ? X; discriminate.
    + apply L. exact G.
  - exact G.
  - unfold do_kill. destruct (p <? next s); [|exact G]. destruct (knd s p); [|exact G].
    destruct G as [H1 H2 H3 H4 H5 H6]. split; simpl; auto.
Qed.

Lemma invA_step refs s o : InvG refs s -> InvA s -> actor_op o = true -> InvA (fst (step refs s o)).
Proof.
  intros G A Ho. destruct o as [r k|r|r| |p]; simpl.
  - destruct k; [|discriminate]. unfold do_register. set (a := raddr (rget refs r)).
    destruct A as [K F Gn]. destruct (mp s a) as [q|] eqn:E; simpl.
    + split; simpl; auto. intros p Hp. unfold fupd. destruct (Nat.eqb_spec p (next s)); [reflexivity|apply K; lia].
    + split; simpl.
      * intros p Hp. unfold fupd. destruct (Nat.eqb_spec p (next s)); [reflexivity|apply K; lia].
      * intros q a0 [X|X] Ht.
        -- inversion X; subst. apply fupd_same.
        -- unfold fupd. destruct (Nat.eqb_spec a0 a) as [->|]; [|auto].
           specialize (F _ _ X Ht). congruence.
      * auto.
  - unfold do_unregister. set (a := raddr (rget refs r)).
    destruct (mp s a) as [p|] eqn:E; simpl; [|exact A].
    destruct A as [K F Gn].
    assert (Kp : knd s p = KActor).
    { apply K. apply (g_regd_lt _ _ G p a). apply (g_map_regd _ _ G). exact E. }
    rewrite Kp. split; simpl; auto.
    + intros q a0 Hin. unfold fupd at 1. destruct (Nat.eqb_spec q p) as [->|]; [discriminate|].
      intros Ht. unfold fupd. destruct (Nat.eqb_spec a0 a) as [->|]; [|auto].
      specialize (F _ _ Hin Ht). congruence.
    + intros q [X|X]; [subst; apply fupd_same|].
      unfold fupd. destruct (Nat.eqb_spec q p); [reflexivity|auto].
  - unfold do_get.
    assert (L : forall s1, InvA s1 ->
      InvA (fst (if rforeign (rget refs r) then (s1, OProc None)
                 else match mp s1 (raddr (rget refs r)) with
                      | Some p => (set_cache s1 r (Some p), OProc (Some p))
                      | None => (s1, OProc None)
                      end))).
    { intros s1 A1. destruct (rforeign (rget refs r)); simpl; [exact A1|].
      destruct (mp s1 (raddr (rget refs r))); simpl; [apply invA_set_cache|]; exact A1. }
    destruct (cache s r) as [q|]; [destruct (term s q)|]; try exact A; apply L; try apply invA_set_cache; exact A.
  - exact A.
  - unfold do_kill. destruct (p <? next s); [|exact A]. destruct (knd s p); [|exact A].
    destruct A as [K F Gn]. split; simpl; auto.
    + intros q a0 Hin. unfold fupd. destruct (Nat.eqb_spec q p); [discriminate|auto].
    + intros q Hq. unfold fupd. destruct (Nat.eqb_spec q p); [reflexivity|auto].
Qed.

(* the state and the outputs after a sequence *)
Definition after (refs : list rinfo) (ops : list op) : st := fst (run refs init ops).

Lemma run_app refs s ops1 ops2 :
  run refs s (ops1 ++ ops2) =
  let '(s1, x1) := run refs s ops1 in let '(s2, x2) := run refs s1 ops2 in (s2, x1 ++ x2).
Proof.
  revert s; induction ops1 as [|o t IH]; intros s; simpl.
  - destruct (run refs s ops2); reflexivity.
  - destruct (step refs s o) as [s1 x]. rewrite IH. destruct (run refs s1 t) as [s2 xs].
    destruct (run refs s2 ops2); reflexivity.
Qed.

Lemma invG_run refs ops : forall s, InvG refs s -> InvG refs (fst (run refs s ops)).
Proof.
  induction ops as [|o t IH]; intros s G; simpl; [exact G|].
  pose proof (invG_step refs s o G) as G1. destruct (step refs s o) as [s1 x]. simpl in G1.
  specialize (IH s1 G1). destruct (run refs s1 t). exact IH.
Qed.

Lemma invA_run refs ops : forall s, InvG refs s -> InvA s -> actor_only ops = true ->
  InvA (fst (run refs s ops)).
Proof.
  induction ops as [|o t IH]; intros s G A Ho; simpl; [exact A|].
  simpl in Ho. apply andb_true_iff in Ho as [Ho Ht].
  pose proof (invG_step refs s o G) as G1. pose proof (invA_step refs s o G A Ho) as A1.
  destruct (step refs s o) as [s1 x]. simpl in G1, A1.
  specialize (IH s1 G1 A1 Ht). destruct (run refs s1 t). exact IH.
Qed.

Lemma invG_after refs ops : InvG refs (after refs ops).
Proof. apply invG_run, invG_init. Qed.

Lemma invA_after refs ops : actor_only ops = true -> InvA (after refs ops).
Proof. apply invA_run; [apply invG_init|apply invA_init]. Qed.

(* ---- what a lookup returns ---- *)
Definition resolves (refs : list rinfo) (s : st) (r : ref) : option proc :=
  if rforeign (rget refs r) then None else mp s (raddr (rget refs r)).

Lemma get_is_map refs s r : InvG refs s -> InvA s ->
  snd (do_get refs s r) = OProc (resolves refs s r) /\
  (forall a, mp (fst (do_get refs s r)) a = mp s a).
Proof.
  intros G A. unfold do_get, resolves.
  destruct (cache s r) as [q|] eqn:C.
  - destruct (g_cache _ _ G _ _ C) as [Hin Hf]. rewrite Hf.
    destruct (term s q) eqn:T.
    + simpl. destruct (mp s (raddr (rget refs r))); simpl; auto.
    + rewrite (a_flag _ A _ _ Hin T). simpl. auto.
  - destruct (rforeign (rget refs r)); simpl; auto.
    destruct (mp s (raddr (rget refs r))); simpl; auto.
Qed.

(* ---- refinement: the outputs are those of the plain map ---- *)
Definition Rel (s : st) (m : spec) : Prop := (forall a, mp s a = sm m a) /\ next s = sn m.

Lemma refine_step refs s m o : InvG refs s -> InvA s -> Rel s m -> actor_op o = true ->
  snd (step refs s o) = snd (spec_step refs m o) /\ Rel (fst (step refs s o)) (fst (spec_step refs m o)).
Proof.
  intros G A [Rm Rn] Ho. destruct o as [r k|r|r| |p]; simpl.
  - unfold do_register. rewrite <- Rm, <- Rn. destruct (mp s (raddr (rget refs r))); simpl.
    + split; [reflexivity|]. split; simpl; auto.
    + split; [reflexivity|]. split; simpl; auto.
      intros a. unfold fupd. destruct (Nat.eqb a (raddr (rget refs r))); auto.
  - unfold do_unregister. rewrite <- Rm. destruct (mp s (raddr (rget refs r))); simpl.
    + split; [reflexivity|]. split; simpl; auto.
      intros a. unfold fupd. destruct (Nat.eqb a (raddr (rget refs r))); auto.
    + split; [reflexivity|]. split; auto.
  - destruct (get_is_map refs s r G A) as [Ho1 Hm]. rewrite Ho1. unfold resolves.
    destruct (rforeign (rget refs r)); simpl.
    + split; [reflexivity|]. split; [intros a; rewrite Hm; auto|].
      unfold do_get. destruct (cache s r) as [q|]; [destruct (term s q)|]; simpl;
      destruct (rforeign (rget refs r)); simpl; auto; destruct (mp s (raddr (rget refs r))); simpl; auto.
    + rewrite Rm. split; [reflexivity|]. split; [intros a; rewrite Hm; auto|].
      unfold do_get. destruct (cache s r) as [q|]; [destruct (term s q)|]; simpl;
      destruct (rforeign (rget refs r)); simpl; auto; destruct (mp s (raddr (rget refs r))); simpl; auto.
  - split; [reflexivity|]. split; auto.
  - unfold do_kill. destruct (p <? next s); [destruct (knd s p)|]; simpl; split; auto; split; auto.
Qed.

Lemma refine_run refs ops : forall s m, InvG refs s -> InvA s -> Rel s m -> actor_only ops = true ->
  snd (run refs s ops) = snd (spec_run refs m ops).
Proof.
  induction ops as [|o t IH]; intros s m G A R Ho; simpl; [reflexivity|].
  simpl in Ho. apply andb_true_iff in Ho as [Ho Ht].
  destruct (refine_step refs s m o G A R Ho) as [E R1].
  pose proof (invG_step refs s o G) as G1. pose proof (invA_step refs s o G A Ho) as A1.
  destruct (step refs s o) as [s1 x]. destruct (spec_step refs m o) as [m1 y]. simpl in *.
  specialize (IH s1 m1 G1 A1 R1 Ht).
  destruct (run refs s1 t) as [s2 xs]. destruct (spec_run refs m1 t) as [m2 ys]. simpl in *. congruence.
Qed.

Theorem seq_refines_spec refs ops : actor_only ops = true ->
  snd (run refs init ops) = snd (spec_run refs spec_init ops).
Proof.
  intros Ho. apply refine_run; auto using invG_init, invA_init. split; reflexivity.
Qed.

(* ---- the clauses of the property, on the state reached by any operation sequence ---- *)

(* registering a taken address is refused; nothing but the object counter changes *)
Theorem register_first_wins refs ops r k q :
  let s := after refs ops in
  mp s (raddr (rget refs r)) = Some q ->
  let '(s', x) := step refs s (ORegister r k) in
  x = OReg true None /\ (forall a, mp s' a = mp s a) /\ (forall p, term s' p = term s p) /\
  (forall r0, cache s' r0 = cache s r0) /\ regd s' = regd s /\ gone s' = gone s.
Proof.
  intros s H. simpl. unfold do_register. rewrite H. repeat split; reflexivity.
Qed.

(* a free address accepts the registration and initializes exactly the new process *)
Theorem register_free refs ops r k :
  let s := after refs ops in
  mp s (raddr (rget refs r)) = None ->
  let '(s', x) := step refs s (ORegister r k) in
  x = OReg false (Some (next s)) /\ mp s' (raddr (rget refs r)) = Some (next s).
Proof.
  intros s H. simpl. unfold do_register. rewrite H. split; [reflexivity|]. simpl. apply fupd_same.
Qed.

(* from a successful registration until its unregistration: every lookup through any local reference
   object of that address, whatever it cached before, yields the registered process *)
Theorem lookup_registered refs ops r p :
  actor_only ops = true ->
  let s := after refs ops in
  rforeign (rget refs r) = false -> mp s (raddr (rget refs r)) = Some p ->
  snd (step refs s (OGet r)) = OProc (Some p).
Proof.
  intros Ho s Hf Hm. simpl.
  destruct (get_is_map refs s r (invG_after refs ops) (invA_after refs ops Ho)) as [E _].
  rewrite E. unfold resolves. rewrite Hf, Hm. reflexivity.
Qed.

(* a registered process is in the map from its registration until the Unregister of its address *)
Theorem registered_until_unregistered refs ops p a :
  let s := after refs ops in
  In (p, a) (regd s) -> ~ In p (gone s) -> mp s a = Some p.
Proof. intros s. apply (g_live _ _ (invG_after refs ops)). Qed.

(* after the unregistration: a lookup yields the dead-letter substitute or the process now registered
   under the address, and that is never a process whose unregistration has completed *)
Theorem lookup_after_unregister refs ops r p :
  actor_only ops = true ->
  let s := after refs ops in
  In p (gone s) ->
  snd (step refs s (OGet r)) = OProc (resolves refs s r) /\ resolves refs s r <> Some p.
Proof.
  intros Ho s Hg. simpl.
  destruct (get_is_map refs s r (invG_after refs ops) (invA_after refs ops Ho)) as [E _].
  split; [exact E|]. unfold resolves. destruct (rforeign (rget refs r)); [discriminate|].
  apply (g_gone _ _ (invG_after refs ops) p Hg).
Qed.

(* the cache of a reference object only ever holds a process that was registered under the address
   the reference carries (for every kind of process object) *)
Theorem cache_sound_seq refs ops r q :
  let s := after refs ops in
  cache s r = Some q -> In (q, raddr (rget refs r)) (regd s).
Proof. intros s H. apply (g_cache _ _ (invG_after refs ops) _ _ H). Qed.

(* [regd] is exactly the log of successful Register calls *)
Lemma regd_step refs s o :
  regd (fst (step refs s o)) =
  match o, snd (step refs s o) with
  | ORegister r _, OReg false (Some p) => (p, raddr (rget refs r)) :: regd s
  | _, _ => regd s
  end.
Proof.
  destruct o as [r k|r|r| |p]; simpl; auto.
  - unfold do_register. destruct (mp s (raddr (rget refs r))); reflexivity.
  - unfold do_unregister. destruct (mp s (raddr (rget refs r))); reflexivity.
  - unfold do_get. destruct (cache s r) as [q|]; [destruct (term s q)|]; simpl;
    destruct (rforeign (rget refs r)); simpl; auto; destruct (mp s (raddr (rget refs r))); reflexivity.
  - unfold do_kill. destruct (p <? next s); [destruct (knd s p)|]; reflexivity.
Qed.
