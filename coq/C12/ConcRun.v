(* MV.C12.ConcRun — tie T2: replay of schedules recorded from the instrumented CURRENT text of
   engine/prc/resource_controller.go + process_id.go + process_id.pb.go (xsync map and sync/atomic
   redirected to scheduler shims) against the machine of the repaired algorithm [Reg true].
   Each log entry = (thread id, choice, event observed in the Go code); the machine must be able to take
   that step and must predict exactly that event. *)
From MV Require Import Lib.ListX Lib.Sched C12.ConcModel.
Open Scope Z_scope.

Definition choice_eqb (a b : choice) : bool :=
  match a, b with
  | CNone, CNone => true
  | CReg x, CReg y | CUnreg x, CUnreg y => Nat.eqb x y
  | CGet x k, CGet y j => Nat.eqb x y && Nat.eqb k j
  | _, _ => false
  end.

Definition oeq := opt_eqb Nat.eqb.

Definition event_eqb (a b : event) : bool :=
  match a, b with
  | EvSpawn c, EvSpawn c' => choice_eqb c c'
  | EvLos x p o, EvLos x' p' o' => Nat.eqb x x' && Nat.eqb p p' && oeq o o'
  | EvInit p, EvInit p' => Nat.eqb p p'
  | EvRetReg p e, EvRetReg p' e' => Nat.eqb p p' && Bool.eqb e e'
  | EvLad x o, EvLad x' o' => Nat.eqb x x' && oeq o o'
  | EvLock x o, EvLock x' o' => Nat.eqb x x' && oeq o o'
  | EvTermSet p, EvTermSet p' => Nat.eqb p p'
  | EvCommit x, EvCommit x' => Nat.eqb x x'
  | EvRetUnreg, EvRetUnreg => true
  | EvLoadC x k o, EvLoadC x' k' o' => Nat.eqb x x' && Nat.eqb k k' && oeq o o'
  | EvIsTerm q b, EvIsTerm q' b' => Nat.eqb q q' && Bool.eqb b b'
  | EvStoreC x k o, EvStoreC x' k' o' => Nat.eqb x x' && Nat.eqb k k' && oeq o o'
  | EvLoadM x o, EvLoadM x' o' => Nat.eqb x x' && oeq o o'
  | EvRetGet x k o, EvRetGet x' k' o' => Nat.eqb x x' && Nat.eqb k k' && oeq o o'
  | EvExit, EvExit => true
  | _, _ => false
  end.

(* None = the whole log is a run of the machine with equal events; Some k = first diverging step *)
Fixpoint replay (fx : bool) (st : state (Reg fx)) (log : list (nat * choice * event)) (k : nat) : option nat :=
  match log with
  | [] => None
  | (i, c, EvExit) :: t =>
      match nth_error (snd st) i with
      | Some None => replay fx st t (S k)
      | _ => Some k
      end
  | (i, c, e) :: t =>
      match @gstep (Reg fx) st i c with
      | Some (st', e') => if event_eqb e e' then replay fx st' t (S k) else Some k
      | None => Some k
      end
  end.

Record case := { cid : nat; clog : list (nat * choice * event) }.

Definition divergence (c : case) : option nat := replay true (init true) (clog c) 0.
Definition case_ok (c : case) : bool := match divergence c with None => true | Some _ => false end.
Definition mismatches (cs : list case) : list nat := fail_ids case_ok cid cs.

(* the same log against the algorithm as shipped (LoadAndDelete, then Terminate) — used by the examples *)
Definition divergence_as_shipped (c : case) : option nat := replay false (init false) (clog c) 0.
Definition case_ok_as_shipped (c : case) : bool := match divergence_as_shipped c with None => true | Some _ => false end.
Definition mismatches_as_shipped (cs : list case) : list nat := fail_ids case_ok_as_shipped cid cs.
