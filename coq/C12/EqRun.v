(* MV.C12.EqRun — evaluation of recorded reference scripts (harness/cmd/c12equal: constructors, cache
   transitions through the real ResourceController, views and Equal sweeps of the real *prc.ProcessId
   objects) against MV.C12.EqModel (tie T1). A case = the world (own node, resolver shape), the script
   and the outputs the Go code produced, one per operation. *)
From MV Require Import Lib.ListX C12.AddrModel C12.AddrRun C12.EqModel.

Definition sp_eqb (x y : string * string) : bool := String.eqb (fst x) (fst y) && String.eqb (snd x) (snd y).

Definition eout_eqb (a b : eout) : bool :=
  match a, b with
  | XAddr x, XAddr y => opt_eqb sp_eqb x y
  | XReg x, XReg y => Bool.eqb x y
  | XUnit, XUnit => true
  | XProc x, XProc y => opt_eqb proc_eqb x y
  | XView x, XView y => list_eqb sp_eqb x y
  | XMat x, XMat y => list_eqb Bool.eqb x y
  | XNilPanic, XNilPanic => true
  | _, _ => false
  end.

Record ecase := { eid : nat; eworld : world; eops : list eop; eimpl : list eout }.

Definition emodel_outs (c : ecase) : list eout := run (eworld c) einit (eops c).
Definition ecase_ok (c : ecase) : bool := list_eqb eout_eqb (emodel_outs c) (eimpl c).
Definition emismatches (cs : list ecase) : list nat := fail_ids ecase_ok eid cs.
