(* MV.C12.AddrProofs — the address algebra: derivation is injective, Equal is equality of both parts. *)
From MV Require Import Lib.ListX C12.AddrModel.
Open Scope string_scope.

Lemma sapp_assoc (a b c : string) : (a ++ b) ++ c = a ++ (b ++ c).
Proof. induction a as [|x a IH]; simpl; [reflexivity|]. rewrite IH. reflexivity. Qed.

Lemma sapp_inv_head (a b c : string) : a ++ b = a ++ c -> b = c.
Proof. induction a as [|x a IH]; simpl; intros H; [exact H|]. inversion H. auto. Qed.

Lemma sapp_length (a b : string) : String.length (a ++ b) = String.length a + String.length b.
Proof. induction a as [|x a IH]; simpl; [reflexivity|]. rewrite IH. reflexivity. Qed.

(* ---- names without a leading slash: distinct names, distinct children of one parent ---- *)
Lemma derive_inj_name ld n1 n2 :
  starts_slash n1 = false -> starts_slash n2 = false -> derive ld n1 = derive ld n2 -> n1 = n2.
Proof.
  intros H1 H2. unfold derive. rewrite H1, H2. destruct (String.eqb ld "/"); simpl; intros H.
  - apply sapp_inv_head in H. exact H.
  - apply sapp_inv_head in H. inversion H. reflexivity.
Qed.

Lemma Derivation_inj_name p n1 n2 :
  starts_slash n1 = false -> starts_slash n2 = false -> n1 <> n2 -> Derivation p n1 <> Derivation p n2.
Proof.
  intros H1 H2 Hn E. apply Hn. apply (derive_inj_name (logic p)); auto.
  unfold Derivation in E. inversion E. reflexivity.
Qed.

(* both with a leading slash: also injective (the slash is then part of the name) *)
Lemma derive_inj_slashed ld n1 n2 :
  starts_slash n1 = true -> starts_slash n2 = true -> derive ld n1 = derive ld n2 -> n1 = n2.
Proof.
  intros H1 H2. unfold derive. rewrite H1, H2, !andb_false_r. apply sapp_inv_head.
Qed.

(* the optional separator: "a" and "/a" name the same child of any parent other than "/" *)
Lemma derive_slash_optional ld n :
  ld <> "/" -> starts_slash n = false -> derive ld n = derive ld ("/" ++ n).
Proof.
  intros Hl Hn. unfold derive. rewrite Hn. apply String.eqb_neq in Hl. rewrite Hl. reflexivity.
Qed.

(* ---- the names of the actor API (^[^\s\\/]+$) ---- *)
Fixpoint no_slash (s : string) : bool :=
  match s with EmptyString => true | String c t => negb (Ascii.eqb c "/") && no_slash t end.

Lemma name_char_not_slash c : name_char c = true -> Ascii.eqb c "/" = false.
Proof.
  unfold name_char. intros H. destruct (Ascii.eqb_spec c "/") as [->|]; [|reflexivity].
  vm_compute in H. discriminate.
Qed.

Lemma all_name_no_slash s : all_chars name_char s = true -> no_slash s = true.
Proof.
  induction s as [|c t IH]; simpl; [reflexivity|]. intros H. apply andb_true_iff in H as [Hc Ht].
  rewrite (name_char_not_slash c Hc). simpl. auto.
Qed.

Lemma name_ok_facts n : name_ok n = true -> n <> "" /\ no_slash n = true /\ starts_slash n = false.
Proof.
  destruct n as [|c t]; simpl; [discriminate|]. intros H. split; [discriminate|].
  pose proof (all_name_no_slash (String c t) H) as Hs. split; [exact Hs|].
  simpl in Hs. apply andb_true_iff in Hs as [Hc _]. destruct (Ascii.eqb c "/"); [discriminate|reflexivity].
Qed.

(* a/n1 = b/n2 with slash-free n1, n2: the split at the last slash is unique *)
Lemma split_last a : forall b n1 n2, no_slash n1 = true -> no_slash n2 = true ->
  a ++ "/" ++ n1 = b ++ "/" ++ n2 -> a = b /\ n1 = n2.
Proof.
  induction a as [|x a IH]; intros b n1 n2 H1 H2 E.
  - destruct b as [|y b]; simpl in E.
    + inversion E. auto.
    + inversion E as [[Ey En]]. subst. exfalso.
      clear - H1. induction b as [|z b IHb]; simpl in H1.
      * discriminate.
      * apply andb_true_iff in H1 as [_ H1]. auto.
  - destruct b as [|y b]; simpl in E.
    + inversion E as [[Ex En]]. subst. exfalso.
      clear - H2. induction a as [|z a IHa]; simpl in H2.
      * discriminate.
      * apply andb_true_iff in H2 as [_ H2]. auto.
    + inversion E as [[Ex Et]]. subst. destruct (IH b n1 n2 H1 H2 Et) as [-> ->]. auto.
Qed.

Definition base (ld : string) : string := if String.eqb ld "/" then "" else ld.

Lemma derive_name_ok ld n : name_ok n = true -> derive ld n = base ld ++ "/" ++ n.
Proof.
  intros H. destruct (name_ok_facts n H) as (_ & _ & Hs). unfold derive, base. rewrite Hs.
  destruct (String.eqb_spec ld "/") as [->|]; reflexivity.
Qed.

Lemma base_inj l1 l2 : l1 <> "" -> l2 <> "" -> base l1 = base l2 -> l1 = l2.
Proof.
  unfold base. intros H1 H2.
  destruct (String.eqb_spec l1 "/") as [->|]; destruct (String.eqb_spec l2 "/") as [->|]; intros E; subst; congruence.
Qed.

(* children of different non-empty parents, or different accepted names: always different addresses *)
Lemma derive_inj_joint l1 l2 n1 n2 :
  l1 <> "" -> l2 <> "" -> name_ok n1 = true -> name_ok n2 = true ->
  derive l1 n1 = derive l2 n2 -> l1 = l2 /\ n1 = n2.
Proof.
  intros H1 H2 K1 K2. rewrite (derive_name_ok l1 n1 K1), (derive_name_ok l2 n2 K2). intros E.
  destruct (name_ok_facts n1 K1) as (_ & S1 & _). destruct (name_ok_facts n2 K2) as (_ & S2 & _).
  destruct (split_last _ _ _ _ S1 S2 E) as [Eb En]. split; [apply base_inj; assumption|exact En].
Qed.

(* a child never has the address of its parent *)
Lemma derive_ne_parent ld n : n <> "" -> derive ld n <> ld.
Proof.
  intros Hn E. assert (L : String.length (derive ld n) = String.length ld) by (rewrite E; reflexivity).
  unfold derive in L. destruct n as [|c t]; [contradiction|].
  destruct (negb (String.eqb ld "/") && negb (starts_slash (String c t)));
  rewrite ?sapp_length in L; simpl in L; lia.
Qed.

(* the child keeps the node of its parent *)
Lemma Derivation_phys p n : phys (Derivation p n) = phys p.
Proof. reflexivity. Qed.

(* ---- Equal ---- *)
Lemma equal_iff a b : Equal (Some a) (Some b) = true <-> phys a = phys b /\ logic a = logic b.
Proof.
  simpl. rewrite andb_true_iff, !String.eqb_eq. tauto.
Qed.

Lemma equal_iff_eq a b : Equal (Some a) (Some b) = true <-> a = b.
Proof.
  rewrite equal_iff. destruct a as [pa la], b as [pb lb]; simpl. split.
  - intros [-> ->]. reflexivity.
  - intros E; inversion E; auto.
Qed.

Lemma equal_nil a : Equal None a = false /\ Equal a None = false.
Proof. destruct a; auto. Qed.

Lemma equal_clone a : Equal (Some (Clone a)) (Some a) = true.
Proof. apply equal_iff. auto. Qed.

Lemma url_inj a b : URL (Some a) = URL (Some b) <-> a = b.
Proof.
  destruct a as [pa la], b as [pb lb]; simpl. split; intros E; inversion E; reflexivity.
Qed.
