(* MV.C12.FunMap — total maps over nat keys as functions with point update (no axioms needed:
   all statements are pointwise). *)
From MV Require Import Lib.ListX.

Definition fupd {B} (f : nat -> B) (k : nat) (v : B) : nat -> B :=
  fun x => if Nat.eqb x k then v else f x.

Lemma fupd_same {B} (f : nat -> B) k v : fupd f k v k = v.
Proof. unfold fupd. rewrite Nat.eqb_refl. reflexivity. Qed.

Lemma fupd_other {B} (f : nat -> B) k v x : x <> k -> fupd f k v x = f x.
Proof. intros H. unfold fupd. destruct (Nat.eqb_spec x k); [contradiction|reflexivity]. Qed.

(* two-level maps: address -> reference number -> value *)
Definition cupd {B} (f : nat -> nat -> B) (a k : nat) (v : B) : nat -> nat -> B :=
  fun a' k' => if Nat.eqb a' a && Nat.eqb k' k then v else f a' k'.

Lemma cupd_same {B} (f : nat -> nat -> B) a k v : cupd f a k v a k = v.
Proof. unfold cupd. rewrite !Nat.eqb_refl. reflexivity. Qed.
