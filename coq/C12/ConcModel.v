(* MV.C12.ConcModel — layer-A machine "Reg" transcribing engine/prc/resource_controller.go with the
   per-reference cache of process_id.pb.go (cache atomic.Pointer[Process]) and the Process contract of
   engine/vivid/actor_process.go, one [mstep] per operation on shared memory, in program order:

     Register(id, process):  LoadOrStore(addr, process)              [RLos]
                             if !exist: process.Initialize(rc, id)    [RInit]
                             return                                   [RRet]
     Unregister(_, target), as shipped ([fx = false]):
                             LoadAndDelete(addr)                      [UFirst]   one atomic step of the map
                             if exist: process.Terminate(killer)      [UTerm]    = terminated.Store(true)
                             return                                   [URet]
     Unregister, repaired ([fx = true], fixes/C12-unregister-terminate-before-delete.patch):
                             processes.Compute(addr, func(p, exist) { if exist { p.Terminate(killer) }; return p, true })
                             = acquire the entry's bucket lock, read  [UFirst]
                               the function runs under the lock       [UTerm]
                               delete the entry, release the lock     [UCommit]
                             return                                   [URet]
     GetProcess(id):         id.cache.Load()                          [GLoadC]
                             if cached: process.IsTerminated()        [GTerm]    = terminated.Load()
                               not terminated: return it              [GRet]
                               else id.cache.Store(nil)               [GClr]
                             processes.Load(addr)                     [GLoadM]
                             found: id.cache.Store(&process)          [GStC] ; return it [GRet]
                             else return the not-found substitute     [GRet]

   xsync.MapOf is linearizable by contract: Load / LoadOrStore / LoadAndDelete are single steps; Load never
   blocks; LoadOrStore of a present key never blocks (lock-free fast path), of an absent key it waits for
   the bucket lock; Compute holds the lock of the entry while its function runs (one lock per key here: the
   real lock covers a whole bucket, i.e. blocks more, which only removes behaviours).
   The environment thread spawns Register / Unregister / GetProcess calls at will (unbounded threads),
   every Register call brings a NEW process object (numbered by [next]); reference objects are
   (address, number) pairs: calls naming the same pair share the object and its cache.
   Ghost fields (never read by the algorithm) record the history the theorems talk about.
   No proofs in this file. *)
From MV Require Import Lib.ListX Lib.Sched.
From MV Require Export C12.FunMap.
Open Scope Z_scope.

Definition addr := nat.
Definition proc := nat.

(* ghost context of a lookup, fixed when the call starts *)
Record gctx := {
  ga : addr; gk : nat;                 (* the reference object *)
  gw : option (proc * Z);              (* Some (p, n): at the start p was stored under the address, no Unregister call of
                                          the address was still before its delete, and n such calls had been invoked *)
  ggs : list proc                      (* processes whose Unregister call had returned at the start *)
}.

Inductive pc :=
| Env
| RLos (a : addr) (p : proc)
| RInit (a : addr) (p : proc)
| RRet (a : addr) (p : proc) (exist : bool)
| UFirst (a : addr)
| UTerm (a : addr) (p : proc)
| UCommit (a : addr) (o : option proc)
| URet (a : addr) (o : option proc)
| GLoadC (g : gctx)
| GTerm (g : gctx) (q : proc)
| GClr (g : gctx)
| GLoadM (g : gctx)
| GStC (g : gctx) (q : proc)
| GRet (g : gctx) (res : option proc).          (* None = the not-found substitute (dead letters) *)

Inductive choice := CNone | CReg (a : addr) | CUnreg (a : addr) | CGet (a : addr) (k : nat).

Inductive event :=
| EvSpawn (c : choice)
| EvLos (a : addr) (p : proc) (old : option proc)   (* LoadOrStore: what was there *)
| EvInit (p : proc)
| EvRetReg (p : proc) (exist : bool)
| EvLad (a : addr) (old : option proc)               (* LoadAndDelete *)
| EvLock (a : addr) (old : option proc)              (* Compute: lock taken, current value *)
| EvTermSet (p : proc)
| EvCommit (a : addr)                                (* Compute: entry deleted, lock released *)
| EvRetUnreg
| EvLoadC (a : addr) (k : nat) (v : option proc)
| EvIsTerm (q : proc) (b : bool)
| EvStoreC (a : addr) (k : nat) (v : option proc)
| EvLoadM (a : addr) (v : option proc)
| EvRetGet (a : addr) (k : nat) (res : option proc)
| EvExit                                             (* pseudo-event of the replay log: the thread's code has ended *)
| EvOther (n : nat).                                 (* an operation the machine does not have; never produced by [mstep] *)

(* one returned lookup *)
Record ret := { ra : addr; rk : nat; rw : option (proc * Z); rus : Z (* Unregister calls of the address invoked when it returned *);
                rgs : list proc; rres : option proc }.

Record sh := {
  mp : addr -> option proc             (* rc.processes *);
  lk : addr -> bool                    (* bucket lock of the map entry (held only inside Compute) *);
  term : proc -> bool                  (* the flag behind Process.IsTerminated *);
  cache : addr -> nat -> option proc   (* ProcessId.cache of reference object number k of address a *);
  next : proc                          (* process objects created so far (one per Register call) *);
  regd : list (proc * addr)            (* ghost: successful LoadOrStore stores (process, address) *);
  used : proc -> bool                  (* ghost: the Register call of this process object has executed its LoadOrStore *);
  del : proc -> bool                   (* ghost: removed from the map *);
  gone : list proc                     (* ghost: the Unregister call that removed the process has returned *);
  ustart : addr -> Z                   (* ghost: Unregister calls of the address invoked so far *);
  upend : addr -> Z                    (* ghost: of those, how many have not yet performed their delete *);
  rets : list ret                      (* ghost: log of returned lookups *)
}.

Definition set_mp (v : addr -> option proc) (s : sh) : sh :=
  {| mp := v; lk := lk s; term := term s; cache := cache s; next := next s; regd := regd s; used := used s; del := del s; gone := gone s; ustart := ustart s; upend := upend s; rets := rets s |}.
Definition set_lk (v : addr -> bool) (s : sh) : sh :=
  {| mp := mp s; lk := v; term := term s; cache := cache s; next := next s; regd := regd s; used := used s; del := del s; gone := gone s; ustart := ustart s; upend := upend s; rets := rets s |}.
Definition set_term (v : proc -> bool) (s : sh) : sh :=
  {| mp := mp s; lk := lk s; term := v; cache := cache s; next := next s; regd := regd s; used := used s; del := del s; gone := gone s; ustart := ustart s; upend := upend s; rets := rets s |}.
Definition set_cache (v : addr -> nat -> option proc) (s : sh) : sh :=
  {| mp := mp s; lk := lk s; term := term s; cache := v; next := next s; regd := regd s; used := used s; del := del s; gone := gone s; ustart := ustart s; upend := upend s; rets := rets s |}.
Definition set_next (v : proc) (s : sh) : sh :=
  {| mp := mp s; lk := lk s; term := term s; cache := cache s; next := v; regd := regd s; used := used s; del := del s; gone := gone s; ustart := ustart s; upend := upend s; rets := rets s |}.
Definition set_regd (v : list (proc * addr)) (s : sh) : sh :=
  {| mp := mp s; lk := lk s; term := term s; cache := cache s; next := next s; regd := v; used := used s; del := del s; gone := gone s; ustart := ustart s; upend := upend s; rets := rets s |}.
Definition set_used (v : proc -> bool) (s : sh) : sh :=
  {| mp := mp s; lk := lk s; term := term s; cache := cache s; next := next s; regd := regd s; used := v; del := del s; gone := gone s; ustart := ustart s; upend := upend s; rets := rets s |}.
Definition set_del (v : proc -> bool) (s : sh) : sh :=
  {| mp := mp s; lk := lk s; term := term s; cache := cache s; next := next s; regd := regd s; used := used s; del := v; gone := gone s; ustart := ustart s; upend := upend s; rets := rets s |}.
Definition set_gone (v : list proc) (s : sh) : sh :=
  {| mp := mp s; lk := lk s; term := term s; cache := cache s; next := next s; regd := regd s; used := used s; del := del s; gone := v; ustart := ustart s; upend := upend s; rets := rets s |}.
Definition set_ustart (v : addr -> Z) (s : sh) : sh :=
  {| mp := mp s; lk := lk s; term := term s; cache := cache s; next := next s; regd := regd s; used := used s; del := del s; gone := gone s; ustart := v; upend := upend s; rets := rets s |}.
Definition set_upend (v : addr -> Z) (s : sh) : sh :=
  {| mp := mp s; lk := lk s; term := term s; cache := cache s; next := next s; regd := regd s; used := used s; del := del s; gone := gone s; ustart := ustart s; upend := v; rets := rets s |}.
Definition set_rets (v : list ret) (s : sh) : sh :=
  {| mp := mp s; lk := lk s; term := term s; cache := cache s; next := next s; regd := regd s; used := used s; del := del s; gone := gone s; ustart := ustart s; upend := upend s; rets := v |}.

Definition init_sh : sh :=
  {| mp := fun _ => None; lk := fun _ => false; term := fun _ => false; cache := fun _ _ => None; next := 0%nat;
     regd := []; used := fun _ => false; del := fun _ => false; gone := []; ustart := fun _ => 0; upend := fun _ => 0;
     rets := [] |}.

Definition R := (sh * option pc * list pc * event)%type.

Definition window (s : sh) (a : addr) : option (proc * Z) :=
  if upend s a =? 0 then match mp s a with Some p => Some (p, ustart s a) | None => None end else None.

Definition do_delete (a : addr) (p : proc) (s : sh) : sh :=
  set_mp (fupd (mp s) a None) (set_del (fupd (del s) p true) (set_upend (fupd (upend s) a (upend s a - 1)) s)).

Definition mstep (fx : bool) (s : sh) (l : pc) (c : choice) : option R :=
  match l with
  | Env =>
      match c with
      | CReg a => Some (set_next (S (next s)) s, Some Env, [RLos a (next s)], EvSpawn c)
      | CUnreg a =>
          Some (set_ustart (fupd (ustart s) a (ustart s a + 1)) (set_upend (fupd (upend s) a (upend s a + 1)) s),
                Some Env, [UFirst a], EvSpawn c)
      | CGet a k =>
          Some (s, Some Env, [GLoadC {| ga := a; gk := k; gw := window s a; ggs := gone s |}], EvSpawn c)
      | CNone => None
      end
  | RLos a p =>
      match mp s a with
      | Some q => Some (set_used (fupd (used s) p true) s, Some (RRet a p true), [], EvLos a p (Some q))
      | None =>
          if lk s a then None
          else Some (set_mp (fupd (mp s) a (Some p)) (set_regd ((p, a) :: regd s) (set_used (fupd (used s) p true) s)),
                     Some (RInit a p), [], EvLos a p None)
      end
  | RInit a p => Some (s, Some (RRet a p false), [], EvInit p)
  | RRet a p e => Some (s, None, [], EvRetReg p e)
  | UFirst a =>
      if fx then
        if lk s a then None
        else Some (set_lk (fupd (lk s) a true) s,
                   Some (match mp s a with Some p => UTerm a p | None => UCommit a None end), [], EvLock a (mp s a))
      else
        match mp s a with
        | Some p => Some (do_delete a p s, Some (UTerm a p), [], EvLad a (Some p))
        | None => Some (set_upend (fupd (upend s) a (upend s a - 1)) s, Some (URet a None), [], EvLad a None)
        end
  | UTerm a p =>
      Some (set_term (fupd (term s) p true) s, Some (if fx then UCommit a (Some p) else URet a (Some p)), [], EvTermSet p)
  | UCommit a o =>
      if fx then
        Some (set_lk (fupd (lk s) a false)
                (match o with
                 | Some p => do_delete a p s
                 | None => set_upend (fupd (upend s) a (upend s a - 1)) s
                 end),
              Some (URet a o), [], EvCommit a)
      else None
  | URet a o =>
      Some (match o with Some p => set_gone (p :: gone s) s | None => s end, None, [], EvRetUnreg)
  | GLoadC g =>
      match cache s (ga g) (gk g) with
      | Some q => Some (s, Some (GTerm g q), [], EvLoadC (ga g) (gk g) (Some q))
      | None => Some (s, Some (GLoadM g), [], EvLoadC (ga g) (gk g) None)
      end
  | GTerm g q =>
      if term s q then Some (s, Some (GClr g), [], EvIsTerm q true)
      else Some (s, Some (GRet g (Some q)), [], EvIsTerm q false)
  | GClr g => Some (set_cache (cupd (cache s) (ga g) (gk g) None) s, Some (GLoadM g), [], EvStoreC (ga g) (gk g) None)
  | GLoadM g =>
      match mp s (ga g) with
      | Some p => Some (s, Some (GStC g p), [], EvLoadM (ga g) (Some p))
      | None => Some (s, Some (GRet g None), [], EvLoadM (ga g) None)
      end
  | GStC g p => Some (set_cache (cupd (cache s) (ga g) (gk g) (Some p)) s, Some (GRet g (Some p)), [], EvStoreC (ga g) (gk g) (Some p))
  | GRet g res =>
      Some (set_rets ({| ra := ga g; rk := gk g; rw := gw g; rus := ustart s (ga g); rgs := ggs g; rres := res |} :: rets s) s,
            None, [], EvRetGet (ga g) (gk g) res)
  end.

Definition Reg (fx : bool) : machine :=
  {| shared := sh; local := pc; Sched.choice := choice; ev := event; tstep := mstep fx |}.

Definition init (fx : bool) : state (Reg fx) := (init_sh, [Some Env]).

(* ---- the clauses of the property on one returned lookup ---- *)
(* it started when p was registered and no Unregister call of the address could still delete it, and no
   Unregister call of the address was invoked until it returned: it must return p *)
Definition window_ok (r : ret) : Prop :=
  forall p n, rw r = Some (p, n) -> rus r = n -> rres r = Some p.
(* it never returns a process whose Unregister call had returned when the lookup started *)
Definition after_unregister_ok (r : ret) : Prop :=
  forall p, rres r = Some p -> ~ In p (rgs r).

Definition window_okb (r : ret) : bool :=
  match rw r with
  | Some (p, n) => if rus r =? n then match rres r with Some q => Nat.eqb q p | None => false end else true
  | None => true
  end.
