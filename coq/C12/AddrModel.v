(* MV.C12.AddrModel — address algebra (layer C, pure) of engine/prc/process_id.go over byte strings
   (Coq [string] = list of bytes, as Go strings):

     func (pid) Derivation(name) = ld := pid.LogicalAddress
                                   if ld != "/" && !strings.HasPrefix(name, "/") { name = "/" + name }
                                   NewProcessId(pid.PhysicalAddress, ld+name)
     func (pid) Equal(id)        = both non-nil, physical addresses equal, logical addresses equal
     func (pid) URL()            = nil -> zero URL ; url.URL{Scheme: "minotaur", Host: physical, Path: logical}
     func (pid) Clone()          = same two strings, fresh object
   and the name rule of engine/vivid/actor_descriptor.go:  actorNameRegexp = ^[^\s\\/]+$
   (\s of Go's RE2 = tab, newline, form feed, carriage return, space).
   [url_text] follows net/url's URL.String() for hosts and paths made of characters that it never
   escapes; other inputs give None (not modelled).
   No proofs in this file. *)
From Coq Require Export String Ascii.
From MV Require Import Lib.ListX.
Open Scope string_scope.

Record pid := { phys : string; logic : string }.

Definition starts_slash (s : string) : bool :=
  match s with String c _ => Ascii.eqb c "/" | EmptyString => false end.

Definition derive (ld name : string) : string :=
  if negb (String.eqb ld "/") && negb (starts_slash name) then ld ++ "/" ++ name else ld ++ name.

Definition Derivation (p : pid) (name : string) : pid :=
  {| phys := phys p; logic := derive (logic p) name |}.

Definition Clone (p : pid) : pid := {| phys := phys p; logic := logic p |}.

(* nil receivers / arguments are [None] *)
Definition Equal (a b : option pid) : bool :=
  match a, b with
  | Some x, Some y => String.eqb (phys x) (phys y) && String.eqb (logic x) (logic y)
  | _, _ => false
  end.

Record url := { scheme : string; host : string; path : string }.
Definition URL (p : option pid) : url :=
  match p with
  | None => {| scheme := ""; host := ""; path := "" |}
  | Some x => {| scheme := "minotaur"; host := phys x; path := logic x |}
  end.

Fixpoint all_chars (f : ascii -> bool) (s : string) : bool :=
  match s with EmptyString => true | String c t => f c && all_chars f t end.

(* the names the actor API accepts *)
Definition name_char (c : ascii) : bool :=
  let n := nat_of_ascii c in
  negb (Nat.eqb n 9 || Nat.eqb n 10 || Nat.eqb n 12 || Nat.eqb n 13 || Nat.eqb n 32 || Nat.eqb n 92 || Nat.eqb n 47).
Definition name_ok (s : string) : bool :=
  match s with EmptyString => false | _ => all_chars name_char s end.

(* characters that net/url leaves alone in every position used here *)
Definition unreserved (c : ascii) : bool :=
  let n := nat_of_ascii c in
  (Nat.leb 48 n && Nat.leb n 57) || (Nat.leb 65 n && Nat.leb n 90) || (Nat.leb 97 n && Nat.leb n 122) ||
  Nat.eqb n 45 || Nat.eqb n 46 || Nat.eqb n 95 || Nat.eqb n 126.
Definition host_char (c : ascii) : bool := unreserved c || Nat.eqb (nat_of_ascii c) 58.   (* ':' *)
Definition path_char (c : ascii) : bool := unreserved c || Nat.eqb (nat_of_ascii c) 47.   (* '/' *)

Definition is_empty (s : string) : bool := match s with EmptyString => true | _ => false end.

Definition url_text (p : pid) : option string :=
  if all_chars host_char (phys p) && all_chars path_char (logic p) then
    Some ("minotaur:" ++
          (if is_empty (phys p) && is_empty (logic p) then "" else "//") ++ phys p ++
          (if negb (is_empty (logic p)) && negb (starts_slash (logic p)) && negb (is_empty (phys p)) then "/" else "") ++
          logic p)
  else None.
