(* MV.C12.EqModel — reference objects WITH their hidden cache (layer C, sequential): the address-level
   helpers of engine/prc/process_id.go (NewProcessId, Clone, Derivation, Equal, URL, the two getters; a
   protobuf round trip of the two string fields) next to the operations that move the cache field
   [cache atomic.Pointer[Process]] of a reference (process_id.pb.go) through its states:

     never resolved | resolved to a process of its own | resolved to a process SHARED with a reference
     of another address | resolved, then that process terminated (stale cache)

   by the algorithm of engine/prc/resource_controller.go:
     Register(id, p)   = processes.LoadOrStore(id.LogicalAddress, p)           (key: logical address only;
                                                                                 the same process object may be
                                                                                 stored under two addresses)
     Unregister(_, id) = Compute(id.LogicalAddress): Terminate, delete
     GetProcess(id)    = nil -> substitute; cache hit unless IsTerminated, else clear the cache;
                         foreign node -> first resolver answer (cached) or substitute;
                         own node -> map Load (cached) or substitute
   and a PhysicalAddressResolver in the four shapes used by the harness: none, one process per remote NODE
   (engine/prc/shared.go: streams.Load(id.GetPhysicalAddress())), one process per remote id, and one that
   hands out local process 0 (a local and a remote reference then share a process).

   The helpers read [erefs] only; the registry operations never write it. That is the content of
   MV.C12.EqProofs.addr_ops_ignore_cache; the tie (harness/cmd/c12equal) checks that the Go code does the same.
   Nil references are [None]. Calls that dereference a nil receiver/argument panic in Go: [XNilPanic]
   (protobuf encodes a nil message as the empty message: the round trip of nil is a reference with two empty strings).
   No proofs in this file. *)
From MV Require Import Lib.ListX C12.AddrModel.
Open Scope string_scope.

Inductive proc :=
| PL (n : nat)                 (* stub process number n handed to Register *)
| PN (node : string)           (* the resolver's process for a remote node *)
| PI (node path : string).     (* the resolver's process for one remote id *)

Definition proc_eqb (a b : proc) : bool :=
  match a, b with
  | PL n, PL m => Nat.eqb n m
  | PN x, PN y => String.eqb x y
  | PI x p, PI y q => String.eqb x y && String.eqb p q
  | _, _ => false
  end.

Inductive rmode := RNone | RNode | RId | ROne.
Record world := { wlocal : string; wres : rmode }.

Inductive eop :=
| ENew (a : pid)                      (* refs += NewProcessId(phys, logic) *)
| ENil                                (* refs += nil *)
| EClone (s : nat)                    (* refs += refs[s].Clone() *)
| EDerive (s : nat) (name : string)   (* refs += refs[s].Derivation(name) *)
| EProto (s : nat)                    (* refs += Unmarshal(Marshal(refs[s])) *)
| EReg (r : nat) (p : nat)            (* rc.Register(refs[r], stub p) *)
| EUnreg (r : nat)                    (* rc.Unregister(nil, refs[r]) *)
| EGet (r : nat)                      (* rc.GetProcess(refs[r]) *)
| EKill (p : proc)                    (* the process flags itself terminated *)
| EView (r : nat)                     (* getters, URL, Clone, Derivation("k") of refs[r] *)
| ESweep.                             (* refs[i].Equal(refs[j]) for every ordered pair, row by row *)

Inductive eout :=
| XAddr (a : option (string * string))   (* the new reference: nil or (physical, logical) *)
| XReg (exist : bool)
| XUnit
| XProc (p : option proc)                (* None = the not-found substitute (dead letters) *)
| XView (v : list (string * string))
| XMat (m : list bool)
| XNilPanic                              (* nil pointer dereference *)
| XBad.                                  (* never produced by the model *)

Record est := {
  erefs : list (option pid);             (* reference objects, by number *)
  ecache : list (option proc);           (* the cache field of each *)
  emp : list (string * proc);            (* processes: logical address -> process *)
  eflag : list proc                      (* processes whose IsTerminated answers true *)
}.

Definition einit : est := {| erefs := []; ecache := []; emp := []; eflag := [] |}.

Definition ref_at (s : est) (r : nat) : option pid := nth r (erefs s) None.
Definition cache_at (s : est) (r : nat) : option proc := nth r (ecache s) None.

Definition push (s : est) (a : option pid) : est :=
  {| erefs := erefs s ++ [a]; ecache := ecache s ++ [None]; emp := emp s; eflag := eflag s |}.
Definition set_cache (s : est) (r : nat) (c : option proc) : est :=
  {| erefs := erefs s; ecache := upd r c (ecache s); emp := emp s; eflag := eflag s |}.
Definition set_mp (s : est) (m : list (string * proc)) : est :=
  {| erefs := erefs s; ecache := ecache s; emp := m; eflag := eflag s |}.
Definition add_flag (s : est) (p : proc) : est :=
  {| erefs := erefs s; ecache := ecache s; emp := emp s; eflag := p :: eflag s |}.

Definition lookup (m : list (string * proc)) (k : string) : option proc :=
  match find (fun e => String.eqb (fst e) k) m with Some e => Some (snd e) | None => None end.
Definition remove_key (k : string) (m : list (string * proc)) : list (string * proc) :=
  filter (fun e => negb (String.eqb (fst e) k)) m.
Definition flagged (s : est) (p : proc) : bool := existsb (proc_eqb p) (eflag s).

Definition resolve (w : world) (a : pid) : option proc :=
  match wres w with
  | RNone => None
  | RNode => Some (PN (phys a))
  | RId => Some (PI (phys a) (logic a))
  | ROne => Some (PL 0)
  end.

Definition addr_of (a : pid) : string * string := (phys a, logic a).

(* what the address-level helpers show of one reference *)
Definition view (a : pid) : list (string * string) :=
  [ addr_of a;
    (host (URL (Some a)), path (URL (Some a)));
    addr_of (Clone a);
    addr_of (Derivation a "k") ].

(* Equal over every ordered pair of the reference table *)
Definition sweep (refs : list (option pid)) : list bool :=
  flat_map (fun a => map (fun b => Equal a b) refs) refs.

(* GetProcess after the cache has been consulted *)
Definition get_slow (w : world) (s : est) (r : nat) (a : pid) : est * eout :=
  let found := if String.eqb (phys a) (wlocal w) then lookup (emp s) (logic a) else resolve w a in
  match found with
  | Some p => (set_cache s r (Some p), XProc (Some p))
  | None => (s, XProc None)
  end.

Definition step (w : world) (s : est) (o : eop) : est * eout :=
  match o with
  | ENew a => (push s (Some a), XAddr (Some (addr_of a)))
  | ENil => (push s None, XAddr None)
  | EClone r =>
      match ref_at s r with
      | Some a => (push s (Some (Clone a)), XAddr (Some (addr_of (Clone a))))
      | None => (s, XNilPanic)
      end
  | EDerive r n =>
      match ref_at s r with
      | Some a => (push s (Some (Derivation a n)), XAddr (Some (addr_of (Derivation a n))))
      | None => (s, XNilPanic)
      end
  | EProto r =>
      match ref_at s r with
      | Some a => (push s (Some {| phys := phys a; logic := logic a |}), XAddr (Some (addr_of a)))
      | None => (push s (Some {| phys := ""; logic := "" |}), XAddr (Some ("", "")))   (* a nil message encodes as the empty message *)
      end
  | EReg r p =>
      match ref_at s r with
      | Some a =>
          match lookup (emp s) (logic a) with
          | Some _ => (s, XReg true)
          | None => (set_mp s ((logic a, PL p) :: emp s), XReg false)
          end
      | None => (s, XNilPanic)
      end
  | EUnreg r =>
      match ref_at s r with
      | Some a =>
          match lookup (emp s) (logic a) with
          | Some q => (add_flag (set_mp s (remove_key (logic a) (emp s))) q, XUnit)
          | None => (s, XUnit)
          end
      | None => (s, XNilPanic)
      end
  | EGet r =>
      match ref_at s r with
      | None => (s, XProc None)
      | Some a =>
          match cache_at s r with
          | Some p => if flagged s p then get_slow w (set_cache s r None) r a else (s, XProc (Some p))
          | None => get_slow w s r a
          end
      end
  | EKill p => (add_flag s p, XUnit)
  | EView r =>
      match ref_at s r with
      | Some a => (s, XView (view a))
      | None => (s, XNilPanic)
      end
  | ESweep => (s, XMat (sweep (erefs s)))
  end.

Fixpoint run (w : world) (s : est) (ops : list eop) : list eout :=
  match ops with
  | [] => []
  | o :: t => let r := step w s o in snd r :: run w (fst r) t
  end.

(* the operations that only construct, inspect and compare references *)
Definition addr_op (o : eop) : bool :=
  match o with
  | EReg _ _ | EUnreg _ | EGet _ | EKill _ => false
  | _ => true
  end.

(* outputs of the address-level operations of a run, in order *)
Fixpoint addr_outs (ops : list eop) (outs : list eout) : list eout :=
  match ops, outs with
  | o :: t, x :: u => if addr_op o then x :: addr_outs t u else addr_outs t u
  | _, _ => []
  end.
