(* MV.C12.ConcProofs — invariants of the registry machine over every reachable state (every schedule,
   any number of Register / Unregister / GetProcess threads on shared and private reference objects). *)
From MV Require Import Lib.ListX Lib.Sched C12.ConcModel.
From Coq Require Import ZifyBool.
Open Scope Z_scope.
Set Warnings "-unused-intro-pattern".
Arguments Z.add : simpl never.
Arguments Z.sub : simpl never.
Arguments Z.of_nat : simpl never.
Arguments Z.ltb : simpl never.
Arguments Z.eqb : simpl never.
Arguments Nat.ltb : simpl never.

Definition b2z (b : bool) : Z := if b then 1 else 0.

(* ---- pool plumbing ---- *)
Lemma nth_error_upd_same {A} i (v : A) l : (i < length l)%nat -> nth_error (upd i v l) i = Some v.
Proof. revert i; induction l as [|h t IH]; intros [|i] H; simpl in *; try lia; auto. apply IH. lia. Qed.

Lemma nth_error_upd_other {A} i j (v : A) l : i <> j -> nth_error (upd i v l) j = nth_error l j.
Proof. revert i j; induction l as [|h t IH]; intros [|i] [|j] H; simpl in *; try lia; auto. Qed.

Lemma nth_error_lt {A} (l : list A) i x : nth_error l i = Some x -> (i < length l)%nat.
Proof. intros H. apply nth_error_Some. congruence. Qed.

Section Pool.
Variable M : machine.

Lemma all_live_step (P : local M -> Prop) (p : pool M) i l ol (sp : pool M) :
  nth_error p i = Some (Some l) ->
  (forall j x, j <> i -> nth_error p j = Some (Some x) -> P x) ->
  (forall l', ol = Some l' -> P l') ->
  (forall x, In (Some x) sp -> P x) ->
  all_live P (upd i ol p ++ sp).
Proof.
  intros Hn Hother Hnew Hsp j x Hj.
  destruct (Nat.lt_ge_cases j (length (upd i ol p))) as [Hlt|Hge].
  - rewrite nth_error_app1 in Hj by exact Hlt.
    destruct (Nat.eq_dec j i) as [->|Hne].
    + rewrite nth_error_upd_same in Hj by (apply nth_error_lt in Hn; exact Hn).
      inversion Hj. apply Hnew. assumption.
    + rewrite nth_error_upd_other in Hj by auto. eapply Hother; eauto.
  - rewrite nth_error_app2 in Hj by exact Hge.
    apply nth_error_In in Hj. auto.
Qed.

Lemma total_ge_two (f : local M -> Z) (p : pool M) i j li lj :
  (forall l, 0 <= f l) -> i <> j ->
  nth_error p i = Some (Some li) -> nth_error p j = Some (Some lj) -> f li + f lj <= total f p.
Proof.
  intros Hf Hne Hi Hj.
  pose proof (total_upd M f p i li None Hi) as Hu. simpl in Hu.
  assert (Hj' : nth_error (upd i None p) j = Some (Some lj)) by (rewrite nth_error_upd_other; auto).
  pose proof (total_ge_nth M f _ j lj Hf Hj'). lia.
Qed.

Lemma total_step (f : local M -> Z) (p : pool M) i l ol sp :
  nth_error p i = Some (Some l) ->
  total f (upd i ol p ++ map Some sp) = total f p - f l + fo f ol + fold_right (fun x a => f x + a) 0 sp.
Proof. intros Hn. rewrite total_app, (total_upd M f p i l ol Hn), total_map_Some. reflexivity. Qed.
End Pool.

(* ---- indicator functions ---- *)
Definition hold (p : proc) (l : pc) : Z := match l with RLos _ q => if Nat.eqb q p then 1 else 0 | _ => 0 end.
Definition pre (fx : bool) (a : addr) (l : pc) : Z :=
  match l with
  | UFirst b => if Nat.eqb b a then 1 else 0
  | UTerm b _ | UCommit b _ => if fx && Nat.eqb b a then 1 else 0
  | _ => 0
  end.
Definition incs (fx : bool) (a : addr) (l : pc) : Z :=
  match l with UTerm b _ | UCommit b _ => if fx && Nat.eqb b a then 1 else 0 | _ => 0 end.

Lemma nn_hold p l : 0 <= hold p l. Proof. destruct l; simpl; try lia. destruct (Nat.eqb p0 p); lia. Qed.
Lemma nn_pre fx a l : 0 <= pre fx a l.
Proof. destruct l; simpl; try lia; try destruct (Nat.eqb a0 a); try destruct fx; simpl; lia. Qed.
Lemma nn_incs fx a l : 0 <= incs fx a l.
Proof. destruct l; simpl; try lia; destruct (Nat.eqb a0 a); destruct fx; simpl; lia. Qed.

(* ---- the invariant ---- *)
Record Glob (fx : bool) (s : sh) : Prop := {
  i_map_regd : forall a p, mp s a = Some p -> In (p, a) (regd s);
  i_regd_used : forall p a, In (p, a) (regd s) -> used s p = true;
  i_regd_one : forall p a a', In (p, a) (regd s) -> In (p, a') (regd s) -> a = a';
  i_live : forall p a, In (p, a) (regd s) -> del s p = false -> mp s a = Some p;
  i_del : forall p a, del s p = true -> mp s a <> Some p;
  i_del_used : forall p, del s p = true -> used s p = true;
  i_cache : forall a k q, cache s a k = Some q -> In (q, a) (regd s);
  i_gone : forall p, In p (gone s) -> del s p = true /\ term s p = true;
  i_flag : fx = true -> forall p, del s p = true -> term s p = true;
  i_nolock : fx = false -> forall a, lk s a = false
}.

Record Cnt (fx : bool) (s : sh) (p : pool (Reg fx)) : Prop := {
  c_hold : forall q, @total (Reg fx) (hold q) p = b2z (q <? next s)%nat - b2z (used s q);
  c_pre : forall a, @total (Reg fx) (pre fx a) p = upend s a;
  c_incs : forall a, @total (Reg fx) (incs fx a) p = b2z (lk s a)
}.

Definition gfacts (s : sh) (g : gctx) : Prop :=
  (forall p, In p (ggs g) -> del s p = true /\ term s p = true) /\
  (forall p n, gw g = Some (p, n) ->
     n <= ustart s (ga g) /\ (ustart s (ga g) = n -> mp s (ga g) = Some p /\ upend s (ga g) = 0)).

Definition resfacts (fx : bool) (s : sh) (g : gctx) (res : option proc) : Prop :=
  (forall q, res = Some q -> In (q, ga g) (regd s) /\ ~ In q (ggs g)) /\
  (fx = true -> forall p n, gw g = Some (p, n) -> ustart s (ga g) = n -> res = Some p).

Definition Loc (fx : bool) (s : sh) (l : pc) : Prop :=
  match l with
  | UTerm a p => if fx then lk s a = true /\ mp s a = Some p else del s p = true
  | UCommit a o => fx = true /\ lk s a = true /\ mp s a = o /\ (forall p, o = Some p -> term s p = true)
  | URet a (Some p) => del s p = true /\ term s p = true
  | GLoadC g | GClr g | GLoadM g => gfacts s g
  | GTerm g q => gfacts s g /\ In (q, ga g) (regd s)
  | GStC g q => gfacts s g /\ resfacts fx s g (Some q)
  | GRet g res => gfacts s g /\ resfacts fx s g res
  | _ => True
  end.

Definition ret_ok (fx : bool) (s : sh) (r : ret) : Prop :=
  after_unregister_ok r /\ (forall q, rres r = Some q -> In (q, ra r) (regd s)) /\ (fx = true -> window_ok r).

Record Inv (fx : bool) (st : state (Reg fx)) : Prop := {
  v_glob : Glob fx (fst st);
  v_cnt : Cnt fx (fst st) (snd st);
  v_loc : @all_live (Reg fx) (Loc fx (fst st)) (snd st);
  v_rets : Forall (ret_ok fx (fst st)) (rets (fst st))
}.

Lemma inv_init fx : Inv fx (init fx).
Proof.
  split; simpl.
  - split; simpl; intros; try discriminate; try contradiction; auto.
  - split; simpl; intros; reflexivity.
  - intros [|[|i]] l H; simpl in H; inversion H. exact I.
  - constructor.
Qed.

(* ---- one step: case analysis ---- *)
Ltac step_cases Hst Hn :=
  unfold gstep in Hst; cbn [fst snd] in Hst;
  let l := fresh "l" in
  match type of Hst with context [nth_error ?p ?i] => destruct (nth_error p i) as [[l|]|] eqn:Hn; try discriminate end;
  cbn [tstep Reg] in Hst;
  destruct l; cbn [mstep] in Hst;
  repeat match type of Hst with
  | context [match ?c with CNone => _ | _ => _ end] => destruct c
  | context [match mp ?s ?a with _ => _ end] => let E := fresh "Emp" in destruct (mp s a) eqn:E
  | context [if lk ?s ?a then _ else _] => let E := fresh "Elk" in destruct (lk s a) eqn:E
  | context [if ?fx then _ else _] => is_var fx; destruct fx
  | context [match cache ?s ?a ?k with _ => _ end] => let E := fresh "Eca" in destruct (cache s a k) eqn:E
  | context [if term ?s ?q then _ else _] => let E := fresh "Ete" in destruct (term s q) eqn:E
  | context [match ?o with Some _ => _ | None => _ end] => is_var o; destruct o
  end; try discriminate; inversion Hst; subst; clear Hst.

Ltac prj := cbn [mp lk term cache next regd used del gone ustart upend rets
                 set_mp set_lk set_term set_cache set_next set_regd set_used set_del set_gone set_ustart set_upend set_rets
                 do_delete fst snd] in *.

Ltac feq :=
  repeat match goal with
  | H : context [fupd _ ?k _ ?x] |- _ => unfold fupd in H; destruct (Nat.eqb_spec x k); subst
  | |- context [fupd _ ?k _ ?x] => unfold fupd; destruct (Nat.eqb_spec x k); subst
  | H : context [cupd _ ?a ?k _ ?a' ?k'] |- _ =>
      unfold cupd in H; destruct (Nat.eqb_spec a' a); destruct (Nat.eqb_spec k' k); subst; cbn [andb] in H
  end.

Ltac inl := repeat match goal with
  | H : In _ (_ :: _) |- _ => destruct H as [H|H]; [inversion H; subst; clear H|]
  end.

Ltac gsolve := intros; prj; feq; inl; try discriminate; try congruence; try tauto; eauto.

Lemma hold_ge fx s (p : pool (Reg fx)) i a q :
  Cnt fx s p -> nth_error p i = Some (Some (RLos a q)) -> used s q = false /\ (q < next s)%nat.
Proof.
  intros C Hn. pose proof (c_hold _ _ _ C q) as Hq.
  pose proof (total_ge_nth (Reg fx) (hold q) p i _ (nn_hold q) Hn) as Hg.
  cbn [hold] in Hg. rewrite Nat.eqb_refl in Hg. unfold b2z in Hq.
  destruct (Nat.ltb_spec q (next s)); destruct (used s q); try lia; auto.
Qed.

(* ---- the shared-state transformers preserve the global facts ---- *)
Ltac gtriv G := destruct G as [G1 G2 G3 G4 G5 G6 G7 G8 G9 G10]; split; prj; auto.

Lemma glob_next fx s v : Glob fx s -> Glob fx (set_next v s). Proof. intros G; gtriv G. Qed.
Lemma glob_ustart fx s v : Glob fx s -> Glob fx (set_ustart v s). Proof. intros G; gtriv G. Qed.
Lemma glob_upend fx s v : Glob fx s -> Glob fx (set_upend v s). Proof. intros G; gtriv G. Qed.
Lemma glob_rets fx s v : Glob fx s -> Glob fx (set_rets v s). Proof. intros G; gtriv G. Qed.

Lemma glob_used fx s p : Glob fx s -> Glob fx (set_used (fupd (used s) p true) s).
Proof.
  intros G; gtriv G.
  - intros q a H. unfold fupd. destruct (Nat.eqb q p); eauto.
  - intros q H. unfold fupd. destruct (Nat.eqb q p); eauto.
Qed.

Lemma glob_term fx s p : Glob fx s -> Glob fx (set_term (fupd (term s) p true) s).
Proof.
  intros G; gtriv G.
  - intros q H. destruct (G8 q H). split; [assumption|]. unfold fupd. destruct (Nat.eqb q p); auto.
  - intros F q H. unfold fupd. destruct (Nat.eqb q p); auto.
Qed.

Lemma glob_lk fx s f : Glob fx s -> (fx = false -> forall a, f a = false) -> Glob fx (set_lk f s).
Proof. intros G Hb; gtriv G. Qed.

Lemma glob_gone fx s p : Glob fx s -> del s p = true -> term s p = true -> Glob fx (set_gone (p :: gone s) s).
Proof.
  intros G Hd Ht; gtriv G. intros q [<-|H]; auto.
Qed.

Lemma glob_cache fx s a k v : Glob fx s -> (forall q, v = Some q -> In (q, a) (regd s)) ->
  Glob fx (set_cache (cupd (cache s) a k v) s).
Proof.
  intros G Hv; gtriv G. intros a0 k0 q. unfold cupd.
  destruct (Nat.eqb_spec a0 a); destruct (Nat.eqb_spec k0 k); subst; cbn [andb]; eauto.
Qed.

Lemma glob_store fx s a p : Glob fx s -> mp s a = None -> used s p = false ->
  Glob fx (set_mp (fupd (mp s) a (Some p)) (set_regd ((p, a) :: regd s) (set_used (fupd (used s) p true) s))).
Proof.
  intros G Hm Hu. pose proof G as [G1 G2 G3 G4 G5 G6 G7 G8 G9 G10]. split; prj; auto.
  - intros a0 q. unfold fupd. destruct (Nat.eqb_spec a0 a) as [->|].
    + intros X; inversion X; subst. left; reflexivity.
    + intros X. right. auto.
  - intros q a0 [X|X]; [inversion X; subst; apply fupd_same|].
    unfold fupd. destruct (Nat.eqb q p); eauto.
  - intros q a0 a1 [X|X] [Y|Y].
    + inversion X; inversion Y; subst; reflexivity.
    + inversion X; subst. specialize (G2 _ _ Y). congruence.
    + inversion Y; subst. specialize (G2 _ _ X). congruence.
    + eauto.
  - intros q a0 [X|X] Hd.
    + inversion X; subst. apply fupd_same.
    + unfold fupd. destruct (Nat.eqb_spec a0 a) as [->|]; [|auto].
      specialize (G4 _ _ X Hd). congruence.
  - intros q a0 Hd. unfold fupd. destruct (Nat.eqb_spec a0 a) as [->|]; [|auto].
    intros X; inversion X; subst. specialize (G6 _ Hd). congruence.
  - intros q Hd. unfold fupd. destruct (Nat.eqb q p); auto.
  - intros a0 k q Hc. right. eauto.
Qed.

Lemma glob_delete fx s a p : Glob fx s -> mp s a = Some p -> (fx = true -> term s p = true) ->
  Glob fx (do_delete a p s).
Proof.
  intros G Hm Ht. pose proof G as [G1 G2 G3 G4 G5 G6 G7 G8 G9 G10]. split; prj; auto.
  - intros a0 q. unfold fupd. destruct (Nat.eqb_spec a0 a) as [->|]; [discriminate|auto].
  - intros q a0 Hin. unfold fupd at 1. destruct (Nat.eqb_spec q p) as [->|]; [discriminate|].
    intros Hd. unfold fupd. destruct (Nat.eqb_spec a0 a) as [->|]; [|auto].
    specialize (G4 _ _ Hin Hd). congruence.
  - intros q a0. unfold fupd at 1. destruct (Nat.eqb_spec q p) as [->|].
    + intros _. unfold fupd. destruct (Nat.eqb_spec a0 a) as [->|]; [discriminate|].
      intros X. apply n. apply (G3 p); auto.
    + intros Hd. unfold fupd. destruct (Nat.eqb_spec a0 a) as [->|]; [discriminate|auto].
  - intros q. unfold fupd. destruct (Nat.eqb_spec q p) as [->|]; [|auto]. intros _. eauto.
  - intros q Hg. destruct (G8 q Hg). split; [|assumption]. unfold fupd. destruct (Nat.eqb q p); auto.
  - intros F q. unfold fupd. destruct (Nat.eqb_spec q p) as [->|]; auto.
Qed.

Lemma glob_step fx st i c st' e : Inv fx st -> gstep st i c = Some (st', e) -> Glob fx (fst st').
Proof.
  destruct st as [s p]. intros [G C L _] Hst. cbn [fst snd] in *.
  step_cases Hst Hn.
  all: pose proof (L _ _ Hn) as Ll; cbn [Loc] in Ll.
  all: try (destruct (hold_ge _ _ _ _ _ _ C Hn) as [Hu Hlt]).
  all: prj.
  all: repeat first [ apply glob_next | apply glob_ustart | apply glob_upend | apply glob_rets | apply glob_used | apply glob_term
                    | apply glob_lk | apply glob_gone | apply glob_cache | apply glob_store | apply glob_delete | exact G ].
  all: try solve [intros; try discriminate; try assumption; try tauto].
  - intros _. destruct Ll as (_ & _ & _ & T). apply T. reflexivity.
  - intros q0 X; inversion X; subst. destruct Ll as [_ [R _]]. destruct (R q0 eq_refl). assumption.
Qed.

Ltac cases_eqb :=
  repeat match goal with
  | H : context [Nat.eqb ?a ?b] |- _ => destruct (Nat.eqb_spec a b); subst
  | |- context [Nat.eqb ?a ?b] => destruct (Nat.eqb_spec a b); subst
  | H : context [(?a <? ?b)%nat] |- _ => destruct (Nat.ltb_spec a b)
  | |- context [(?a <? ?b)%nat] => destruct (Nat.ltb_spec a b)
  end.

Ltac cases_if :=
  repeat match goal with
  | H : ?x = true |- _ => is_var x; subst x
  | H : ?x = false |- _ => is_var x; subst x
  | H : ?b = true |- context [if ?b then _ else _] => rewrite H
  | H : ?b = false |- context [if ?b then _ else _] => rewrite H
  | H : ?b = true, H2 : context [if ?b then _ else _] |- _ => rewrite H in H2
  | H : ?b = false, H2 : context [if ?b then _ else _] |- _ => rewrite H in H2
  | H : context [if ?b then _ else _] |- _ => let E := fresh "Eb" in destruct b eqn:E
  | |- context [if ?b then _ else _] => let E := fresh "Eb" in destruct b eqn:E
  end.

Lemma cnt_step fx st i c st' e : Inv fx st -> gstep st i c = Some (st', e) -> Cnt fx (fst st') (snd st').
Proof.
  destruct st as [s p]. intros [G C L _] Hst. cbn [fst snd] in *.
  step_cases Hst Hn.
  all: pose proof (L _ _ Hn) as Ll; cbn [Loc] in Ll.
  all: cbn [fst snd]; destruct C as [C1 C2 C3]; split; intros x;
       rewrite total_app, (total_upd (Reg _) _ _ _ _ _ Hn); cbn [total map hold pre incs fo fold_right andb]; prj;
       specialize (C1 x); specialize (C2 x); specialize (C3 x);
       pose proof (total_nonneg (Reg _) (hold x) p (nn_hold x)) as N1;
       pose proof (total_ge_nth (Reg _) (hold x) p i _ (nn_hold x) Hn) as N2; cbn [hold] in N2;
       match type of p with pool (Reg ?f) =>
         pose proof (total_ge_nth (Reg f) (pre f x) p i _ (nn_pre f x) Hn) as N3; cbn [pre andb] in N3;
         pose proof (total_ge_nth (Reg f) (incs f x) p i _ (nn_incs f x) Hn) as N4; cbn [incs andb] in N4 end;
       unfold b2z, fupd in *.
  all: solve [cases_eqb; cases_if; try lia; try discriminate; try tauto].
Qed.

(* ---- thread-local facts ---- *)
Ltac gf_tac :=
  match goal with
  | Lx : gfacts _ ?g |- gfacts _ ?g =>
      let F1 := fresh "F1" in let F2 := fresh "F2" in
      destruct Lx as [F1 F2]; split;
      [ let q := fresh "q" in let Hq := fresh "Hq" in
        intros q Hq; destruct (F1 q Hq); prj; unfold fupd; split; cases_if; auto
      | let q := fresh "q" in let n := fresh "n" in let Hw := fresh "Hw" in
        let Hle := fresh "Hle" in let Himp := fresh "Himp" in let Hu := fresh "Hu" in
        intros q n Hw; destruct (F2 q n Hw) as [Hle Himp]; prj;
        try match goal with X1 : forall a, pre _ a _ <= _ |- _ => specialize (X1 (ga g)); cbn [pre andb] in X1 end;
        try match goal with C2 : forall a, total (pre _ a) _ = _ |- _ => specialize (C2 (ga g)) end;
        unfold fupd in *; cases_eqb;
        (split; [try lia | intros Hu; try lia; destruct (Himp Hu); split; try congruence; try lia]) ]
  end.

Ltac fin := intros; prj; unfold fupd, b2z in *; cases_eqb; cases_if; try lia; try congruence; try tauto; auto.

Ltac rf_tac :=
  match goal with
  | Lg : gfacts _ ?g, R : resfacts _ _ ?g ?res |- resfacts _ _ ?g ?res =>
      let R1 := fresh "R1" in let R2 := fresh "R2" in let F2 := fresh "F2" in
      destruct R as [R1 R2]; destruct Lg as [_ F2]; split;
      [ let q0 := fresh "q0" in let E := fresh "E" in
        intros q0 E; destruct (R1 q0 E); split; prj; auto; try (right; assumption)
      | let F := fresh "F" in let q0 := fresh "q0" in let n := fresh "n" in let Hw := fresh "Hw" in let Hu := fresh "Hu" in
        intros F q0 n Hw Hu; destruct (F2 q0 n Hw); apply (R2 F q0 n Hw); fin ]
  end.

Lemma loc_others fx st i c st' e : Inv fx st -> gstep st i c = Some (st', e) ->
  forall j x, j <> i -> nth_error (snd st) j = Some (Some x) -> Loc fx (fst st') x.
Proof.
  destruct st as [s p]. intros [G C L _] Hst j x Hne Hj. cbn [fst snd] in *.
  pose proof (L _ _ Hj) as Lx.
  step_cases Hst Hn.
  all: pose proof (L _ _ Hn) as Ll; cbn [Loc] in Ll.
  all: destruct C as [C1 C2 C3].
  all: match type of p with pool (Reg ?f) => try (is_var f; destruct f) end.
  all: match type of p with pool (Reg ?f) =>
         pose proof (fun a => total_ge_two (Reg f) (incs f a) p i j _ _ (nn_incs f a) (not_eq_sym Hne) Hn Hj) as X2;
         pose proof (fun a => total_ge_nth (Reg f) (pre f a) p i _ (nn_pre f a) Hn) as X1 end.
  all: cbn [fst snd]; destruct x; cbn [Loc] in *; try exact I.
  all: try solve [gf_tac].
  all: try solve [destruct Lx as [Lg Li]; split; [gf_tac | prj; auto; try (right; assumption)]].
  all: try solve [destruct Lx as [Lg R]; split; [gf_tac | rf_tac]].
  all: try solve [match goal with o : option proc |- _ => destruct o; auto end; destruct Lx; split; fin].
  all: try solve [match goal with
                  | Hj : nth_error _ _ = Some (Some (UTerm ?a0 _)) |- _ =>
                      specialize (X2 a0); specialize (C3 a0); cbn [incs andb] in X2; try (destruct Lx as [? ?]; split); fin
                  | Hj : nth_error _ _ = Some (Some (UCommit ?a0 _)) |- _ =>
                      specialize (X2 a0); specialize (C3 a0); cbn [incs andb] in X2; destruct Lx as (F & K & Mx & T);
                      try discriminate; repeat split; fin
                  end].
  destruct Lx as (F & K & Mx & T). repeat split; fin.
Qed.

Lemma loc_step fx st i c st' e : Inv fx st -> gstep st i c = Some (st', e) ->
  @all_live (Reg fx) (Loc fx (fst st')) (snd st').
Proof.
  intros HI Hst. pose proof (loc_others fx st i c st' e HI Hst) as Ho.
  destruct st as [s p]. destruct HI as [G C L _]. cbn [fst snd] in *.
  step_cases Hst Hn.
  all: pose proof (L _ _ Hn) as Ll; cbn [Loc] in Ll.
  all: cbn [fst snd] in *; refine (all_live_step (Reg _) _ _ _ _ _ _ Hn Ho _ _);
       [ let l' := fresh "l'" in let E := fresh "E" in intros l' E; inversion E; subst; clear E; cbn [Loc]
       | let x := fresh "x" in let E := fresh "E" in intros x E; cbn [In] in E;
         first [ contradiction | destruct E as [E|E]; [inversion E; subst; clear E; cbn [Loc]|contradiction] ] ].
  all: try exact I.
  all: try discriminate.
  - destruct G as [G1 G2 G3 G4 G5 G6 G7 G8 G9 G10]. split; cbn [ggs gw ga].
    + intros q Hq. apply G8; assumption.
    + intros q n Hw. unfold window in Hw. destruct (Z.eqb_spec (upend s a) 0); [|discriminate].
      destruct (mp s a) eqn:E; [|discriminate]. inversion Hw; subst. split; [lia|]. intros _. auto.
  - prj. apply fupd_same.
  - prj. rewrite fupd_same. auto.
  - prj. apply fupd_same.
  - prj. rewrite fupd_same. repeat split; auto. intros; discriminate.
  - destruct Ll as [K Mx]. prj. repeat split; auto. intros p1 E; inversion E; subst. apply fupd_same.
  - prj. split; [assumption|apply fupd_same].
  - destruct Ll as (_ & K & Mx & T). prj. split; [apply fupd_same|apply T; reflexivity].
  - split; [exact Ll|]. eapply (i_cache _ _ G); eauto.
  - exact Ll.
  - destruct Ll; assumption.
  - split; [tauto|]. split.
    + intros q0 E; inversion E; subst. split; [tauto|]. intros Hin. destruct Ll as [[F1 _] _].
      destruct (F1 _ Hin). congruence.
    + intros F p1 n Hw Hu. destruct Ll as [[_ F2] Hin]. destruct (F2 _ _ Hw) as [_ Himp].
      destruct (Himp Hu) as [Hm _].
      assert (D : del s q = false).
      { destruct (del s q) eqn:D; auto. rewrite (i_flag _ _ G F q D) in Ete. discriminate. }
      pose proof (i_live _ _ G q _ Hin D). congruence.
  - destruct Ll as [F1 F2]. split; auto.
  - split; [exact Ll|]. split.
    + intros q0 E; inversion E; subst. split; [apply (i_map_regd _ _ G); assumption|].
      intros Hin. destruct Ll as [F1 _]. destruct (F1 _ Hin) as [D _]. apply (i_del _ _ G _ (ga g) D). assumption.
    + intros F p1 n Hw Hu. destruct Ll as [_ F2]. destruct (F2 _ _ Hw) as [_ Himp]. destruct (Himp Hu). congruence.
  - split; [exact Ll|]. split; [intros q0 E; discriminate|].
    intros F p1 n Hw Hu. destruct Ll as [_ F2]. destruct (F2 _ _ Hw) as [_ Himp]. destruct (Himp Hu). congruence.
  - destruct Ll as [Lg R]. split; [exact Lg|exact R].
Qed.

Lemma ret_ok_mono fx s s' r :
  (forall x, In x (regd s) -> In x (regd s')) -> ret_ok fx s r -> ret_ok fx s' r.
Proof. intros Hm (A & B & W). split; [exact A|split; [|exact W]]. intros q Hq. apply Hm. apply B. assumption. Qed.

Lemma rets_step fx st i c st' e : Inv fx st -> gstep st i c = Some (st', e) ->
  Forall (ret_ok fx (fst st')) (rets (fst st')).
Proof.
  destruct st as [s p]. intros [G C L R] Hst. cbn [fst snd] in *.
  step_cases Hst Hn.
  all: pose proof (L _ _ Hn) as Ll; cbn [Loc] in Ll.
  all: prj.
  all: try solve [eapply Forall_impl; [|exact R]; intros r; apply ret_ok_mono; prj; auto; intros; right; assumption].
  constructor.
  - destruct Ll as [_ [R1 R2]]. split; [|split]; cbn [ra rk rw rus rgs rres].
    + intros q Hq. destruct (R1 q Hq). assumption.
    + intros q Hq. destruct (R1 q Hq). assumption.
    + intros F q n Hw Hu. eapply R2; eauto.
  - eapply Forall_impl; [|exact R]. intros r. apply ret_ok_mono. auto.
Qed.

Theorem inv_step fx st i c st' e : Inv fx st -> gstep st i c = Some (st', e) -> Inv fx st'.
Proof.
  intros HI Hst. split.
  - eapply glob_step; eauto.
  - eapply cnt_step; eauto.
  - eapply loc_step; eauto.
  - eapply rets_step; eauto.
Qed.

Theorem inv_reachable fx st : reach (init fx) st -> Inv fx st.
Proof. apply inv_reach; [apply inv_init|apply inv_step]. Qed.

(* ---- the clauses of C12 over every reachable state ---- *)

(* repaired Unregister: a lookup that starts while p is stored under its address and no Unregister call
   of that address can still delete it, and that returns before another Unregister call of that address
   is invoked, returns p — through any reference object, whatever its cache held *)
Theorem lookup_window st : reach (init true) st -> Forall window_ok (rets (fst st)).
Proof.
  intros Hr. pose proof (v_rets _ _ (inv_reachable true st Hr)) as R.
  eapply Forall_impl; [|exact R]. intros r (_ & _ & W). apply W. reflexivity.
Qed.

(* both variants: a lookup that starts after the Unregister call that removed p has returned never returns p *)
Theorem after_unregister fx st : reach (init fx) st -> Forall after_unregister_ok (rets (fst st)).
Proof.
  intros Hr. pose proof (v_rets _ _ (inv_reachable fx st Hr)) as R.
  eapply Forall_impl; [|exact R]. intros r (A & _). exact A.
Qed.

(* both variants: a lookup returns dead letters or a process that was registered under that very address *)
Theorem lookup_sound fx st : reach (init fx) st ->
  forall r q, In r (rets (fst st)) -> rres r = Some q -> In (q, ra r) (regd (fst st)).
Proof.
  intros Hr r q Hin Hq. pose proof (v_rets _ _ (inv_reachable fx st Hr)) as R.
  rewrite Forall_forall in R. destruct (R r Hin) as (_ & B & _). auto.
Qed.

(* both variants: the cache of a reference object only holds processes registered under its address *)
Theorem cache_sound fx st : reach (init fx) st ->
  forall a k q, cache (fst st) a k = Some q -> In (q, a) (regd (fst st)).
Proof. intros Hr. apply (i_cache _ _ (v_glob _ _ (inv_reachable fx st Hr))). Qed.

(* both variants: a stored process stays the registrant of its address until an Unregister deletes it
   (no second registration replaces it), and once deleted it never comes back *)
Theorem registered_until_deleted fx st : reach (init fx) st ->
  forall p a, In (p, a) (regd (fst st)) -> del (fst st) p = false -> mp (fst st) a = Some p.
Proof. intros Hr. apply (i_live _ _ (v_glob _ _ (inv_reachable fx st Hr))). Qed.

Theorem deleted_never_back fx st : reach (init fx) st ->
  forall p a, del (fst st) p = true -> mp (fst st) a <> Some p.
Proof. intros Hr. apply (i_del _ _ (v_glob _ _ (inv_reachable fx st Hr))). Qed.

Theorem unregistered_is_flagged fx st : reach (init fx) st ->
  forall p, In p (gone (fst st)) -> del (fst st) p = true /\ term (fst st) p = true.
Proof. intros Hr. apply (i_gone _ _ (v_glob _ _ (inv_reachable fx st Hr))). Qed.

(* repaired Unregister: whoever is removed from the map is already flagged (what makes cached lookups exact) *)
Theorem deleted_is_flagged st : reach (init true) st ->
  forall p, del (fst st) p = true -> term (fst st) p = true.
Proof. intros Hr. apply (i_flag _ _ (v_glob _ _ (inv_reachable true st Hr)) eq_refl). Qed.

(* registering a taken address is refused in one atomic step that changes nothing but ghost bookkeeping *)
Theorem register_first_wins fx s a p q c :
  mp s a = Some q ->
  exists s', mstep fx s (RLos a p) c = Some (s', Some (RRet a p true), [], EvLos a p (Some q)) /\
    mp s' = mp s /\ lk s' = lk s /\ term s' = term s /\ cache s' = cache s /\ regd s' = regd s /\ del s' = del s.
Proof. intros H. cbn [mstep]. rewrite H. eexists. split; [reflexivity|]. repeat split. Qed.

(* a free, unlocked address accepts the registration *)
Theorem register_free fx s a p c :
  mp s a = None -> lk s a = false ->
  exists s', mstep fx s (RLos a p) c = Some (s', Some (RInit a p), [], EvLos a p None) /\
    mp s' a = Some p /\ In (p, a) (regd s').
Proof.
  intros H K. cbn [mstep]. rewrite H, K. eexists. split; [reflexivity|]. prj. split; [apply fupd_same|left; reflexivity].
Qed.

Lemma window_ok_b r : window_ok r -> window_okb r = true.
Proof.
  unfold window_ok, window_okb. intros H. destruct (rw r) as [[p n]|]; auto.
  destruct (Z.eqb_spec (rus r) n); auto. rewrite (H p n eq_refl e). apply Nat.eqb_refl.
Qed.

(* Unregister as shipped (LoadAndDelete, then Terminate): the window clause is false. Process 0 is registered
   and cached by reference (0,0); an Unregister deletes it but has not yet flagged it; process 1 is registered
   under the free address; a lookup through the caching reference, started after that and with no further
   Unregister call, returns the removed process 0. *)
Definition witness_schedule : list (nat * choice) :=
  [(0, CReg 0); (1, CNone); (1, CNone); (1, CNone);                      (* Register 0: stored, initialized, returned *)
   (0, CGet 0 0); (2, CNone); (2, CNone); (2, CNone); (2, CNone);        (* lookup through (0,0): caches 0 *)
   (0, CUnreg 0); (3, CNone);                                            (* Unregister: LoadAndDelete done, Terminate pending *)
   (0, CReg 0); (4, CNone); (4, CNone); (4, CNone);                      (* Register 1 succeeds and returns *)
   (0, CGet 0 0); (5, CNone); (5, CNone); (5, CNone)]%nat.               (* lookup through (0,0): returns 0 *)

Theorem lookup_window_as_shipped_refuted :
  exists st es, run (init false) witness_schedule = Some (st, es) /\ ~ Forall window_ok (rets (fst st)).
Proof.
  destruct (run (init false) witness_schedule) as [[st es]|] eqn:E; [|vm_compute in E; discriminate].
  exists st, es. split; [reflexivity|]. intros H.
  assert (B : forallb window_okb (rets (fst st)) = true).
  { apply forallb_forall. intros r Hr. apply window_ok_b. rewrite Forall_forall in H. auto. }
  assert (X : option_map (fun x => forallb window_okb (rets (fst (fst x)))) (run (init false) witness_schedule) = Some false)
    by (vm_compute; reflexivity).
  rewrite E in X. cbn [option_map fst] in X. inversion X as [X']. unfold shared, Reg in *. rewrite X' in B. discriminate.
Qed.

(* when does a lookup get a window: whenever p has been stored under a (in particular once Register p has
   returned), has not been deleted, and no Unregister call of a is between its invocation and its delete *)
Theorem window_opens fx st : reach (init fx) st ->
  forall p a, In (p, a) (regd (fst st)) -> del (fst st) p = false -> upend (fst st) a = 0 ->
  window (fst st) a = Some (p, ustart (fst st) a).
Proof.
  intros Hr p a Hin Hd Hu. unfold window. rewrite Hu, Z.eqb_refl.
  rewrite (registered_until_deleted fx st Hr p a Hin Hd). reflexivity.
Qed.
