(* MV.C12.RegModel — sequential model (layer C) of engine/prc/resource_controller.go:
     Register / Unregister / GetProcess with the per-reference cache kept inside the ProcessId object
   as the code implements it, together with the Process contract of engine/vivid/actor_process.go
   (Terminate stores the flag that IsTerminated loads).

     Register(id, process):   process, exist = processes.LoadOrStore(id.LogicalAddress, process)
                              if !exist { process.Initialize(rc, id) } ; return id, exist
     Unregister(_, target):   process, exist := processes.LoadAndDelete(target.LogicalAddress)
                              if !exist { return } ; process.Terminate(killer)
     GetProcess(id):          if id == nil { return substitute }
                              if ptr := id.cache.Load(); ptr != nil { process = deref ptr; if !process.IsTerminated() { return process } ; id.cache.Store(nil) }
                              if !Belong(id) { (resolvers: none registered here) return substitute }
                              process, exist = processes.Load(id.LogicalAddress)
                              if exist { id.cache.Store(&process); return process } else { return substitute }

   Reference objects (pointers to ProcessId) are numbered; [rinfo] gives the address each one carries and whether
   its physical address differs from the controller's (then Belong fails). Process objects are numbered
   in the order in which the caller creates them (one new object per Register call: [next]).
   Two kinds of process object: [KActor] honours the contract of actor_process.go (Terminate sets the
   flag, IsTerminated reads it); [KSticky] is abyss.go / shared_stream_process.go (IsTerminated is
   constantly false, Terminate does nothing) — used to make the cache observable in the differential
   runs; the theorems are about [KActor] processes. [OKill p] sets the flag of an actor-kind process
   without unregistering it (future.go closes before it unregisters).
   No proofs in this file. *)
From MV Require Import Lib.ListX.
From MV Require Export C12.FunMap.

Definition addr := nat.
Definition proc := nat.
Definition ref := nat.

Inductive kind := KActor | KSticky.

Record rinfo := { raddr : addr; rforeign : bool }.
Definition rdflt : rinfo := {| raddr := 0; rforeign := false |}.
Definition rget (refs : list rinfo) (r : ref) : rinfo := nth r refs rdflt.

Inductive op :=
| ORegister (r : ref) (k : kind)     (* rc.Register(ref r, new process of kind k) *)
| OUnregister (r : ref)              (* rc.Unregister(nil, ref r) *)
| OGet (r : ref)                     (* rc.GetProcess(ref r) *)
| OGetNil                            (* rc.GetProcess(nil) *)
| OKill (p : proc).                  (* process p marks itself terminated (no registry call) *)

Inductive out :=
| OReg (exist : bool) (initialized : option proc)   (* returned flag; which process had Initialize called *)
| OUnreg (terminated : option proc)                 (* which process had Terminate called *)
| OProc (p : option proc)                           (* None = the not-found substitute (dead letters) *)
| OUnit
| OBad.                                             (* never produced by the model *)

Record st := {
  mp : addr -> option proc;          (* rc.processes *)
  term : proc -> bool;               (* the flag behind IsTerminated *)
  knd : proc -> kind;
  cache : ref -> option proc;        (* ProcessId.cache of every reference object *)
  next : proc;                       (* number of process objects created so far *)
  (* ghost history, never read by the algorithm *)
  regd : list (proc * addr);         (* successful registrations *)
  gone : list proc                   (* processes whose unregistration has completed *)
}.

Definition init : st :=
  {| mp := fun _ => None; term := fun _ => false; knd := fun _ => KActor; cache := fun _ => None; next := 0;
     regd := []; gone := [] |}.

Definition set_cache (s : st) (r : ref) (v : option proc) : st :=
  {| mp := mp s; term := term s; knd := knd s; cache := fupd (cache s) r v; next := next s;
     regd := regd s; gone := gone s |}.

Definition do_register (refs : list rinfo) (s : st) (r : ref) (k : kind) : st * out :=
  let a := raddr (rget refs r) in
  let p := next s in
  match mp s a with
  | Some _ =>
      ({| mp := mp s; term := term s; knd := fupd (knd s) p k; cache := cache s; next := S p;
          regd := regd s; gone := gone s |}, OReg true None)
  | None =>
      ({| mp := fupd (mp s) a (Some p); term := term s; knd := fupd (knd s) p k; cache := cache s; next := S p;
          regd := (p, a) :: regd s; gone := gone s |}, OReg false (Some p))
  end.

Definition do_unregister (refs : list rinfo) (s : st) (r : ref) : st * out :=
  let a := raddr (rget refs r) in
  match mp s a with
  | None => (s, OUnreg None)
  | Some p =>
      ({| mp := fupd (mp s) a None;
          term := match knd s p with KActor => fupd (term s) p true | KSticky => term s end;
          knd := knd s; cache := cache s; next := next s; regd := regd s; gone := p :: gone s |},
       OUnreg (Some p))
  end.

Definition do_get (refs : list rinfo) (s : st) (r : ref) : st * out :=
  let ri := rget refs r in
  let load (s1 : st) : st * out :=
    if rforeign ri then (s1, OProc None)
    else match mp s1 (raddr ri) with
         | Some p => (set_cache s1 r (Some p), OProc (Some p))
         | None => (s1, OProc None)
         end in
  match cache s r with
  | Some q => if term s q then load (set_cache s r None) else (s, OProc (Some q))
  | None => load s
  end.

Definition do_kill (s : st) (p : proc) : st * out :=
  if p <? next s then
    match knd s p with
    | KActor => ({| mp := mp s; term := fupd (term s) p true; knd := knd s; cache := cache s; next := next s;
                    regd := regd s; gone := gone s |}, OUnit)
    | KSticky => (s, OUnit)
    end
  else (s, OUnit).

Definition step (refs : list rinfo) (s : st) (o : op) : st * out :=
  match o with
  | ORegister r k => do_register refs s r k
  | OUnregister r => do_unregister refs s r
  | OGet r => do_get refs s r
  | OGetNil => (s, OProc None)
  | OKill p => do_kill s p
  end.

Fixpoint run (refs : list rinfo) (s : st) (ops : list op) : st * list out :=
  match ops with
  | [] => (s, [])
  | o :: t => let '(s1, x) := step refs s o in let '(s2, xs) := run refs s1 t in (s2, x :: xs)
  end.

(* ---- the abstract specification: a plain map from addresses to processes, no cache, no flags ---- *)
Record spec := { sm : addr -> option proc; sn : proc }.
Definition spec_init : spec := {| sm := fun _ => None; sn := 0 |}.

Definition spec_step (refs : list rinfo) (m : spec) (o : op) : spec * out :=
  match o with
  | ORegister r _ =>
      let a := raddr (rget refs r) in
      match sm m a with
      | Some _ => ({| sm := sm m; sn := S (sn m) |}, OReg true None)
      | None => ({| sm := fupd (sm m) a (Some (sn m)); sn := S (sn m) |}, OReg false (Some (sn m)))
      end
  | OUnregister r =>
      let a := raddr (rget refs r) in
      match sm m a with
      | None => (m, OUnreg None)
      | Some p => ({| sm := fupd (sm m) a None; sn := sn m |}, OUnreg (Some p))
      end
  | OGet r =>
      let ri := rget refs r in
      if rforeign ri then (m, OProc None) else (m, OProc (sm m (raddr ri)))
  | OGetNil => (m, OProc None)
  | OKill _ => (m, OUnit)
  end.

Fixpoint spec_run (refs : list rinfo) (m : spec) (ops : list op) : spec * list out :=
  match ops with
  | [] => (m, [])
  | o :: t => let '(m1, x) := spec_step refs m o in let '(m2, xs) := spec_run refs m1 t in (m2, x :: xs)
  end.

(* every process object the caller registers honours the contract of actor_process.go *)
Definition actor_op (o : op) : bool := match o with ORegister _ KSticky => false | _ => true end.
Definition actor_only (ops : list op) : bool := forallb actor_op ops.
