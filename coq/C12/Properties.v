(* MV.C12.Properties — statements of property C12 ("an address resolves to its currently registered
   process, or to dead letters").

   Three models, each tied to /repo on every run:
   (1) MV.C12.ConcModel: the interleaving machine [Reg fx] of engine/prc/resource_controller.go with the
       per-reference cache of ProcessId (one step per operation on shared memory; unbounded Register /
       Unregister / GetProcess threads started by an environment thread; shared and private reference
       objects; address reuse). [Reg false] is Unregister as shipped (LoadAndDelete, then Terminate),
       [Reg true] the repaired one (Terminate under the entry's lock, then delete:
       fixes/C12-unregister-terminate-before-delete.patch). Tie T2: per-step replay of schedules of the
       instrumented current source against [Reg true].
   (2) MV.C12.RegModel: the sequential registry with cache, flags and process kinds; tie T1 through the
       public prc API.
   (3) MV.C12.AddrModel: Derivation / Equal / URL over byte strings; tie T1.
   (4) MV.C12.EqModel: reference objects with their hidden cache field, scripts of constructors, registry
       operations (Register with aliases, Unregister, GetProcess with resolvers, self-termination), views and
       Equal sweeps; tie T1 on real *prc.ProcessId objects put into every combination of cache states.
   Quantification: every schedule of every length with any number of threads ([reach]); every operation
   sequence; every string. *)
From MV Require Import Lib.ListX Lib.Sched.
From MV Require C12.RegModel C12.RegProofs C12.EqModel C12.EqProofs.
From MV Require Import C12.AddrModel C12.AddrProofs C12.ConcModel C12.ConcProofs.
Close Scope string_scope.
Open Scope Z_scope.

(* ================= (1) concurrent registry ================= *)

(* Registering a taken address is refused in a single atomic step and leaves map, lock, flags, caches and
   the registration history untouched (the only effect is the ghost mark that this call has executed). *)
Theorem C12_register_first_wins : forall fx s a p q c,
  mp s a = Some q ->
  exists s', mstep fx s (RLos a p) c = Some (s', Some (RRet a p true), [], EvLos a p (Some q)) /\
    mp s' = mp s /\ lk s' = lk s /\ term s' = term s /\ cache s' = cache s /\ regd s' = regd s /\ del s' = del s.
Proof. exact register_first_wins. Qed.
Print Assumptions C12_register_first_wins.

(* From its store until an Unregister deletes it, a registered process stays the registrant of its address
   in every reachable state (no later registration replaces it) — both variants. *)
Theorem C12_registered_until_deleted : forall fx st, reach (init fx) st ->
  forall p a, In (p, a) (regd (fst st)) -> del (fst st) p = false -> mp (fst st) a = Some p.
Proof. exact registered_until_deleted. Qed.
Print Assumptions C12_registered_until_deleted.

(* Repaired Unregister. Every lookup that has returned, in every reachable state: if, when it started,
   p was stored under the address, no Unregister call of that address was still before its delete
   ([rw r = Some (p, n)], n = number of Unregister calls of the address invoked so far) and no Unregister
   call of that address was invoked until it returned ([rus r = n]), then it returned p — through any
   reference object, whatever its cache held. In particular: it started after Register p returned and
   ended before the Unregister that removes p started. *)
Theorem C12_lookup_window : forall st, reach (init true) st -> Forall window_ok (rets (fst st)).
Proof. exact lookup_window. Qed.
Print Assumptions C12_lookup_window.

(* When a lookup gets such a window: whenever p has been stored under the address (in particular once
   Register p has returned), has not been deleted, and no Unregister call of the address is pending before its
   delete — the environment step that starts the lookup then records [gw = window s a]. *)
Theorem C12_window_opens : forall fx st, reach (init fx) st ->
  forall p a, In (p, a) (regd (fst st)) -> del (fst st) p = false -> upend (fst st) a = 0 ->
  window (fst st) a = Some (p, ustart (fst st) a).
Proof. exact window_opens. Qed.
Print Assumptions C12_window_opens.

Theorem C12_lookup_window_runs : forall sched st es,
  run (init true) sched = Some (st, es) -> Forall window_ok (rets (fst st)).
Proof. intros sched st es H. apply lookup_window. eapply run_reach; [constructor|exact H]. Qed.
Print Assumptions C12_lookup_window_runs.

(* Unregister as shipped: the same clause is false. In [witness_schedule] process 0 is registered and cached
   by reference (0,0); an Unregister performs LoadAndDelete but not yet Terminate; process 1 is registered
   under the now free address and its Register returns; a lookup through the caching reference, started
   after that, with no further Unregister call, returns the removed process 0.
   (The harness reproduces this interleaving on the instrumented source: monitor
   regconc:GetProcess:stale-after-reregistration.) *)
Theorem C12_lookup_window_as_shipped_refuted :
  exists st es, run (init false) witness_schedule = Some (st, es) /\ ~ Forall window_ok (rets (fst st)).
Proof. exact lookup_window_as_shipped_refuted. Qed.
Print Assumptions C12_lookup_window_as_shipped_refuted.

(* Both variants: a lookup that started after the Unregister call that removed p had returned
   ([rgs r] = the processes removed by Unregister calls that had returned at its start) never returns p. *)
Theorem C12_after_unregister : forall fx st, reach (init fx) st -> Forall after_unregister_ok (rets (fst st)).
Proof. exact after_unregister. Qed.
Print Assumptions C12_after_unregister.

(* Both variants: once removed from the map a process never comes back, and when its Unregister call has
   returned it is flagged terminated for every cache holder. *)
Theorem C12_deleted_never_back : forall fx st, reach (init fx) st ->
  forall p a, del (fst st) p = true -> mp (fst st) a <> Some p.
Proof. exact deleted_never_back. Qed.
Print Assumptions C12_deleted_never_back.

Theorem C12_unregistered_is_flagged : forall fx st, reach (init fx) st ->
  forall p, In p (gone (fst st)) -> del (fst st) p = true /\ term (fst st) p = true.
Proof. exact unregistered_is_flagged. Qed.
Print Assumptions C12_unregistered_is_flagged.

(* Repaired Unregister: whoever is absent from the map after having been registered is already flagged. *)
Theorem C12_deleted_is_flagged : forall st, reach (init true) st ->
  forall p, del (fst st) p = true -> term (fst st) p = true.
Proof. exact deleted_is_flagged. Qed.
Print Assumptions C12_deleted_is_flagged.

(* Both variants: the cache of a reference object only ever holds a process that was registered (stored by a
   successful LoadOrStore) under the address the reference carries. *)
Theorem C12_cache_sound : forall fx st, reach (init fx) st ->
  forall a k q, cache (fst st) a k = Some q -> In (q, a) (regd (fst st)).
Proof. exact cache_sound. Qed.
Print Assumptions C12_cache_sound.

(* Both variants: a lookup returns dead letters or a process that was registered under that very address. *)
Theorem C12_lookup_sound : forall fx st, reach (init fx) st ->
  forall r q, In r (rets (fst st)) -> rres r = Some q -> In (q, ra r) (regd (fst st)).
Proof. exact lookup_sound. Qed.
Print Assumptions C12_lookup_sound.

(* non-vacuity: repaired machine, address reused while reference (0,0) still caches the first registrant;
   the last lookup has a window ([rw] = Some (1, 1), [rus] = 1), started after the Unregister of process 0
   returned, and returns the new registrant 1 *)
Example C12_window_example :
  exists st es,
    run (init true)
      [(0, CReg 0); (1, CNone); (1, CNone); (1, CNone);
       (0, CGet 0 0); (2, CNone); (2, CNone); (2, CNone); (2, CNone);
       (0, CUnreg 0); (3, CNone); (3, CNone); (3, CNone); (3, CNone);
       (0, CReg 0); (4, CNone); (4, CNone); (4, CNone);
       (0, CGet 0 0); (5, CNone); (5, CNone); (5, CNone); (5, CNone); (5, CNone); (5, CNone)]%nat = Some (st, es)
    /\ rets (fst st) =
       [ {| ra := 0%nat; rk := 0%nat; rw := Some (1%nat, 1); rus := 1; rgs := [0%nat]; rres := Some 1%nat |};
         {| ra := 0%nat; rk := 0%nat; rw := Some (0%nat, 0); rus := 0; rgs := []; rres := Some 0%nat |} ]
    /\ cache (fst st) 0%nat 0%nat = Some 1%nat.
Proof. eexists. eexists. split; [vm_compute; reflexivity|]. split; vm_compute; reflexivity. Qed.

(* ================= (2) sequential registry (with process kinds) ================= *)
(* With processes honouring the Process contract, the outputs of Register / Unregister / GetProcess /
   GetProcess(nil) over any sequence, through shared, private and foreign reference objects, are exactly
   those of a plain map address -> process (no cache, no flags). *)
Theorem C12_seq_refines_map : forall refs ops, RegModel.actor_only ops = true ->
  snd (RegModel.run refs RegModel.init ops) = snd (RegModel.spec_run refs RegModel.spec_init ops).
Proof. exact RegProofs.seq_refines_spec. Qed.
Print Assumptions C12_seq_refines_map.

(* registering a taken address is refused and changes nothing but the count of process objects *)
Theorem C12_seq_register_first_wins : forall refs ops r k q,
  let s := RegProofs.after refs ops in
  RegModel.mp s (RegModel.raddr (RegModel.rget refs r)) = Some q ->
  let '(s', x) := RegModel.step refs s (RegModel.ORegister r k) in
  x = RegModel.OReg true None /\ (forall a, RegModel.mp s' a = RegModel.mp s a) /\
  (forall p, RegModel.term s' p = RegModel.term s p) /\ (forall r0, RegModel.cache s' r0 = RegModel.cache s r0) /\
  RegModel.regd s' = RegModel.regd s /\ RegModel.gone s' = RegModel.gone s.
Proof. exact RegProofs.register_first_wins. Qed.
Print Assumptions C12_seq_register_first_wins.

(* from a successful registration until its unregistration every lookup through any local reference object
   of that address, whatever it cached, yields the registered process *)
Theorem C12_seq_lookup_registered : forall refs ops r p,
  RegModel.actor_only ops = true ->
  let s := RegProofs.after refs ops in
  RegModel.rforeign (RegModel.rget refs r) = false -> RegModel.mp s (RegModel.raddr (RegModel.rget refs r)) = Some p ->
  snd (RegModel.step refs s (RegModel.OGet r)) = RegModel.OProc (Some p).
Proof. exact RegProofs.lookup_registered. Qed.
Print Assumptions C12_seq_lookup_registered.

Theorem C12_seq_registered_until_unregistered : forall refs ops p a,
  let s := RegProofs.after refs ops in
  In (p, a) (RegModel.regd s) -> ~ In p (RegModel.gone s) -> RegModel.mp s a = Some p.
Proof. exact RegProofs.registered_until_unregistered. Qed.
Print Assumptions C12_seq_registered_until_unregistered.

(* after the unregistration a lookup yields dead letters or the process now registered, never a removed one *)
Theorem C12_seq_lookup_after_unregister : forall refs ops r p,
  RegModel.actor_only ops = true ->
  let s := RegProofs.after refs ops in
  In p (RegModel.gone s) ->
  snd (RegModel.step refs s (RegModel.OGet r)) = RegModel.OProc (RegProofs.resolves refs s r) /\
  RegProofs.resolves refs s r <> Some p.
Proof. exact RegProofs.lookup_after_unregister. Qed.
Print Assumptions C12_seq_lookup_after_unregister.

(* every kind of process object: the cache only holds processes registered under the reference's address *)
Theorem C12_seq_cache_sound : forall refs ops r q,
  let s := RegProofs.after refs ops in
  RegModel.cache s r = Some q -> In (q, RegModel.raddr (RegModel.rget refs r)) (RegModel.regd s).
Proof. exact RegProofs.cache_sound_seq. Qed.
Print Assumptions C12_seq_cache_sound.

(* non-vacuity: r1 caches process 0, the address is unregistered and registered again, r1 resolves to 1;
   and what a contract-breaking process (IsTerminated constantly false) does to the same history *)
Example C12_seq_example :
  let refs := [ RegModel.Build_rinfo 0%nat false; RegModel.Build_rinfo 0%nat false ] in
  snd (RegModel.run refs RegModel.init
         [RegModel.ORegister 0%nat RegModel.KActor; RegModel.OGet 1%nat; RegModel.OUnregister 0%nat; RegModel.OGet 1%nat;
          RegModel.ORegister 0%nat RegModel.KActor; RegModel.OGet 1%nat; RegModel.ORegister 1%nat RegModel.KActor])
  = [RegModel.OReg false (Some 0%nat); RegModel.OProc (Some 0%nat); RegModel.OUnreg (Some 0%nat); RegModel.OProc None;
     RegModel.OReg false (Some 1%nat); RegModel.OProc (Some 1%nat); RegModel.OReg true None]
  /\ snd (RegModel.run refs RegModel.init
         [RegModel.ORegister 0%nat RegModel.KSticky; RegModel.OGet 1%nat; RegModel.OUnregister 0%nat; RegModel.OGet 1%nat;
          RegModel.ORegister 0%nat RegModel.KActor; RegModel.OGet 1%nat])
  = [RegModel.OReg false (Some 0%nat); RegModel.OProc (Some 0%nat); RegModel.OUnreg (Some 0%nat); RegModel.OProc (Some 0%nat);
     RegModel.OReg false (Some 1%nat); RegModel.OProc (Some 0%nat)].
Proof. split; vm_compute; reflexivity. Qed.

(* ================= (3) address algebra ================= *)
(* Distinct names without a leading '/' (every name the actor API accepts) give distinct children of one parent. *)
Theorem C12_derivation_injective : forall p n1 n2,
  starts_slash n1 = false -> starts_slash n2 = false -> n1 <> n2 -> Derivation p n1 <> Derivation p n2.
Proof. exact Derivation_inj_name. Qed.
Print Assumptions C12_derivation_injective.

(* For the names of the actor API (^[^\s\\/]+$) the child address determines parent address and name, for
   all parents with a non-empty address: children of different parents never collide either. *)
Theorem C12_derivation_injective_api_names : forall l1 l2 n1 n2,
  l1 <> ""%string -> l2 <> ""%string -> name_ok n1 = true -> name_ok n2 = true ->
  derive l1 n1 = derive l2 n2 -> l1 = l2 /\ n1 = n2.
Proof. exact derive_inj_joint. Qed.
Print Assumptions C12_derivation_injective_api_names.

(* a child never has the address of its parent *)
Theorem C12_derivation_child_differs : forall ld n, n <> ""%string -> derive ld n <> ld.
Proof. exact derive_ne_parent. Qed.
Print Assumptions C12_derivation_child_differs.

(* A leading slash is an optional separator: "a" and "/a" name the same child (by construction, not a finding);
   under the root "/" the slash is kept; the empty parent address collides with the root. *)
Example C12_derivation_slash_note :
  derive "/user" "a" = "/user/a"%string /\ derive "/user" "/a" = "/user/a"%string /\
  derive "/" "a" = "/a"%string /\ derive "/" "/a" = "//a"%string /\ derive "" "a" = derive "/" "a" /\
  name_ok "a" = true /\ name_ok "/a" = false.
Proof. repeat split; vm_compute; reflexivity. Qed.

(* two references are equal exactly when node and local address both match *)
Theorem C12_equal_iff : forall a b,
  Equal (Some a) (Some b) = true <-> phys a = phys b /\ logic a = logic b.
Proof. exact equal_iff. Qed.
Print Assumptions C12_equal_iff.

Theorem C12_equal_nil : forall a, Equal None a = false /\ Equal a None = false.
Proof. exact equal_nil. Qed.
Print Assumptions C12_equal_nil.

Theorem C12_url_injective : forall a b, URL (Some a) = URL (Some b) <-> a = b.
Proof. exact url_inj. Qed.
Print Assumptions C12_url_injective.

Example C12_equal_example :
  Equal (Some {| phys := "n1"; logic := "/a" |}) (Some {| phys := "n1"; logic := "/a" |}) = true /\
  Equal (Some {| phys := "n1"; logic := "/a" |}) (Some {| phys := "n2"; logic := "/a" |}) = false /\
  url_text {| phys := "127.0.0.1:8080"; logic := "/user/a" |} = Some "minotaur://127.0.0.1:8080/user/a"%string.
Proof. repeat split; vm_compute; reflexivity. Qed.

(* ================= (4) references and their hidden cache: Equal reads the address pair only ================= *)
(* Equal is an equivalence on non-nil references (nil is equal to nothing, C12_equal_nil) ... *)
Theorem C12_equal_reflexive : forall a, Equal (Some a) (Some a) = true.
Proof. exact EqProofs.equal_refl. Qed.
Print Assumptions C12_equal_reflexive.

Theorem C12_equal_symmetric : forall a b, Equal a b = Equal b a.
Proof. exact EqProofs.equal_sym. Qed.
Print Assumptions C12_equal_symmetric.

Theorem C12_equal_transitive : forall a b c, Equal a b = true -> Equal b c = true -> Equal a c = true.
Proof. exact EqProofs.equal_trans. Qed.
Print Assumptions C12_equal_transitive.

(* ... that coincides with equality of the (node, local address) pair, nil included: the verdict is true exactly
   for two non-nil references carrying one and the same pair; false exactly when a component differs *)
Theorem C12_equal_is_address_equality : forall a b, Equal a b = true <-> exists x, a = Some x /\ b = Some x.
Proof. exact EqProofs.equal_true_iff. Qed.
Print Assumptions C12_equal_is_address_equality.

Theorem C12_equal_false_iff : forall a b,
  Equal (Some a) (Some b) = false <-> phys a <> phys b \/ logic a <> logic b.
Proof. exact EqProofs.equal_false_iff. Qed.
Print Assumptions C12_equal_false_iff.

(* Equal cannot tell apart two references of one address pair (distinct objects, clones, decoded copies) *)
Theorem C12_equal_congruence : forall a a' b, Equal (Some a) (Some a') = true -> Equal (Some a) b = Equal (Some a') b.
Proof. exact EqProofs.equal_congr. Qed.
Print Assumptions C12_equal_congruence.

(* the matrix of a sweep over a reference table is Equal of the two table entries *)
Theorem C12_sweep_is_equal_matrix : forall refs i j, (i < List.length refs)%nat -> (j < List.length refs)%nat ->
  nth (i * List.length refs + j)%nat (EqModel.sweep refs) false = Equal (nth i refs None) (nth j refs None).
Proof. exact EqProofs.sweep_spec. Qed.
Print Assumptions C12_sweep_is_equal_matrix.

(* Register / Unregister / GetProcess / self-termination — everything that moves the cache of a reference between
   never-resolved, resolved (own or shared process) and stale — never write a reference's address *)
Theorem C12_registry_ops_keep_references : forall w s o,
  EqModel.addr_op o = false -> EqModel.erefs (fst (EqModel.step w s o)) = EqModel.erefs s.
Proof. exact EqProofs.step_cache_op. Qed.
Print Assumptions C12_registry_ops_keep_references.

(* Every address-level output of every script (addresses of new / cloned / derived / decoded references, views =
   getters + URL + Clone + Derivation, Equal over all ordered pairs) equals the output of the same script with all
   registry operations erased — from any two states that agree on the reference table, whatever the caches, the
   registry, the terminated flags, the own node and the resolver: Equal & co. are functions of the addresses only. *)
Theorem C12_address_ops_ignore_cache_state : forall w1 w2 ops s1 s2,
  EqModel.erefs s1 = EqModel.erefs s2 ->
  EqModel.addr_outs ops (EqModel.run w1 s1 ops) = EqModel.run w2 s2 (filter EqModel.addr_op ops).
Proof. exact EqProofs.addr_ops_ignore_cache. Qed.
Print Assumptions C12_address_ops_ignore_cache_state.

(* non-vacuity: the model reaches the cache states in question — two references of different addresses on one
   remote node both cache the node's single process, a third caches a terminated process — and Equal is unmoved *)
Example C12_equal_shared_cache_example :
  let w := {| EqModel.wlocal := "n1"%string; EqModel.wres := EqModel.RNode |} in
  let s := fold_left (fun s o => fst (EqModel.step w s o)) EqProofs.shared_cache_script EqModel.einit in
  EqModel.ecache s = [Some (EqModel.PN "n2"); Some (EqModel.PN "n2"); Some (EqModel.PL 7)] /\
  EqModel.flagged s (EqModel.PL 7) = true /\
  last (EqModel.run w EqModel.einit EqProofs.shared_cache_script) EqModel.XBad =
    EqModel.XMat [true; false; false;  false; true; false;  false; false; true].
Proof. exact EqProofs.shared_cache_witness. Qed.
