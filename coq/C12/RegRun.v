(* MV.C12.RegRun — evaluation of recorded runs of the real ResourceController (public prc API, stub
   processes) against the sequential model (tie T1). A case = the reference objects, the operation
   list and the outputs the Go code produced. *)
From MV Require Import Lib.ListX C12.RegModel.

Definition out_eqb (a b : out) : bool :=
  match a, b with
  | OReg e1 i1, OReg e2 i2 => Bool.eqb e1 e2 && opt_eqb Nat.eqb i1 i2
  | OUnreg t1, OUnreg t2 => opt_eqb Nat.eqb t1 t2
  | OProc p1, OProc p2 => opt_eqb Nat.eqb p1 p2
  | OUnit, OUnit => true
  | _, _ => false
  end.

Record case := { cid : nat; crefs : list rinfo; cops : list op; cimpl : list out }.

Definition model_outs (c : case) : list out := snd (run (crefs c) init (cops c)).
Definition case_ok (c : case) : bool := list_eqb out_eqb (model_outs c) (cimpl c).
Definition mismatches (cs : list case) : list nat := fail_ids case_ok cid cs.
