(* MV.C12.EqProofs — Equal is an equivalence on references that coincides with equality of the
   (node, local address) pair; every address-level operation on references is a function of the
   addresses only: the registry operations that move the hidden cache of a reference through its
   states never change what Equal / the getters / URL / Clone / Derivation answer. *)
From MV Require Import Lib.ListX C12.AddrModel C12.AddrProofs C12.EqModel.
Open Scope string_scope.

(* ---- Equal on (possibly nil) references ---- *)
Lemma equal_refl a : Equal (Some a) (Some a) = true.
Proof. apply equal_iff. auto. Qed.

Lemma equal_sym a b : Equal a b = Equal b a.
Proof.
  destruct a as [x|], b as [y|]; simpl; try reflexivity.
  rewrite (String.eqb_sym (phys x)), (String.eqb_sym (logic x)). reflexivity.
Qed.

Lemma equal_trans a b c : Equal a b = true -> Equal b c = true -> Equal a c = true.
Proof.
  destruct a as [x|], b as [y|], c as [z|]; simpl; try discriminate.
  rewrite !andb_true_iff, !String.eqb_eq. intros [E1 E2] [E3 E4]. split; congruence.
Qed.

Lemma equal_false_iff a b :
  Equal (Some a) (Some b) = false <-> phys a <> phys b \/ logic a <> logic b.
Proof.
  simpl. rewrite andb_false_iff, !String.eqb_neq. tauto.
Qed.

(* the verdict on two references, nil included: true exactly for two non-nil references of one address pair *)
Lemma equal_true_iff a b : Equal a b = true <-> exists x, a = Some x /\ b = Some x.
Proof.
  split.
  - destruct a as [x|], b as [y|]; simpl; try discriminate. intros H.
    exists x. split; [reflexivity|]. f_equal. symmetry. apply equal_iff_eq. exact H.
  - intros (x & -> & ->). apply equal_refl.
Qed.

(* Equal cannot tell a reference from any other reference of the same address pair *)
Lemma equal_congr a a' b : Equal (Some a) (Some a') = true -> Equal (Some a) b = Equal (Some a') b.
Proof. intros H. apply equal_iff_eq in H. subst. reflexivity. Qed.

Lemma clone_id a : Clone a = a.
Proof. destruct a. reflexivity. Qed.

Lemma view_of_address a b : phys a = phys b -> logic a = logic b -> view a = view b.
Proof. destruct a, b; simpl. intros -> ->. reflexivity. Qed.

(* ---- the matrix of a sweep ---- *)
Lemma nth_flat_map_rows {A B} (f : A -> list B) n (l : list A) (da : A) (d : B) :
  (forall a, List.length (f a) = n) ->
  forall i j, i < List.length l -> j < n -> nth (i * n + j) (flat_map f l) d = nth j (f (nth i l da)) d.
Proof.
  intros Hn. induction l as [|a t IH]; intros i j Hi Hj; simpl in Hi; [lia|].
  destruct i as [|i]; simpl.
  - rewrite app_nth1 by (rewrite Hn; exact Hj). reflexivity.
  - replace (n + i * n + j) with (List.length (f a) + (i * n + j)) by (rewrite Hn; lia).
    rewrite app_nth2_plus. apply IH; lia.
Qed.

Lemma sweep_spec refs i j : i < List.length refs -> j < List.length refs ->
  nth (i * List.length refs + j) (sweep refs) false = Equal (nth i refs None) (nth j refs None).
Proof.
  intros Hi Hj. unfold sweep.
  rewrite (nth_flat_map_rows _ (List.length refs) refs None false) by (try (intros; apply map_length); assumption).
  set (a := nth i refs None).
  replace false with (Equal a None) at 1 by (destruct a; reflexivity).
  apply (map_nth (fun b => Equal a b)).
Qed.

Lemma sweep_length refs : List.length (sweep refs) = List.length refs * List.length refs.
Proof.
  unfold sweep.
  assert (G : forall rows cols : list (option pid),
             List.length (flat_map (fun a => map (fun b => Equal a b) cols) rows) = List.length rows * List.length cols).
  { intros rows cols. induction rows as [|a t IH]; simpl; [reflexivity|].
    rewrite app_length, map_length, IH. reflexivity. }
  apply G.
Qed.

(* ---- scripts: the registry operations do not write the reference table; the address-level operations
        read nothing else ---- *)
Ltac split_matches :=
  repeat match goal with
         | |- context [match ?x with _ => _ end] => destruct x
         end.

Lemma step_cache_op w s o : addr_op o = false -> erefs (fst (step w s o)) = erefs s.
Proof.
  destruct o; simpl; try discriminate; intros _; unfold get_slow; split_matches; reflexivity.
Qed.

Lemma step_addr_op w1 w2 s1 s2 o : addr_op o = true -> erefs s1 = erefs s2 ->
  snd (step w1 s1 o) = snd (step w2 s2 o) /\ erefs (fst (step w1 s1 o)) = erefs (fst (step w2 s2 o)).
Proof.
  destruct o; simpl; try discriminate; intros _ E; unfold ref_at; rewrite E;
    split_matches; simpl; rewrite ?E; auto.
Qed.

(* every address-level output of a script (new references, views, Equal matrices) is the output of the script
   with every Register / Unregister / GetProcess / termination erased — from any registry and cache state,
   on any node, with any resolver *)
Lemma addr_ops_ignore_cache w1 w2 ops : forall s1 s2, erefs s1 = erefs s2 ->
  addr_outs ops (run w1 s1 ops) = run w2 s2 (filter addr_op ops).
Proof.
  induction ops as [|o t IH]; intros s1 s2 E; simpl; [reflexivity|].
  destruct (addr_op o) eqn:K.
  - destruct (step_addr_op w1 w2 s1 s2 o K E) as [Eo Es]. simpl. rewrite Eo. f_equal. apply IH. exact Es.
  - apply IH. rewrite (step_cache_op w1 s1 o K). exact E.
Qed.

(* state form: two states that hold the same references (whatever their caches, the registry and the flags)
   give the same Equal matrix and the same views *)
Lemma sweep_reads_addresses_only w1 w2 s1 s2 : erefs s1 = erefs s2 ->
  snd (step w1 s1 ESweep) = snd (step w2 s2 ESweep) /\
  forall r, snd (step w1 s1 (EView r)) = snd (step w2 s2 (EView r)).
Proof.
  intros E. split; [apply (step_addr_op w1 w2 s1 s2 ESweep eq_refl E)|].
  intros r. apply (step_addr_op w1 w2 s1 s2 (EView r) eq_refl E).
Qed.

(* the cache states exist in the model: a run that ends with two references of different addresses both
   caching one process (and a third whose cached process is terminated), Equal still false *)
Definition shared_cache_script : list eop :=
  [ ENew {| phys := "n2"; logic := "/user/a" |}; ENew {| phys := "n2"; logic := "/user/b" |};
    ENew {| phys := "n1"; logic := "/x" |}; EReg 2 7; EGet 0; EGet 1; EGet 2; EUnreg 2; ESweep ].

Lemma shared_cache_witness :
  let w := {| wlocal := "n1"; wres := RNode |} in
  let s := fold_left (fun s o => fst (step w s o)) shared_cache_script einit in
  ecache s = [Some (PN "n2"); Some (PN "n2"); Some (PL 7)] /\ flagged s (PL 7) = true /\
  last (run w einit shared_cache_script) XBad =
    XMat [true; false; false;  false; true; false;  false; false; true].
Proof. vm_compute. auto. Qed.
