(* MV.C13.Properties — the statements of property C13 ("a cluster identity maps to one actor per ability") and
   nothing else.  Every theorem is closed by [exact <lemma>] and followed by Print Assumptions.

   Machine: MV.C13.DrillModel ([run nm offered init ops]): the cluster manager actor with the repairs of
   fixes/C13-*.patch, [nm] = derivation of the child name.  [lp_name] is the repaired derivation
   (len(identity)-identity-ability), [dash_name] the one of the unrepaired code (identity-ability).
   A history is any list of [Lookup i a] (a request), [Begin i a] (the actor of the pair begins to terminate: it is
   Terminating, still registered under its name, and the manager has not been told anything) and [Stop i a] (the actor
   of the pair has terminated and the manager has handled the notice; with or without a [Begin] before it);
   [trace] pairs every request of the history with its answer.  The manager's mailbox serialises concurrent
   callers, so "all interleavings" are all such lists. *)
From Coq Require Import String Ascii.
From MV Require Import Lib.ListX C13.DrillModel C13.DrillProofs.
Open Scope list_scope.

(* ---- no request makes the cluster manager itself fail: no history contains a panic of the manager *)
Theorem C13_manager_never_fails : forall (offered : list string) (ops : list op),
  ~ In OCrash (outs lp_name offered ops).
Proof. intros. exact (never_fails lp_name offered (fun _ => True) (fun i1 a1 i2 a2 _ _ => lp_name_inj i1 a1 i2 a2) ops (any_identity ops)). Qed.
Print Assumptions C13_manager_never_fails.

(* ---- a request for an ability the node does not offer is answered with an error, whatever happened before *)
Theorem C13_unknown_ability_error : forall (offered : list string) (ops : list op) (i a : string) (x : out),
  str_mem a offered = false -> In (Lookup i a, x) (trace lp_name offered ops) -> x = OErr.
Proof. intros offered ops i a x. exact (unknown_ability_error lp_name offered (fun _ => True) (fun i1 a1 i2 a2 _ _ => lp_name_inj i1 a1 i2 a2) ops i a x (any_identity ops)). Qed.
Print Assumptions C13_unknown_ability_error.

(* ---- idempotent while it lives: if a lookup of (i,a) is answered with reference c and the actor of (i,a) is not
        terminated afterwards, any later lookup of (i,a) is answered with the same reference AND the same actor
        instance, and it creates nothing *)
Theorem C13_idempotent : forall (offered : list string) (pre mid post : list op) (i a : string) (c : child),
  ~ In (Stop i a) mid ->
  nth_error (outs lp_name offered (pre ++ Lookup i a :: mid ++ Lookup i a :: post)) (length pre) = Some (ORef c) ->
  nth_error (outs lp_name offered (pre ++ Lookup i a :: mid ++ Lookup i a :: post)) (length pre + S (length mid)) = Some (ORef c)
  /\ created (final lp_name offered (pre ++ Lookup i a :: mid ++ [Lookup i a])) =
     created (final lp_name offered (pre ++ Lookup i a :: mid)).
Proof.
  intros offered pre mid post i a c.
  exact (idempotent lp_name offered (fun _ => True) (fun i1 a1 i2 a2 _ _ => lp_name_inj i1 a1 i2 a2) pre mid post i a c (any_identity _)).
Qed.
Print Assumptions C13_idempotent.

(* ---- any number of lookups from any number of callers: in a history in which the actor of (i,a) is never
        terminated, ALL lookups of (i,a) get one and the same answer *)
Theorem C13_one_reference_per_pair : forall (offered : list string) (ops : list op) (i a : string) (x y : out),
  ~ In (Stop i a) ops ->
  In (Lookup i a, x) (trace lp_name offered ops) -> In (Lookup i a, y) (trace lp_name offered ops) -> x = y.
Proof.
  intros offered ops i a x y.
  exact (one_reference lp_name offered (fun _ => True) (fun i1 a1 i2 a2 _ _ => lp_name_inj i1 a1 i2 a2) ops i a x y (any_identity ops)).
Qed.
Print Assumptions C13_one_reference_per_pair.

(* ---- created at most once while it lives: the ability's provider is invoked for a pair at most once more than the
        pair's actor was terminated — every further creation is preceded by a death *)
Theorem C13_created_at_most_once : forall (offered : list string) (ops : list op) (k : key),
  count_created k (final lp_name offered ops) <= 1 + count_stops k ops.
Proof. intros offered ops k. exact (created_at_most_once lp_name offered (fun _ => True) (fun i1 a1 i2 a2 _ _ => lp_name_inj i1 a1 i2 a2) ops k (any_identity ops)). Qed.
Print Assumptions C13_created_at_most_once.

(* ---- different identities or abilities yield different actors: two reference answers for different pairs, anywhere
        in a history, differ in the reference (child name) and in the actor instance behind it *)
Theorem C13_distinct_pairs_distinct_refs : forall (offered : list string) (ops : list op) (i1 a1 i2 a2 : string) (c1 c2 : child),
  In (Lookup i1 a1, ORef c1) (trace lp_name offered ops) -> In (Lookup i2 a2, ORef c2) (trace lp_name offered ops) ->
  (i1, a1) <> (i2, a2) -> cname c1 <> cname c2 /\ cinst c1 <> cinst c2.
Proof.
  intros offered ops i1 a1 i2 a2 c1 c2.
  exact (distinct_pairs_distinct_refs lp_name offered (fun _ => True) (fun i1 a1 i2 a2 _ _ => lp_name_inj i1 a1 i2 a2) ops i1 a1 c1 i2 a2 c2 (any_identity ops)).
Qed.
Print Assumptions C13_distinct_pairs_distinct_refs.

(* ---- schedules: which reference (or error) a request gets depends on the pair alone, not on the history before it;
        only WHICH provider invocation serves it depends on the order in which the manager handled the callers *)
Theorem C13_answer_is_function_of_pair : forall (offered : list string) (ops : list op) (i a : string) (x : out),
  In (Lookup i a, x) (trace lp_name offered ops) ->
  if str_mem a offered && (valid_name i && valid_name a)
  then exists c, x = ORef c /\ cname c = lp_name i a
  else x = OErr.
Proof. intros offered ops i a x. exact (answer_shape lp_name offered (fun _ => True) (fun i1 a1 i2 a2 _ _ => lp_name_inj i1 a1 i2 a2) ops i a x (any_identity ops)). Qed.
Print Assumptions C13_answer_is_function_of_pair.

(* ---- the manager's table (anchor state `members`): every entry names a living child under the pair's own name,
        served by the provider invocation recorded for that pair *)
Theorem C13_members_table_sound : forall (offered : list string) (ops : list op) (k : key) (c : child),
  In (k, c) (members (final lp_name offered ops)) ->
  cname c = lp_name (fst k) (snd k) /\ In c (registry (final lp_name offered ops)) /\
  nth_error (created (final lp_name offered ops)) (cinst c) = Some k.
Proof. intros offered ops k c. exact (members_sound lp_name offered (fun _ => True) (fun i1 a1 i2 a2 _ _ => lp_name_inj i1 a1 i2 a2) ops k c (any_identity ops)). Qed.
Print Assumptions C13_members_table_sound.

(* ---- the window in which a member is terminating.  [Begin] is an operation of every history above, so the theorems
        above already cover it: [C13_idempotent]'s "while it lives" ends at [Stop], not at [Begin], and
        [C13_created_at_most_once] counts only [Stop]s — the beginning of a termination pays for no creation.  The three
        statements below say it outright. *)

(* the beginning of a termination changes nothing the manager sees: table, taken names and creation log are unchanged *)
Theorem C13_begin_of_termination_is_invisible : forall (offered : list string) (ops : list op) (i a : string),
  members (final lp_name offered (ops ++ [Begin i a])) = members (final lp_name offered ops) /\
  registry (final lp_name offered (ops ++ [Begin i a])) = registry (final lp_name offered ops) /\
  created (final lp_name offered (ops ++ [Begin i a])) = created (final lp_name offered ops).
Proof. intros offered ops i a. exact (begin_invisible lp_name offered ops i a). Qed.
Print Assumptions C13_begin_of_termination_is_invisible.

(* a terminating member keeps its slot: after any history, every child that is terminating is still listed by the manager
   under its own pair, its name is still taken, and it is the actor created for that pair *)
Theorem C13_terminating_member_keeps_its_slot : forall (offered : list string) (ops : list op) (c : child),
  In c (dying (final lp_name offered ops)) ->
  In c (registry (final lp_name offered ops)) /\
  exists k, In (k, c) (members (final lp_name offered ops)) /\ cname c = lp_name (fst k) (snd k) /\
            nth_error (created (final lp_name offered ops)) (cinst c) = Some k.
Proof. intros offered ops c. exact (dying_keeps_slot lp_name offered (fun _ => True) (fun i1 a1 i2 a2 _ _ => lp_name_inj i1 a1 i2 a2) ops c (any_identity ops)). Qed.
Print Assumptions C13_terminating_member_keeps_its_slot.

(* a lookup of (i,a) inside the window — its actor began to terminate ([Begin i a]) and has not terminated (no [Stop i a]),
   whatever else happens around it — is answered with the reference handed out before, and creates nothing *)
Theorem C13_lookup_while_member_terminates : forall (offered : list string) (pre mid1 mid2 post : list op) (i a : string) (c : child),
  ~ In (Stop i a) mid1 -> ~ In (Stop i a) mid2 ->
  nth_error (outs lp_name offered (pre ++ Lookup i a :: (mid1 ++ Begin i a :: mid2) ++ Lookup i a :: post)) (length pre) = Some (ORef c) ->
  nth_error (outs lp_name offered (pre ++ Lookup i a :: (mid1 ++ Begin i a :: mid2) ++ Lookup i a :: post))
            (length pre + S (length (mid1 ++ Begin i a :: mid2))) = Some (ORef c)
  /\ created (final lp_name offered (pre ++ Lookup i a :: (mid1 ++ Begin i a :: mid2) ++ [Lookup i a])) =
     created (final lp_name offered (pre ++ Lookup i a :: (mid1 ++ Begin i a :: mid2))).
Proof.
  intros offered pre mid1 mid2 post i a c.
  exact (lookup_while_terminating lp_name offered (fun _ => True) (fun i1 a1 i2 a2 _ _ => lp_name_inj i1 a1 i2 a2) pre mid1 mid2 post i a c (any_identity _)).
Qed.
Print Assumptions C13_lookup_while_member_terminates.

(* ---- the repaired child name determines the pair, for ALL strings *)
Theorem C13_child_name_injective : forall i1 a1 i2 a2 : string,
  lp_name i1 a1 = lp_name i2 a2 -> i1 = i2 /\ a1 = a2.
Proof. exact lp_name_inj. Qed.
Print Assumptions C13_child_name_injective.

(* ================= the derivation identity-ability of the unrepaired code ================= *)

(* FULL statement (false): forall offered ops i1 a1 i2 a2 c1 c2,
     In (Lookup i1 a1, ORef c1) (trace dash_name offered ops) -> In (Lookup i2 a2, ORef c2) (trace dash_name offered ops) ->
     (i1, a1) <> (i2, a2) -> cname c1 <> cname c2.
   Witness: ("a-b","c") and ("a","b-c") both derive a-b-c; the second request panics the manager (name taken), the
   guard restarts it (children terminated), and the repeated request is then served under the first pair's address. *)
Theorem C13_distinct_pairs_distinct_refs_refuted_for_dash_naming :
  exists (offered : list string) (ops : list op) (i1 a1 i2 a2 : string) (c1 c2 : child),
    In (Lookup i1 a1, ORef c1) (trace dash_name offered ops) /\ In (Lookup i2 a2, ORef c2) (trace dash_name offered ops) /\
    (i1, a1) <> (i2, a2) /\ cname c1 = cname c2.
Proof. exact dash_distinct_refuted. Qed.
Print Assumptions C13_distinct_pairs_distinct_refs_refuted_for_dash_naming.

(* FULL statement (false): forall offered ops, ~ In OCrash (outs dash_name offered ops). *)
Theorem C13_manager_never_fails_refuted_for_dash_naming :
  exists (offered : list string) (ops : list op), In OCrash (outs dash_name offered ops).
Proof. exact dash_never_fails_refuted. Qed.
Print Assumptions C13_manager_never_fails_refuted_for_dash_naming.

(* with identities that contain no '-' the old derivation is safe too *)
Theorem C13_manager_never_fails_no_separator : forall (offered : list string) (ops : list op),
  no_separator ops -> ~ In OCrash (outs dash_name offered ops).
Proof. intros offered ops. exact (never_fails dash_name offered (fun i => has_dash i = false) dash_name_inj ops). Qed.
Print Assumptions C13_manager_never_fails_no_separator.

Theorem C13_distinct_pairs_distinct_refs_no_separator : forall (offered : list string) (ops : list op) (i1 a1 i2 a2 : string) (c1 c2 : child),
  no_separator ops ->
  In (Lookup i1 a1, ORef c1) (trace dash_name offered ops) -> In (Lookup i2 a2, ORef c2) (trace dash_name offered ops) ->
  (i1, a1) <> (i2, a2) -> cname c1 <> cname c2 /\ cinst c1 <> cinst c2.
Proof.
  intros offered ops i1 a1 i2 a2 c1 c2.
  exact (distinct_pairs_distinct_refs dash_name offered (fun i => has_dash i = false) dash_name_inj ops i1 a1 c1 i2 a2 c2).
Qed.
Print Assumptions C13_distinct_pairs_distinct_refs_no_separator.

(* ================= non-vacuity ================= *)
Open Scope string_scope.

(* a history with repeated lookups, a colliding-looking pair, an unknown ability, unusable names, a termination and a
   re-creation: the hypotheses of the theorems above are satisfiable and the answers are the expected ones *)
Example C13_example_history :
  outs lp_name ["c"; "b-c"]
    [Lookup "a-b" "c"; Lookup "a" "b-c"; Lookup "a-b" "c"; Lookup "a" "z"; Lookup "" "c"; Lookup "a b" "c";
     Stop "a-b" "c"; Lookup "a-b" "c"; Lookup "a" "b-c"; Stop "q" "c"]
  = [ORef (mkchild "3-a-b-c" 0); ORef (mkchild "1-a-b-c" 1); ORef (mkchild "3-a-b-c" 0); OErr; OErr; OErr;
     OStop true; ORef (mkchild "3-a-b-c" 2); ORef (mkchild "1-a-b-c" 1); OStop false].
Proof. vm_compute. reflexivity. Qed.

Example C13_example_counts :
  let ops := [Lookup "a" "c"; Lookup "a" "c"; Stop "a" "c"; Lookup "a" "c"; Lookup "a" "c"] in
  count_created ("a", "c") (final lp_name ["c"] ops) = 2 /\ count_stops ("a", "c") ops = 1.
Proof. vm_compute. auto. Qed.

(* the window: (a,c) begins to terminate, is looked up (old reference, instance 0), another pair is created meanwhile, a
   second Begin finds nothing new to do; after the end of the termination the next lookup creates instance 2 *)
Example C13_example_window :
  outs lp_name ["c"]
    [Lookup "a" "c"; Begin "a" "c"; Lookup "a" "c"; Lookup "b" "c"; Begin "a" "c"; Lookup "a" "c"; Begin "q" "c";
     Stop "a" "c"; Lookup "a" "c"; Begin "a" "c"; Stop "a" "c"]
  = [ORef (mkchild "1-a-c" 0); OBegin true; ORef (mkchild "1-a-c" 0); ORef (mkchild "1-b-c" 1); OBegin false;
     ORef (mkchild "1-a-c" 0); OBegin false; OStop true; ORef (mkchild "1-a-c" 2); OBegin true; OStop true].
Proof. vm_compute. reflexivity. Qed.

(* why the window matters: a manager that forgot the pair at the BEGINNING of the termination ([begin_releasing], not the
   machine) would find the pair's name still taken — the lookup inside the window is a panic of the manager; the machine
   answers it with the old reference *)
Example C13_example_release_at_begin_would_fail :
  let s1 := fst (lookup lp_name ["c"] init "a" "c") in
  snd (lookup lp_name ["c"] (begin_releasing s1 "a" "c") "a" "c") = OCrash /\
  snd (lookup lp_name ["c"] (fst (begin s1 "a" "c")) "a" "c") = ORef (mkchild "1-a-c" 0).
Proof. vm_compute. auto. Qed.

Example C13_example_no_separator : no_separator [Lookup "a" "b-c"; Lookup "b" "c"; Begin "b" "c"; Stop "a" "b-c"].
Proof. repeat constructor. Qed.

(* the old derivation on the same two pairs: the second request is the manager's accident *)
Example C13_example_dash_collision :
  dash_name "a-b" "c" = dash_name "a" "b-c" /\
  outs dash_name ["c"; "b-c"] [Lookup "a-b" "c"; Lookup "a" "b-c"] = [ORef (mkchild "a-b-c" 0); OCrash].
Proof. vm_compute. auto. Qed.
