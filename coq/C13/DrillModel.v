(* MV.C13.DrillModel — executable model of the cluster manager actor ("drill-master",
   engine/vivid/cluster/drillmaster_actor.go) as one sequential machine (layer C): the actor's mailbox
   serialises the requests, so a history of requests is a list.

   State:  members  — the manager's table ability => identity => ref (drillmaster_actor.go:22-24), flattened to an
                      association list keyed by (identity, ability);
           registry — the live children of the manager actor, i.e. the child names that are taken in the process
                      registry (vivid ActorOf panics "actor ... already exists" on a taken name);
           created  — log of the ability-provider invocations; the n-th entry is actor instance n;
           dying    — the children that have begun to terminate (vivid status Terminating: OnTerminate handled or being
                      handled, waiting for their own children, final persistence) and have not finished.  Such a child
                      is still registered under its name (actor_context.go tryTerminated unregisters it only at the
                      very end, just before the termination notice is sent to the parent), so its name is still taken.
   A reference is the child's address (its name below the manager); the instance number says WHICH actor is
   behind it.

   The model follows onActorOf statement by statement, with the REPAIRED behaviour of the four small defects
   (fixes/C13-*.patch): the created reference is stored in members; a name vivid would refuse is answered with an
   error instead of a panic of the manager; terminated children are forgotten; and the child name is derived by
   [nm], a parameter: [dash_name] is the derivation of the unrepaired code (identity-ability), [lp_name] the
   repaired one (len(identity)-identity-ability).

   Termination of a child has TWO phases, as in vivid: [Begin i a] — the child handles its terminate request and is
   Terminating from then on; the manager is told nothing, its table and the registry are unchanged — and [Stop i a] —
   the child has unregistered and the manager has handled the OnTerminated notice (a [Stop] without a [Begin] before it
   is the whole termination in one step).  Between the two, a lookup of the pair finds the entry and is answered with
   the old reference; nothing is created.  [begin_releasing] is what a manager that forgot the pair already at [Begin]
   would do (the name is still taken: the next lookup of the pair is a panic of the manager); it is not part of the
   machine and only serves the witness in Properties.v.  No proofs here. *)
From Coq Require Import String Ascii DecimalString.
From MV Require Import Lib.ListX.
Open Scope string_scope.
Open Scope nat_scope.

Definition key := (string * string)%type.          (* (identity, ability) *)
Record child := mkchild { cname : string; cinst : nat }.

Inductive op :=
| Lookup (i a : string)       (* the request cm.ActorOf{Identity, Ability} *)
| Begin (i a : string)        (* the actor currently registered for the pair begins to terminate (Terminating) *)
| Stop (i a : string).        (* the actor currently registered for the pair has terminated and the manager has handled
                                 the notice (whether or not a Begin came before) *)

Inductive out :=
| ORef (c : child)
| OErr                        (* answered with an error *)
| OCrash                      (* the manager actor panicked: accident, the guard restarts it *)
| OStop (found : bool)
| OBegin (found : bool)       (* found = there is a registered, not yet terminating actor for the pair *)
| OBad.                       (* never produced by the model: timeouts, foreign replies, dead references *)

Record st := { members : list (key * child); registry : list child; created : list key; dying : list child }.
Definition init : st := {| members := []; registry := []; created := []; dying := [] |}.

Definition key_eqb (k1 k2 : key) : bool := String.eqb (fst k1) (fst k2) && String.eqb (snd k1) (snd k2).

Fixpoint find_member (k : key) (m : list (key * child)) : option child :=
  match m with
  | [] => None
  | (k', c) :: t => if key_eqb k k' then Some c else find_member k t
  end.

Definition str_mem (a : string) (l : list string) : bool := existsb (String.eqb a) l.
Definition name_taken (n : string) (r : list child) : bool := existsb (fun c => String.eqb (cname c) n) r.

(* ---- actor names: actor_descriptor.go actorNameRegexp = ^[^\s\\/]+$  (\s of RE2 = \t \n \f \r and blank) *)
Definition bad_char (c : ascii) : bool :=
  let n := nat_of_ascii c in
  (n =? 9) || (n =? 10) || (n =? 12) || (n =? 13) || (n =? 32) || (n =? 47) || (n =? 92).
Fixpoint no_bad_char (s : string) : bool :=
  match s with EmptyString => true | String c t => negb (bad_char c) && no_bad_char t end.
Definition valid_name (s : string) : bool :=
  match s with EmptyString => false | _ => no_bad_char s end.

(* ---- derivation of the child name *)
Definition dash : ascii := "-"%char.
Definition dash_name (i a : string) : string := i ++ String dash a.
Definition dec (n : nat) : string := NilEmpty.string_of_uint (Nat.to_uint n).    (* strconv.Itoa for n >= 0 *)
Definition lp_name (i a : string) : string := dec (String.length i) ++ String dash (i ++ String dash a).

(* ---- the manager restarted by the guard: all children are terminated, a fresh drill-master instance *)
Definition crashed (s : st) : st := {| members := []; registry := []; created := created s; dying := [] |}.

Section Machine.
  Variable nm : string -> string -> string.    (* child name of a pair *)
  Variable offered : list string.              (* abilities of the node's configuration *)

  Definition lookup (s : st) (i a : string) : st * out :=
    if negb (str_mem a offered) then (s, OErr)
    else if negb (valid_name i && valid_name a) then (s, OErr)
    else match find_member (i, a) (members s) with
         | Some c => (s, ORef c)
         | None =>
             let n := nm i a in
             if name_taken n (registry s) then (crashed s, OCrash)
             else
               let c := {| cname := n; cinst := length (created s) |} in
               ({| members := ((i, a), c) :: members s; registry := c :: registry s;
                   created := created s ++ [(i, a)]; dying := dying s |}, ORef c)
         end.

  (* the child of the pair begins to terminate: nothing the manager can see changes.  A second terminate request to a
     child that is already terminating is ignored (actor_context.go onTerminate: the status CAS fails). *)
  Definition begin (s : st) (i a : string) : st * out :=
    match find_member (i, a) (members s) with
    | None => (s, OBegin false)
    | Some c =>
        if name_taken (cname c) (dying s) then (s, OBegin false)
        else ({| members := members s; registry := registry s; created := created s; dying := c :: dying s |}, OBegin true)
    end.

  (* the child of the pair has terminated: it leaves the registry, then the manager handles OnTerminated and deletes
     every entry whose reference is the terminated one *)
  Definition stop (s : st) (i a : string) : st * out :=
    match find_member (i, a) (members s) with
    | None => (s, OStop false)
    | Some c =>
        ({| members := filter (fun e => negb (String.eqb (cname (snd e)) (cname c))) (members s);
            registry := filter (fun c' => negb (String.eqb (cname c') (cname c))) (registry s);
            created := created s;
            dying := filter (fun c' => negb (String.eqb (cname c') (cname c))) (dying s) |}, OStop true)
    end.

  Definition step (s : st) (o : op) : st * out :=
    match o with
    | Lookup i a => lookup s i a
    | Begin i a => begin s i a
    | Stop i a => stop s i a
    end.

  Fixpoint run (s : st) (ops : list op) : st * list out :=
    match ops with
    | [] => (s, [])
    | o :: t => let '(s1, x) := step s o in let '(s2, xs) := run s1 t in (s2, x :: xs)
    end.

  Definition final (ops : list op) : st := fst (run init ops).
  Definition outs (ops : list op) : list out := snd (run init ops).
  Definition trace (ops : list op) : list (op * out) := combine ops (outs ops).
End Machine.

(* ---- NOT the machine: a manager that forgets the pair as soon as its actor BEGINS to terminate (the entry leaves the
        table while the child is still registered under its name) *)
Definition begin_releasing (s : st) (i a : string) : st :=
  match find_member (i, a) (members s) with
  | None => s
  | Some c => {| members := filter (fun e => negb (String.eqb (cname (snd e)) (cname c))) (members s);
                 registry := registry s; created := created s; dying := c :: dying s |}
  end.

(* ---- counting *)
Definition count_created (k : key) (s : st) : nat := length (filter (key_eqb k) (created s)).
Definition is_stop_of (k : key) (o : op) : bool :=
  match o with Stop i a => key_eqb k (i, a) | _ => false end.
Definition count_stops (k : key) (ops : list op) : nat := length (filter (is_stop_of k) ops).

(* identities of the requests of a history satisfy P *)
Definition op_identity (o : op) : string := match o with Lookup i _ => i | Begin i _ => i | Stop i _ => i end.
Fixpoint has_dash (s : string) : bool :=
  match s with EmptyString => false | String c t => Ascii.eqb c dash || has_dash t end.

(* the identities of a history contain no '-' *)
Definition no_separator (ops : list op) : Prop := Forall (fun o => has_dash (op_identity o) = false) ops.
