(* MV.C13.DrillProofs — proofs about MV.C13.DrillModel.
   Part 1: string facts and injectivity of the two name derivations.
   Part 2: the machine, for ANY derivation [nm] that is injective on a domain [Pi] of identities:
           invariant, no crash, error for abilities not on offer, one reference per pair and lifetime,
           one creation per lifetime, distinct pairs never share a name or an instance; the window between the
           beginning ([Begin]) and the end ([Stop]) of a child's termination: nothing the manager sees changes, the
           terminating child keeps its slot, lookups inside the window get the old reference and create nothing. *)
From Coq Require Import String Ascii DecimalString DecimalNat.
From MV Require Import Lib.ListX C13.DrillModel.
Open Scope list_scope.
Open Scope nat_scope.

(* ------------------------------------------------------------------ strings *)

Lemma append_inj_len (s1 s2 t1 t2 : string) :
  String.length s1 = String.length s2 -> (s1 ++ t1 = s2 ++ t2)%string -> s1 = s2 /\ t1 = t2.
Proof.
  revert s2; induction s1 as [|c s1 IH]; intros [|c2 s2] Hl H; cbn in *; try discriminate; auto.
  injection H as Hc Ht. injection Hl as Hl. destruct (IH _ Hl Ht) as [-> ->]. subst; auto.
Qed.

Lemma has_dash_head c t : has_dash (String c t) = false -> c <> dash /\ has_dash t = false.
Proof.
  cbn. intros H. apply orb_false_iff in H as [H1 H2]. split; auto.
  intros ->. unfold dash in H1. rewrite Ascii.eqb_refl in H1. discriminate.
Qed.

(* two words without dash, each followed by a dash: the first dash decides where they end *)
Lemma split_first_dash (d1 d2 r1 r2 : string) :
  has_dash d1 = false -> has_dash d2 = false ->
  (d1 ++ String dash r1 = d2 ++ String dash r2)%string -> d1 = d2 /\ r1 = r2.
Proof.
  revert d2; induction d1 as [|c d1 IH]; intros [|c2 d2] H1 H2 H; cbn [append] in H.
  - injection H as ->; auto.
  - injection H as Hc _. apply has_dash_head in H2 as [Hn _]. congruence.
  - injection H as Hc _. apply has_dash_head in H1 as [Hn _]. congruence.
  - injection H as Hc Ht. apply has_dash_head in H1 as [_ H1]. apply has_dash_head in H2 as [_ H2].
    destruct (IH _ H1 H2 Ht) as [-> ->]. subst; auto.
Qed.

Lemma dash_name_inj i1 a1 i2 a2 :
  has_dash i1 = false -> has_dash i2 = false -> dash_name i1 a1 = dash_name i2 a2 -> i1 = i2 /\ a1 = a2.
Proof. unfold dash_name. apply split_first_dash. Qed.

Lemma uint_string_no_dash d : has_dash (NilEmpty.string_of_uint d) = false.
Proof. induction d; cbn; auto. Qed.

Lemma dec_no_dash n : has_dash (dec n) = false.
Proof. apply uint_string_no_dash. Qed.

Lemma dec_inj n m : dec n = dec m -> n = m.
Proof.
  unfold dec. intros H. apply Unsigned.to_uint_inj.
  assert (E : Some (Nat.to_uint n) = Some (Nat.to_uint m)).
  { rewrite <- (NilEmpty.usu (Nat.to_uint n)), <- (NilEmpty.usu (Nat.to_uint m)). now rewrite H. }
  now injection E.
Qed.

(* the repaired derivation is injective on all strings *)
Lemma lp_name_inj i1 a1 i2 a2 : lp_name i1 a1 = lp_name i2 a2 -> i1 = i2 /\ a1 = a2.
Proof.
  unfold lp_name. intros H.
  apply split_first_dash in H as [Hd Hr]; try apply dec_no_dash.
  apply dec_inj in Hd.
  apply append_inj_len in Hr as [Hi Ha]; auto.
  injection Ha as Ha. auto.
Qed.

(* ------------------------------------------------------------------ keys, tables *)

Lemma key_eqb_eq k1 k2 : key_eqb k1 k2 = true <-> k1 = k2.
Proof.
  destruct k1 as [i1 a1], k2 as [i2 a2]. unfold key_eqb; cbn [fst snd]. rewrite andb_true_iff, !String.eqb_eq.
  split; [intros [-> ->]; auto | intros H; injection H; auto].
Qed.

Lemma key_eqb_refl k : key_eqb k k = true.
Proof. apply key_eqb_eq; auto. Qed.

Lemma key_eqb_neq k1 k2 : key_eqb k1 k2 = false <-> k1 <> k2.
Proof.
  split; intros H.
  - intros E. apply key_eqb_eq in E. congruence.
  - destruct (key_eqb k1 k2) eqn:E; auto. apply key_eqb_eq in E. contradiction.
Qed.

Lemma find_member_In k m c : find_member k m = Some c -> In (k, c) m.
Proof.
  induction m as [|[k' c'] t IH]; cbn; intros H; try discriminate.
  destruct (key_eqb k k') eqn:E.
  - apply key_eqb_eq in E. injection H as ->. subst. auto.
  - auto.
Qed.

Lemma find_member_None k m : find_member k m = None -> forall c, ~ In (k, c) m.
Proof.
  induction m as [|[k' c'] t IH]; cbn; intros H c Hin; auto.
  destruct (key_eqb k k') eqn:E; try discriminate.
  destruct Hin as [Hin | Hin].
  - injection Hin as -> ->. rewrite key_eqb_refl in E. discriminate.
  - eapply IH; eauto.
Qed.

(* filtering keeps the answer for k if it keeps every entry of k *)
Lemma find_member_filter k (f : key * child -> bool) m :
  (forall c, In (k, c) m -> f (k, c) = true) ->
  find_member k (filter f m) = find_member k m.
Proof.
  induction m as [|[k' c'] t IH]; cbn [filter find_member]; intros H; auto.
  destruct (key_eqb k k') eqn:E.
  - apply key_eqb_eq in E. subst k'. rewrite (H c') by (left; auto). cbn [find_member]. now rewrite key_eqb_refl.
  - rewrite <- IH by (intros c Hc; apply H; right; auto).
    destruct (f (k', c')); cbn [find_member]; [now rewrite E | auto].
Qed.

Lemma name_taken_true n r : name_taken n r = true -> exists c, In c r /\ cname c = n.
Proof.
  unfold name_taken. intros H. apply existsb_exists in H as [c [Hc He]]. apply String.eqb_eq in He. eauto.
Qed.

Lemma filter_app_single {A} (f : A -> bool) l x :
  filter f (l ++ [x]) = filter f l ++ (if f x then [x] else []).
Proof. induction l as [|h t IH]; cbn; [destruct (f x); auto|]. rewrite IH. destruct (f h); auto. Qed.

Lemma op_eq_lookup (o : op) i a : {o = Lookup i a} + {o <> Lookup i a}.
Proof.
  destruct o as [i' a' | i' a' | i' a']; [|right; discriminate|right; discriminate].
  destruct (string_dec i' i), (string_dec a' a); subst; auto; right; congruence.
Qed.

(* ------------------------------------------------------------------ the machine *)

Section Machine.
  Variable nm : string -> string -> string.
  Variable offered : list string.
  Variable Pi : string -> Prop.                 (* the identities the histories use *)
  Hypothesis nm_inj : forall i1 a1 i2 a2, Pi i1 -> Pi i2 -> nm i1 a1 = nm i2 a2 -> i1 = i2 /\ a1 = a2.

  Notation step := (step nm offered).
  Notation run := (run nm offered).
  Notation lookup := (lookup nm offered).

  Definition ops_dom (ops : list op) : Prop := Forall (fun o => Pi (op_identity o)) ops.

  Record Inv (s : st) : Prop := {
    inv_mem : forall k c, In (k, c) (members s) ->
        Pi (fst k) /\ str_mem (snd k) offered = true /\ valid_name (fst k) = true /\ valid_name (snd k) = true /\
        cname c = nm (fst k) (snd k) /\ In c (registry s) /\ nth_error (created s) (cinst c) = Some k;
    inv_reg : forall c, In c (registry s) -> exists k, In (k, c) (members s);
    inv_dying : forall c, In c (dying s) -> In c (registry s)
  }.

  Lemma inv_init : Inv init.
  Proof. split; cbn; intros; contradiction. Qed.

  Lemma inv_same_name s k1 c1 k2 c2 :
    Inv s -> In (k1, c1) (members s) -> In (k2, c2) (members s) -> cname c1 = cname c2 -> k1 = k2.
  Proof.
    intros HI H1 H2 E.
    destruct (inv_mem _ HI _ _ H1) as (P1 & _ & _ & _ & N1 & _).
    destruct (inv_mem _ HI _ _ H2) as (P2 & _ & _ & _ & N2 & _).
    rewrite N1, N2 in E. destruct (nm_inj _ _ _ _ P1 P2 E). destruct k1, k2; cbn in *; congruence.
  Qed.

  (* a free pair has a free name *)
  Lemma inv_name_free s i a :
    Inv s -> Pi i -> find_member (i, a) (members s) = None -> name_taken (nm i a) (registry s) = false.
  Proof.
    intros HI HP HN. destruct (name_taken (nm i a) (registry s)) eqn:E; auto.
    apply name_taken_true in E as [c [Hc Hn]].
    destruct (inv_reg _ HI _ Hc) as [k Hk].
    destruct (inv_mem _ HI _ _ Hk) as (P & _ & _ & _ & N & _).
    rewrite N in Hn. destruct (nm_inj _ _ _ _ P HP Hn) as [E1 E2].
    exfalso. apply (find_member_None _ _ HN c). destruct k; cbn in *; subst; auto.
  Qed.

  Lemma lookup_cases s i a :
    Inv s -> Pi i ->
    (lookup s i a = (s, OErr) /\ (str_mem a offered = false \/ valid_name i && valid_name a = false)) \/
    (exists c, lookup s i a = (s, ORef c) /\ find_member (i, a) (members s) = Some c) \/
    (find_member (i, a) (members s) = None /\ str_mem a offered = true /\ valid_name i = true /\ valid_name a = true /\
     lookup s i a =
       ({| members := ((i, a), mkchild (nm i a) (length (created s))) :: members s;
           registry := mkchild (nm i a) (length (created s)) :: registry s;
           created := created s ++ [(i, a)]; dying := dying s |}, ORef (mkchild (nm i a) (length (created s))))).
  Proof.
    intros HI HP. unfold DrillModel.lookup.
    destruct (str_mem a offered) eqn:Ho; cbn [negb]; [|left; auto].
    destruct (valid_name i && valid_name a) eqn:Hv; cbn [negb]; [|left; auto].
    apply andb_true_iff in Hv as [Hv1 Hv2].
    destruct (find_member (i, a) (members s)) as [c|] eqn:Hf.
    - right; left. eauto.
    - right; right. rewrite (inv_name_free _ _ _ HI HP Hf). auto.
  Qed.

  Lemma stop_cases s i a :
    (find_member (i, a) (members s) = None /\ stop s i a = (s, OStop false)) \/
    (exists c, find_member (i, a) (members s) = Some c /\
       stop s i a =
       ({| members := filter (fun e => negb (String.eqb (cname (snd e)) (cname c))) (members s);
           registry := filter (fun c' => negb (String.eqb (cname c') (cname c))) (registry s);
           created := created s;
           dying := filter (fun c' => negb (String.eqb (cname c') (cname c))) (dying s) |}, OStop true)).
  Proof. unfold stop. destruct (find_member (i, a) (members s)); eauto. Qed.

  (* the beginning of a termination changes nothing but the set of terminating children *)
  Lemma begin_cases s i a :
    begin s i a = (s, OBegin false) \/
    (exists c, find_member (i, a) (members s) = Some c /\
       begin s i a =
       ({| members := members s; registry := registry s; created := created s; dying := c :: dying s |}, OBegin true)).
  Proof.
    unfold begin. destruct (find_member (i, a) (members s)) as [c|]; auto.
    destruct (name_taken (cname c) (dying s)); eauto.
  Qed.

  Lemma step_inv s o : Inv s -> Pi (op_identity o) -> Inv (fst (step s o)) /\ snd (step s o) <> OCrash.
  Proof.
    intros HI HP. destruct o as [i a | i a | i a]; cbn [DrillModel.step op_identity] in *.
    - destruct (lookup_cases s i a HI HP) as [[E _] | [[c [E _]] | (Hf & Ho & Hv1 & Hv2 & E)]]; rewrite E; cbn [fst snd];
        try (split; [assumption | discriminate]).
      split; [|discriminate]. split; cbn [members registry created dying].
      + intros k c [Hin | Hin].
        * injection Hin as <- <-. cbn [fst snd cname cinst]. repeat split; auto; try (now left).
          rewrite nth_error_app2, Nat.sub_diag by lia. reflexivity.
        * destruct (inv_mem _ HI _ _ Hin) as (P & O & V1 & V2 & N & R & C). repeat split; auto.
          { right; auto. }
          rewrite nth_error_app1; auto. apply nth_error_Some. congruence.
      + intros c [<- | Hin]; [eexists; left; reflexivity|].
        destruct (inv_reg _ HI _ Hin) as [k Hk]. exists k. right; auto.
      + intros c Hin. right. apply (inv_dying _ HI); auto.
    - destruct (begin_cases s i a) as [E | [c [Hf E]]]; rewrite E; cbn [fst snd]; (split; [|discriminate]); auto.
      split; cbn [members registry created dying].
      + apply (inv_mem _ HI).
      + apply (inv_reg _ HI).
      + intros c' [<- | Hin]; [|apply (inv_dying _ HI); auto].
        apply find_member_In in Hf. destruct (inv_mem _ HI _ _ Hf) as (_ & _ & _ & _ & _ & R & _). exact R.
    - destruct (stop_cases s i a) as [[_ E] | [c [Hf E]]]; rewrite E; cbn [fst snd]; (split; [|discriminate]); auto.
      split; cbn [members registry created dying].
      + intros k c' Hin. apply filter_In in Hin as [Hin Hne]. cbn [snd] in Hne.
        destruct (inv_mem _ HI _ _ Hin) as (P & O & V1 & V2 & N & R & C). repeat split; auto.
        apply filter_In. auto.
      + intros c' Hin. apply filter_In in Hin as [Hin Hne].
        destruct (inv_reg _ HI _ Hin) as [k Hk]. exists k. apply filter_In. auto.
      + intros c' Hin. apply filter_In in Hin as [Hin Hne]. apply filter_In. split; auto. apply (inv_dying _ HI); auto.
  Qed.

  Lemma ops_dom_cons o t : ops_dom (o :: t) -> Pi (op_identity o) /\ ops_dom t.
  Proof. intros H. inversion H; auto. Qed.

  Lemma run_cons s o t :
    run s (o :: t) = (fst (run (fst (step s o)) t), snd (step s o) :: snd (run (fst (step s o)) t)).
  Proof. cbn [DrillModel.run]. destruct (step s o) as [s1 x]. cbn [fst snd]. destruct (run s1 t); auto. Qed.

  Lemma run_inv ops : forall s, Inv s -> ops_dom ops -> Inv (fst (run s ops)) /\ ~ In OCrash (snd (run s ops)).
  Proof.
    induction ops as [|o t IH]; intros s HI HD; [cbn; auto|].
    apply ops_dom_cons in HD as [HP HD]. rewrite run_cons; cbn [fst snd].
    destruct (step_inv s o HI HP) as [HI1 HC]. destruct (IH _ HI1 HD) as [HI2 HN].
    split; auto. intros [E | E]; auto.
  Qed.

  Lemma run_app l1 : forall s l2,
    run s (l1 ++ l2) = (fst (run (fst (run s l1)) l2), snd (run s l1) ++ snd (run (fst (run s l1)) l2)).
  Proof.
    induction l1 as [|o t IH]; intros s l2.
    - cbn [app DrillModel.run fst snd]. destruct (run s l2); auto.
    - cbn [app]. rewrite !run_cons. cbn [fst snd]. rewrite IH. cbn [fst snd]. reflexivity.
  Qed.

  Lemma run_length ops : forall s, length (snd (run s ops)) = length ops.
  Proof. induction ops as [|o t IH]; intros s; [auto|]. rewrite run_cons. cbn [snd length]. now rewrite IH. Qed.

  Lemma ops_dom_app l1 l2 : ops_dom (l1 ++ l2) -> ops_dom l1 /\ ops_dom l2.
  Proof. intros H. apply Forall_app in H. auto. Qed.

  (* every answer of a history is the answer of one step from a state that satisfies the invariant *)
  Definition trace_from (s : st) (ops : list op) : list (op * out) := combine ops (snd (run s ops)).

  Lemma trace_step ops : forall s o x,
    Inv s -> ops_dom ops -> In (o, x) (trace_from s ops) ->
    exists pre post, ops = pre ++ o :: post /\ Inv (fst (run s pre)) /\ x = snd (step (fst (run s pre)) o).
  Proof.
    induction ops as [|o' t IH]; intros s o x HI HD Hin; [contradiction|].
    unfold trace_from in Hin. rewrite run_cons in Hin. cbn [snd combine] in Hin.
    apply ops_dom_cons in HD as [HP HD].
    destruct Hin as [E | Hin].
    - injection E as -> <-. exists [], t. cbn; auto.
    - destruct (step_inv s o' HI HP) as [HI1 _].
      destruct (IH _ _ _ HI1 HD Hin) as (pre & post & -> & HI2 & ->).
      exists (o' :: pre), post. rewrite run_cons. cbn [fst app]. auto.
  Qed.

  (* ---------------- created only grows *)
  Lemma step_created s o : exists l, created (fst (step s o)) = created s ++ l.
  Proof.
    destruct o as [i a | i a | i a]; cbn [DrillModel.step].
    - unfold DrillModel.lookup.
      destruct (negb (str_mem a offered)); [exists []; cbn; now rewrite app_nil_r|].
      destruct (negb (valid_name i && valid_name a)); [exists []; cbn; now rewrite app_nil_r|].
      destruct (find_member (i, a) (members s)); [exists []; cbn; now rewrite app_nil_r|].
      destruct (name_taken (nm i a) (registry s)); cbn; [exists []; now rewrite app_nil_r | eauto].
    - destruct (begin_cases s i a) as [E | [c [_ E]]]; rewrite E; exists []; cbn; now rewrite app_nil_r.
    - unfold stop. destruct (find_member (i, a) (members s)); exists []; cbn; now rewrite app_nil_r.
  Qed.

  Lemma run_created ops : forall s, exists l, created (fst (run s ops)) = created s ++ l.
  Proof.
    induction ops as [|o t IH]; intros s; [exists []; cbn; now rewrite app_nil_r|].
    rewrite run_cons; cbn [fst]. destruct (step_created s o) as [l1 E1]. destruct (IH (fst (step s o))) as [l2 E2].
    exists (l1 ++ l2). rewrite E2, E1, app_assoc. reflexivity.
  Qed.

  Lemma nth_error_prefix {A} (l l' : list A) n x : nth_error l n = Some x -> nth_error (l ++ l') n = Some x.
  Proof. intros H. rewrite nth_error_app1; auto. apply nth_error_Some. congruence. Qed.

  (* ---------------- what a reference answer says *)
  Lemma ref_spec ops s i a c :
    Inv s -> ops_dom ops -> In (Lookup i a, ORef c) (trace_from s ops) ->
    str_mem a offered = true /\ valid_name i = true /\ valid_name a = true /\
    cname c = nm i a /\ nth_error (created (fst (run s ops))) (cinst c) = Some (i, a).
  Proof.
    intros HI HD Hin.
    destruct (trace_step _ _ _ _ HI HD Hin) as (pre & post & -> & HI1 & Hx).
    apply ops_dom_app in HD as [HD1 HD2]. apply ops_dom_cons in HD2 as [HP HD2]. cbn [op_identity] in HP.
    rewrite run_app, run_cons. cbn [fst].
    set (s1 := fst (run s pre)) in *.
    destruct (run_created post (fst (step s1 (Lookup i a)))) as [l El]. rewrite El.
    cbn [DrillModel.step] in *.
    destruct (lookup_cases s1 i a HI1 HP) as [[E _] | [[c' [E Hf]] | (Hf & Ho & Hv1 & Hv2 & E)]]; rewrite E in *; cbn [fst snd] in *.
    - discriminate.
    - injection Hx as ->. apply find_member_In in Hf.
      destruct (inv_mem _ HI1 _ _ Hf) as (P & O & V1 & V2 & N & R & C). cbn [fst snd] in *.
      repeat split; auto. apply nth_error_prefix; auto.
    - injection Hx as ->. cbn [cname cinst created]. repeat split; auto.
      apply nth_error_prefix. rewrite nth_error_app2, Nat.sub_diag by lia. reflexivity.
  Qed.

  (* ---------------- a registered pair stays registered until it is stopped *)
  Lemma lookup_found s i a c :
    Inv s -> Pi i -> find_member (i, a) (members s) = Some c -> lookup s i a = (s, ORef c).
  Proof.
    intros HI HP Hf. destruct (lookup_cases s i a HI HP) as [[E [H | H]] | [[c' [E Hf']] | (Hf' & _)]]; try congruence.
    - apply find_member_In in Hf. destruct (inv_mem _ HI _ _ Hf) as (_ & O & _). cbn in O. congruence.
    - apply find_member_In in Hf. destruct (inv_mem _ HI _ _ Hf) as (_ & _ & V1 & V2 & _). cbn in V1, V2.
      rewrite V1, V2 in H. discriminate.
  Qed.

  Lemma lookup_ref_registers s i a c :
    Inv s -> Pi i -> snd (lookup s i a) = ORef c -> find_member (i, a) (members (fst (lookup s i a))) = Some c.
  Proof.
    intros HI HP. destruct (lookup_cases s i a HI HP) as [[E _] | [[c' [E Hf]] | (Hf & Ho & Hv1 & Hv2 & E)]]; rewrite E; cbn [fst snd]; intros H.
    - discriminate.
    - congruence.
    - injection H as <-. cbn [members find_member]. now rewrite key_eqb_refl.
  Qed.

  Lemma step_keeps_member s o i a c :
    Inv s -> Pi (op_identity o) -> o <> Stop i a ->
    find_member (i, a) (members s) = Some c -> find_member (i, a) (members (fst (step s o))) = Some c.
  Proof.
    intros HI HP Hne Hf. destruct o as [i' a' | i' a' | i' a']; cbn [DrillModel.step op_identity] in *.
    - destruct (lookup_cases s i' a' HI HP) as [[E _] | [[c' [E _]] | (Hf' & _ & _ & _ & E)]]; rewrite E; cbn [fst]; auto.
      cbn [members find_member].
      destruct (key_eqb (i, a) (i', a')) eqn:Ek; auto.
      apply key_eqb_eq in Ek. injection Ek as -> ->. congruence.
    - destruct (begin_cases s i' a') as [E | [c' [_ E]]]; rewrite E; cbn [fst members]; auto.
    - destruct (stop_cases s i' a') as [[_ E] | [c' [Hf' E]]]; rewrite E; cbn [fst]; auto.
      cbn [members]. rewrite find_member_filter; auto.
      intros x Hx. cbn [snd]. apply negb_true_iff, String.eqb_neq. intros En.
      apply find_member_In in Hf'.
      pose proof (inv_same_name _ _ _ _ _ HI Hx Hf' En) as Ek. injection Ek as -> ->. congruence.
  Qed.

  Lemma run_keeps_member ops : forall s i a c,
    Inv s -> ops_dom ops -> ~ In (Stop i a) ops ->
    find_member (i, a) (members s) = Some c -> find_member (i, a) (members (fst (run s ops))) = Some c.
  Proof.
    induction ops as [|o t IH]; intros s i a c HI HD HN Hf; [auto|].
    apply ops_dom_cons in HD as [HP HD]. rewrite run_cons; cbn [fst].
    destruct (step_inv s o HI HP) as [HI1 _].
    apply IH; auto.
    - intros H; apply HN; right; auto.
    - apply step_keeps_member; auto. intros ->. apply HN; left; auto.
  Qed.

  (* all lookups of a registered pair answer with its reference while nobody stops it *)
  Lemma registered_answers ops : forall s i a c,
    Inv s -> ops_dom ops -> ~ In (Stop i a) ops -> find_member (i, a) (members s) = Some c ->
    forall x, In (Lookup i a, x) (trace_from s ops) -> x = ORef c.
  Proof.
    intros s i a c HI HD HN Hf x Hin.
    destruct (trace_step _ _ _ _ HI HD Hin) as (pre & post & -> & HI1 & ->).
    apply ops_dom_app in HD as [HD1 HD2]. apply ops_dom_cons in HD2 as [HP _]. cbn [op_identity] in HP.
    assert (HN1 : ~ In (Stop i a) pre) by (intros H; apply HN, in_or_app; auto).
    cbn [DrillModel.step]. rewrite (lookup_found _ _ _ c HI1 HP); auto.
    apply run_keeps_member; auto.
  Qed.

  (* a refused pair is refused in every state: the refusal does not look at the state *)
  Lemma refused_everywhere s s' i a : snd (lookup s i a) = OErr -> Inv s -> Pi i -> Inv s' -> lookup s' i a = (s', OErr).
  Proof.
    intros H HI HP HI'.
    destruct (lookup_cases s i a HI HP) as [[E Hc] | [[c' [E Hf]] | (Hf & Ho & Hv1 & Hv2 & E)]]; rewrite E in H; try discriminate.
    unfold DrillModel.lookup. destruct Hc as [-> | Hc]; cbn [negb]; auto.
    destruct (str_mem a offered); cbn [negb]; auto. rewrite Hc. auto.
  Qed.

  (* one answer per pair in a history that never stops the pair *)
  Lemma one_answer ops : forall s i a,
    Inv s -> ops_dom ops -> ~ In (Stop i a) ops ->
    exists r, forall x, In (Lookup i a, x) (trace_from s ops) -> x = r.
  Proof.
    induction ops as [|o t IH]; intros s i a HI HD HN; [exists OErr; intros x []|].
    pose proof HD as HD0. apply ops_dom_cons in HD as [HP HD].
    assert (HNt : ~ In (Stop i a) t) by (intros H; apply HN; right; auto).
    destruct (step_inv s o HI HP) as [HI1 _].
    destruct (op_eq_lookup o i a) as [-> | Hne].
    - (* this very lookup fixes the answer *)
      cbn [op_identity] in HP. exists (snd (step s (Lookup i a))). intros x Hin.
      unfold trace_from in Hin. rewrite run_cons in Hin. cbn [snd combine] in Hin.
      destruct Hin as [E | Hin]; [injection E; auto|].
      cbn [DrillModel.step] in *.
      destruct (snd (lookup s i a)) eqn:Ex.
      + apply (registered_answers t (fst (lookup s i a)) i a c HI1 HD HNt); [apply lookup_ref_registers; auto | exact Hin].
      + destruct (trace_step _ _ _ _ HI1 HD Hin) as (pre & post & -> & HI2 & ->).
        cbn [DrillModel.step]. erewrite refused_everywhere; eauto.
      + destruct (step_inv s (Lookup i a) HI HP) as [_ Hc]. cbn [DrillModel.step] in Hc. congruence.
      + exfalso. destruct (lookup_cases s i a HI HP) as [[E _] | [[c' [E _]] | (_ & _ & _ & _ & E)]]; rewrite E in Ex; discriminate.
      + exfalso. destruct (lookup_cases s i a HI HP) as [[E _] | [[c' [E _]] | (_ & _ & _ & _ & E)]]; rewrite E in Ex; discriminate.
      + exfalso. destruct (lookup_cases s i a HI HP) as [[E _] | [[c' [E _]] | (_ & _ & _ & _ & E)]]; rewrite E in Ex; discriminate.
    - destruct (IH (fst (step s o)) i a HI1 HD HNt) as [r Hr]. exists r. intros x Hin.
      unfold trace_from in Hin. rewrite run_cons in Hin. cbn [snd combine] in Hin.
      destruct Hin as [E | Hin]; [injection E as -> _; congruence | auto].
  Qed.

  (* ---------------- creations are paid for by terminations *)
  Definition alive (k : key) (s : st) : nat :=
    match find_member k (members s) with Some _ => 1 | None => 0 end.

  Lemma step_count s o k :
    Inv s -> Pi (op_identity o) ->
    count_created k (fst (step s o)) + alive k s <=
    count_created k s + alive k (fst (step s o)) + (if is_stop_of k o then 1 else 0).
  Proof.
    intros HI HP. destruct o as [i a | i a | i a]; cbn [DrillModel.step op_identity is_stop_of] in *.
    - destruct (lookup_cases s i a HI HP) as [[E _] | [[c' [E _]] | (Hf & _ & _ & _ & E)]]; rewrite E; cbn [fst]; try lia.
      unfold count_created, alive. cbn [created members find_member].
      rewrite filter_app_single, app_length.
      destruct (key_eqb k (i, a)) eqn:Ek.
      + apply key_eqb_eq in Ek. subst k. rewrite Hf. cbn [length]. lia.
      + cbn [length]. lia.
    - (* the beginning of a termination pays for nothing: the table and the log are unchanged *)
      destruct (begin_cases s i a) as [E | [c' [_ E]]]; rewrite E; cbn [fst]; [lia|].
      unfold count_created, alive. cbn [created members]. lia.
    - destruct (stop_cases s i a) as [[_ E] | [c [Hf E]]]; rewrite E; cbn [fst]; [destruct (key_eqb k (i, a)); lia|].
      unfold count_created, alive. cbn [created members].
      destruct (key_eqb k (i, a)) eqn:Ek.
      + destruct (find_member k (members s)); destruct (find_member k _); lia.
      + rewrite find_member_filter; [lia|].
        intros x Hx. cbn [snd]. apply negb_true_iff, String.eqb_neq. intros En.
        apply find_member_In in Hf.
        pose proof (inv_same_name _ _ _ _ _ HI Hx Hf En) as Ekk. subst k. rewrite key_eqb_refl in Ek. discriminate.
  Qed.

  Lemma run_count ops : forall s k,
    Inv s -> ops_dom ops ->
    count_created k (fst (run s ops)) + alive k s <= count_created k s + alive k (fst (run s ops)) + count_stops k ops.
  Proof.
    induction ops as [|o t IH]; intros s k HI HD; [cbn; lia|].
    apply ops_dom_cons in HD as [HP HD]. rewrite run_cons; cbn [fst].
    destruct (step_inv s o HI HP) as [HI1 _].
    pose proof (step_count s o k HI HP). pose proof (IH (fst (step s o)) k HI1 HD).
    unfold count_stops in *. cbn [filter]. destruct (is_stop_of k o); cbn [length]; lia.
  Qed.

  (* ================== the statements, for histories from the initial state ================== *)

  Theorem never_fails ops : ops_dom ops -> ~ In OCrash (outs nm offered ops).
  Proof. intros HD. apply (run_inv ops init inv_init HD). Qed.

  Theorem unknown_ability_error ops i a x :
    ops_dom ops -> str_mem a offered = false -> In (Lookup i a, x) (trace nm offered ops) -> x = OErr.
  Proof.
    intros HD Ho Hin. destruct (trace_step _ _ _ _ inv_init HD Hin) as (pre & post & _ & _ & ->).
    cbn [DrillModel.step]. unfold DrillModel.lookup. rewrite Ho. reflexivity.
  Qed.

  Theorem one_reference ops i a x y :
    ops_dom ops -> ~ In (Stop i a) ops ->
    In (Lookup i a, x) (trace nm offered ops) -> In (Lookup i a, y) (trace nm offered ops) -> x = y.
  Proof.
    intros HD HN Hx Hy. destruct (one_answer ops init i a inv_init HD HN) as [r Hr].
    rewrite (Hr x Hx), (Hr y Hy). reflexivity.
  Qed.

  (* while it lives: between two lookups of a pair with no termination of that pair in between *)
  Theorem idempotent pre mid post i a c :
    ops_dom (pre ++ Lookup i a :: mid ++ Lookup i a :: post) -> ~ In (Stop i a) mid ->
    nth_error (outs nm offered (pre ++ Lookup i a :: mid ++ Lookup i a :: post)) (length pre) = Some (ORef c) ->
    nth_error (outs nm offered (pre ++ Lookup i a :: mid ++ Lookup i a :: post)) (length pre + S (length mid)) = Some (ORef c)
    /\ created (final nm offered (pre ++ Lookup i a :: mid ++ [Lookup i a])) = created (final nm offered (pre ++ Lookup i a :: mid)).
  Proof.
    intros HD HN H1. unfold outs, final in *.
    apply ops_dom_app in HD as [HDp HD]. apply ops_dom_cons in HD as [HP HD]. cbn [op_identity] in HP.
    apply ops_dom_app in HD as [HDm HD].
    destruct (run_inv pre init inv_init HDp) as [HI0 _].
    set (s0 := fst (run init pre)) in *.
    assert (Hx : snd (step s0 (Lookup i a)) = ORef c).
    { rewrite run_app in H1. cbn [snd] in H1. rewrite nth_error_app2 in H1 by (rewrite run_length; lia).
      rewrite run_length, Nat.sub_diag, run_cons in H1. cbn [snd nth_error] in H1. now injection H1. }
    destruct (step_inv s0 (Lookup i a) HI0 HP) as [HI1 _].
    set (s1 := fst (step s0 (Lookup i a))) in *.
    assert (Hf1 : find_member (i, a) (members s1) = Some c) by (apply lookup_ref_registers; auto).
    destruct (run_inv mid s1 HI1 HDm) as [HI2 _].
    assert (Hf2 : find_member (i, a) (members (fst (run s1 mid))) = Some c) by (apply run_keeps_member; auto).
    pose proof (lookup_found _ _ _ _ HI2 HP Hf2) as El.
    split.
    - rewrite run_app. cbn [snd]. rewrite nth_error_app2 by (rewrite run_length; lia).
      rewrite run_length. replace (length pre + S (length mid) - length pre) with (S (length mid)) by lia.
      rewrite run_cons. cbn [snd nth_error]. fold s0 s1.
      rewrite run_app. cbn [snd]. rewrite nth_error_app2 by (rewrite run_length; lia).
      rewrite run_length, Nat.sub_diag, run_cons. cbn [snd nth_error DrillModel.step]. now rewrite El.
    - rewrite !run_app. cbn [fst]. fold s0. rewrite !run_cons. cbn [fst]. fold s1.
      rewrite run_app. cbn [fst]. rewrite run_cons. cbn [fst DrillModel.step DrillModel.run]. now rewrite El.
  Qed.

  Theorem created_at_most_once ops k :
    ops_dom ops -> count_created k (final nm offered ops) <= 1 + count_stops k ops.
  Proof.
    intros HD. pose proof (run_count ops init k inv_init HD) as H. unfold final.
    assert (alive k (fst (run init ops)) <= 1) by (unfold alive; destruct (find_member _ _); lia).
    assert (count_created k init = 0) by reflexivity. lia.
  Qed.

  Theorem distinct_pairs_distinct_refs ops i1 a1 c1 i2 a2 c2 :
    ops_dom ops ->
    In (Lookup i1 a1, ORef c1) (trace nm offered ops) -> In (Lookup i2 a2, ORef c2) (trace nm offered ops) ->
    (i1, a1) <> (i2, a2) -> cname c1 <> cname c2 /\ cinst c1 <> cinst c2.
  Proof.
    intros HD H1 H2 Hne.
    destruct (ref_spec _ _ _ _ _ inv_init HD H1) as (_ & _ & _ & N1 & C1).
    destruct (ref_spec _ _ _ _ _ inv_init HD H2) as (_ & _ & _ & N2 & C2).
    assert (P1 : Pi i1).
    { destruct (trace_step _ _ _ _ inv_init HD H1) as (pre & post & E & _). rewrite E in HD.
      apply ops_dom_app in HD as [_ HD]. apply ops_dom_cons in HD as [HP _]. exact HP. }
    assert (P2 : Pi i2).
    { destruct (trace_step _ _ _ _ inv_init HD H2) as (pre & post & E & _). rewrite E in HD.
      apply ops_dom_app in HD as [_ HD]. apply ops_dom_cons in HD as [HP _]. exact HP. }
    split; intros E.
    - rewrite N1, N2 in E. destruct (nm_inj _ _ _ _ P1 P2 E). congruence.
    - rewrite E in C1. congruence.
  Qed.

  (* the answer, up to WHICH instance serves, is a function of the pair alone: it does not depend on the history,
     hence not on the order in which concurrent callers are served *)
  Theorem answer_shape ops i a x :
    ops_dom ops -> In (Lookup i a, x) (trace nm offered ops) ->
    if str_mem a offered && (valid_name i && valid_name a)
    then exists c, x = ORef c /\ cname c = nm i a
    else x = OErr.
  Proof.
    intros HD Hin. destruct (trace_step _ _ _ _ inv_init HD Hin) as (pre & post & E & HI & ->).
    rewrite E in HD. apply ops_dom_app in HD as [_ HD]. apply ops_dom_cons in HD as [HP _]. cbn [op_identity] in HP.
    cbn [DrillModel.step].
    destruct (lookup_cases _ i a HI HP) as [[El [Hc | Hc]] | [[c [El Hf]] | (Hf & Ho & Hv1 & Hv2 & El)]]; rewrite El; cbn [snd].
    - rewrite Hc. reflexivity.
    - rewrite Hc, andb_false_r. reflexivity.
    - apply find_member_In in Hf. destruct (inv_mem _ HI _ _ Hf) as (_ & O & V1 & V2 & N & _). cbn [fst snd] in *.
      rewrite O, V1, V2. cbn [andb]. eauto.
    - rewrite Ho, Hv1, Hv2. cbn [andb cname]. eauto.
  Qed.

  (* the members table at the end of a history: exactly the living actors, each under its own name *)
  Theorem members_sound ops k c :
    ops_dom ops -> In (k, c) (members (final nm offered ops)) ->
    cname c = nm (fst k) (snd k) /\ In c (registry (final nm offered ops)) /\
    nth_error (created (final nm offered ops)) (cinst c) = Some k.
  Proof.
    intros HD Hin. destruct (run_inv ops init inv_init HD) as [HI _].
    destruct (inv_mem _ HI _ _ Hin) as (_ & _ & _ & _ & N & R & C). auto.
  Qed.

  (* ================== the window between the beginning and the end of a termination ================== *)

  (* the beginning of a termination is invisible to the manager: its table, the taken names and the creation log are
     those of the history without it — in ANY state, invariant or not *)
  Lemma begin_frame s i a :
    members (fst (begin s i a)) = members s /\ registry (fst (begin s i a)) = registry s /\
    created (fst (begin s i a)) = created s.
  Proof. destruct (begin_cases s i a) as [E | [c [_ E]]]; rewrite E; cbn; auto. Qed.

  Theorem begin_invisible ops i a :
    members (final nm offered (ops ++ [Begin i a])) = members (final nm offered ops) /\
    registry (final nm offered (ops ++ [Begin i a])) = registry (final nm offered ops) /\
    created (final nm offered (ops ++ [Begin i a])) = created (final nm offered ops).
  Proof.
    unfold final. rewrite run_app. cbn [fst]. rewrite run_cons. cbn [fst DrillModel.step DrillModel.run].
    apply begin_frame.
  Qed.

  (* a terminating child keeps its slot: it is still listed by the manager under its own pair and its name is taken *)
  Theorem dying_keeps_slot ops c :
    ops_dom ops -> In c (dying (final nm offered ops)) ->
    In c (registry (final nm offered ops)) /\
    exists k, In (k, c) (members (final nm offered ops)) /\ cname c = nm (fst k) (snd k) /\
              nth_error (created (final nm offered ops)) (cinst c) = Some k.
  Proof.
    intros HD Hin. destruct (run_inv ops init inv_init HD) as [HI _].
    pose proof (inv_dying _ HI _ Hin) as R. split; auto.
    destruct (inv_reg _ HI _ R) as [k Hk]. exists k.
    destruct (inv_mem _ HI _ _ Hk) as (_ & _ & _ & _ & N & _ & C). auto.
  Qed.

  (* a lookup of the pair inside the window — after its actor began to terminate, before it has terminated — is answered
     with the reference handed out before, and creates nothing *)
  Theorem lookup_while_terminating pre mid1 mid2 post i a c :
    ops_dom (pre ++ Lookup i a :: (mid1 ++ Begin i a :: mid2) ++ Lookup i a :: post) ->
    ~ In (Stop i a) mid1 -> ~ In (Stop i a) mid2 ->
    nth_error (outs nm offered (pre ++ Lookup i a :: (mid1 ++ Begin i a :: mid2) ++ Lookup i a :: post)) (length pre) = Some (ORef c) ->
    nth_error (outs nm offered (pre ++ Lookup i a :: (mid1 ++ Begin i a :: mid2) ++ Lookup i a :: post))
              (length pre + S (length (mid1 ++ Begin i a :: mid2))) = Some (ORef c)
    /\ created (final nm offered (pre ++ Lookup i a :: (mid1 ++ Begin i a :: mid2) ++ [Lookup i a])) =
       created (final nm offered (pre ++ Lookup i a :: (mid1 ++ Begin i a :: mid2))).
  Proof.
    intros HD H1 H2. apply idempotent; auto.
    intros H. apply in_app_or in H as [H | [H | H]]; [auto | discriminate | auto].
  Qed.

End Machine.

(* ------------------------------------------------------------------ instances *)

Lemma any_identity (ops : list op) : ops_dom (fun _ => True) ops.
Proof. induction ops; constructor; auto. Qed.

Open Scope string_scope.

(* the derivation identity-ability: ("a-b","c") and ("a","b-c") *)
Lemma dash_never_fails_refuted : exists (offered : list string) (ops : list op), In OCrash (outs dash_name offered ops).
Proof. exists ["c"; "b-c"], [Lookup "a-b" "c"; Lookup "a" "b-c"]. vm_compute. auto. Qed.

Lemma dash_distinct_refuted :
  exists (offered : list string) (ops : list op) (i1 a1 i2 a2 : string) (c1 c2 : child),
    In (Lookup i1 a1, ORef c1) (trace dash_name offered ops) /\ In (Lookup i2 a2, ORef c2) (trace dash_name offered ops) /\
    (i1, a1) <> (i2, a2) /\ cname c1 = cname c2.
Proof.
  exists ["c"; "b-c"], [Lookup "a-b" "c"; Lookup "a" "b-c"; Lookup "a" "b-c"], "a-b", "c", "a", "b-c",
         (mkchild "a-b-c" 0), (mkchild "a-b-c" 1).
  vm_compute. repeat split; auto. discriminate.
Qed.
