(* MV.C13.DrillRun — evaluation of recorded runs of the real drill-master actor against the model
   (correspondence tie T1 through hook H3).  A case = abilities on offer, history, the answers the Go code gave,
   the manager's members table and the launches per child name at the end (taken while the members whose
   termination has begun but not ended are still held in the Terminating state: the model lists them too). *)
From Coq Require Export String Ascii.
From MV Require Import Lib.ListX C13.DrillModel.
Open Scope nat_scope.

(* strings with bytes outside the printable range are written as byte lists by the harness *)
Definition bs (l : list nat) : string := fold_right (fun n s => String (ascii_of_nat n) s) EmptyString l.

Definition child_eqb (a b : child) : bool := String.eqb (cname a) (cname b) && Nat.eqb (cinst a) (cinst b).

Definition out_eqb (a b : out) : bool :=
  match a, b with
  | ORef x, ORef y => child_eqb x y
  | OErr, OErr => true
  | OCrash, OCrash => true
  | OStop x, OStop y => Bool.eqb x y
  | OBegin x, OBegin y => Bool.eqb x y
  | _, _ => false
  end.

(* concurrent callers: which provider invocation serves which pair depends on the schedule *)
Definition out_eqb_noinst (a b : out) : bool :=
  match a, b with
  | ORef x, ORef y => String.eqb (cname x) (cname y)
  | _, _ => out_eqb a b
  end.

Definition op_key (o : op) : key := match o with Lookup i a => (i, a) | Begin i a => (i, a) | Stop i a => (i, a) end.

(* same pair <-> same actor instance, over all answers of a history *)
Definition inst_consistent (t : list (op * out)) : bool :=
  forallb (fun x => forallb (fun y =>
    match snd x, snd y with
    | ORef c1, ORef c2 => Bool.eqb (key_eqb (op_key (fst x)) (op_key (fst y))) (Nat.eqb (cinst c1) (cinst c2))
    | _, _ => true
    end) t) t.

Record case := { cid : nat; cconc : bool; coffered : list string; cops : list op; cimpl : list out;
                 cmembers : list (key * string); claunches : list (string * nat) }.

Definition model_run (c : case) : st * list out := run lp_name (coffered c) init (cops c).

Definition member_eqb (a b : key * string) : bool := key_eqb (fst a) (fst b) && String.eqb (snd a) (snd b).

Definition members_ok (c : case) (s : st) : bool :=
  let mm := map (fun e => (fst e, cname (snd e))) (members s) in
  Nat.eqb (length mm) (length (cmembers c)) &&
  forallb (fun e => existsb (member_eqb e) mm) (cmembers c).

Definition launches_of (s : st) (name : string) : nat :=
  length (filter (fun k => String.eqb (lp_name (fst k) (snd k)) name) (created s)).

Definition launches_ok (c : case) (s : st) : bool :=
  forallb (fun e => Nat.eqb (launches_of s (fst e)) (snd e)) (claunches c) &&
  Nat.eqb (fold_right (fun e n => snd e + n) 0 (claunches c)) (length (created s)).

Definition case_ok (c : case) : bool :=
  let '(s, mo) := model_run c in
  (if cconc c
   then list_eqb out_eqb_noinst mo (cimpl c) && inst_consistent (combine (cops c) (cimpl c))
   else list_eqb out_eqb mo (cimpl c))
  && members_ok c s && launches_ok c s.

Definition mismatches (cs : list case) : list nat := fail_ids case_ok cid cs.
