(* MV.C02.Properties — statements of property C02, mailbox level ("each message is handled exactly once
   in sender order ... no message is left stranded in its mailbox"), on the mailbox machine of C01.
   The actor level (dead letters, Tell/Ask/Reply/Broadcast) is stated on the kernel model (MV.Kernel). *)
From MV Require Import Lib.ListX Lib.Sched C01.MboxModel C01.MboxProofs.
Open Scope Z_scope.

(* FIFO conservation: in every reachable state, the messages pushed to a queue are, in push order,
   exactly those already popped by the runner followed by those still queued — nothing lost,
   duplicated, reordered or invented, for any number of concurrent senders. *)
Theorem C02_conservation : forall st, reach init st ->
  pushedS (fst st) = poppedS (fst st) ++ sysq (fst st) /\
  pushedU (fst st) = poppedU (fst st) ++ userq (fst st).
Proof. exact conservation. Qed.
Print Assumptions C02_conservation.

(* No lost wake-up: whenever every sender, suspender, resumer and runner has finished its code
   (only the environment is left), the system queue is empty and — unless the mailbox is
   suspended — so is the user queue. So no message waits for "later traffic" to flush it. *)
Theorem C02_no_stranded : forall st, reach init st -> quiescent st ->
  sysq (fst st) = [] /\ (susp (fst st) = false -> userq (fst st) = []).
Proof. exact no_stranded. Qed.
Print Assumptions C02_no_stranded.

Example C02_example :
  exists st es, run init [(0%nat, CSend KU 1%nat); (1%nat, CNone); (1%nat, CNone); (1%nat, CNone);
                          (2%nat, CNone); (2%nat, CNone); (2%nat, CNone); (2%nat, CNone); (2%nat, CNone); (2%nat, CNone);
                          (2%nat, CNone); (2%nat, CNone); (2%nat, CNone); (2%nat, CNone); (2%nat, CNone); (2%nat, CNone); (2%nat, CNone)] = Some (st, es)
               /\ quiescent st /\ pushedU (fst st) = [1%nat] /\ poppedU (fst st) = [1%nat].
Proof.
  eexists. eexists. split; [vm_compute; reflexivity|]. split; [|split; vm_compute; reflexivity].
  intros i l H. destruct i as [|[|[|i]]]; simpl in H; try discriminate; try (inversion H; reflexivity).
  destruct i; discriminate.
Qed.

(* ---------------- actor level (kernel model MV.Kernel.Model) ---------------- *)
From MV Require Import Kernel.Model Kernel.Queue Kernel.Conservation Kernel.Exactly.

(* Conservation of user messages, for every table of scripted roles, every run of the kernel from the
   freshly started system and every message serial: the number of sends (counted per receiver, for receivers
   other than the two system actors) equals the number of times the message was handed to a handler plus the
   number of dead-letter events plus the number of copies still queued or in flight in some mailbox.
   Hence nothing is invented, nothing disappears silently (failure, restart, suspension, termination and
   address reuse included), and a message is never both handled and dead-lettered more often than it was sent. *)
Theorem C02_kernel_conservation : forall roles sn ls s' os,
  krun roles kinit ls = Some (s', os) ->
  sum_over (sentc sn w1) os = sum_over (handc sn w1) os + sum_over (deadc sn w1) os + pending sn w1 s'.
Proof. exact conservation_from_init. Qed.
Print Assumptions C02_kernel_conservation.

(* the same flow equation for one step from ANY state *)
Theorem C02_kernel_step_conservation : forall roles sn s l s' o,
  kstep roles s l = Some (s', o) -> pending sn w1 s' + handc sn w1 o + deadc sn w1 o = pending sn w1 s + sentc sn w1 o.
Proof.
  intros roles sn s l s' o H. assert (Q : QW w1 s) by (intros u a e _ _ _; reflexivity).
  pose proof (kstep_bal roles sn w1 s l s' o Q H) as B. unfold bal in B. lia.
Qed.
Print Assumptions C02_kernel_step_conservation.

(* EXACTLY ONCE, per receiver. The same flow equation with the weight "receiver address = t" (ind t): for every role
   table, every run from the freshly started system, every serial sn and every user address t, the sends of sn to t
   equal the times sn was handled by an actor at address t, plus the dead letters of sn addressed to t, plus the
   copies still queued or in flight that are addressed to t. Hence a message sent once to t is at every moment exactly
   one of: pending / handled once / a dead letter once — never handled twice, never both, never silently gone — and
   the copies of a broadcast are accounted child by child. (Uses Kernel.Watch.addressed_reachable: in reachable states
   a queued message is addressed to the object holding it.) *)
Theorem C02_kernel_exactly_once_per_receiver : forall roles sn t ls s' os,
  krun roles kinit ls = Some (s', os) ->
  sum_over (sentc sn (ind t)) os = sum_over (handc sn (ind t)) os + sum_over (deadc sn (ind t)) os + pending sn (ind t) s'.
Proof. exact exactly_once_per_receiver. Qed.
Print Assumptions C02_kernel_exactly_once_per_receiver.

Theorem C02_kernel_never_more_than_sent : forall roles sn t ls s' os,
  krun roles kinit ls = Some (s', os) ->
  sum_over (handc sn (ind t)) os + sum_over (deadc sn (ind t)) os <= sum_over (sentc sn (ind t)) os.
Proof. exact never_more_than_sent. Qed.
Print Assumptions C02_kernel_never_more_than_sent.

(* sending never blocks or crashes the sender: external sends are always enabled, whatever the target *)
Theorem C02_send_total : forall roles s t n, exists s' o, kstep roles s (LTell t n) = Some (s', o).
Proof.
  intros roles s t n. cbn [kstep]. destruct (next_serial s) as [s1 k]. destruct (deliver_user s1 t rNone (UProbe n k)) as [s2 o].
  eexists. eexists. reflexivity.
Qed.
Print Assumptions C02_send_total.

(* Order ("messages from one sender to one receiver are handled in the order they were sent"): mailbox discipline.
   seq(a) = the in-flight user message of an actor object, if any, followed by its user queue. For every role table,
   from ANY state, one step changes seq of every object only by taking its head — exactly when the step runs that
   object's own in-flight user message — and by appending at the tail: nothing is inserted ahead of or between queued
   messages, taken from the middle or reordered (failure, suspension, restart and termination included: the queue of
   a restarting or suspended actor is kept as it is). *)
Theorem C02_kernel_mailbox_order_step : forall roles s l s' o,
  kstep roles s l = Some (s', o) ->
  forall v a, get s v = Some a -> exists a' app, get s' v = Some a' /\
    seq a' = (if consumes l v a then tl (seq a) else seq a) ++ app.
Proof. exact kstep_queue. Qed.
Print Assumptions C02_kernel_mailbox_order_step.

(* over every run: what an actor has queued is, later, what is left of it after some heads were taken, followed by
   what was appended since — queued messages keep their relative order and newcomers are behind them *)
Theorem C02_kernel_mailbox_order_run : forall roles ls s s' os,
  krun roles s ls = Some (s', os) ->
  forall v a, get s v = Some a -> exists a' k app, get s' v = Some a' /\ seq a' = skipn k (seq a) ++ app.
Proof. intros roles ls. exact (krun_queue roles ls). Qed.
Print Assumptions C02_kernel_mailbox_order_run.

(* Order, end to end ("handled in the order they were sent"): every send takes the next value of the system-wide serial
   counter; for every role table, every run from the freshly started system and every actor object v, the serials of the
   user messages v shows as handled (Handled observations with a user-message trigger in the steps that run v's mailbox),
   in the order in which it handles them, never decrease — whatever failures, suspensions, restarts, terminations and
   spawns happen in between. (Two copies of one broadcast carry the same serial; they go to different children.) *)
From MV Require Import Kernel.Order.
From Coq Require Import Sorted.
Theorem C02_handled_in_send_order : forall roles ls s os v,
  krun roles kinit ls = Some (s, os) -> Sorted le (trace v ls os).
Proof. exact handled_in_send_order. Qed.
Print Assumptions C02_handled_in_send_order.

(* ... because in every reachable state what waits in a mailbox (in flight, then queued) is sorted by serial and no
   serial exceeds the counter *)
Theorem C02_mailboxes_sorted_by_serial : forall roles ls s os v a,
  krun roles kinit ls = Some (s, os) -> get s v = Some a ->
  Sorted le (serials (seq a)) /\ Forall (fun k => (k <= serial s)%nat) (serials (seq a)).
Proof. intros roles ls s os v a H G. exact (mailboxes_sorted roles ls kinit s os (SI_init) H v a G). Qed.
Print Assumptions C02_mailboxes_sorted_by_serial.

Example C02_handled_in_send_order_example :
  (* an actor is spawned, launched, told 10, asked 11, told 12; handles two; told 13; handles two: serials 1 2 3 4 *)
  let ls := [LSpawn 5 1; LRun 2; LTell 5 10; LAsk 5 11; LTell 5 12; LRun 2; LRun 2; LTell 5 13; LRun 2; LRun 2] in
  let r0 := {| victim := None; sup := []; rules := [] |} in
  exists s os, krun [r0; r0] kinit ls = Some (s, os) /\ trace 2 ls os = [1; 2; 3; 4]%nat.
Proof. eexists. eexists. split; vm_compute; reflexivity. Qed.

(* Order across ADDRESS REUSE (an actor terminates, later a new actor is created under the same address): for every role
   table, every run from the freshly started system and any two actor objects u1 < u2 (uid = creation index) that carry the
   same address, EVERY serial u1 shows as handled is STRICTLY below EVERY serial u2 shows as handled. Strict "<" holds: the
   copies of one broadcast go to different addresses and the counter is advanced before every send. (A message goes to the
   object registered under the address at send time; once a second object of the address exists and is registered, the first
   is unregistered for ever and receives nothing more; every send takes a number above everything that exists.) *)
From MV Require Import Kernel.Reuse.
Theorem C02_handled_in_send_order_across_address_reuse : forall roles ls s os u1 u2 a1 a2,
  krun roles kinit ls = Some (s, os) ->
  get s u1 = Some a1 -> get s u2 = Some a2 -> a_tok a1 = a_tok a2 -> (u1 < u2)%nat ->
  forall x y, In x (trace u1 ls os) -> In y (trace u2 ls os) -> (x < y)%nat.
Proof. exact handled_order_across_reuse. Qed.
Print Assumptions C02_handled_in_send_order_across_address_reuse.

(* ... the invariant behind it, in every reachable state: of two objects of one address, the later one is a ghost (created
   while the address was occupied: registered under no address, holds nothing, has handled nothing), or the earlier one is
   registered under no address and all it has handled or still holds is numbered below all the later one has handled or holds *)
Theorem C02_same_address_objects_ordered : forall roles ls s os u1 u2 a1 a2,
  krun roles kinit ls = Some (s, os) ->
  get s u1 = Some a1 -> get s u2 = Some a2 -> a_tok a1 = a_tok a2 -> (u1 < u2)%nat ->
  (unregA s u2 /\ serials (seq a2) = [] /\ trace u2 ls os = []) \/
  (unregA s u1 /\ forall x y, In x (trace u1 ls os ++ serials (seq a1)) -> In y (trace u2 ls os ++ serials (seq a2)) -> (x < y)%nat).
Proof. exact same_address_objects_ordered. Qed.
Print Assumptions C02_same_address_objects_ordered.

(* ... the registered object of an address is its newest object, ghosts apart: every object of that address with a larger uid
   is registered nowhere, holds nothing and has handled nothing *)
Theorem C02_registered_is_newest_but_ghosts : forall roles ls s os t u u' a',
  krun roles kinit ls = Some (s, os) -> lookup t (registry s) = Some u ->
  get s u' = Some a' -> a_tok a' = t -> (u < u')%nat ->
  unregA s u' /\ serials (seq a') = [] /\ trace u' ls os = [].
Proof. exact registered_is_newest_but_ghosts. Qed.
Print Assumptions C02_registered_is_newest_but_ghosts.

(* ... who can receive: in every reachable state and for every step, an object that is not the registered object of its
   address has no user message appended to its mailbox (only its own run takes the head), and stays unregistered *)
Theorem C02_unregistered_object_receives_nothing : forall roles ls s os l s1 o v a,
  krun roles kinit ls = Some (s, os) -> kstep roles s l = Some (s1, o) ->
  get s v = Some a -> lookup (a_tok a) (registry s) <> Some v ->
  exists a1, get s1 v = Some a1 /\ lookup (a_tok a1) (registry s1) <> Some v /\
    seq a1 = (if consumes l v a then tl (seq a) else seq a).
Proof. exact unregistered_object_receives_nothing. Qed.
Print Assumptions C02_unregistered_object_receives_nothing.

(* ... the same from ANY state, for an object registered under no address *)
Theorem C02_unregistered_receives_nothing_step : forall roles s l s1 o v a,
  kstep roles s l = Some (s1, o) -> get s v = Some a -> unregA s v ->
  exists a1, get s1 v = Some a1 /\ unregA s1 v /\ seq a1 = (if consumes l v a then tl (seq a) else seq a).
Proof. exact unregistered_receives_nothing_step. Qed.
Print Assumptions C02_unregistered_receives_nothing_step.

Example C02_handled_in_send_order_across_address_reuse_example :
  (* an actor is spawned under address 5 (object 2), launched, told 10, asked 11, handles both (serials 1 2), is terminated and
     unregisters; a new actor is spawned under address 5 (object 3), launched, told 12 and 13, handles both (serials 3 4) *)
  let ls := [LSpawn 5 1; LRun 2; LTell 5 10; LAsk 5 11; LRun 2; LRun 2; LTerm 5 false; LRun 2;
             LSpawn 5 1; LRun 3; LTell 5 12; LTell 5 13; LRun 3; LRun 3] in
  let r0 := {| victim := None; sup := []; rules := [] |} in
  exists s os a1 a2, krun [r0; r0] kinit ls = Some (s, os) /\
    get s 2 = Some a1 /\ get s 3 = Some a2 /\ a_tok a1 = 5 /\ a_tok a2 = 5 /\
    a_st a1 = Terminated /\ a_st a2 = Alive /\ lookup 5 (registry s) = Some 3%nat /\
    trace 2 ls os = [1; 2]%nat /\ trace 3 ls os = [3; 4]%nat.
Proof. do 4 eexists. repeat (split; [vm_compute; reflexivity|]). vm_compute; reflexivity. Qed.

Example C02_ghost_object_example :
  (* a second spawn under the occupied address 5 creates object 3 with that address: never registered, never handles anything
     (so "the registered object has the largest uid of its address" holds only with the ghosts set apart) *)
  let ls := [LSpawn 5 1; LSpawn 5 1; LTell 5 10; LRun 2; LRun 2] in
  let r0 := {| victim := None; sup := []; rules := [] |} in
  exists s os a1 a2, krun [r0; r0] kinit ls = Some (s, os) /\
    get s 2 = Some a1 /\ get s 3 = Some a2 /\ a_tok a1 = 5 /\ a_tok a2 = 5 /\
    lookup 5 (registry s) = Some 2%nat /\ trace 2 ls os = [1]%nat /\ trace 3 ls os = [].
Proof. do 4 eexists. repeat (split; [vm_compute; reflexivity|]). vm_compute; reflexivity. Qed.

Example C02_kernel_example :
  (* a message to an address that never existed becomes exactly one dead letter *)
  exists s os, krun [] kinit [LTell 7%Z 1%Z; LRun 1%Z] = Some (s, os) /\ os = [[OS rGuard 7%Z 1%nat; OD rNone 7%Z 1%nat]; []].
Proof. eexists. eexists. split; vm_compute; reflexivity. Qed.
