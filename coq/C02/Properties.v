(* MV.C02.Properties — statements of property C02, mailbox level ("each message is handled exactly once
   in sender order ... no message is left stranded in its mailbox"), on the mailbox machine of C01.
   The actor level (dead letters, Tell/Ask/Reply/Broadcast) is stated on the kernel model (MV.Kernel). *)
From MV Require Import Lib.ListX Lib.Sched C01.MboxModel C01.MboxProofs.
Open Scope Z_scope.

(* FIFO conservation: in every reachable state, the messages pushed to a queue are, in push order,
   exactly those already popped by the runner followed by those still queued — nothing lost,
   duplicated, reordered or invented, for any number of concurrent senders. *)
Theorem C02_conservation : forall st, reach init st ->
  pushedS (fst st) = poppedS (fst st) ++ sysq (fst st) /\
  pushedU (fst st) = poppedU (fst st) ++ userq (fst st).
Proof. exact conservation. Qed.
Print Assumptions C02_conservation.

(* No lost wake-up: whenever every sender, suspender, resumer and runner has finished its code
   (only the environment is left), the system queue is empty and — unless the mailbox is
   suspended — so is the user queue. So no message waits for "later traffic" to flush it. *)
Theorem C02_no_stranded : forall st, reach init st -> quiescent st ->
  sysq (fst st) = [] /\ (susp (fst st) = false -> userq (fst st) = []).
Proof. exact no_stranded. Qed.
Print Assumptions C02_no_stranded.

Example C02_example :
  exists st es, run init [(0%nat, CSend KU 1%nat); (1%nat, CNone); (1%nat, CNone); (1%nat, CNone);
                          (2%nat, CNone); (2%nat, CNone); (2%nat, CNone); (2%nat, CNone); (2%nat, CNone); (2%nat, CNone);
                          (2%nat, CNone); (2%nat, CNone); (2%nat, CNone); (2%nat, CNone); (2%nat, CNone); (2%nat, CNone); (2%nat, CNone)] = Some (st, es)
               /\ quiescent st /\ pushedU (fst st) = [1%nat] /\ poppedU (fst st) = [1%nat].
Proof.
  eexists. eexists. split; [vm_compute; reflexivity|]. split; [|split; vm_compute; reflexivity].
  intros i l H. destruct i as [|[|[|i]]]; simpl in H; try discriminate; try (inversion H; reflexivity).
  destruct i; discriminate.
Qed.
