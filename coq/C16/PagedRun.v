(* MV.C16.PagedRun — evaluation of recorded runs of listings.PagedSlice against the model (tie T1). *)
From MV Require Import Lib.ListX C16.PagedModel.

Definition out_eqb (a b : out) : bool :=
  match a, b with
  | OUnit, OUnit => true
  | OVal x, OVal y => Z.eqb x y
  | OLen x, OLen y => Nat.eqb x y
  | OList x, OList y => list_eqb Z.eqb x y
  | OPanic, OPanic => true
  | _, _ => false
  end.

Record case := { cid : nat; cps : nat; cops : list op; cimpl : list out }.
Definition model_outs (c : case) : list out := snd (run (new_paged (cps c)) (cops c)).
Definition case_ok (c : case) : bool := list_eqb out_eqb (model_outs c) (cimpl c).
Definition mismatches (cs : list case) : list nat := fail_ids case_ok cid cs.
