(* MV.C16.RankProofs — the leaderboard model keeps its representation invariant for every operation
   sequence, never runs out of fuel, rank lookup and competitor-at-rank are inverse, and the score
   stored for an id is the one last submitted. *)
From MV Require Import Lib.ListX C16.ListAux C16.MapX C16.RankModel.
From Coq Require Import ZifyBool ZifyNat Sorting.Sorted Sorting.Permutation.
Ltac Zify.zify_post_hook ::= Z.div_mod_to_equations.
Open Scope Z_scope.
Arguments Z.add : simpl never.
Arguments Z.sub : simpl never.
Arguments Z.mul : simpl never.
Arguments Z.div : simpl never.
Arguments Z.of_nat : simpl never.
Arguments Z.to_nat : simpl never.
Arguments Z.opp : simpl never.

(* ---------- Cmp ---------- *)
Definition key (a : bool) (s : Z) : Z := if a then - s else s.

Lemma cmp_eq0 a x y : cmp a x y = 0 <-> x = y.
Proof. unfold cmp. destruct a, (Z.gtb_spec x y), (Z.ltb_spec x y); lia. Qed.
Lemma cmp_lt0 a x y : cmp a x y < 0 <-> key a x < key a y.
Proof. unfold cmp, key. destruct a, (Z.gtb_spec x y), (Z.ltb_spec x y); lia. Qed.
Lemma cmp_gt0 a x y : cmp a x y > 0 <-> key a x > key a y.
Proof. unfold cmp, key. destruct a, (Z.gtb_spec x y), (Z.ltb_spec x y); lia. Qed.
Lemma key_inj a x y : key a x = key a y -> x = y.
Proof. unfold key; destruct a; lia. Qed.

(* ---------- lists indexed by Z ---------- *)
Lemma lenZ_nonneg l : 0 <= lenZ l.
Proof. unfold lenZ; lia. Qed.
Lemma lenZ_app l1 l2 : lenZ (l1 ++ l2) = lenZ l1 + lenZ l2.
Proof. unfold lenZ; rewrite app_length; lia. Qed.
Lemma lenZ_cons x l : lenZ (x :: l) = 1 + lenZ l.
Proof. unfold lenZ; simpl length; lia. Qed.

Lemma nthZ_In i l : 0 <= i < lenZ l -> In (nthZ i l) l.
Proof. unfold nthZ, lenZ; intros H. apply nth_In. lia. Qed.

Lemma In_nthZ x l : In x l -> exists i, 0 <= i < lenZ l /\ nthZ i l = x.
Proof.
  intros H. destruct (In_nth l x (0, 0) H) as (n & Hn & E).
  exists (Z.of_nat n). unfold nthZ, lenZ. rewrite Nat2Z.id. split; auto. lia.
Qed.

Lemma nthZ_app1 i l1 l2 : 0 <= i < lenZ l1 -> nthZ i (l1 ++ l2) = nthZ i l1.
Proof. unfold nthZ, lenZ; intros H. apply app_nth1. lia. Qed.
Lemma nthZ_app2 i l1 l2 : lenZ l1 <= i -> nthZ i (l1 ++ l2) = nthZ (i - lenZ l1) l2.
Proof.
  unfold nthZ, lenZ; intros H. rewrite app_nth2 by lia. f_equal. lia.
Qed.
Lemma nthZ_0 x l : nthZ 0 (x :: l) = x.
Proof. reflexivity. Qed.
Lemma nthZ_cons i x l : 0 < i -> nthZ i (x :: l) = nthZ (i - 1) l.
Proof.
  intros H. change (x :: l) with ([x] ++ l). rewrite nthZ_app2; unfold lenZ; simpl length; try lia.
  f_equal.
Qed.

Lemma split_at i sc : 0 <= i < lenZ sc ->
  sc = firstn (Z.to_nat i) sc ++ nthZ i sc :: skipn (Z.to_nat (i + 1)) sc.
Proof.
  unfold lenZ, nthZ; intros H.
  replace (Z.to_nat (i + 1)) with (S (Z.to_nat i)) by lia.
  rewrite <- skipn_nth_cons by lia. symmetry; apply firstn_skipn.
Qed.

Lemma firstn_lenZ i sc : 0 <= i <= lenZ sc -> lenZ (firstn (Z.to_nat i) sc) = i.
Proof. unfold lenZ; intros H. rewrite firstn_length. lia. Qed.

Lemma firstn_app_exact (A B : list (Z * Z)) : firstn (Z.to_nat (lenZ A)) (A ++ B) = A.
Proof.
  unfold lenZ. rewrite Nat2Z.id. rewrite firstn_app, Nat.sub_diag, firstn_all. simpl. apply app_nil_r.
Qed.
Lemma skipn_app_exact (A B : list (Z * Z)) : skipn (Z.to_nat (lenZ A)) (A ++ B) = B.
Proof.
  unfold lenZ. rewrite Nat2Z.id. rewrite skipn_app, Nat.sub_diag, skipn_all. reflexivity.
Qed.

(* ---------- sortedness ---------- *)
Definition ge_key (a : bool) (p q : Z * Z) : Prop := key a (snd q) <= key a (snd p).
Definition sorted (a : bool) (sc : list (Z * Z)) : Prop := StronglySorted (ge_key a) sc.

Lemma sorted_mid a A x B :
  sorted a (A ++ x :: B) <->
  sorted a (A ++ B) /\ (forall y, In y A -> ge_key a y x) /\ (forall y, In y B -> ge_key a x y).
Proof.
  unfold sorted. rewrite !ss_app_iff. split.
  - intros (HA & HxB & HAB). inversion HxB as [|? ? HB HF]; subst. rewrite Forall_forall in HF.
    repeat split; auto. intros y z Hy Hz. apply HAB; simpl; auto.
    intros y Hy. apply HAB; simpl; auto.
  - intros ((HA & HB & HAB) & HAx & HxB). repeat split; auto.
    + constructor; auto. rewrite Forall_forall. auto.
    + intros y z Hy [E|Hz]; subst; auto.
Qed.

Lemma sorted_nth a sc i j : sorted a sc -> 0 <= i <= j -> j < lenZ sc ->
  key a (snd (nthZ j sc)) <= key a (snd (nthZ i sc)).
Proof.
  intros Hs Hij Hj. destruct (Z.eq_dec i j) as [->|Hne]; [lia|].
  rewrite (split_at i sc) in Hs by lia.
  apply sorted_mid in Hs as (_ & _ & HB).
  assert (E : nthZ j sc = nthZ (j - (i + 1)) (skipn (Z.to_nat (i + 1)) sc)).
  { unfold nthZ. rewrite nth_skipn'. f_equal. lia. }
  rewrite E. apply HB. apply nthZ_In. unfold lenZ in *. rewrite skipn_length. lia.
Qed.

(* insertion point: the number of entries whose key is >= the key of the new score *)
Definition geb (a : bool) (k : Z) (p : Z * Z) : bool := k <=? key a (snd p).
Definition pos (a : bool) (score : Z) (sc : list (Z * Z)) : Z := lenZ (filter (geb a (key a score)) sc).

Lemma sorted_split a k sc : sorted a sc ->
  sc = filter (geb a k) sc ++ filter (fun p => negb (geb a k p)) sc.
Proof.
  induction 1 as [|x t Hs IH Hf]; simpl; auto.
  destruct (geb a k x) eqn:G; simpl.
  - f_equal; auto.
  - assert (E : filter (geb a k) t = []).
    { rewrite Forall_forall in Hf. clear IH Hs. induction t as [|y t' IHt]; simpl; auto.
      pose proof (Hf y (or_introl eq_refl)) as Hy. unfold ge_key in Hy.
      assert (G' : geb a k y = false) by (unfold geb in *; lia).
      rewrite G'. apply IHt. intros z Hz. apply Hf; right; auto. }
    rewrite E in *. simpl in *. f_equal. auto.
Qed.

Lemma pos_range a s sc : 0 <= pos a s sc <= lenZ sc.
Proof.
  unfold pos, lenZ. pose proof (filter_length_le' (geb a (key a s)) sc). lia.
Qed.

Lemma pos_spec a s sc i : sorted a sc -> 0 <= i < lenZ sc ->
  (key a s <= key a (snd (nthZ i sc)) <-> i < pos a s sc).
Proof.
  intros Hs Hi. pose proof (sorted_split a (key a s) sc Hs) as E.
  set (A := filter (geb a (key a s)) sc) in *. set (B := filter (fun p => negb (geb a (key a s) p)) sc) in *.
  unfold pos. fold A.
  destruct (Z.lt_ge_cases i (lenZ A)) as [Hlt|Hge].
  - split; auto. intros _. rewrite E. rewrite nthZ_app1 by lia.
    assert (Hin : In (nthZ i A) A) by (apply nthZ_In; lia).
    apply filter_In in Hin as [_ Hg]. unfold geb in Hg. lia.
  - split; [|lia]. intros Hk. exfalso. rewrite E in Hk. rewrite nthZ_app2 in Hk by lia.
    assert (Hin : In (nthZ (i - lenZ A) B) B).
    { apply nthZ_In. rewrite E in Hi. rewrite lenZ_app in Hi. lia. }
    apply filter_In in Hin as [_ Hg]. unfold geb in Hg. lia.
Qed.

Lemma firstn_pos a s sc : sorted a sc ->
  firstn (Z.to_nat (pos a s sc)) sc = filter (geb a (key a s)) sc /\
  skipn (Z.to_nat (pos a s sc)) sc = filter (fun p => negb (geb a (key a s) p)) sc.
Proof.
  intros Hs. pose proof (sorted_split a (key a s) sc Hs) as E. unfold pos.
  split.
  - rewrite E at 2. apply firstn_app_exact.
  - rewrite E at 2. apply skipn_app_exact.
Qed.

(* ---------- the insertion search ---------- *)
Lemma scan_ne_spec a sc score n : forall i, 0 <= i -> i + Z.of_nat n <= lenZ sc ->
  let r := scan_ne a sc score i n in
  i <= r <= i + Z.of_nat n /\ (forall j, i <= j < r -> snd (nthZ j sc) = score).
Proof.
  induction n as [|n IH]; intros i Hi Hn; cbn [scan_ne].
  - split; [lia|]. intros j Hj; lia.
  - destruct (Z.eqb_spec (cmp a (snd (nthZ i sc)) score) 0) as [E|E].
    + specialize (IH (i + 1) ltac:(lia) ltac:(lia)). cbv zeta in IH. destruct IH as [H1 H2].
      split; [lia|]. intros j Hj. destruct (Z.eq_dec j i) as [->|Hne].
      * apply cmp_eq0 in E; auto.
      * apply H2; lia.
    + split; [lia|]. intros j Hj; lia.
Qed.

Lemma ins_loop_spec a sc score : sorted a sc ->
  forall fuel low high, 0 <= low -> high < lenZ sc ->
    low <= pos a score sc <= high + 1 -> high - low + 1 < Z.of_nat fuel ->
    ins_loop fuel a sc score low high = Some (pos a score sc).
Proof.
  intros Hs. set (p := pos a score sc).
  induction fuel as [|f IH]; intros low high Hl Hh Hp Hf; [lia|].
  cbn [ins_loop]. destruct (Z.leb_spec low high) as [Hle|Hgt].
  - set (mid := (low + high) / 2). assert (Hm : low <= mid <= high) by (unfold mid; lia).
    pose proof (pos_spec a score sc mid Hs ltac:(lia)) as Hps. fold p in Hps.
    destruct (Z.eqb_spec (cmp a (snd (nthZ mid sc)) score) 0) as [E0|E0].
    + apply cmp_eq0 in E0.
      pose proof (scan_ne_spec a sc score (Z.to_nat (high - mid)) (mid + 1) ltac:(lia) ltac:(lia)) as Hsc.
      cbv zeta in Hsc. set (r := scan_ne a sc score (mid + 1) (Z.to_nat (high - mid))) in *.
      destruct Hsc as [Hr Heq].
      assert (Hmp : mid < p) by (apply Hps; rewrite E0; lia).
      assert (Hrp : r <= p).
      { destruct (Z.eq_dec r (mid + 1)); [lia|].
        assert (Hj : snd (nthZ (r - 1) sc) = score) by (apply Heq; lia).
        pose proof (pos_spec a score sc (r - 1) Hs ltac:(lia)) as Hq. fold p in Hq.
        rewrite Hj in Hq. lia. }
      apply IH; lia.
    + destruct (Z.ltb_spec (cmp a (snd (nthZ mid sc)) score) 0) as [Hlt|Hge].
      * apply cmp_lt0 in Hlt. apply IH; lia.
      * assert (Hgt : cmp a (snd (nthZ mid sc)) score > 0) by lia. apply cmp_gt0 in Hgt. apply IH; lia.
  - f_equal. lia.
Qed.

(* ---------- the rank search ---------- *)
Definition uniq (sc : list (Z * Z)) : Prop := NoDup (map fst sc).

Lemma uniq_index sc i j : uniq sc -> 0 <= i < lenZ sc -> 0 <= j < lenZ sc ->
  fst (nthZ i sc) = fst (nthZ j sc) -> i = j.
Proof.
  unfold uniq, nthZ, lenZ. intros Hu Hi Hj E.
  rewrite NoDup_nth with (d := 0) in Hu.
  assert (Z.to_nat i = Z.to_nat j); [|lia].
  apply Hu; rewrite ?map_length; try lia.
  change 0 with (fst (0, 0)). rewrite !map_nth. exact E.
Qed.

Lemma find_up_hit cid sc t n : forall i, uniq sc -> 0 <= i -> i + Z.of_nat n <= lenZ sc ->
  fst (nthZ t sc) = cid -> i <= t < i + Z.of_nat n -> find_up cid sc i n = Some t.
Proof.
  induction n as [|n IH]; intros i Hu Hi Hn Ht Hr; [lia|]. cbn [find_up].
  destruct (Z.eqb_spec (fst (nthZ i sc)) cid) as [E|E].
  - f_equal. apply (uniq_index sc); [auto | lia | lia | congruence].
  - apply IH; auto; try lia. destruct (Z.eq_dec t i); [subst; contradiction|lia].
Qed.

Lemma find_up_miss cid sc t n : forall i, uniq sc -> 0 <= i -> i + Z.of_nat n <= lenZ sc ->
  fst (nthZ t sc) = cid -> 0 <= t < i -> find_up cid sc i n = None.
Proof.
  induction n as [|n IH]; intros i Hu Hi Hn Ht Hr; auto. cbn [find_up].
  destruct (Z.eqb_spec (fst (nthZ i sc)) cid) as [E|E].
  - exfalso. assert (i = t); [|lia]. apply (uniq_index sc); [auto | lia | lia | congruence].
  - apply IH; auto; lia.
Qed.

Lemma find_down_hit cid sc t n : forall i, uniq sc -> i < lenZ sc -> 0 <= i + 1 - Z.of_nat n ->
  fst (nthZ t sc) = cid -> i - Z.of_nat n < t <= i -> find_down cid sc i n = Some t.
Proof.
  induction n as [|n IH]; intros i Hu Hi Hn Ht Hr; [lia|]. cbn [find_down].
  destruct (Z.eqb_spec (fst (nthZ i sc)) cid) as [E|E].
  - f_equal. apply (uniq_index sc); [auto | lia | lia | congruence].
  - apply IH; auto; try lia. destruct (Z.eq_dec t i); [subst; contradiction|lia].
Qed.

Lemma rank_loop_spec a sc cid cs t : sorted a sc -> uniq sc ->
  0 <= t < lenZ sc -> nthZ t sc = (cid, cs) ->
  forall fuel low high, 0 <= low -> high < lenZ sc -> low <= t <= high ->
    high - low + 1 < Z.of_nat fuel ->
    rank_loop fuel a sc cid cs low high = RFound t.
Proof.
  intros Hs Hu Ht Hnt.
  assert (Hid : fst (nthZ t sc) = cid) by (rewrite Hnt; reflexivity).
  induction fuel as [|f IH]; intros low high Hl Hh Hr Hf; [lia|].
  cbn [rank_loop]. destruct (Z.leb_spec low high) as [Hle|Hgt]; [|lia].
  set (mid := (low + high) / 2). assert (Hm : low <= mid <= high) by (unfold mid; lia).
  destruct (nthZ mid sc) as [id score] eqn:Emid.
  destruct (Z.eqb_spec id cid) as [E|E].
  - f_equal. apply (uniq_index sc); [auto | lia | lia | rewrite Emid, Hid; auto].
  - assert (Hne : t <> mid) by (intros ->; rewrite Emid in Hid; simpl in Hid; contradiction).
    destruct (Z.eqb_spec (cmp a score cs) 0) as [E0|E0].
    + destruct (Z.lt_ge_cases mid t) as [Hup|Hdn].
      * rewrite (find_up_hit cid sc t); auto; lia.
      * rewrite (find_up_miss cid sc t); auto; try lia.
        rewrite (find_down_hit cid sc t); auto; lia.
    + assert (Hks : snd (nthZ mid sc) = score) by (rewrite Emid; auto).
      assert (Hkt : snd (nthZ t sc) = cs) by (rewrite Hnt; auto).
      destruct (Z.ltb_spec (cmp a score cs) 0) as [Hlt|Hge].
      * apply cmp_lt0 in Hlt. apply IH; try lia.
        destruct (Z.lt_ge_cases t mid); [lia|].
        pose proof (sorted_nth a sc mid t Hs ltac:(lia) ltac:(lia)). rewrite Hks, Hkt in *. lia.
      * assert (Hgt : cmp a score cs > 0) by lia. apply cmp_gt0 in Hgt. apply IH; try lia.
        destruct (Z.lt_ge_cases mid t); [lia|].
        pose proof (sorted_nth a sc t mid Hs ltac:(lia) ltac:(lia)). rewrite Hks, Hkt in *. lia.
Qed.

(* ---------- representation invariant ---------- *)
Definition agree (sc : list (Z * Z)) (m : amap Z) : Prop :=
  NoDup (map fst m) /\ forall id s, mget id m = Some s <-> In (id, s) sc.

Record Inv (b : board) : Prop := {
  inv_uniq : uniq (scores b);
  inv_sorted : sorted (asc b) (scores b);
  inv_agree : agree (scores b) (comp b);
  inv_cap : 0 < cap b /\ lenZ (scores b) <= cap b
}.

Lemma new_board_inv cnt a : Inv (new_board cnt a).
Proof.
  constructor; cbn [new_board scores comp asc cap].
  - constructor.
  - constructor.
  - split; [constructor|]. intros; simpl; split; [discriminate|tauto].
  - unfold lenZ; simpl length. destruct cnt as [n|]; [destruct (Z.leb_spec n 0)|]; lia.
Qed.

Lemma agree_length sc m : uniq sc -> agree sc m -> length m = length sc.
Proof.
  intros Hu [Hnd Hag].
  assert (P : Permutation m sc).
  { apply NoDup_Permutation.
    - eapply NoDup_map_inv; eauto.
    - eapply NoDup_map_inv; eauto.
    - intros [id s]. split; intros H.
      + apply Hag. apply In_mget_nodup; auto.
      + apply mget_In. apply Hag; auto. }
  apply Permutation_length; auto.
Qed.

Lemma get_rank_spec b cid cs : Inv b -> mget cid (comp b) = Some cs ->
  exists r, get_rank b cid = RFound r /\ 0 <= r < lenZ (scores b) /\ nthZ r (scores b) = (cid, cs).
Proof.
  intros [Hu Hs [Hnd Hag] Hc] Hg. unfold get_rank. rewrite Hg.
  apply Hag in Hg. destruct (In_nthZ _ _ Hg) as (t & Ht & Hnt).
  exists t. split; [|auto].
  apply rank_loop_spec; auto; try lia. unfold fuel_of, lenZ in *. lia.
Qed.

Lemma get_rank_absent b cid : mget cid (comp b) = None -> get_rank b cid = RNotExist.
Proof. intros H. unfold get_rank. rewrite H. reflexivity. Qed.

(* removing the entry of rank r *)
Lemma uniq_mid A x B : uniq (A ++ x :: B) <-> uniq (A ++ B) /\ ~ In (fst x) (map fst (A ++ B)).
Proof.
  unfold uniq. rewrite !map_app. simpl map. split.
  - intros H. split; [eapply NoDup_remove_1; eauto | eapply NoDup_remove_2; eauto].
  - intros [H1 H2]. apply NoDup_Add with (a := fst x) (l := map fst A ++ map fst B); auto.
    apply Add_app.
Qed.

Lemma remove_at_eq r sc : 0 <= r < lenZ sc ->
  remove_at r sc = firstn (Z.to_nat r) sc ++ skipn (Z.to_nat (r + 1)) sc.
Proof. reflexivity. Qed.

Record Inv0 (a : bool) (sc : list (Z * Z)) (m : amap Z) : Prop := {
  i0_uniq : uniq sc; i0_sorted : sorted a sc; i0_agree : agree sc m }.

Lemma inv0_remove a A cid cs B m :
  Inv0 a (A ++ (cid, cs) :: B) m -> Inv0 a (A ++ B) (mdel cid m) /\ mget cid (mdel cid m) = None.
Proof.
  intros [Hu Hs [Hnd Hag]]. apply uniq_mid in Hu as [Hu Hni]. apply sorted_mid in Hs as (Hs & _ & _).
  split; [|apply mget_mdel_same]. constructor; auto. split; [apply mdel_nodup; auto|].
  intros id s. destruct (Z.eq_dec cid id) as [->|Hne].
  - rewrite mget_mdel_same. split; [discriminate|]. intros Hin. exfalso. apply Hni.
    simpl. change id with (fst (id, s)). apply in_map; auto.
  - rewrite mget_mdel_other by auto. rewrite Hag, In_mid. split; [intros [E|H]; auto; congruence | auto].
Qed.

(* inserting a new id at the insertion point *)
Lemma inv0_insert a sc m cid score :
  Inv0 a sc m -> mget cid m = None ->
  Inv0 a (insert_at (pos a score sc) (cid, score) sc) (mset cid score m).
Proof.
  intros [Hu Hs [Hnd Hag]] Hg. unfold insert_at.
  destruct (firstn_pos a score sc Hs) as [EA EB]. rewrite EA, EB.
  pose proof (sorted_split a (key a score) sc Hs) as E.
  set (A := filter (geb a (key a score)) sc) in *.
  set (B := filter (fun p => negb (geb a (key a score) p)) sc) in *.
  constructor.
  - apply uniq_mid. rewrite <- E. split; auto. simpl. intros Hin.
    apply in_map_iff in Hin as ([id s] & Ef & Hin). simpl in Ef. subst id.
    apply Hag in Hin. congruence.
  - apply sorted_mid. rewrite <- E. split; auto. split; intros y Hy; apply filter_In in Hy as [_ Hy];
      unfold geb, ge_key in *; simpl; lia.
  - split; [apply mset_nodup; auto|]. intros id s. rewrite In_mid, <- E.
    destruct (Z.eq_dec cid id) as [->|Hne].
    + rewrite mget_mset_same. split; [intros H; inversion H; auto|].
      intros [H|H]; [inversion H; auto|]. apply Hag in H. congruence.
    + rewrite mget_mset_other by auto. rewrite Hag. split; auto. intros [H|H]; auto. inversion H; congruence.
Qed.

(* dropping the last entry *)
Lemma inv0_drop_last a A lid ls m :
  Inv0 a (A ++ [(lid, ls)]) m -> Inv0 a A (mdel lid m).
Proof.
  intros H. apply inv0_remove in H as [H _]. rewrite app_nil_r in H. exact H.
Qed.

Lemma mget_mdel_some {V} k id (m : amap V) x : mget id (mdel k m) = Some x -> id <> k /\ mget id m = Some x.
Proof.
  intros H. destruct (Z.eq_dec k id) as [->|Hne].
  - rewrite mget_mdel_same in H. discriminate.
  - rewrite mget_mdel_other in H by auto. split; auto.
Qed.

Lemma insert_at_end x sc : insert_at (lenZ sc) x sc = sc ++ [x].
Proof.
  unfold insert_at, lenZ. rewrite Nat2Z.id, firstn_all, skipn_all. reflexivity.
Qed.

Lemma insert_at_len i x sc : 0 <= i <= lenZ sc -> lenZ (insert_at i x sc) = lenZ sc + 1.
Proof.
  intros H. unfold insert_at. rewrite lenZ_app, lenZ_cons. unfold lenZ in *.
  rewrite firstn_length, skipn_length. lia.
Qed.

Lemma last_split sc : 0 < lenZ sc ->
  sc = firstn (Z.to_nat (lenZ sc - 1)) sc ++ [nthZ (lenZ sc - 1) sc].
Proof.
  intros H. rewrite (split_at (lenZ sc - 1) sc) at 1 by lia.
  f_equal. f_equal. replace (lenZ sc - 1 + 1) with (lenZ sc) by lia.
  unfold lenZ. rewrite Nat2Z.id. apply skipn_all.
Qed.

Definition frame_ins (cid score : Z) (m m' : amap Z) : Prop :=
  forall id x, mget id m' = Some x -> (id = cid /\ x = score) \/ (id <> cid /\ mget id m = Some x).

Lemma competitor_spec b cid os orank score low high :
  Inv0 (asc b) (scores b) (comp b) -> mget cid (comp b) = None ->
  0 < cap b -> lenZ (scores b) <= cap b ->
  0 <= low -> high < lenZ (scores b) ->
  low <= pos (asc b) score (scores b) <= high + 1 ->
  exists b' evs, competitor b cid os orank score low high = Some (b', evs) /\ Inv b' /\
    asc b' = asc b /\ cap b' = cap b /\ frame_ins cid score (comp b) (comp b').
Proof.
  intros H0 Hg Hc Hlen Hl Hh Hp. unfold competitor.
  rewrite (ins_loop_spec (asc b) (scores b) score (i0_sorted _ _ _ H0)) with (low := low) (high := high);
    try lia; [|unfold fuel_of, lenZ in *; lia].
  set (p := pos (asc b) score (scores b)) in *.
  pose proof (inv0_insert _ _ _ cid score H0 Hg) as Hins. fold p in Hins.
  assert (Hfr : frame_ins cid score (comp b) (mset cid score (comp b))).
  { intros id x. destruct (Z.eq_dec cid id) as [->|Hne].
    - rewrite mget_mset_same. intros E; inversion E; auto.
    - rewrite mget_mset_other by auto. intros E; right; auto. }
  pose proof (pos_range (asc b) score (scores b)) as Hpr. fold p in Hpr.
  destruct (Z.eqb_spec p (lenZ (scores b))) as [Ep|Ep].
  - replace (0 <? cap b) with true by lia. cbn [andb].
    destruct (Z.leb_spec (cap b) (lenZ (scores b))) as [Hfull|Hroom].
    + exists b, []. refine (conj eq_refl (conj _ (conj eq_refl (conj eq_refl _)))).
      * destruct H0; constructor; auto.
      * intros id x E. destruct (Z.eq_dec id cid) as [->|Hne]; [congruence|auto].
    + rewrite Ep, insert_at_end in Hins. destruct Hins as [Hu Hs Ha].
      eexists _, _. refine (conj eq_refl (conj _ (conj eq_refl (conj eq_refl _)))); cbn [set_sc scores comp asc cap]; auto.
      constructor; cbn [set_sc scores comp asc cap]; auto.
      rewrite lenZ_app. unfold lenZ at 2; simpl length. lia.
  - set (sc := insert_at p (cid, score) (scores b)) in *.
    assert (Hl1 : lenZ sc = lenZ (scores b) + 1) by (apply insert_at_len; lia).
    replace (cap b <=? 0) with false by lia. cbn [orb].
    destruct (Z.leb_spec (lenZ sc) (cap b)) as [Hfit|Hover].
    + destruct Hins as [Hu Hs Ha].
      eexists _, _. refine (conj eq_refl (conj _ (conj eq_refl (conj eq_refl _)))); cbn [set_sc scores comp asc cap]; auto.
      constructor; cbn [set_sc scores comp asc cap]; auto.
    + destruct (nthZ (lenZ sc - 1) sc) as [lid ls] eqn:El.
      pose proof (last_split sc ltac:(lia)) as Esp. rewrite El in Esp.
      rewrite Esp in Hins. apply inv0_drop_last in Hins. destruct Hins as [Hu Hs Ha].
      eexists _, _. refine (conj eq_refl (conj _ (conj eq_refl (conj eq_refl _)))); cbn [set_sc scores comp asc cap].
      * constructor; cbn [set_sc scores comp asc cap]; auto.
        rewrite firstn_lenZ; lia.
      * intros id x E. apply mget_mdel_some in E as [_ E]. apply Hfr; auto.
Qed.

Lemma inv_inv0 b : Inv b -> Inv0 (asc b) (scores b) (comp b).
Proof. intros [H1 H2 H3 H4]. constructor; auto. Qed.

Ltac split5 := split; [|split; [|split; [|split]]].

Definition frame_comp (cid score : Z) (b b' : board) : Prop := frame_ins cid score (comp b) (comp b').

Lemma do_competitor_spec b cid score : Inv b ->
  let '(b', o) := do_competitor b cid score in
  Inv b' /\ asc b' = asc b /\ cap b' = cap b /\ o <> OFuel /\ frame_comp cid score b b'.
Proof.
  intros HI. pose proof HI as [Hu Hs Ha [Hc Hlen]]. unfold do_competitor.
  destruct (mget cid (comp b)) as [v|] eqn:Hg.
  - destruct (Z.eqb_spec (cmp (asc b) v score) 0) as [E0|E0].
    + split5; auto; try discriminate.
      intros id x E. destruct (Z.eq_dec id cid) as [->|Hne]; auto.
      left. split; auto. apply cmp_eq0 in E0. congruence.
    + destruct (get_rank_spec b cid v HI Hg) as (rank & Er & Hr & Hnt). rewrite Er.
      pose proof (split_at rank (scores b) Hr) as Esp. rewrite Hnt in Esp.
      set (A := firstn (Z.to_nat rank) (scores b)) in *.
      set (B := skipn (Z.to_nat (rank + 1)) (scores b)) in *.
      assert (HlA : lenZ A = rank) by (apply firstn_lenZ; lia).
      pose proof (inv_inv0 b HI) as H0. rewrite Esp in H0.
      pose proof H0 as [_ Hs0 _]. apply sorted_mid in Hs0 as (HsAB & HAv & HvB).
      apply inv0_remove in H0 as [H1 Hg1].
      set (b1 := set_sc b (remove_at rank (scores b)) (mdel cid (comp b))).
      assert (Esc1 : scores b1 = A ++ B) by reflexivity.
      assert (Hlen1 : lenZ (A ++ B) = lenZ (scores b) - 1).
      { rewrite Esp at 1. rewrite !lenZ_app, lenZ_cons. lia. }
      assert (Hne : score <> v) by (intros ->; apply E0; apply cmp_eq0; auto).
      pose proof (pos_range (asc b) score (A ++ B)) as Hpr.
      assert (Hfin : forall low high, 0 <= low -> high < lenZ (A ++ B) ->
                low <= pos (asc b) score (A ++ B) <= high + 1 ->
                match competitor b1 cid v rank score low high with
                | Some (b2, evs) => Inv b2 /\ asc b2 = asc b /\ cap b2 = cap b /\ OEv evs <> OFuel /\ frame_comp cid score b b2
                | None => False
                end).
      { intros low high Hl Hh Hp.
        destruct (competitor_spec b1 cid v rank score low high) as (b2 & evs & Ec & HI2 & Ea & Eca & Hfr);
          cbn [b1 set_sc scores comp asc cap]; auto;
          try (change (remove_at rank (scores b)) with (A ++ B); lia).
        rewrite Ec. split5; auto; try discriminate.
        intros id x E. apply Hfr in E as [E|[Hn E]]; auto. cbn [b1 set_sc comp] in E.
        apply mget_mdel_some in E as [_ E]. auto. }
      destruct (Z.gtb_spec (cmp (asc b) score v) 0) as [Hgt|Hle].
      * assert (Hk : key (asc b) score > key (asc b) v) by (apply cmp_gt0; lia).
        assert (Hp : pos (asc b) score (A ++ B) <= rank).
        { destruct (Z.le_gt_cases (pos (asc b) score (A ++ B)) rank) as [|Hgt']; auto. exfalso.
          assert (Hin : rank < lenZ (A ++ B)) by lia.
          pose proof (pos_spec (asc b) score (A ++ B) rank HsAB ltac:(lia)) as Hps.
          rewrite nthZ_app2 in Hps by lia. rewrite HlA, Z.sub_diag in Hps.
          assert (HinB : In (nthZ 0 B) B).
          { apply nthZ_In. rewrite lenZ_app in Hin. lia. }
          apply HvB in HinB. unfold ge_key in HinB. simpl in HinB. lia. }
        specialize (Hfin 0 (rank - 1) ltac:(lia) ltac:(lia) ltac:(lia)).
        destruct (competitor b1 cid v rank score 0 (rank - 1)) as [[b2 evs]|]; tauto.
      * assert (Hk : key (asc b) score < key (asc b) v).
        { assert (Hc2 : ~ cmp (asc b) score v > 0) by lia. rewrite cmp_gt0 in Hc2.
          destruct (Z.eq_dec (key (asc b) score) (key (asc b) v)) as [E|E]; [apply key_inj in E; contradiction|lia]. }
        assert (Hp : rank <= pos (asc b) score (A ++ B)).
        { destruct (Z.eq_dec rank 0); [lia|].
          pose proof (pos_spec (asc b) score (A ++ B) (rank - 1) HsAB ltac:(lia)) as Hps.
          rewrite nthZ_app1 in Hps by lia.
          assert (HinA : In (nthZ (rank - 1) A) A) by (apply nthZ_In; lia).
          apply HAv in HinA. unfold ge_key in HinA. simpl in HinA. lia. }
        change (scores b1) with (A ++ B).
        specialize (Hfin rank (lenZ (A ++ B) - 1) ltac:(lia) ltac:(lia) ltac:(lia)).
        destruct (competitor b1 cid v rank score rank (lenZ (A ++ B) - 1)) as [[b2 evs]|]; tauto.
  - set (n := lenZ (scores b)).
    destruct ((0 <? cap b) && (cap b <=? n) && (cmp (asc b) score (snd (nthZ (n - 1) (scores b))) <=? 0)).
    + split5; auto; try discriminate.
      intros id x E. destruct (Z.eq_dec id cid) as [->|Hne]; [congruence|auto].
    + pose proof (pos_range (asc b) score (scores b)) as Hpr.
      destruct (competitor_spec b cid 0 (-1) score 0 (n - 1)) as (b2 & evs & Ec & HI2 & Ea & Eca & Hfr);
        auto; try (unfold n; lia). { apply inv_inv0; auto. }
      rewrite Ec. split5; auto; discriminate.
Qed.

Lemma do_remove_spec b cid : Inv b ->
  let '(b', o) := do_remove b cid in
  Inv b' /\ asc b' = asc b /\ cap b' = cap b /\ o <> OFuel /\
  (forall id x, mget id (comp b') = Some x -> id <> cid /\ mget id (comp b) = Some x).
Proof.
  intros HI. pose proof HI as [Hu Hs Ha [Hc Hlen]]. unfold do_remove.
  destruct (mget cid (comp b)) as [v|] eqn:Hg.
  - destruct (get_rank_spec b cid v HI Hg) as (rank & Er & Hr & Hnt). rewrite Er.
    pose proof (split_at rank (scores b) Hr) as Esp. rewrite Hnt in Esp.
    pose proof (inv_inv0 b HI) as H0. rewrite Esp in H0.
    apply inv0_remove in H0 as [[Hu1 Hs1 Ha1] Hg1].
    split5; cbn [set_sc scores comp asc cap]; auto; try discriminate.
    + constructor; cbn [set_sc scores comp asc cap]; auto. split; auto.
      unfold remove_at. rewrite Esp in Hlen. rewrite lenZ_app, lenZ_cons in Hlen. rewrite lenZ_app. lia.
    + intros id x E. apply mget_mdel_some in E. auto.
  - split5; auto; try discriminate. intros id x E. split; auto. congruence.
Qed.

Lemma snap_rows_ok b : Inv b -> forall l, incl l (scores b) -> snap_rows b l <> None.
Proof.
  intros HI. induction l as [|[id s] t IH]; intros Hin; cbn [snap_rows]; try discriminate.
  assert (Hg : mget id (comp b) = Some s).
  { destruct HI as [_ _ [_ Hag] _]. apply Hag. apply Hin. left; auto. }
  rewrite Hg. destruct (get_rank_spec b id s HI Hg) as (r & Er & _). rewrite Er.
  destruct (snap_rows b t) eqn:Et; try discriminate.
  exfalso. apply IH; auto. intros x Hx. apply Hin. right; auto.
Qed.

(* what an operation may do to the id -> score map, seen from one id *)
Definition frame_op (o : op) (b b' : board) : Prop :=
  match o with
  | Competitor c s => frame_comp c s b b'
  | Remove c => forall id x, mget id (comp b') = Some x -> id <> c /\ mget id (comp b) = Some x
  | Clear => comp b' = []
  | _ => b' = b
  end.

Lemma step_spec b o : Inv b ->
  Inv (fst (step b o)) /\ asc (fst (step b o)) = asc b /\ cap (fst (step b o)) = cap b /\
  snd (step b o) <> OFuel /\ frame_op o b (fst (step b o)).
Proof.
  intros HI. destruct o; cbn [step fst snd frame_op]; try (split5; auto; discriminate).
  - pose proof (do_competitor_spec b cid score HI) as H. destruct (do_competitor b cid score). exact H.
  - pose proof (do_remove_spec b cid HI) as H. destruct (do_remove b cid). exact H.
  - split5; auto. destruct (mget cid (comp b)) as [v|] eqn:Hg.
    + destruct (get_rank_spec b cid v HI Hg) as (r & Er & _). rewrite Er. discriminate.
    + rewrite get_rank_absent by auto. discriminate.
  - split5; auto. destruct (mget cid (comp b)) as [v|] eqn:Hg.
    + destruct (get_rank_spec b cid v HI Hg) as (r & Er & _). rewrite Er. discriminate.
    + rewrite get_rank_absent by auto. discriminate.
  - split5; auto. destruct (get_competitor b rank); discriminate.
  - split5; auto. unfold get_range.
    destruct ((s <? 1) || (e <? s)); try discriminate. destruct (lenZ (scores b) <? s); discriminate.
  - split5; auto. destruct (mget cid (comp b)); discriminate.
  - split5; auto. destruct (mget cid (comp b)); discriminate.
  - split5; auto; try discriminate. destruct HI as [_ _ _ Hc].
    constructor; cbn [set_sc scores comp asc cap].
    + constructor.
    + constructor.
    + split; [constructor|]. intros; simpl; split; [discriminate|tauto].
    + unfold lenZ; simpl length; lia.
  - split5; auto. destruct (snap_rows b (scores b)); discriminate.
Qed.

Lemma run_app b ops1 ops2 :
  run b (ops1 ++ ops2) =
  let '(b1, o1) := run b ops1 in let '(b2, o2) := run b1 ops2 in (b2, o1 ++ o2).
Proof.
  revert b; induction ops1 as [|o t IH]; intros b; cbn [run app].
  - destruct (run b ops2); reflexivity.
  - destruct (step b o) as [b1 x]. rewrite IH. destruct (run b1 t) as [b2 xs].
    destruct (run b2 ops2). reflexivity.
Qed.

Lemma run_inv ops : forall b, Inv b ->
  Inv (fst (run b ops)) /\ ~ In OFuel (snd (run b ops)) /\
  asc (fst (run b ops)) = asc b /\ cap (fst (run b ops)) = cap b.
Proof.
  induction ops as [|o t IH]; intros b HI; cbn [run].
  - simpl. tauto.
  - pose proof (step_spec b o HI) as (H1 & H2 & H3 & H4 & _).
    destruct (step b o) as [b1 x]. cbn [fst snd] in *.
    specialize (IH b1 H1). destruct (run b1 t) as [b2 xs]. cbn [fst snd] in *.
    destruct IH as (I1 & I2 & I3 & I4). split; [auto|]. split; [|split; congruence].
    intros [E|E]; auto.
Qed.

(* ---------- the theorems ---------- *)

(* C16_rank_inv *)
Theorem rank_inv : forall cnt a ops, Inv (fst (run (new_board cnt a) ops)).
Proof. intros. apply run_inv. apply new_board_inv. Qed.

(* C16_binary_search_terminates *)
Theorem binary_search_terminates : forall cnt a ops, ~ In OFuel (snd (run (new_board cnt a) ops)).
Proof. intros. apply run_inv. apply new_board_inv. Qed.

(* the two searches, on any state satisfying the invariant, with fuel length+1 *)
Theorem searches_within_fuel : forall b cid score, Inv b ->
  get_rank b cid <> RFuel /\
  ins_loop (fuel_of (scores b)) (asc b) (scores b) score 0 (lenZ (scores b) - 1) <> None.
Proof.
  intros b cid score HI. split.
  - destruct (mget cid (comp b)) as [v|] eqn:Hg.
    + destruct (get_rank_spec b cid v HI Hg) as (r & Er & _). rewrite Er. discriminate.
    + rewrite get_rank_absent by auto. discriminate.
  - pose proof (pos_range (asc b) score (scores b)).
    rewrite (ins_loop_spec (asc b) (scores b) score (inv_sorted b HI)); try discriminate; try lia.
    unfold fuel_of, lenZ. lia.
Qed.

(* C16_rank_inverse *)
Theorem rank_inverse : forall b id i, Inv b ->
  (get_rank b id = RFound i <-> get_competitor b i = Some id).
Proof.
  intros b id i HI. unfold get_competitor. split.
  - intros Hr. destruct (mget id (comp b)) as [v|] eqn:Hg.
    + destruct (get_rank_spec b id v HI Hg) as (r & Er & Hr' & Hnt). rewrite Er in Hr. inversion Hr; subst r.
      destruct (Z.ltb_spec i 0); [lia|]. destruct (Z.leb_spec (lenZ (scores b)) i); [lia|].
      cbn [orb]. rewrite Hnt. reflexivity.
    + rewrite get_rank_absent in Hr by auto. discriminate.
  - destruct (Z.ltb_spec i 0); cbn [orb]; try discriminate.
    destruct (Z.leb_spec (lenZ (scores b)) i); try discriminate.
    destruct (nthZ i (scores b)) as [id' s] eqn:Hn. cbn [fst]. intros E. inversion E; subst id'.
    assert (Hin : In (id, s) (scores b)) by (rewrite <- Hn; apply nthZ_In; lia).
    assert (Hg : mget id (comp b) = Some s) by (apply (inv_agree b HI); auto).
    destruct (get_rank_spec b id s HI Hg) as (r & Er & Hr & Hnt). rewrite Er. f_equal.
    apply (uniq_index (scores b)); [apply (inv_uniq b HI) | lia | lia | rewrite Hnt, Hn; auto].
Qed.

(* C16_score_last_submitted *)
Lemma score_last_gen ops cid : forall b acc, Inv b ->
  (forall s, mget cid (comp b) = Some s -> acc = Some s) ->
  forall s, mget cid (comp (fst (run b ops))) = Some s -> last_submitted ops cid acc = Some s.
Proof.
  induction ops as [|o t IH]; intros b acc HI Hacc s; cbn [run].
  - simpl. auto.
  - pose proof (step_spec b o HI) as (H1 & _ & _ & _ & Hfr).
    destruct (step b o) as [b1 x]. cbn [fst snd] in *.
    specialize (IH b1). destruct (run b1 t) as [b2 xs] eqn:Er. cbn [fst] in *.
    intros Hg. destruct o; cbn [last_submitted frame_op] in *;
      try (subst b1; eapply IH; eauto; rewrite Er; auto; fail).
    + (* Competitor *)
      eapply IH; eauto. intros s' Hs'. apply Hfr in Hs' as [[E1 E2]|[Hn Hs']].
      * subst. rewrite Z.eqb_refl. reflexivity.
      * destruct (Z.eqb_spec cid0 cid); [congruence|auto].
    + (* Remove *)
      eapply IH; eauto. intros s' Hs'. apply Hfr in Hs' as [Hn Hs'].
      destruct (Z.eqb_spec cid0 cid); [congruence|auto].
    + (* Clear *)
      eapply IH; eauto. intros s' Hs'. rewrite Hfr in Hs'. discriminate.
Qed.

Theorem score_last_submitted : forall cnt a ops cid s,
  mget cid (comp (fst (run (new_board cnt a) ops))) = Some s -> last_submitted ops cid None = Some s.
Proof.
  intros cnt a ops cid s. apply score_last_gen.
  - apply new_board_inv.
  - cbn [new_board comp]. simpl. discriminate.
Qed.

(* absent ids: every id-based operation leaves the board unchanged and reports "absent" *)
Theorem rank_absent_harmless : forall b cid d, mget cid (comp b) = None ->
  step b (Remove cid) = (b, OEv []) /\
  step b (GetRank cid) = (b, OErr ENotExist) /\
  step b (GetRankDefault cid d) = (b, OInt d) /\
  step b (GetScore cid) = (b, OErr ENotExist) /\
  step b (GetScoreDefault cid d) = (b, OInt d).
Proof.
  intros b cid d Hg. cbn [step]. unfold do_remove. rewrite get_rank_absent by auto. rewrite Hg. auto.
Qed.

(* the invariant spelled out with the model's own Cmp *)
Definition limit_of (cnt : option Z) : Z := match cnt with None => 100 | Some n => Z.max n 1 end.

Theorem rank_inv_explicit : forall cnt a ops,
  let b := fst (run (new_board cnt a) ops) in
  NoDup (map fst (scores b)) /\
  StronglySorted (fun p q => cmp a (snd p) (snd q) >= 0) (scores b) /\
  Z.of_nat (length (scores b)) <= limit_of cnt /\
  (forall id s, mget id (comp b) = Some s <-> In (id, s) (scores b)) /\
  length (comp b) = length (scores b).
Proof.
  intros cnt a ops b.
  pose proof (run_inv ops (new_board cnt a) (new_board_inv cnt a)) as (HI & _ & Ea & Ec).
  fold b in HI, Ea, Ec. destruct HI as [Hu Hs Ha [Hc Hl]]. cbn [new_board asc cap] in Ea, Ec.
  split; [exact Hu|]. split; [|split; [|split]].
  - rewrite Ea in Hs. eapply ss_impl; [|exact Hs]. intros p q H. unfold ge_key in H.
    pose proof (cmp_lt0 a (snd p) (snd q)). lia.
  - unfold lenZ in Hl. rewrite Ec in Hl. unfold limit_of. destruct cnt as [n|]; [destruct (Z.leb_spec n 0)|]; lia.
  - apply Ha.
  - apply agree_length; auto.
Qed.
