(* MV.C16.PagedProofs — the paged slice (page table + index arithmetic) refines a plain list for every
   page size >= 1 and every sequence of calls a plain slice would accept. *)
From MV Require Import Lib.ListX C16.ListAux C16.PagedModel.
From Coq Require Import ZifyBool ZifyNat.
Ltac Zify.zify_post_hook ::= Z.div_mod_to_equations.
Open Scope nat_scope.
Arguments Nat.div : simpl never.
Arguments Nat.modulo : simpl never.
Arguments Nat.sub : simpl never.
Arguments Nat.mul : simpl never.
Arguments Z.of_nat : simpl never.
Arguments Z.to_nat : simpl never.

(* ---------- list helpers ---------- *)
Lemma upd_app1 {A} i (v : A) l1 l2 : i < length l1 -> upd i v (l1 ++ l2) = upd i v l1 ++ l2.
Proof.
  revert i; induction l1 as [|h t IH]; intros [|i] H; simpl in *; try lia; auto. f_equal. apply IH. lia.
Qed.
Lemma upd_app2 {A} i (v : A) l1 l2 : length l1 <= i -> upd i v (l1 ++ l2) = l1 ++ upd (i - length l1) v l2.
Proof.
  revert i; induction l1 as [|h t IH]; intros i H; simpl in *.
  - f_equal. lia.
  - destruct i as [|i]; [lia|]. simpl. f_equal. rewrite IH by lia. f_equal.
Qed.
Lemma upd_overflow {A} i (v : A) l : length l <= i -> upd i v l = l.
Proof. revert i; induction l as [|h t IH]; intros [|i] H; simpl in *; try lia; auto. f_equal. apply IH. lia. Qed.
Lemma nth_firstn' {A} i n (l : list A) d : i < n -> nth i (firstn n l) d = nth i l d.
Proof. revert i n; induction l as [|h t IH]; intros [|i] [|n] H; simpl; try lia; auto. apply IH. lia. Qed.
Lemma removelast_firstn' {A} (l : list A) : removelast l = firstn (length l - 1) l.
Proof.
  induction l as [|h t IH]; auto. destruct t as [|h2 t2]; auto.
  change (removelast (h :: h2 :: t2)) with (h :: removelast (h2 :: t2)). rewrite IH.
  simpl length. replace (S (S (length t2)) - 1) with (S (S (length t2) - 1)) by lia. reflexivity.
Qed.
Lemma last_nth' (l : list Z) : last l 0%Z = nth (length l - 1) l 0%Z.
Proof.
  induction l as [|h t IH]; auto. destruct t as [|h2 t2]; auto.
  change (last (h :: h2 :: t2) 0%Z) with (last (h2 :: t2) 0%Z). rewrite IH. simpl length.
  replace (S (S (length t2)) - 1) with (S (S (length t2) - 1)) by lia. reflexivity.
Qed.
Lemma repeat_app' {A} (x : A) a b : repeat x a ++ repeat x b = repeat x (a + b).
Proof. induction a; simpl; auto. f_equal; auto. Qed.
Lemma concat_repeat_zpage ps k : concat (repeat (zpage ps) k) = repeat 0%Z (k * ps).
Proof.
  induction k as [|k IH]; auto. cbn [repeat concat]. rewrite IH. unfold zpage. rewrite repeat_app'. f_equal; lia.
Qed.
Lemma firstn_app_repeat (l : list Z) a b : a <= b -> firstn (length l + a) (l ++ repeat 0%Z b) = l ++ repeat 0%Z a.
Proof.
  intros H. rewrite firstn_app, firstn_all2 by lia. f_equal.
  replace (length l + a - length l) with a by lia.
  replace b with (a + (b - a)) by lia. rewrite <- repeat_app'. rewrite firstn_app, repeat_length.
  rewrite firstn_all2 by (rewrite repeat_length; lia). replace (a - a) with 0 by lia. simpl. apply app_nil_r.
Qed.

(* ---------- flat view of the page table ---------- *)
Definition pages_ok (ps : nat) (pg : list (list Z)) : Prop := Forall (fun x => length x = ps) pg.

Lemma flat_length ps pg : pages_ok ps pg -> length (concat pg) = length pg * ps.
Proof. induction 1 as [|x t Hx Ht IH]; auto. cbn [concat length]. rewrite app_length, IH, Hx. lia. Qed.

Lemma flat_nth ps pg : pages_ok ps pg -> forall pi ei, ei < ps -> pi < length pg ->
  get_slot pi ei pg = nth (pi * ps + ei) (concat pg) 0%Z.
Proof.
  unfold get_slot. induction 1 as [|x t Hx Ht IH]; intros pi ei He Hp; [simpl in Hp; lia|].
  destruct pi as [|pi]; cbn [nth concat].
  - rewrite app_nth1 by lia. f_equal.
  - rewrite app_nth2 by lia. rewrite IH by (simpl in Hp; lia). f_equal. lia.
Qed.

Lemma flat_upd ps pg v : pages_ok ps pg -> forall pi ei, ei < ps -> pi < length pg ->
  concat (set_slot pi ei v pg) = upd (pi * ps + ei) v (concat pg) /\ pages_ok ps (set_slot pi ei v pg).
Proof.
  unfold set_slot. induction 1 as [|x t Hx Ht IH]; intros pi ei He Hp; [simpl in Hp; lia|].
  destruct pi as [|pi]; cbn [nth upd concat].
  - split.
    + rewrite upd_app1 by lia. f_equal.
    + constructor; auto. rewrite upd_length; auto.
  - destruct (IH pi ei He ltac:(simpl in Hp; lia)) as [E1 E2]. split.
    + rewrite upd_app2 by lia. rewrite E1. f_equal. f_equal. lia.
    + constructor; auto.
Qed.

Lemma length_set_slot pi ei v pg : length (set_slot pi ei v pg) = length pg.
Proof. unfold set_slot. apply upd_length. Qed.

Lemma flat_removelast ps pg : pages_ok ps pg -> pg <> [] ->
  concat (removelast pg) = firstn (length (concat pg) - ps) (concat pg) /\ pages_ok ps (removelast pg).
Proof.
  induction 1 as [|x t Hx Ht IH]; intros Hne; [contradiction|].
  destruct t as [|y t'].
  - cbn [removelast concat]. rewrite app_nil_r, Hx, Nat.sub_diag. split; [reflexivity|constructor].
  - change (removelast (x :: y :: t')) with (x :: removelast (y :: t')).
    destruct (IH ltac:(discriminate)) as [E1 E2]. split; [|constructor; auto].
    assert (Hy : ps <= length (concat (y :: t'))).
    { rewrite (flat_length ps) by auto. simpl length. lia. }
    set (T := y :: t') in *.
    change (concat (x :: removelast T)) with (x ++ concat (removelast T)).
    change (concat (x :: T)) with (x ++ concat T).
    rewrite E1. rewrite firstn_app. rewrite (@firstn_all2 _ _ x) by (rewrite app_length; lia).
    f_equal. f_equal. rewrite !app_length. lia.
Qed.

(* ---------- the refinement relation ---------- *)
Record R (p : paged) (l : list Z) : Prop := {
  r_ps : 0 < psize p;
  r_pg : pages_ok (psize p) (pages p);
  r_len : length l = plen p;
  r_flat : concat (pages p) = l ++ repeat 0%Z (length (pages p) * psize p - plen p);
  r_hi : plen p <= length (pages p) * psize p;
  r_lo : (length (pages p) - 1) * psize p < plen p \/ (plen p = 0 /\ length (pages p) <= 1);
  r_last : plast p = plen p - (length (pages p) - 1) * psize p
}.

Lemma R_contents p l : R p l -> contents p = l.
Proof.
  intros [_ _ Hl Hf _ _ _]. unfold contents. rewrite Hf, <- Hl.
  rewrite firstn_app, firstn_all, Nat.sub_diag. simpl. apply app_nil_r.
Qed.

Lemma R_new ps : 0 < ps -> R (new_paged ps) [].
Proof. intros H. constructor; cbn [new_paged psize pages plen plast length]; auto; try lia. constructor. Qed.

Lemma div_lt_pages ix ps n : 0 < ps -> ix < n * ps -> ix / ps < n.
Proof. intros H1 H2. apply Nat.div_lt_upper_bound; lia. Qed.

Lemma div_mod_eq ix ps : 0 < ps -> ix / ps * ps + ix mod ps = ix.
Proof. intros H. pose proof (Nat.div_mod ix ps ltac:(lia)). lia. Qed.

Lemma mod_lt' ix ps : 0 < ps -> ix mod ps < ps.
Proof. intros; apply Nat.mod_upper_bound; lia. Qed.

(* a store at flat index ix < len *)
Lemma R_store_in p l ix v : R p l -> ix < plen p ->
  R (with_pages p (set_slot (ix / psize p) (ix mod psize p) v (pages p))) (upd ix v l).
Proof.
  intros [Hps Hpg Hl Hf Hhi Hlo Hla] Hix.
  pose proof (div_lt_pages ix (psize p) (length (pages p)) Hps ltac:(lia)) as Hd.
  destruct (flat_upd (psize p) (pages p) v Hpg _ _ (mod_lt' ix _ Hps) Hd) as [E1 E2].
  rewrite div_mod_eq in E1 by auto.
  constructor; cbn [with_pages psize pages plen plast]; rewrite ?length_set_slot; auto.
  - rewrite upd_length; auto.
  - rewrite E1, Hf. apply upd_app1. lia.
Qed.

Lemma R_get p l ix : R p l -> ix < plen p ->
  ix / psize p < length (pages p) /\ get_slot (ix / psize p) (ix mod psize p) (pages p) = nth ix l 0%Z.
Proof.
  intros [Hps Hpg Hl Hf Hhi Hlo Hla] Hix.
  pose proof (div_lt_pages ix (psize p) (length (pages p)) Hps ltac:(lia)) as Hd. split; auto.
  rewrite (flat_nth (psize p)) by (auto using mod_lt'). rewrite div_mod_eq by auto.
  rewrite Hf. apply app_nth1. lia.
Qed.

Lemma nth_map_seq {A} (f : nat -> A) n len d : n < len -> nth n (map f (seq 0 len)) d = f n.
Proof.
  intros H. rewrite nth_indep with (d' := f 0) by (rewrite map_length, seq_length; auto).
  rewrite map_nth, seq_nth by auto. reflexivity.
Qed.

Lemma dump_spec p l : R p l -> dump p = l.
Proof.
  intros HR. unfold dump. pose proof (r_len p l HR) as Hl.
  apply nth_ext with (d := 0%Z) (d' := 0%Z); rewrite map_length, seq_length; [lia|].
  intros n Hn. rewrite nth_map_seq by auto. apply R_get; auto.
Qed.

(* ---------- Add ---------- *)
Lemma R_add_core ps len l v pg :
  0 < ps -> pages_ok ps pg -> length l = len -> 1 <= length pg ->
  concat pg = l ++ repeat 0%Z (length pg * ps - len) ->
  len < length pg * ps -> (length pg - 1) * ps <= len ->
  R {| pages := set_slot (length pg - 1) (len - (length pg - 1) * ps) v pg; psize := ps;
       plen := S len; plast := S (len - (length pg - 1) * ps) |} (l ++ [v]).
Proof.
  intros Hps Hpg Hl HN Hf Hhi Hlo.
  set (N := length pg) in *.
  assert (HNe : (N - 1) * ps + ps = N * ps) by nia.
  destruct (flat_upd ps pg v Hpg (N - 1) (len - (N - 1) * ps) ltac:(lia) ltac:(lia)) as [E1 E2].
  replace ((N - 1) * ps + (len - (N - 1) * ps)) with len in E1 by lia.
  constructor; cbn [pages psize plen plast]; rewrite ?length_set_slot; fold N; auto; try lia.
  - rewrite app_length. simpl. lia.
  - rewrite E1, Hf. rewrite upd_app2 by lia. rewrite Hl, Nat.sub_diag.
    destruct (N * ps - len) as [|k] eqn:Ek; [lia|]. cbn [repeat upd].
    rewrite <- app_assoc. cbn [app]. do 3 f_equal. lia.
Qed.

Lemma pages_ok_snoc ps pg : pages_ok ps pg -> pages_ok ps (pg ++ [zpage ps]).
Proof. intros H. apply Forall_app. split; auto. constructor; [apply repeat_length|constructor]. Qed.

Lemma R_add p l v : R p l -> R (add p v) (l ++ [v]).
Proof.
  destruct p as [pgs ps len lst]. intros [Hps Hpg Hl Hf Hhi Hlo Hla]. unfold add.
  cbn [pages psize plen plast] in *.
  set (N := length pgs) in *.
  assert (Hlast : 0 < N -> length (nth (N - 1) pgs []) = ps).
  { intros HN. unfold pages_ok in Hpg. rewrite Forall_forall in Hpg. apply Hpg. apply nth_In. fold N. lia. }
  assert (HNe : 0 < N -> (N - 1) * ps + ps = N * ps) by nia.
  assert (Hcat : concat (pgs ++ [zpage ps]) = l ++ repeat 0%Z ((N + 1) * ps - len)).
  { rewrite concat_app, Hf. cbn [concat]. rewrite app_nil_r. unfold zpage. rewrite <- app_assoc, repeat_app'.
    do 2 f_equal. nia. }
  assert (HN1 : length (pgs ++ [zpage ps]) = N + 1) by (rewrite app_length; reflexivity).
  destruct (Nat.eqb_spec N 0) as [HN0|HN0]; cbn [orb].
  - assert (Hlen0 : len = 0) by nia.
    pose proof (R_add_core ps len l v (pgs ++ [zpage ps]) Hps (pages_ok_snoc _ _ Hpg) Hl) as H.
    rewrite HN1 in H. replace (N + 1 - 1) with N in H by lia.
    replace (len - N * ps) with 0 in H by nia.
    rewrite HN1. replace (N + 1 - 1) with N by lia. apply H; auto; nia.
  - rewrite Hlast by lia.
    destruct (Nat.eqb_spec lst ps) as [Hfull|Hroom].
    + assert (Hlen : len = N * ps) by lia.
      pose proof (R_add_core ps len l v (pgs ++ [zpage ps]) Hps (pages_ok_snoc _ _ Hpg) Hl) as H.
      rewrite HN1 in H. replace (N + 1 - 1) with N in H by lia.
      replace (len - N * ps) with 0 in H by nia.
    rewrite HN1. replace (N + 1 - 1) with N by lia. apply H; auto; nia.
    + assert (Hlt : len < N * ps) by lia.
      pose proof (R_add_core ps len l v pgs Hps Hpg Hl) as H. fold N in H. rewrite Hla. apply H; auto; lia.
Qed.

(* ---------- Del ---------- *)
Lemma R_del p l i : R p l -> R (del p i) (fst (spec_step l (Del i))).
Proof.
  intros HR. pose proof HR as [Hps Hpg Hl Hf Hhi Hlo Hla]. unfold del, del_core. cbn [spec_step].
  rewrite Hl. destruct ((i <? 0)%Z || (Z.of_nat (plen p) <=? i)%Z) eqn:Hc; cbn [fst]; auto.
  assert (Hix : Z.to_nat i < plen p) by lia.
  set (ix := Z.to_nat i) in *. set (ps := psize p) in *. set (N := length (pages p)) in *.
  set (li := plen p - 1).
  destruct (R_get p l li HR ltac:(lia)) as [_ Hx]. fold ps in Hx. rewrite Hx.
  pose proof (R_store_in p l ix (nth li l 0%Z) HR Hix) as H1. fold ps in H1.
  cbv zeta.
  set (pg1 := set_slot (ix / ps) (ix mod ps) (nth li l 0%Z) (pages p)) in *.
  pose proof (R_store_in _ _ li 0%Z H1 ltac:(cbn [with_pages plen]; lia)) as H2.
  cbn [with_pages psize pages] in H2. fold ps in H2.
  set (pg2 := set_slot (li / ps) (li mod ps) 0%Z pg1) in *.
  set (l1 := upd ix (nth li l 0%Z) l) in *.
  assert (Hl1 : length l1 = plen p) by (unfold l1; rewrite upd_length; auto).
  assert (El2 : upd li 0%Z l1 = removelast l1 ++ [0%Z]).
  { unfold li. rewrite <- Hl1. rewrite upd_last by lia. rewrite removelast_firstn'. reflexivity. }
  assert (Espec : removelast (upd ix (last l 0%Z) l) = removelast l1).
  { unfold l1, li. rewrite last_nth', Hl. reflexivity. }
  rewrite Espec. clear Espec Hx.
  destruct H2 as [_ Hpg2 _ Hf2 _ _ _]. cbn [with_pages psize pages plen plast] in *.
  assert (HN2 : length pg2 = N) by (unfold pg2, pg1; rewrite !length_set_slot; auto).
  rewrite HN2 in *. rewrite El2 in Hf2. rewrite <- app_assoc in Hf2. cbn [app] in Hf2.
  set (l' := removelast l1) in *.
  assert (Hf2' : concat pg2 = l' ++ repeat 0%Z (S (N * ps - plen p))) by (rewrite Hf2; reflexivity).
  clear Hf2. rename Hf2' into Hf2.
  assert (Hl' : length l' = plen p - 1).
  { unfold l'. rewrite removelast_firstn', firstn_length. lia. }
  unfold li in *. clear li. set (n := plen p - 1) in *.
  assert (Hn : plen p = S n) by lia.
  destruct (Nat.eqb_spec (n mod ps) 0) as [Hm|Hm]; cbn [andb].
  - destruct (Nat.ltb_spec 1 N) as [HN|HN].
    + (* drop the last page *)
      assert (Hq : n = n / ps * ps) by (pose proof (div_mod_eq n ps Hps); lia).
      assert (Hq2 : n / ps < N) by (apply div_lt_pages; auto; lia).
      assert (Hn2 : n <= (N - 1) * ps) by nia.
      assert (Hn3 : n = (N - 1) * ps) by nia.
      destruct (flat_removelast ps pg2 Hpg2 ltac:(destruct pg2; [simpl in HN2; lia|discriminate])) as [E1 E2].
      constructor; cbn [pages psize plen plast]; auto.
      * rewrite E1, Hf2. rewrite app_length, repeat_length, Hl'.
        replace (n + S (N * ps - plen p) - ps) with (length l' + 0) by nia.
        rewrite firstn_app_repeat by lia. rewrite removelast_firstn', firstn_length.
        replace (Nat.min (length pg2 - 1) (length pg2)) with (N - 1) by lia.
        f_equal. f_equal. nia.
      * rewrite removelast_firstn', firstn_length. nia.
      * rewrite removelast_firstn', firstn_length. left. nia.
      * rewrite removelast_firstn', firstn_length. nia.
    + (* single page left *)
      assert (HN1 : N = 1) by nia.
      assert (Hn0 : n = 0).
      { assert (n < ps) by nia. pose proof (Nat.mod_small n ps ltac:(lia)). lia. }
      constructor; cbn [pages psize plen plast]; rewrite ?HN2; auto; try lia.
      rewrite Hf2. do 2 f_equal. lia.
  - constructor; cbn [pages psize plen plast]; rewrite ?HN2; auto; try lia.
    + rewrite Hf2. do 2 f_equal. lia.
    + left. destruct Hlo as [Hlo|[Hlo _]]; [|lia].
      destruct (Nat.eq_dec ((N - 1) * ps) n) as [E|E]; [|lia].
      exfalso. apply Hm. rewrite <- E. apply Nat.mod_mul. lia.
    + destruct Hlo as [Hlo|[Hlo _]]; [|lia].
      assert (E : n = (N - 1) * ps + (n - (N - 1) * ps)) by lia.
      rewrite E at 1. rewrite Nat.add_comm, Nat.mod_add by lia. apply Nat.mod_small. nia.
Qed.

(* ---------- Grow ---------- *)
Lemma R_grow p l m : R p l -> R (grow_to p m) (pad_to l m).
Proof.
  destruct p as [pgs ps len lst]. intros [Hps Hpg Hl Hf Hhi Hlo Hla]. unfold grow_to, pad_to.
  cbn [pages psize plen plast] in *. rewrite Hl.
  destruct (Z.leb_spec (Z.of_nat len) m) as [Hm|Hm]; [|constructor; auto].
  set (mx := Z.to_nat m). set (N := length pgs) in *.
  assert (Hmx : len <= mx) by lia.
  assert (Hdm : mx / ps * ps + mx mod ps = mx) by (apply div_mod_eq; auto).
  assert (Hml : mx mod ps < ps) by (apply mod_lt'; auto).
  assert (HN : N <= mx / ps + 1).
  { destruct Hlo as [Hlo|[_ Hlo]]; [|pose proof (Nat.le_0_l (mx / ps)); generalize dependent (mx / ps); intros; lia].
    assert (N - 1 <= mx / ps); [|generalize dependent (mx / ps); intros; lia]. apply Nat.div_le_lower_bound; nia. }
  unfold grow_pages. fold N.
  set (k := mx / ps + 1 - N).
  assert (HN' : length (pgs ++ repeat (zpage ps) k) = mx / ps + 1).
  { rewrite app_length, repeat_length. fold N. lia. }
  constructor; cbn [pages psize plen plast]; rewrite ?HN'; auto; try nia.
  - apply Forall_app. split; auto. apply Forall_forall. intros x Hx. apply repeat_spec in Hx. subst. apply repeat_length.
  - rewrite app_length, repeat_length. lia.
  - rewrite concat_app, concat_repeat_zpage, Hf. rewrite <- !app_assoc, !repeat_app'. do 2 f_equal. nia.
  - replace (mx / ps + 1 - 1) with (mx / ps) by lia. generalize dependent (mx / ps). generalize dependent (mx mod ps).
    intros. lia.
Qed.

(* ---------- stores ---------- *)
Lemma R_store p l i v : R p l -> (0 <= i < Z.of_nat (plen p))%Z ->
  exists p', store p i v = Some p' /\ R p' (upd (Z.to_nat i) v l) /\ plen p' = plen p.
Proof.
  intros HR Hi. unfold store. destruct (Z.ltb_spec i 0); [lia|].
  destruct (R_get p l (Z.to_nat i) HR ltac:(lia)) as [Hd _].
  destruct (Nat.ltb_spec (Z.to_nat i / psize p) (length (pages p))); [|lia].
  eexists. split; [reflexivity|]. split; [apply R_store_in; auto; lia|reflexivity].
Qed.

Lemma R_store_all idx : forall vals p l, R p l -> length idx = length vals ->
  Forall (fun i => 0 <= i < Z.of_nat (plen p))%Z idx ->
  exists p', store_all p idx vals = Some p' /\ R p' (upd_all l idx vals).
Proof.
  induction idx as [|i it IH]; intros [|v vt] p l HR Hlen Hall; cbn [store_all upd_all]; try (simpl in Hlen; lia).
  - eauto.
  - inversion Hall as [|? ? Hi Ht]; subst.
    destruct (R_store p l i v HR Hi) as (p1 & E & HR1 & Hl1). rewrite E.
    apply IH; auto. rewrite Hl1. auto.
Qed.

Lemma max_index_ge idx : forall first, (first <= max_index first idx)%Z /\ Forall (fun i => i <= max_index first idx)%Z idx.
Proof.
  unfold max_index. induction idx as [|x t IH]; intros first; cbn [fold_left].
  - split; [lia|constructor].
  - destruct (IH (Z.max first x)) as [H1 H2]. split; [lia|]. constructor; auto. lia.
Qed.

Lemma plen_grow p m : (Z.of_nat (plen p) <= m)%Z -> plen (grow_to p m) = Z.to_nat m + 1.
Proof. intros H. unfold grow_to. destruct (Z.leb_spec (Z.of_nat (plen p)) m); [reflexivity|lia]. Qed.
Lemma plen_grow_ge p m : plen p <= plen (grow_to p m).
Proof. unfold grow_to. destruct (Z.leb_spec (Z.of_nat (plen p)) m); cbn [plen]; lia. Qed.
Lemma plen_grow_gt p m : (0 <= m)%Z -> (m < Z.of_nat (plen (grow_to p m)))%Z.
Proof. intros H. unfold grow_to. destruct (Z.leb_spec (Z.of_nat (plen p)) m); cbn [plen]; lia. Qed.

(* ---------- one step, whole runs ---------- *)
Lemma step_refines p l o : R p l -> valid_op l o ->
  R (fst (step p o)) (fst (spec_step l o)) /\ snd (step p o) = snd (spec_step l o).
Proof.
  intros HR Hv. pose proof (r_len p l HR) as Hl. destruct o; cbn [step spec_step valid_op] in *.
  - split; auto. apply R_add; auto.
  - split; [apply (R_del p l i HR)|]. destruct ((i <? 0)%Z || (Z.of_nat (length l) <=? i)%Z); reflexivity.
  - split; auto. unfold get. destruct (Z.ltb_spec i 0); [lia|].
    destruct (R_get p l (Z.to_nat i) HR ltac:(lia)) as [Hd Hg].
    destruct (Nat.ltb_spec (Z.to_nat i / psize p) (length (pages p))); [|lia]. rewrite Hg. reflexivity.
  - destruct (Z.ltb_spec i 0); cbn [orb]; auto.
    destruct (Z.leb_spec (Z.of_nat (plen p)) i).
    + cbn [fst snd]. rewrite upd_overflow by lia. auto.
    + destruct (R_store p l i v HR ltac:(lia)) as (p1 & E & HR1 & _). rewrite E. auto.
  - rewrite Hl. auto.
  - destruct idx as [|i0 t]; auto. split; auto. apply R_grow; auto.
  - pose proof (R_grow p l i HR) as HR1.
    destruct (R_store _ _ i v HR1 ltac:(split; [lia|apply plen_grow_gt; lia])) as (p1 & E & HR2 & _).
    rewrite E. auto.
  - destruct Hv as [Hlen Hnn]. rewrite Hlen, Nat.eqb_refl. cbn [negb].
    destruct idx as [|i0 t]; auto.
    pose proof (R_grow p l (max_index i0 (i0 :: t)) HR) as HR1.
    destruct (max_index_ge (i0 :: t) i0) as [_ Hmax].
    destruct (R_store_all (i0 :: t) vals _ _ HR1 Hlen) as (p1 & E & HR2).
    { rewrite Forall_forall in *. intros x Hx. specialize (Hmax x Hx). specialize (Hnn x Hx).
      pose proof (plen_grow_gt p (max_index i0 (i0 :: t)) ltac:(lia)). lia. }
    rewrite E. auto.
  - destruct Hv as [Hlen Hin]. rewrite Hlen, Nat.eqb_refl. cbn [negb].
    destruct (R_store_all idx vals p l HR Hlen) as (p1 & E & HR2).
    { rewrite <- Hl. auto. }
    rewrite E. auto.
  - split; auto. cbn [fst snd]. rewrite (dump_spec p l HR). reflexivity.
Qed.

Lemma run_refines ops : forall p l, R p l -> valid_run l ops ->
  snd (run p ops) = snd (spec_run l ops) /\ R (fst (run p ops)) (fst (spec_run l ops)).
Proof.
  induction ops as [|o t IH]; intros p l HR Hv; cbn [run spec_run valid_run] in *; auto.
  destruct Hv as [Hv Hvt]. destruct (step_refines p l o HR Hv) as [H1 H2].
  destruct (step p o) as [p1 x], (spec_step l o) as [l1 y]. cbn [fst snd] in *.
  destruct (IH p1 l1 H1 Hvt) as [E1 E2]. destruct (run p1 t), (spec_run l1 t). cbn [fst snd] in *.
  split; auto. congruence.
Qed.

(* C16_paged_refines_slice *)
Theorem paged_refines_slice : forall ps ops, 0 < ps -> valid_run [] ops ->
  snd (run (new_paged ps) ops) = snd (spec_run [] ops) /\
  contents (fst (run (new_paged ps) ops)) = fst (spec_run [] ops).
Proof.
  intros ps ops Hps Hv. destruct (run_refines ops (new_paged ps) [] (R_new ps Hps) Hv) as [H1 H2].
  split; auto. apply R_contents; auto.
Qed.

(* absent (out-of-range) indices: Del and Set are harmless, for every state *)
Theorem paged_absent_harmless : forall p i v,
  (i < 0 \/ Z.of_nat (plen p) <= i)%Z -> step p (Del i) = (p, OUnit) /\ step p (Set_ i v) = (p, OUnit).
Proof.
  intros p i v H. cbn [step]. unfold del, del_core.
  assert (E : (i <? 0)%Z || (Z.of_nat (plen p) <=? i)%Z = true) by lia. rewrite E. auto.
Qed.
