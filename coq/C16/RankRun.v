(* MV.C16.RankRun — evaluation of recorded runs of ranking.BinarySearch against the model (tie T1). *)
From MV Require Import Lib.ListX C16.MapX C16.RankModel.
Open Scope Z_scope.

Definition ev_eqb (a b : ev) : bool :=
  let '(a1, a2, a3, a4, a5) := a in let '(b1, b2, b3, b4, b5) := b in
  (a1 =? b1) && (a2 =? b2) && (a3 =? b3) && (a4 =? b4) && (a5 =? b5).

Definition err_eqb (a b : err) : bool :=
  match a, b with ENotExist, ENotExist | EIndex, EIndex | ENoRank, ENoRank => true | _, _ => false end.

Definition out_eqb (a b : out) : bool :=
  match a, b with
  | OUnit, OUnit => true
  | OEv x, OEv y => list_eqb ev_eqb x y
  | OInt x, OInt y => x =? y
  | OErr x, OErr y => err_eqb x y
  | OList x, OList y => list_eqb Z.eqb x y
  | OSnap n x, OSnap m y =>
      (n =? m) && list_eqb (fun p q => let '(a1, a2, a3) := p in let '(b1, b2, b3) := q in
                                        (a1 =? b1) && (a2 =? b2) && (a3 =? b3)) x y
  | _, _ => false            (* OFuel and OBad never match *)
  end.

Record case := { cid : nat; ccnt : option Z; casc : bool; cops : list op; cimpl : list out }.

Definition model_outs (c : case) : list out := snd (run (new_board (ccnt c) (casc c)) (cops c)).
Definition case_ok (c : case) : bool := list_eqb out_eqb (model_outs c) (cimpl c).
Definition mismatches (cs : list case) : list nat := fail_ids case_ok cid cs.
