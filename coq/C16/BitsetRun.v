(* MV.C16.BitsetRun — evaluation of recorded runs of toolkit.DynamicBitSet against the model (tie T1). *)
From MV Require Import Lib.ListX C16.BitsetModel.
Open Scope N_scope.

Definition out_eqb (a b : out) : bool :=
  match a, b with
  | OUnit, OUnit => true
  | OBool x, OBool y => Bool.eqb x y
  | OList x, OList y => list_eqb N.eqb x y
  | _, _ => false
  end.

Record case := { cid : nat; cza : bool; czb : bool; cops : list op; cimpl : list out }.
Definition model_outs (c : case) : list out := snd (run (init (cza c) (czb c)) (cops c)).
Definition case_ok (c : case) : bool := list_eqb out_eqb (model_outs c) (cimpl c).
Definition mismatches (cs : list case) : list nat := fail_ids case_ok cid cs.
