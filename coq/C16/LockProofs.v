(* MV.C16.LockProofs — consequences of the lock discipline, for any number of threads running any
   sequences of well-locked method paths: mutual exclusion of critical sections, guarded accesses are
   race free (write sections are atomic blocks; read sections overlap only reads), and no deadlock. *)
From MV Require Import Lib.ListX Lib.Sched C16.LockModel.
From Coq Require Import String.
Open Scope Z_scope.
Arguments Z.add : simpl never.
Arguments Z.sub : simpl never.

(* ---------- static part: paths, flattening, sequencing ---------- *)
Lemma fwl_app p1 : forall h p2, fwl h p1 = true -> fwl None p2 = true -> fwl h (p1 ++ p2) = true.
Proof.
  induction p1 as [|e t IH]; intros h p2 H1 H2; cbn [fwl app] in *.
  - destruct h; [discriminate|auto].
  - destruct (step1 h e); [|discriminate]. auto.
Qed.

Lemma wlr_flatten p : forall h ds, wlr h ds p = true -> fwl h (flatten ds p) = true.
Proof.
  induction p as [|e t IH]; intros h ds H; cbn [wlr flatten] in *; auto.
  destruct e; cbn [fwl]; try (destruct (step1 h _); [auto|discriminate]); auto.
  destruct h; [discriminate|auto].
Qed.

Lemma program_fwl paths : (forall p, In p paths -> path_ok p = true) -> fwl None (program paths) = true.
Proof.
  unfold program. induction paths as [|p t IH]; intros H; cbn [map List.concat]; auto.
  apply fwl_app.
  - apply wlr_flatten. apply H. left; auto.
  - apply IH. intros q Hq. apply H. right; auto.
Qed.

Lemma well_locked_paths ms : forallb well_locked ms = true -> forall p, In p (all_paths ms) -> path_ok p = true.
Proof.
  intros H p Hp. unfold all_paths in Hp. apply in_concat in Hp as (l & Hl & Hp).
  apply in_map_iff in Hl as (m & <- & Hm). rewrite forallb_forall in H. specialize (H m Hm).
  unfold well_locked in H. rewrite forallb_forall in H. auto.
Qed.

(* ---------- dynamic part ---------- *)
Definition hwh (o : string) (h : lheld) : Z :=
  match h with Some (o', MW) => if String.eqb o o' then 1 else 0 | _ => 0 end.
Definition hrh (o : string) (h : lheld) : Z :=
  match h with Some (o', MR) => if String.eqb o o' then 1 else 0 | _ => 0 end.
Definition hw (o : string) (l : lheld * list ev) : Z := hwh o (fst l).
Definition hr (o : string) (l : lheld * list ev) : Z := hrh o (fst l).

Lemma hw_nonneg o l : 0 <= hw o l.
Proof. unfold hw, hwh. destruct (fst l) as [[o' [|]]|]; try lia. destruct (String.eqb o o'); lia. Qed.
Lemma hr_nonneg o l : 0 <= hr o l.
Proof. unfold hr, hrh. destruct (fst l) as [[o' [|]]|]; try lia. destruct (String.eqb o o'); lia. Qed.

Definition live_ok (l : lheld * list ev) : Prop := fwl (fst l) (snd l) = true /\ snd l <> [].

Record GInv (st : state LM) : Prop := {
  g_w : forall o, fst (fst st o) = @total LM (hw o) (snd st);
  g_r : forall o, snd (fst st o) = @total LM (hr o) (snd st);
  g_x : forall o, fst (fst st o) = 0 \/ (fst (fst st o) = 1 /\ snd (fst st o) = 0);
  g_live : all_live (M := LM) live_ok (snd st)
}.

Lemma total_none (f : lheld * list ev -> Z) (p : pool LM) :
  all_live (M := LM) (fun l => f l = 0) p -> @total LM f p = 0.
Proof.
  induction p as [|[l|] t IH]; intros H; cbn [total]; auto.
  - rewrite (H O l eq_refl). rewrite IH; [lia|]. intros i x Hx. apply (H (S i) x Hx).
  - apply IH. intros i x Hx. apply (H (S i) x Hx).
Qed.

Lemma init_ginv threads :
  (forall paths, In paths threads -> forall p, In p paths -> path_ok p = true) -> GInv (init_state threads).
Proof.
  intros H. unfold init_state.
  assert (Hl : all_live (M := LM) (fun l => fst l = None /\ live_ok l) (map thread_of threads)).
  { intros i l Hn. apply nth_error_In in Hn. apply in_map_iff in Hn as (paths & E & Hin).
    unfold thread_of in E. destruct (program paths) as [|e t] eqn:Ep; [discriminate|]. inversion E; subst.
    split; auto. split; cbn [fst snd]; [|discriminate]. rewrite <- Ep. apply program_fwl. apply H; auto. }
  constructor; cbn [fst snd free_table].
  - intros o. symmetry. apply total_none. intros i l Hn. destruct (Hl i l Hn) as [E _]. unfold hw. rewrite E. reflexivity.
  - intros o. symmetry. apply total_none. intros i l Hn. destruct (Hl i l Hn) as [E _]. unfold hr. rewrite E. reflexivity.
  - auto.
  - intros i l Hn. apply (Hl i l Hn).
Qed.

Lemma nth_error_upd_same {A} i (x : A) l : (i < List.length l)%nat -> nth_error (upd i x l) i = Some x.
Proof. revert i; induction l as [|h t IH]; intros [|i] H; simpl in *; try lia; auto. apply IH; lia. Qed.
Lemma nth_error_upd_other {A} i j (x : A) l : i <> j -> nth_error (upd i x l) j = nth_error l j.
Proof. revert i j; induction l as [|h t IH]; intros [|i] [|j] H; simpl in *; try lia; auto. Qed.

Lemma fo_cont (f : lheld -> Z) h' t : (t = [] -> f h' = 0) ->
  fo (M := LM) (fun l => f (fst l)) (cont h' t) = f h'.
Proof. intros H. unfold cont. destruct t; cbn [fo fst]; auto. symmetry; auto. Qed.

Lemma set_tab_same s o v : set_tab s o v o = v.
Proof. unfold set_tab. rewrite String.eqb_refl. reflexivity. Qed.
Lemma set_tab_other s o v x : x <> o -> set_tab s o v x = s x.
Proof. intros H. unfold set_tab. destruct (String.eqb_spec x o); [contradiction|reflexivity]. Qed.

Lemma ghost_step1 h e h1 : step1 h e = Some h1 -> ghost h e = h1.
Proof.
  destruct e, h as [[o' [|]]|]; cbn [step1 ghost]; intros H; try discriminate; try (inversion H; auto; fail).
  - destruct (String.eqb o o'); inversion H; auto.
  - destruct (String.eqb o o'); inversion H; auto.
  - destruct (String.eqb o o' && _); inversion H; auto.
  - destruct (String.eqb o o' && _); inversion H; auto.
Qed.

Lemma hwh_other x o m : x <> o -> hwh x (Some (o, m)) = 0.
Proof. intros H. unfold hwh. destruct m; auto. destruct (String.eqb_spec x o); [contradiction|auto]. Qed.
Lemma hrh_other x o m : x <> o -> hrh x (Some (o, m)) = 0.
Proof. intros H. unfold hrh. destruct m; auto. destruct (String.eqb_spec x o); [contradiction|auto]. Qed.
Lemma hwh_W o : hwh o (Some (o, MW)) = 1.
Proof. unfold hwh. rewrite String.eqb_refl. reflexivity. Qed.
Lemma hrh_R o : hrh o (Some (o, MR)) = 1.
Proof. unfold hrh. rewrite String.eqb_refl. reflexivity. Qed.

(* effect of one machine step on the lock table, in terms of what the thread held before and after,
   together with the enabling condition of the two blocking operations *)
Ltac tab_solve x o Eo :=
  destruct (String.eqb_spec x o) as [->|?]; rewrite ?set_tab_same, ?set_tab_other by auto;
  rewrite ?hwh_W, ?hrh_R, ?Eo; rewrite ?hwh_other, ?hrh_other by auto; cbn [fst snd hwh hrh]; lia.

Lemma table_effect s h e t s' c sp e' h1 :
  lstep s (h, e :: t) tt = Some (s', c, sp, e') -> step1 h e = Some h1 ->
  c = cont h1 t /\ sp = [] /\
  (forall x, fst (s' x) = fst (s x) + hwh x h1 - hwh x h /\ snd (s' x) = snd (s x) + hrh x h1 - hrh x h) /\
  (forall o, e = Lock o -> s o = (0, 0)) /\ (forall o, e = RLock o -> fst (s o) = 0).
Proof.
  intros Hl H1. pose proof (ghost_step1 h e h1 H1) as Hg. cbn [lstep] in Hl. rewrite Hg in Hl.
  destruct e; cbn [step1] in H1; try discriminate.
  - destruct h; [discriminate|]. inversion H1; subst h1. destruct (s o) as [w r] eqn:Eo.
    destruct (Z.eqb_spec w 0); [|discriminate]. destruct (Z.eqb_spec r 0); [|discriminate]. cbn [andb] in Hl.
    inversion Hl; subst.
    split; [reflexivity|]. split; [reflexivity|]. split; [intros x; split; tab_solve x o Eo|].
    split; intros o' E; inversion E; subst; auto.
  - destruct h; [discriminate|]. inversion H1; subst h1. destruct (s o) as [w r] eqn:Eo.
    destruct (Z.eqb_spec w 0); [|discriminate].
    inversion Hl; subst.
    split; [reflexivity|]. split; [reflexivity|]. split; [intros x; split; tab_solve x o Eo|].
    split; intros o' E; inversion E; subst; rewrite ?Eo; auto.
  - destruct h as [[o' [|]]|]; try discriminate. destruct (String.eqb_spec o o') as [<-|]; [|discriminate].
    inversion H1; subst h1. destruct (s o) as [w r] eqn:Eo.
    inversion Hl; subst.
    split; [reflexivity|]. split; [reflexivity|]. split; [intros x; split; tab_solve x o Eo|].
    split; intros o' E; inversion E.
  - destruct h as [[o' [|]]|]; try discriminate. destruct (String.eqb_spec o o') as [<-|]; [|discriminate].
    inversion H1; subst h1. destruct (s o) as [w r] eqn:Eo.
    inversion Hl; subst.
    split; [reflexivity|]. split; [reflexivity|]. split; [intros x; split; tab_solve x o Eo|].
    split; intros o' E; inversion E.
  - destruct h as [[o' m]|]; [|discriminate]. destruct (String.eqb o o' && _); [|discriminate].
    inversion H1; subst h1. inversion Hl; subst.
    split; [reflexivity|]. split; [reflexivity|]. split; [intros x; split; lia|].
    split; intros o'' E; inversion E.
Qed.

Lemma step_shape (st st' : state LM) i e :
  gstep st i tt = Some (st', e) ->
  exists h e0 t s' c sp, nth_error (snd st) i = Some (Some (h, e0 :: t)) /\
    lstep (fst st) (h, e0 :: t) tt = Some (s', c, sp, e) /\ st' = (s', upd i c (snd st) ++ map Some sp).
Proof.
  unfold gstep. destruct (nth_error (snd st) i) as [[[h p]|]|] eqn:En; try discriminate.
  cbn [tstep LM]. destruct p as [|e0 t]; [cbn [lstep]; discriminate|].
  destruct (lstep (fst st) (h, e0 :: t) tt) as [[[[s' c] sp] e']|] eqn:El; [|discriminate].
  intros H. inversion H; subst. exists h, e0, t, s', c, sp. auto.
Qed.

Lemma ginv_step st i st' e : GInv st -> gstep st i tt = Some (st', e) -> GInv st'.
Proof.
  intros [Gw Gr Gx Gl] Hs.
  destruct (step_shape st st' i e Hs) as (h & e0 & t & s' & c & sp & Hn & Hl & ->).
  destruct (Gl i _ Hn) as [Hf _]. cbn [fst snd fwl] in Hf.
  destruct (step1 h e0) as [h1|] eqn:E1; [|discriminate].
  destruct (table_effect _ _ _ _ _ _ _ _ _ Hl E1) as (-> & -> & Heff & Hlock & Hrlock).
  assert (Hnil : t = [] -> h1 = None) by (intros ->; cbn [fwl] in Hf; destruct h1; [discriminate|auto]).
  cbn [map]. rewrite app_nil_r.
  pose proof (fun x l => total_ge_nth LM (hw x) (snd st) i l (hw_nonneg x)) as Tw.
  pose proof (fun x l => total_ge_nth LM (hr x) (snd st) i l (hr_nonneg x)) as Tr.
  assert (Tot : forall x, @total LM (hw x) (upd i (cont h1 t) (snd st)) = @total LM (hw x) (snd st) - hwh x h + hwh x h1 /\
                         @total LM (hr x) (upd i (cont h1 t) (snd st)) = @total LM (hr x) (snd st) - hrh x h + hrh x h1).
  { intros x. rewrite !(total_upd LM _ _ _ _ _ Hn). unfold hw at 2 3, hr at 2 3. cbn [fst].
    rewrite (fo_cont (hwh x)), (fo_cont (hrh x)); [lia| |]; intros Ht; rewrite (Hnil Ht); reflexivity. }
  constructor; cbn [fst snd].
  - intros x. destruct (Heff x) as [E _]. destruct (Tot x) as [T _]. rewrite E, T, Gw. lia.
  - intros x. destruct (Heff x) as [_ E]. destruct (Tot x) as [_ T]. rewrite E, T, Gr. lia.
  - intros x. destruct (Heff x) as [Ew Er]. rewrite Ew, Er.
    specialize (Tw x (h, e0 :: t) Hn). specialize (Tr x (h, e0 :: t) Hn). change (hw x (h, e0 :: t)) with (hwh x h) in Tw. change (hr x (h, e0 :: t)) with (hrh x h) in Tr.
    rewrite <- Gw in Tw. rewrite <- Gr in Tr. specialize (Gx x).
    destruct e0; cbn [step1] in E1.
    + destruct h; [discriminate|]. inversion E1; subst h1. specialize (Hlock o eq_refl).
      destruct (String.eqb_spec x o) as [->|Hx].
      * rewrite Hlock, hwh_W. cbn [fst snd hwh hrh]. lia.
      * rewrite hwh_other by auto. cbn [hwh hrh]. lia.
    + destruct h; [discriminate|]. inversion E1; subst h1. specialize (Hrlock o eq_refl).
      destruct (String.eqb_spec x o) as [->|Hx].
      * rewrite Hrlock, hrh_R. cbn [hwh hrh]. lia.
      * rewrite hrh_other by auto. cbn [hwh hrh]. lia.
    + destruct h as [[o' [|]]|]; try discriminate. destruct (String.eqb_spec o o') as [<-|]; [|discriminate].
      inversion E1; subst h1. destruct (String.eqb_spec x o) as [->|Hx].
      * rewrite hwh_W in *. cbn [hwh hrh] in *. lia.
      * rewrite hwh_other in * by auto. cbn [hwh hrh] in *. lia.
    + destruct h as [[o' [|]]|]; try discriminate. destruct (String.eqb_spec o o') as [<-|]; [|discriminate].
      inversion E1; subst h1. destruct (String.eqb_spec x o) as [->|Hx].
      * rewrite hrh_R in *. cbn [hwh hrh] in *. lia.
      * rewrite hrh_other in * by auto. cbn [hwh hrh] in *. lia.
    + discriminate.
    + discriminate.
    + destruct h as [[o' m]|]; [|discriminate]. destruct (String.eqb o o' && _); [|discriminate].
      inversion E1; subst h1. lia.
    + discriminate.
  - intros j l Hj. destruct (Nat.eq_dec i j) as [<-|Hij].
    + rewrite nth_error_upd_same in Hj by (apply nth_error_Some; congruence).
      unfold cont in Hj. destruct t as [|e1 t1]; [discriminate|]. inversion Hj; subst l.
      split; cbn [fst snd]; [exact Hf|discriminate].
    + rewrite nth_error_upd_other in Hj by auto. apply (Gl j l Hj).
Qed.

Theorem ginv_reach threads st :
  (forall paths, In paths threads -> forall p, In p paths -> path_ok p = true) ->
  reach (init_state threads) st -> GInv st.
Proof.
  intros H Hr. apply (inv_reach LM (init_state threads) GInv); auto.
  - apply init_ginv; auto.
  - intros s i [] s' e. apply ginv_step.
Qed.

(* ---------- consequences ---------- *)
Lemma total_two (f : lheld * list ev -> Z) (p : pool LM) : (forall l, 0 <= f l) ->
  forall i j li lj, i <> j -> nth_error p i = Some (Some li) -> nth_error p j = Some (Some lj) ->
  f li + f lj <= @total LM f p.
Proof.
  intros Hf. induction p as [|x t IH]; intros [|i] [|j] li lj Hij Hi Hj; cbn [nth_error total] in *;
    try discriminate; try lia.
  - inversion Hi; subst. pose proof (total_ge_nth LM f t j lj Hf Hj). lia.
  - inversion Hj; subst. pose proof (total_ge_nth LM f t i li Hf Hi). lia.
  - specialize (IH i j li lj ltac:(lia) Hi Hj). destruct x as [l|]; [specialize (Hf l)|]; lia.
Qed.

(* mutual exclusion: a writer excludes every other holder of the same lock *)
Theorem mutual_exclusion st i j li lj o m : GInv st -> i <> j ->
  nth_error (snd st) i = Some (Some li) -> nth_error (snd st) j = Some (Some lj) ->
  fst li = Some (o, MW) -> fst lj = Some (o, m) -> False.
Proof.
  intros [Gw Gr Gx _] Hij Hi Hj Ei Ej. specialize (Gw o). specialize (Gr o). specialize (Gx o).
  destruct m.
  - pose proof (total_ge_nth LM (hw o) (snd st) i li (hw_nonneg o) Hi) as H1.
    pose proof (total_ge_nth LM (hr o) (snd st) j lj (hr_nonneg o) Hj) as H2.
    change (hw o li) with (hwh o (fst li)) in H1. change (hr o lj) with (hrh o (fst lj)) in H2.
    rewrite Ei, hwh_W in H1. rewrite Ej, hrh_R in H2. lia.
  - pose proof (total_two (hw o) (snd st) (hw_nonneg o) i j li lj Hij Hi Hj) as H.
    change (hw o li) with (hwh o (fst li)) in H. change (hw o lj) with (hwh o (fst lj)) in H.
    rewrite Ei, Ej, !hwh_W in H. lia.
Qed.

(* a thread about to touch a guarded field holds that object's lock in a sufficient mode *)
Theorem access_is_guarded st j h o f w t : GInv st ->
  nth_error (snd st) j = Some (Some (h, Acc o f w :: t)) ->
  exists m, h = Some (o, m) /\ (w = true -> m = MW).
Proof.
  intros [_ _ _ Gl] Hj. destruct (Gl j _ Hj) as [Hf _]. cbn [fst snd fwl step1] in Hf.
  destruct h as [[o' m]|]; [|discriminate].
  destruct (String.eqb_spec o o') as [<-|]; [|discriminate]. cbn [andb] in Hf.
  exists m. split; auto. intros ->. destruct m; [discriminate|reflexivity].
Qed.

(* write critical sections are atomic blocks: while thread i holds o's lock for writing, no other thread
   can be at an access to a guarded field of o; and nobody else holds o's lock at all while a thread is at a
   write access (data-race freedom of the guarded fields) *)
Theorem critical_sections_atomic st i j li h o f w t m : GInv st -> i <> j ->
  nth_error (snd st) i = Some (Some li) ->
  nth_error (snd st) j = Some (Some (h, Acc o f w :: t)) ->
  fst li = Some (o, m) -> m = MR /\ w = false.
Proof.
  intros HG Hij Hi Hj Ei.
  destruct (access_is_guarded st j h o f w t HG Hj) as (mj & -> & Hw).
  destruct m.
  - split; auto. destruct w; auto. specialize (Hw eq_refl). subst mj. exfalso.
    eapply (mutual_exclusion st j i _ li o MR HG); eauto.
  - exfalso. eapply (mutual_exclusion st i j li _ o mj HG); eauto.
Qed.

Lemma pool_cases (p : pool LM) :
  (exists i h pr o m, nth_error p i = Some (Some (h, pr)) /\ h = Some (o, m)) \/
  (forall i l, nth_error p i = Some (Some l) -> fst l = None).
Proof.
  induction p as [|x t IH].
  - right. intros [|i] l H; discriminate.
  - destruct x as [[[[o m]|] pr]|].
    + left. exists O, (Some (o, m)), pr, o, m. auto.
    + destruct IH as [(i & h & pr' & o & m & H1 & H2)|IH].
      * left. exists (S i), h, pr', o, m. auto.
      * right. intros [|i] l H; cbn [nth_error] in H; [inversion H; auto|eauto].
    + destruct IH as [(i & h & pr' & o & m & H1 & H2)|IH].
      * left. exists (S i), h, pr', o, m. auto.
      * right. intros [|i] l H; cbn [nth_error] in H; [discriminate|eauto].
Qed.

(* no deadlock: as long as some thread is unfinished, some thread can take a step *)
Theorem no_deadlock st : GInv st ->
  (exists i l, nth_error (snd st) i = Some (Some l)) -> exists i st' e, gstep st i tt = Some (st', e).
Proof.
  intros [Gw Gr Gx Gl] (i0 & l0 & H0).
  destruct (pool_cases (snd st)) as [(i & h & pr & o & m & Hi & ->)|Hnone].
  - (* a lock holder is never blocked *)
    destruct (Gl i _ Hi) as [Hf Hne]. cbn [fst snd] in *. destruct pr as [|e t]; [contradiction|].
    cbn [fwl] in Hf. destruct (step1 (Some (o, m)) e) eqn:E1; [|discriminate].
    exists i. unfold gstep. rewrite Hi. cbn [tstep LM lstep].
    destruct e; cbn [step1] in E1; try discriminate; try (destruct (fst st o0)); eauto.
  - (* nobody holds anything: every lock is free *)
    assert (Hfree : forall o, fst st o = (0, 0)).
    { intros o. specialize (Gw o). specialize (Gr o).
      rewrite (total_none (hw o)) in Gw by (intros i l Hn; unfold hw; rewrite (Hnone i l Hn); reflexivity).
      rewrite (total_none (hr o)) in Gr by (intros i l Hn; unfold hr; rewrite (Hnone i l Hn); reflexivity).
      destruct (fst st o); cbn [fst snd] in *; congruence. }
    destruct l0 as [h pr]. pose proof (Hnone i0 _ H0) as Eh. cbn [fst] in Eh. subst h.
    destruct (Gl i0 _ H0) as [Hf Hne]. cbn [fst snd] in *. destruct pr as [|e t]; [contradiction|].
    cbn [fwl] in Hf. destruct (step1 None e) eqn:E1; [|discriminate].
    exists i0. unfold gstep. rewrite H0. cbn [tstep LM lstep].
    destruct e; cbn [step1] in E1; try discriminate; rewrite Hfree; cbn; eauto.
Qed.

(* C16_sync_linearizable (generic part): everything above, for every reachable state of every pool of
   threads that run sequences of well-locked method paths *)
Theorem well_locked_threads_safe : forall (ms : list method) (threads : list (list (list ev))) (st : state LM),
  forallb well_locked ms = true ->
  (forall paths, In paths threads -> forall p, In p paths -> In p (all_paths ms)) ->
  reach (init_state threads) st ->
  (* 1. a writer excludes every other holder *)
  (forall i j li lj o m, i <> j -> nth_error (snd st) i = Some (Some li) -> nth_error (snd st) j = Some (Some lj) ->
     fst li = Some (o, MW) -> fst lj = Some (o, m) -> False) /\
  (* 2. accesses to guarded fields happen inside a critical section of the right mode, and while another
        thread is at such an access, a holder of the same lock is a reader and the access is a read *)
  (forall j h o f w t, nth_error (snd st) j = Some (Some (h, Acc o f w :: t)) ->
     (exists m, h = Some (o, m) /\ (w = true -> m = MW)) /\
     (forall i li m, i <> j -> nth_error (snd st) i = Some (Some li) -> fst li = Some (o, m) -> m = MR /\ w = false)) /\
  (* 3. no deadlock *)
  ((exists i l, nth_error (snd st) i = Some (Some l)) -> exists i st' e, gstep st i tt = Some (st', e)).
Proof.
  intros ms threads st Hwl Hin Hr.
  assert (HG : GInv st).
  { eapply ginv_reach; eauto. intros paths Hp p Hpp. eapply well_locked_paths; eauto. }
  split; [|split].
  - intros. eapply mutual_exclusion; eauto.
  - intros j h o f w t Hj. split; [eapply access_is_guarded; eauto|].
    intros i li m Hij Hi Ei. eapply critical_sections_atomic; eauto.
  - apply no_deadlock; auto.
Qed.
