(* MV.C16.PrioModel — executable model of listings.PrioritySlice / SyncPrioritySlice ([]*priorityItem with a
   re-sort after every priority change).  An item is (value, priority); lower priority first.
   Go's sort.Slice is not stable, so the order among equal priorities is not determined by the history.
   The model sorts with a stable insertion sort and the comparison with the implementation is made
   STEP BY STEP from the implementation's own observed state (PrioRun.v): the state the code produced must
   have the same priority sequence and the same multiset of items as [step observed_state op].
   Index panics (a plain slice would panic too) are the output OPanic and leave the state unchanged.
   No proofs here. *)
From MV Require Import Lib.ListX.
Open Scope Z_scope.

Definition item := (Z * Z)%type.      (* (value, priority) *)

Fixpoint ins (x : item) (l : list item) : list item :=
  match l with
  | [] => [x]
  | y :: t => if snd y <=? snd x then y :: ins x t else x :: l
  end.
Definition psort (l : list item) : list item := fold_left (fun acc x => ins x acc) l [].

Inductive op :=
| Append (v p : Z) | Appends (p : Z) (vs : list Z) | AppendOpt (v : Z) (p : option Z)
| Get (i : Z) | GetValue (i : Z) | GetPriority (i : Z)
| Set_ (i v p : Z) | SetValue (i v : Z) | SetPriority (i p : Z)
| Len | Clear | Slice | RangeStop (n : nat)      (* RangeValue stopped at the n-th call (0 = never) *)
| ActDropFirst | ActReverse | ActNil.             (* Action(func): items[1:], a reversed copy, nil *)

Inductive out :=
| OUnit | OPair (v p : Z) | OVal (v : Z) | OLen (n : nat) | OList (l : list Z) | OPanic | OBad.

Definition in_range (l : list item) (i : Z) : bool := (0 <=? i) && (i <? Z.of_nat (length l)).
Definition at_ (l : list item) (i : Z) : item := nth (Z.to_nat i) l (0, 0).

(* the effect of an operation before the re-sort, and whether the Go code re-sorts afterwards *)
Definition effect (s : list item) (o : op) : list item * bool :=
  match o with
  | Append v p => (s ++ [(v, p)], true)
  | Appends p vs => (s ++ map (fun v => (v, p)) vs, true)
  | AppendOpt v p => (s ++ [(v, match p with Some q => q | None => 0 end)], true)
  | Set_ i v p => if in_range s i then (upd (Z.to_nat i) (v, p) s, negb (snd (at_ s i) =? p)) else (s, false)
  | SetValue i v => if in_range s i then (upd (Z.to_nat i) (v, snd (at_ s i)) s, false) else (s, false)
  | SetPriority i p => if in_range s i then (upd (Z.to_nat i) (fst (at_ s i), p) s, true) else (s, false)
  | Clear => ([], false)
  | ActDropFirst => (tl s, true)
  | ActReverse => (rev s, true)
  | _ => (s, false)
  end.

Definition result (s : list item) (o : op) : out :=
  match o with
  | Get i => if in_range s i then OPair (fst (at_ s i)) (snd (at_ s i)) else OPanic
  | GetValue i => if in_range s i then OVal (fst (at_ s i)) else OPanic
  | GetPriority i => if in_range s i then OVal (snd (at_ s i)) else OPanic
  | Set_ i _ _ | SetValue i _ | SetPriority i _ => if in_range s i then OUnit else OPanic
  | Len => OLen (length s)
  | Slice => OList (map fst s)
  | RangeStop n => OList (map fst (if (n =? 0)%nat then s else firstn n s))
  | _ => OUnit
  end.

Definition step (s : list item) (o : op) : list item * out :=
  let '(s1, resort) := effect s o in
  ((if resort then psort s1 else s1), result s o).

Fixpoint run (s : list item) (ops : list op) : list item * list out :=
  match ops with
  | [] => (s, [])
  | o :: t => let '(s1, x) := step s o in let '(s2, xs) := run s1 t in (s2, x :: xs)
  end.

(* canonical form for the comparison: ordered by (priority, value) *)
Definition item_leb (a b : item) : bool := (snd a <? snd b) || ((snd a =? snd b) && (fst a <=? fst b)).
Fixpoint cins (x : item) (l : list item) : list item :=
  match l with
  | [] => [x]
  | y :: t => if item_leb x y then x :: l else y :: cins x t
  end.
Fixpoint canon (l : list item) : list item := match l with [] => [] | x :: t => cins x (canon t) end.

(* appended so far (since the last Clear), for append-only histories *)
Fixpoint appended (ops : list op) (acc : list item) : list item :=
  match ops with
  | [] => acc
  | o :: t =>
      match o with
      | Append _ _ | Appends _ _ | AppendOpt _ _ | Clear => appended t (fst (effect acc o))
      | _ => appended t acc
      end
  end.
Definition append_only (o : op) : bool :=
  match o with
  | Set_ _ _ _ | SetValue _ _ | SetPriority _ _ | ActDropFirst | ActReverse => false
  | _ => true
  end.
