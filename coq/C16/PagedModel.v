(* MV.C16.PagedModel — executable model of toolkit/collection/listings/paged_slice.go (PagedSlice[int64]):
   page table, pageSize, len, lenLast and the index arithmetic of every method, as in the Go code.
   Del is modelled as REPAIRED by fixes/C16-paged-del-clears-slot.patch (the vacated last slot is zeroed, so
   a later Grow exposes zero values and not a deleted element); [del_go] is the code as found.
   Page size >= 1 is assumed (a size <= 0 makes the Go code divide by zero / index an empty page).
   Calls that index outside the allocated pages panic in Go: output OPanic; the harness stops a case there.
   No proofs here. *)
From MV Require Import Lib.ListX.
Open Scope nat_scope.

Record paged := { pages : list (list Z); psize : nat; plen : nat; plast : nat }.

Definition new_paged (ps : nat) : paged := {| pages := []; psize := ps; plen := 0; plast := 0 |}.

Definition zpage (ps : nat) : list Z := repeat 0%Z ps.

(* for len(pages) < total { pages = append(pages, make([]T, pageSize)) } *)
Definition grow_pages (ps total : nat) (pg : list (list Z)) : list (list Z) :=
  pg ++ repeat (zpage ps) (total - length pg).

(* pages[pi][ei] = v (in range) *)
Definition set_slot (pi ei : nat) (v : Z) (pg : list (list Z)) : list (list Z) :=
  upd pi (upd ei v (nth pi pg [])) pg.
Definition get_slot (pi ei : nat) (pg : list (list Z)) : Z := nth ei (nth pi pg []) 0%Z.

Inductive op :=
| Add (v : Z) | Del (i : Z) | Get (i : Z) | Set_ (i : Z) (v : Z) | Len
| Grow (idx : list Z) | GrowSet (i : Z) (v : Z)
| BatchGrowSet (idx vals : list Z) | BatchSet (idx vals : list Z)
| Dump.      (* harness-level observation: Len, then Get(i) for every i < Len *)

Inductive out := OUnit | OVal (v : Z) | OLen (n : nat) | OList (l : list Z) | OPanic | OBad.

Definition with_pages (p : paged) (pg : list (list Z)) : paged :=
  {| pages := pg; psize := psize p; plen := plen p; plast := plast p |}.

Definition add (p : paged) (v : Z) : paged :=
  let '(pg, last) :=
    if (length (pages p) =? 0) || (plast p =? length (nth (length (pages p) - 1) (pages p) []))
    then (pages p ++ [zpage (psize p)], 0) else (pages p, plast p) in
  {| pages := set_slot (length pg - 1) last v pg; psize := psize p; plen := S (plen p); plast := S last |}.

Definition del_core (clear : bool) (p : paged) (i : Z) : paged :=
  if (i <? 0)%Z || (Z.of_nat (plen p) <=? i)%Z then p
  else
    let ix := Z.to_nat i in
    let ps := psize p in
    let li := plen p - 1 in
    let pg1 := set_slot (ix / ps) (ix mod ps) (get_slot (li / ps) (li mod ps) (pages p)) (pages p) in
    let pg2 := if clear then set_slot (li / ps) (li mod ps) 0%Z pg1 else pg1 in
    let n := plen p - 1 in
    if (n mod ps =? 0) && (1 <? length pg2)
    then {| pages := removelast pg2; psize := ps; plen := n; plast := ps |}
    else {| pages := pg2; psize := ps; plen := n; plast := n mod ps |}.

Definition del := del_core true.        (* repaired *)
Definition del_go := del_core false.    (* as found *)

(* raw indexed store, as in GrowSet/BatchGrowSet/BatchSet: None = the Go code panics *)
Definition store (p : paged) (i : Z) (v : Z) : option paged :=
  if (i <? 0)%Z then None
  else
    let ix := Z.to_nat i in
    if ix / psize p <? length (pages p)
    then Some (with_pages p (set_slot (ix / psize p) (ix mod psize p) v (pages p)))
    else None.

Fixpoint store_all (p : paged) (idx vals : list Z) : option paged :=
  match idx, vals with
  | i :: it, v :: vt => match store p i v with Some p' => store_all p' it vt | None => None end
  | _, _ => Some p
  end.

Definition max_index (first : Z) (idx : list Z) : Z := fold_left Z.max idx first.

(* if maxIndex >= len { grow pages; len = maxIndex+1; lenLast = maxIndex%pageSize+1 } *)
Definition grow_to (p : paged) (m : Z) : paged :=
  if (Z.of_nat (plen p) <=? m)%Z then
    let mx := Z.to_nat m in
    {| pages := grow_pages (psize p) (mx / psize p + 1) (pages p); psize := psize p;
       plen := mx + 1; plast := mx mod psize p + 1 |}
  else p.

Definition get (p : paged) (i : Z) : out :=
  if (i <? 0)%Z then OPanic
  else
    let ix := Z.to_nat i in
    if ix / psize p <? length (pages p) then OVal (get_slot (ix / psize p) (ix mod psize p) (pages p))
    else OPanic.

Definition dump (p : paged) : list Z :=
  map (fun ix => get_slot (ix / psize p) (ix mod psize p) (pages p)) (seq 0 (plen p)).

Definition step (p : paged) (o : op) : paged * out :=
  match o with
  | Add v => (add p v, OUnit)
  | Del i => (del p i, OUnit)
  | Get i => (p, get p i)
  | Set_ i v =>
      if (i <? 0)%Z || (Z.of_nat (plen p) <=? i)%Z then (p, OUnit)
      else match store p i v with Some p' => (p', OUnit) | None => (p, OPanic) end
  | Len => (p, OLen (plen p))
  | Grow idx =>
      match idx with
      | [] => (p, OUnit)
      | i0 :: _ => (grow_to p (max_index i0 idx), OUnit)
      end
  | GrowSet i v =>
      match store (grow_to p i) i v with Some p' => (p', OUnit) | None => (p, OPanic) end
  | BatchGrowSet idx vals =>
      if negb (length idx =? length vals) then (p, OPanic)
      else match idx with
           | [] => (p, OUnit)
           | i0 :: _ =>
               match store_all (grow_to p (max_index i0 idx)) idx vals with
               | Some p' => (p', OUnit) | None => (p, OPanic)
               end
           end
  | BatchSet idx vals =>
      if negb (length idx =? length vals) then (p, OPanic)
      else match store_all p idx vals with Some p' => (p', OUnit) | None => (p, OPanic) end
  | Dump => (p, OList (dump p))
  end.

Fixpoint run (p : paged) (ops : list op) : paged * list out :=
  match ops with
  | [] => (p, [])
  | o :: t => let '(p1, x) := step p o in let '(p2, xs) := run p1 t in (p2, x :: xs)
  end.

(* ---------- abstract specification: a plain list ---------- *)
Fixpoint upd_all (l : list Z) (idx vals : list Z) : list Z :=
  match idx, vals with
  | i :: it, v :: vt => upd_all (upd (Z.to_nat i) v l) it vt
  | _, _ => l
  end.

Definition pad_to (l : list Z) (m : Z) : list Z :=
  if (Z.of_nat (length l) <=? m)%Z then l ++ repeat 0%Z (Z.to_nat m + 1 - length l) else l.

Definition spec_step (l : list Z) (o : op) : list Z * out :=
  match o with
  | Add v => (l ++ [v], OUnit)
  | Del i =>
      if (i <? 0)%Z || (Z.of_nat (length l) <=? i)%Z then (l, OUnit)
      else (removelast (upd (Z.to_nat i) (last l 0%Z) l), OUnit)     (* swap-delete *)
  | Get i => (l, OVal (nth (Z.to_nat i) l 0%Z))
  | Set_ i v => if (i <? 0)%Z then (l, OUnit) else (upd (Z.to_nat i) v l, OUnit)
  | Len => (l, OLen (length l))
  | Grow idx => match idx with [] => (l, OUnit) | i0 :: _ => (pad_to l (max_index i0 idx), OUnit) end
  | GrowSet i v => (upd (Z.to_nat i) v (pad_to l i), OUnit)
  | BatchGrowSet idx vals =>
      match idx with [] => (l, OUnit) | i0 :: _ => (upd_all (pad_to l (max_index i0 idx)) idx vals, OUnit) end
  | BatchSet idx vals => (upd_all l idx vals, OUnit)
  | Dump => (l, OList l)
  end.

(* the calls a plain slice would accept: in-range reads and batch stores, non-negative grow indices,
   equally long batches *)
Definition valid_op (l : list Z) (o : op) : Prop :=
  match o with
  | Get i => (0 <= i < Z.of_nat (length l))%Z
  | GrowSet i _ => (0 <= i)%Z
  | BatchGrowSet idx vals => length idx = length vals /\ Forall (fun i => 0 <= i)%Z idx
  | BatchSet idx vals => length idx = length vals /\ Forall (fun i => 0 <= i < Z.of_nat (length l))%Z idx
  | _ => True
  end.

Fixpoint spec_run (l : list Z) (ops : list op) : list Z * list out :=
  match ops with
  | [] => (l, [])
  | o :: t => let '(l1, x) := spec_step l o in let '(l2, xs) := spec_run l1 t in (l2, x :: xs)
  end.

Fixpoint valid_run (l : list Z) (ops : list op) : Prop :=
  match ops with
  | [] => True
  | o :: t => valid_op l o /\ valid_run (fst (spec_step l o)) t
  end.

Definition contents (p : paged) : list Z := firstn (plen p) (concat (pages p)).
