(* MV.C16.PrioRun — step-by-step evaluation of recorded runs of PrioritySlice / SyncPrioritySlice.
   A recorded step = (operation, output, full state (value, priority) list observed after it).
   For every step: output = model output on the previously observed state; the observed new state has
   exactly the priority sequence of the model's new state (hence is ordered) and the same multiset of items. *)
From MV Require Import Lib.ListX C16.PrioModel.
Open Scope Z_scope.

Definition out_eqb (a b : out) : bool :=
  match a, b with
  | OUnit, OUnit => true
  | OPair v p, OPair w q => (v =? w) && (p =? q)
  | OVal x, OVal y => x =? y
  | OLen x, OLen y => Nat.eqb x y
  | OList x, OList y => list_eqb Z.eqb x y
  | OPanic, OPanic => true
  | _, _ => false
  end.

Definition item_eqb (a b : item) : bool := (fst a =? fst b) && (snd a =? snd b).

Definition state_ok (model observed : list item) : bool :=
  list_eqb Z.eqb (map snd model) (map snd observed) && list_eqb item_eqb (canon model) (canon observed).

Fixpoint steps_ok (s : list item) (steps : list (op * out * list item)) : bool :=
  match steps with
  | [] => true
  | (o, obs_out, obs_state) :: t =>
      let '(s', x) := step s o in
      out_eqb x obs_out && state_ok s' obs_state && steps_ok obs_state t
  end.

Record case := { cid : nat; csteps : list (op * out * list item) }.
Definition case_ok (c : case) : bool := steps_ok [] (csteps c).
Definition mismatches (cs : list case) : list nat := fail_ids case_ok cid cs.
