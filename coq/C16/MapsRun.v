(* MV.C16.MapsRun — evaluation of recorded runs of Order/OrderSync, Bucket/MutexBucket, SyncMap and
   SyncSlice against their models (tie T1). *)
From MV Require Import Lib.ListX C16.MapX C16.MapsModel.
Open Scope Z_scope.

Definition pair_eqb (a b : Z * Z) : bool := (fst a =? fst b) && (snd a =? snd b).

Module OrderRun.
Import Order.
Definition out_eqb (a b : out) : bool :=
  match a, b with
  | OUnit, OUnit => true
  | OGet x, OGet y => opt_eqb Z.eqb x y
  | OLen x, OLen y => Nat.eqb x y
  | OPairs x, OPairs y => list_eqb pair_eqb x y
  | _, _ => false
  end.
Record case := { cid : nat; cops : list op; cimpl : list out }.
Definition case_ok (c : case) : bool := list_eqb out_eqb (snd (run empty (cops c))) (cimpl c).
Definition mismatches (cs : list case) : list nat := fail_ids case_ok cid cs.
End OrderRun.

Module BucketRun.
Import Bucket.
Definition out_eqb (a b : out) : bool :=
  match a, b with
  | OUnit, OUnit => true
  | OGet x, OGet y => opt_eqb Z.eqb x y
  | OLen x, OLen y => Nat.eqb x y
  | OGetSet v e, OGetSet w f => (v =? w) && Bool.eqb e f
  | _, _ => false
  end.
Record case := { cid : nat; csize : nat; cops : list op; cimpl : list out }.
Definition case_ok (c : case) : bool := list_eqb out_eqb (snd (run (new (csize c)) (cops c))) (cimpl c).
Definition mismatches (cs : list case) : list nat := fail_ids case_ok cid cs.
End BucketRun.

Module SMapRun.
Import SMap.
Definition out_eqb (a b : out) : bool :=
  match a, b with
  | OUnit, OUnit => true
  | OVal x, OVal y => x =? y
  | OBool x, OBool y => Bool.eqb x y
  | OValBool x e, OValBool y f => (x =? y) && Bool.eqb e f
  | OLen x, OLen y => Nat.eqb x y
  | OPairs x, OPairs y => list_eqb pair_eqb x y
  | OList x, OList y => list_eqb Z.eqb x y
  | _, _ => false
  end.
Record case := { cid : nat; cinit : list (Z * Z); cops : list op; cimpl : list out }.
Definition init_map (l : list (Z * Z)) : amap Z := fold_left (fun m p => mset (fst p) (snd p) m) l [].
Definition case_ok (c : case) : bool := list_eqb out_eqb (snd (run (init_map (cinit c)) (cops c))) (cimpl c).
Definition mismatches (cs : list case) : list nat := fail_ids case_ok cid cs.
End SMapRun.

Module SSliceRun.
Import SSlice.
Definition out_eqb (a b : out) : bool :=
  match a, b with
  | OUnit, OUnit => true
  | OVal x, OVal y => x =? y
  | OList x, OList y => list_eqb Z.eqb x y
  | OPanic, OPanic => true
  | _, _ => false
  end.
Record case := { cid : nat; clen : nat; cops : list op; cimpl : list out }.
Definition case_ok (c : case) : bool := list_eqb out_eqb (snd (run (repeat 0 (clen c)) (cops c))) (cimpl c).
Definition mismatches (cs : list case) : list nat := fail_ids case_ok cid cs.
End SSliceRun.
