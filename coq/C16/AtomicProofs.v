(* MV.C16.AtomicProofs — what [atomic_path] / [step_ok] (AtomicModel.v) guarantee, and the several-step
   behaviour of the methods declared in [multi_step]. *)
From MV Require Import Lib.ListX C16.MapX C16.LockModel C16.MapsModel C16.PrioModel C16.PrioProofs C16.AtomicModel.
From Coq Require Import String Sorted Permutation.
Open Scope string_scope.

(* ---------- one critical section ---------- *)
Lemma secs_inside_nonempty f : forall c, secs (Some c) f <> [].
Proof.
  induction f as [|e t IH]; intros [[o m] a]; cbn [secs]; [discriminate|].
  destruct e, m; try discriminate; try (destruct (String.eqb _ _); try discriminate; apply IH).
Qed.

Lemma secs_nil f : secs None f = [] -> f = [].
Proof.
  destruct f as [|e t]; [reflexivity|]. cbn [secs].
  destruct e; try discriminate; intros H; exfalso; eapply secs_inside_nonempty; eassumption.
Qed.

Lemma secs_inside f : forall o m a s, secs (Some (o, m, a)) f = [s] -> s <> Stray ->
  exists b, f = (map (acc_ev o) b ++ [unlock_ev o m])%list /\ s = Sec o m (a ++ b)%list.
Proof.
  induction f as [|e t IH]; intros o m a s H Hs; cbn [secs] in H.
  - inversion H; subst. congruence.
  - destruct e.
    + destruct m; inversion H; subst; congruence.
    + destruct m; inversion H; subst; congruence.
    + destruct m; [inversion H; subst; congruence|].
      destruct (String.eqb_spec o o0) as [->|]; [|inversion H; subst; congruence].
      inversion H as [[Hs' Ht]]. apply secs_nil in Ht. subst. exists []. rewrite app_nil_r. split; reflexivity.
    + destruct m; [|inversion H; subst; congruence].
      destruct (String.eqb_spec o o0) as [->|]; [|inversion H; subst; congruence].
      inversion H as [[Hs' Ht]]. apply secs_nil in Ht. subst. exists []. rewrite app_nil_r. split; reflexivity.
    + destruct m; inversion H; subst; congruence.
    + destruct m; inversion H; subst; congruence.
    + assert (E : secs (Some (o, m, a)) (Acc o0 f w :: t) =
                  if String.eqb o o0 then secs (Some (o, m, (a ++ [(f, w)])%list)) t else Stray :: secs (Some (o, m, a)) t)
        by (destruct m; reflexivity).
      cbn [secs] in E. rewrite E in H. clear E.
      destruct (String.eqb_spec o o0) as [->|]; [|inversion H; subst; congruence].
      destruct (IH _ _ _ _ H Hs) as [b [-> ->]].
      exists ((f, w) :: b). split; [reflexivity|]. rewrite <- app_assoc. reflexivity.
    + destruct m; inversion H; subst; congruence.
Qed.

Theorem atomic_path_one_section p : atomic_path p = true -> one_section (flatc [] p).
Proof.
  unfold atomic_path, sections, one_section. generalize (flatc [] p) as f. intros f H.
  destruct (secs None f) as [|s [|s2 r]] eqn:E.
  - left. apply secs_nil; assumption.
  - destruct f as [|e t]; [discriminate|]. cbn [secs] in E.
    destruct e; try (inversion E; subst; discriminate).
    + (* Lock *) destruct (secs_inside _ _ _ _ _ E) as [b [-> ->]]; [intros ->; discriminate|].
      right; right. exists o, MW, b. split; [reflexivity|discriminate].
    + (* RLock *) destruct (secs_inside _ _ _ _ _ E) as [b [-> ->]]; [intros ->; discriminate|].
      right; right. exists o, MR, b. split; [reflexivity|]. intros _. exact H.
    + (* CallSelf *) inversion E as [[Es Et]]. apply secs_nil in Et. subst. right; left. eauto.
  - destruct s as [o [|] a| |]; discriminate.
Qed.

Theorem step_ok_one_section (ms : list method) : forallb step_ok ms = true ->
  forall m p, In m ms -> In p (mpaths m) -> multi_step (mtype m) (mname m) = None -> one_section (flatc [] p).
Proof.
  intros H m p Hm Hp Hn. rewrite forallb_forall in H. specialize (H m Hm).
  unfold step_ok in H. rewrite forallb_forall in H. specialize (H p Hp).
  unfold path_step_ok in H. rewrite Hn, Bool.orb_false_r in H. apply atomic_path_one_section; assumption.
Qed.

(* ---------- MutexBucketItem.GetOrSet: two blocks, one linearization point ---------- *)
Open Scope Z_scope.

(* Whatever the other threads did between the two blocks (m2 is arbitrary), the call behaves as the atomic
   GetOrSet of the sequential model (Bucket.spec_step) executed
     - at block 1, on m1, when the key was found there (block 2 does not run; that atomic step changes nothing), or
     - at block 2, on m2, otherwise. *)
Theorem get_or_set_linearizes (m1 m2 : amap Z) (k v : Z) :
  match gos_run m1 m2 k v with
  | (None, x, ex) => Bucket.spec_step m1 (Bucket.ItemGetOrSet k v) = (m1, Bucket.OGetSet x ex)
  | (Some m', x, ex) => Bucket.spec_step m2 (Bucket.ItemGetOrSet k v) = (m', Bucket.OGetSet x ex)
  end.
Proof.
  unfold gos_run. cbn [Bucket.spec_step].
  destruct (mget k m1) as [x|]; [reflexivity|].
  destruct (mget k m2) as [x|]; reflexivity.
Qed.

(* without the re-check in block 2 this is false: a value stored by another thread in between is overwritten *)
Theorem get_or_set_unchecked_refuted : exists m1 m2 k v,
  match gos_run_unchecked m1 m2 k v with
  | (None, x, ex) => Bucket.spec_step m1 (Bucket.ItemGetOrSet k v) <> (m1, Bucket.OGetSet x ex)
  | (Some m', x, ex) => Bucket.spec_step m2 (Bucket.ItemGetOrSet k v) <> (m', Bucket.OGetSet x ex)
  end.
Proof. exists [], [(1, 5)], 1, 7. vm_compute. discriminate. Qed.

(* ---------- SyncPrioritySlice.Appends: Append steps, then a sort that changes nothing ---------- *)
Lemma ins_last x l : Forall (fun y => snd y <= snd x) l -> ins x l = (l ++ [x])%list.
Proof.
  induction l as [|y t IH]; intros H; [reflexivity|]. inversion H; subst. cbn [ins].
  destruct (Z.leb_spec (snd y) (snd x)); [|lia]. rewrite IH by assumption. reflexivity.
Qed.

Lemma sorted_app_inv (a : list item) x t : sorted (a ++ x :: t) ->
  Forall (fun y => snd y <= snd x) a /\ sorted (a ++ [x] ++ t).
Proof.
  intros H. split; [|exact H].
  induction a as [|y a IH]; [constructor|]. cbn in H. inversion H as [|? ? Hs Hf]; subst.
  constructor; [|apply IH; assumption].
  rewrite Forall_forall in Hf. apply (Hf x). apply in_or_app. right. left. reflexivity.
Qed.

Lemma fold_ins_sorted l : forall acc, sorted (acc ++ l) -> fold_left (fun acc x => ins x acc) l acc = (acc ++ l)%list.
Proof.
  induction l as [|x t IH]; intros acc H; cbn [fold_left]; [rewrite app_nil_r; reflexivity|].
  destruct (sorted_app_inv acc x t H) as [Hle _].
  rewrite ins_last by assumption. rewrite IH; rewrite <- app_assoc; [reflexivity|exact H].
Qed.

(* the final critical section of Appends (sort) leaves every ordered slice as it is; every reachable state of
   the priority slice is ordered (PrioProofs.step_sorted), so under ANY interleaving Appends(p, vs) is the
   sequence of its atomic Append steps *)
Theorem appends_sort_noop (s : list item) : sorted s -> sort_step s = s.
Proof. intros H. unfold sort_step, psort. rewrite fold_ins_sorted; [reflexivity|exact H]. Qed.

Lemma psort_app (s : list item) (xs : list item) : sorted s ->
  psort (s ++ xs) = fold_left (fun acc x => ins x acc) xs s.
Proof. intros H. unfold psort. rewrite fold_left_app. rewrite (fold_ins_sorted s []); [reflexivity|exact H]. Qed.

(* without interference the steps add up to the Appends of the sequential model *)
Theorem appends_is_appends (s : list item) (p : Z) (vs : list Z) : sorted s ->
  sort_step (fold_left (fun s v => append_step s v p) vs s) = fst (PrioModel.step s (Appends p vs)).
Proof.
  intros H. cbn [PrioModel.step effect fst]. rewrite psort_app by assumption.
  assert (G : forall vs s, sorted s ->
            sorted (fold_left (fun s v => append_step s v p) vs s) /\
            fold_left (fun s v => append_step s v p) vs s =
            fold_left (fun acc x => ins x acc) (map (fun v => (v, p)) vs) s).
  { clear. induction vs as [|v t IH]; intros s H; cbn [fold_left map]; [split; [assumption|reflexivity]|].
    assert (E : append_step s v p = ins (v, p) s).
    { unfold append_step. cbn [PrioModel.step effect fst]. rewrite psort_app by assumption. reflexivity. }
    rewrite E. apply IH. apply ins_sorted. assumption. }
  destruct (G vs s H) as [Hs ->]. rewrite <- (proj2 (G vs s H)). apply appends_sort_noop. exact Hs.
Qed.

(* ---------- OrderSync.Del over two critical sections (the rejected shape) ---------- *)
(* without interference it is Del ... *)
Lemma del_stale_same (o : Order.order) (k : Z) : del_stale o o k = Order.del o k.
Proof. reflexivity. Qed.

(* ... with one Del of another key in between it is not: the deleted key stays in the entry list, a live key's
   index points past the end, and the result differs from every atomic execution of the two calls *)
Theorem del_two_sections_refuted :
  let o1 := fst (Order.run Order.empty [Order.Set_ 1 10; Order.Set_ 2 20; Order.Set_ 3 30]) in
  let o2 := Order.del o1 1 in                    (* the other thread's Del(1), between the two sections of Del(3) *)
  let bad := del_stale o1 o2 3 in
  bad <> Order.del o2 3 /\ bad <> Order.del (Order.del o1 3) 1 /\
  In 3 (map fst (Order.value bad)) /\ mget 2 (Order.idx bad) = Some 1%nat /\ List.length (Order.value bad) = 1%nat.
Proof. vm_compute. repeat split; try discriminate. left. reflexivity. Qed.
