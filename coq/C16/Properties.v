(* MV.C16.Properties — the statements of property C16 and nothing else.
   Every theorem is closed by [exact <lemma>] and followed by Print Assumptions. *)
From MV Require Import Lib.ListX C16.MapX.
From MV Require C16.RankModel C16.RankProofs C16.BitsetModel C16.BitsetProofs C16.PagedModel C16.PagedProofs C16.MapsModel C16.MapsProofs C16.PrioModel C16.PrioProofs C16.LockModel C16.LockProofs C16.AtomicModel C16.AtomicProofs.
From MV Require Import Lib.Sched.
From Coq Require Import Sorting.Sorted Sorting.Permutation.
(* one module per container, because every model has its own [op], [out], [step], [run] *)

(* ===================== leaderboard (toolkit/ranking/binary_search.go) ===================== *)
Module Rank.
Import RankModel RankProofs.
Open Scope Z_scope.

(* After any operation sequence on a fresh board (any limit option, ascending or descending): no competitor
   is listed twice, the list is ordered by the board's own Cmp, its length is within the limit
   (100 by default, max(n,1) for WithBinarySearchCount(n)), the id->score map and the list agree, and Size
   (the map's size) is the list's length. *)
Theorem C16_rank_inv : forall (cnt : option Z) (a : bool) (ops : list op),
  let b := fst (run (new_board cnt a) ops) in
  NoDup (map fst (scores b)) /\
  StronglySorted (fun p q => cmp a (snd p) (snd q) >= 0) (scores b) /\
  Z.of_nat (length (scores b)) <= limit_of cnt /\
  (forall id s, mget id (comp b) = Some s <-> In (id, s) (scores b)) /\
  length (comp b) = length (scores b).
Proof. exact rank_inv_explicit. Qed.
Print Assumptions C16_rank_inv.

(* GetRank and GetCompetitor are inverse on every reachable board. *)
Theorem C16_rank_inverse : forall (cnt : option Z) (a : bool) (ops : list op) (id i : Z),
  let b := fst (run (new_board cnt a) ops) in
  get_rank b id = RFound i <-> get_competitor b i = Some id.
Proof. intros cnt a ops id i. apply rank_inverse. apply rank_inv. Qed.
Print Assumptions C16_rank_inverse.

(* The score stored for an id is the one last submitted for it (since its last removal / Clear). *)
Theorem C16_score_last_submitted : forall (cnt : option Z) (a : bool) (ops : list op) (id s : Z),
  mget id (comp (fst (run (new_board cnt a) ops))) = Some s -> last_submitted ops id None = Some s.
Proof. exact score_last_submitted. Qed.
Print Assumptions C16_score_last_submitted.

(* Both binary searches (GetRank with its tie scan, competitor with its forward tie scan) finish within
   fuel length+1 in every reachable state: no operation of any history ever reports OFuel. *)
Theorem C16_binary_search_terminates : forall (cnt : option Z) (a : bool) (ops : list op),
  ~ In OFuel (snd (run (new_board cnt a) ops)).
Proof. exact binary_search_terminates. Qed.
Print Assumptions C16_binary_search_terminates.

(* Id-based operations on an absent id leave the board as it is and answer "absent" / the default. *)
Theorem C16_rank_absent_harmless : forall (b : board) (id d : Z), mget id (comp b) = None ->
  step b (Remove id) = (b, OEv []) /\
  step b (GetRank id) = (b, OErr ENotExist) /\
  step b (GetRankDefault id d) = (b, OInt d) /\
  step b (GetScore id) = (b, OErr ENotExist) /\
  step b (GetScoreDefault id d) = (b, OInt d).
Proof. exact rank_absent_harmless. Qed.
Print Assumptions C16_rank_absent_harmless.

(* non-vacuity: ties at the limit, an eviction, an update among ties, ascending order *)
Example C16_rank_example :
  snd (run (new_board (Some 2) false)
         [Competitor 1 5; Competitor 2 5; Competitor 3 5; Competitor 3 6; GetAll; GetRank 2; GetRank 1; GetScore 3; Competitor 1 9; GetAll])
  = [OEv [(1, -1, 0, 0, 5)]; OEv [(2, -1, 1, 0, 5)]; OEv []; OEv [(3, -1, 0, 0, 6); (2, 2, -1, 5, 5)];
     OList [3; 1]; OErr ENotExist; OInt 1; OInt 6; OEv [(1, 1, 0, 5, 9)]; OList [1; 3]].
Proof. vm_compute. reflexivity. Qed.
End Rank.

(* ===================== dynamic bit set (toolkit/dynamic_bit_set.go) ===================== *)
Module Bitset.
Import BitsetModel BitsetProofs.
Open Scope N_scope.

(* Two bit sets (each NewDynamicBitSet() or the zero value) under any history of Set/Clear/IsSet/Bits/
   Equal/In/NotIn/Key/Copy/re-creation answer exactly as two plain finite sets of positions do
   (Set = insert, Clear = remove, IsSet = member, Equal = same members, a.In(b) = b included in a,
   a.NotIn(b) = disjoint, equal keys = same members; Bits = the members, strictly increasing). *)
Theorem C16_bitset_refines_set : forall (za zb : bool) (ops : list op),
  outs_rel ops (snd (run (init za zb) ops)) (snd (spec_run ([], []) ops)).
Proof. exact bitset_refines_set. Qed.
Print Assumptions C16_bitset_refines_set.

(* Representation independence, stated on the representations themselves: in every reachable state
   (any number of trailing zero words, nil or one-word start) Equal, In, NotIn and equality of keys are
   functions of the sets of positions for which IsSet answers true. *)
Theorem C16_bitset_representation_independent : forall (za zb : bool) (ops : list op),
  let st := fst (run (init za zb) ops) in
  let a := fst st in let b := snd st in
  (equal a b = true <-> forall q, is_set a q = is_set b q) /\
  (in_ a b = true <-> forall q, is_set b q = true -> is_set a q = true) /\
  (not_in a b = true <-> forall q, is_set b q = true -> is_set a q = false) /\
  (key a = key b <-> forall q, is_set a q = is_set b q).
Proof. exact bitset_representation_independent. Qed.
Print Assumptions C16_bitset_representation_independent.

(* Set inserts, Clear removes (also of a bit that is not set or lies beyond the allocated words: harmless). *)
Theorem C16_bitset_set_clear : forall (s : bitset) (p q : N),
  is_set (set_bit s p) q = (q =? p) || is_set s q /\
  is_set (clear_bit s p) q = negb (q =? p) && is_set s q.
Proof. intros s p q. split; [apply is_set_set | apply is_set_clear]. Qed.
Print Assumptions C16_bitset_set_clear.

(* non-vacuity, and the defect of the code as found: Set(64);Clear(64) leaves [0;0], which the original
   Equal/In/Key distinguish from the fresh set [0] although both are the empty set *)
Example C16_bitset_example :
  snd (run (init false false) [Set_ false 64; Clear_ false 64; Equal false; In_ true; KeyEq; Set_ true 70; Bits true; NotIn false])
  = [OUnit; OUnit; OBool true; OBool true; OBool true; OUnit; OList [70]; OBool true].
Proof. vm_compute. reflexivity. Qed.
Example C16_bitset_defect_as_found :
  let a := clear_bit (set_bit new_bitset 64) 64 in
  a = [0; 0] /\ equal_go a new_bitset = false /\ in_go new_bitset a = false /\ key_go a <> key_go new_bitset /\
  (forall q, is_set a q = is_set new_bitset q).
Proof.
  cbv zeta. split; [vm_compute; reflexivity|]. split; [vm_compute; reflexivity|].
  split; [vm_compute; reflexivity|]. split; [vm_compute; discriminate|].
  intros q. rewrite is_set_clear, is_set_set. destruct (N.eqb_spec q 64) as [->|]; reflexivity.
Qed.
End Bitset.

(* ===================== paged slice (toolkit/collection/listings/paged_slice.go) ===================== *)
Module Paged.
Import PagedModel PagedProofs.
Open Scope nat_scope.

(* For every page size >= 1 and every history of Add/Del(swap)/Get/Set/Len/Grow/GrowSet/BatchGrowSet/BatchSet
   that a plain slice would accept (reads and batch stores in range, non-negative grow indices, equally long
   batches — [valid_run]), every output of the page table with its index arithmetic equals the output of a
   plain list (Grow pads with zero values, Del moves the last element into the hole), and the first Len
   slots of the concatenated pages are that list. *)
Theorem C16_paged_refines_slice : forall (ps : nat) (ops : list op), 0 < ps -> valid_run [] ops ->
  snd (run (new_paged ps) ops) = snd (spec_run [] ops) /\
  contents (fst (run (new_paged ps) ops)) = fst (spec_run [] ops).
Proof. exact paged_refines_slice. Qed.
Print Assumptions C16_paged_refines_slice.

(* Del and Set of an index that is not present change nothing, in every state. *)
Theorem C16_paged_absent_harmless : forall (p : paged) (i v : Z),
  (i < 0 \/ Z.of_nat (plen p) <= i)%Z -> step p (Del i) = (p, OUnit) /\ step p (Set_ i v) = (p, OUnit).
Proof. exact paged_absent_harmless. Qed.
Print Assumptions C16_paged_absent_harmless.

(* non-vacuity: page size 2, three pages allocated, one dropped, a grow after deletes (zeros, not stale data);
   and the code as found: the deleted 7 comes back at index 2 *)
Example C16_paged_example :
  valid_run [] [Add 7; Add 8; Add 9; Del 0; Dump; Grow [3]; Dump; Len]%Z /\
  snd (run (new_paged 2) [Add 7; Add 8; Add 9; Del 0; Dump; Grow [3]; Dump; Len]%Z)
  = [OUnit; OUnit; OUnit; OUnit; OList [9; 8]; OUnit; OList [9; 8; 0; 0]; OLen 4]%Z.
Proof. split; [cbn; repeat split; lia | vm_compute; reflexivity]. Qed.
Example C16_paged_defect_as_found :
  dump (grow_to (del_go (add (add (add (new_paged 4) 7) 8) 9) 0) 3) = [9; 8; 9; 0]%Z.
Proof. vm_compute. reflexivity. Qed.
End Paged.

(* ===================== ordered map, bucket maps, SyncMap (toolkit/collection/mappings) ===================== *)
Module Maps.
Import MapsModel MapsProofs.
Open Scope Z_scope.

(* Order / OrderSync: for every history of Get/Add/Set/Len/Del/Range the index map + dense entry slice with
   swap-delete answers exactly as the bare entry list searched linearly (Add appends an absent key, Set
   overwrites in place or appends, Del moves the last entry into the hole, Range visits the entries in list
   order), and the entry slice is that list. *)
Theorem C16_order_refines_map_with_order : forall (ops : list Order.op),
  snd (Order.run Order.empty ops) = snd (Order.spec_run [] ops) /\
  Order.value (fst (Order.run Order.empty ops)) = fst (Order.spec_run [] ops).
Proof. exact OrderProofs.order_refines_list. Qed.
Print Assumptions C16_order_refines_map_with_order.

(* ... and that list never holds a key twice: it is a map with an iteration order. *)
Theorem C16_order_keys_distinct : forall (ops : list Order.op),
  NoDup (map fst (Order.value (fst (Order.run Order.empty ops)))).
Proof. exact OrderProofs.order_keys_distinct. Qed.
Print Assumptions C16_order_keys_distinct.

(* Bucket / MutexBucket (and the MutexBucketItem methods reached through GetBucket): for every positive
   bucket count and every history, the outputs are those of one plain map. *)
Theorem C16_bucket_refines_map : forall (size : nat) (ops : list Bucket.op), (0 < size)%nat ->
  snd (Bucket.run (Bucket.new size) ops) = snd (Bucket.spec_run [] ops).
Proof. exact BucketProofs.bucket_refines_map. Qed.
Print Assumptions C16_bucket_refines_map.

(* Key-based operations on an absent key are harmless: they return "absent"/zero and leave the state. *)
Theorem C16_absent_keys_harmless :
  (forall (o : Order.order) (k : Z), mget k (Order.idx o) = None ->
     Order.step o (Order.Get k) = (o, Order.OGet None) /\ Order.step o (Order.Del k) = (o, Order.OUnit)) /\
  (forall (m : amap Z) (k : Z), mget k m = None ->
     SMap.step m (SMap.Delete k) = (m, SMap.OUnit) /\
     SMap.step m (SMap.DeleteGet k) = (m, SMap.OVal 0) /\
     SMap.step m (SMap.DeleteGetExist k) = (m, SMap.OValBool 0 false) /\
     SMap.step m (SMap.DeleteExist k) = (m, SMap.OBool false) /\
     SMap.step m (SMap.Get k) = (m, SMap.OVal 0) /\
     SMap.step m (SMap.GetExist k) = (m, SMap.OValBool 0 false) /\
     SMap.step m (SMap.Exist k) = (m, SMap.OBool false)).
Proof. split; [exact OrderProofs.order_absent_harmless | exact SMapProofs.syncmap_absent_harmless]. Qed.
Print Assumptions C16_absent_keys_harmless.

(* SyncMap read-your-writes / delete-removes, for all states and keys *)
Theorem C16_syncmap_is_map : forall (m : amap Z) (k k' v : Z),
  snd (SMap.step (fst (SMap.step m (SMap.Set_ k v))) (SMap.GetExist k')) =
    (if Z.eq_dec k k' then SMap.OValBool v true else snd (SMap.step m (SMap.GetExist k'))) /\
  snd (SMap.step (fst (SMap.step m (SMap.Delete k))) (SMap.GetExist k')) =
    (if Z.eq_dec k k' then SMap.OValBool 0 false else snd (SMap.step m (SMap.GetExist k'))).
Proof. exact SMapProofs.syncmap_is_map. Qed.
Print Assumptions C16_syncmap_is_map.

Example C16_order_example :
  snd (Order.run Order.empty [Order.Add 1 10; Order.Add 2 20; Order.Add 3 30; Order.Del 1; Order.Range 0; Order.Del 7; Order.Get 3; Order.Len])
  = [Order.OUnit; Order.OUnit; Order.OUnit; Order.OUnit; Order.OPairs [(3, 30); (2, 20)]; Order.OUnit; Order.OGet (Some 30); Order.OLen 2].
Proof. vm_compute. reflexivity. Qed.
Example C16_bucket_example :
  snd (Bucket.run (Bucket.new 2) [Bucket.Set_ 1 5; Bucket.Set_ (-1) 6; Bucket.Del 4; Bucket.Len; Bucket.ItemGetOrSet 2 7; Bucket.ItemGetAndDel 1; Bucket.Len])
  = [Bucket.OUnit; Bucket.OUnit; Bucket.OUnit; Bucket.OLen 2; Bucket.OGetSet 7 false; Bucket.OGet (Some 5); Bucket.OLen 2].
Proof. vm_compute. reflexivity. Qed.
End Maps.

(* ===================== priority slice (listings/priority_slice.go, sync_priority_slice.go) ===================== *)
Module Prio.
Import PrioModel PrioProofs.
Open Scope Z_scope.

(* After any history the slice is ordered by priority (lower first), and a history that only appends
   (Append/Appends/AppendByOptionalPriority, reads, Clear) keeps every element appended since the last Clear:
   the contents are a permutation of them. *)
Theorem C16_priority_sorted_keeps_all : forall (ops : list op),
  StronglySorted (fun a b => snd a <= snd b) (fst (run [] ops)) /\
  (forallb append_only ops = true -> Permutation (fst (run [] ops)) (appended ops [])).
Proof. exact priority_sorted_keeps_all. Qed.
Print Assumptions C16_priority_sorted_keeps_all.

(* Every single operation, from any contents (in particular from whatever tie order the unstable Go sort
   left), keeps exactly the items of its unsorted effect, and keeps an ordered slice ordered. This is what
   the step-by-step correspondence check compares the implementation against. *)
Theorem C16_priority_step_keeps_all : forall (s : list item) (o : op),
  Permutation (fst (step s o)) (fst (effect s o)) /\
  (StronglySorted (fun a b => snd a <= snd b) s -> StronglySorted (fun a b => snd a <= snd b) (fst (step s o))).
Proof. intros s o. split; [apply step_perm | apply step_sorted]. Qed.
Print Assumptions C16_priority_step_keeps_all.

(* equal canonical forms (what PrioRun compares) means same multiset of items *)
Theorem C16_priority_canon_sound : forall a b : list item, canon a = canon b -> Permutation a b.
Proof. exact canon_eq_perm. Qed.
Print Assumptions C16_priority_canon_sound.

Example C16_priority_example :
  run [] [Append 1 2; Append 2 1; Append 3 2; Appends 1 [4; 5]; SetPriority 0 9; Get 4; Set_ 7 0 0; Slice]
  = ([(4, 1); (5, 1); (1, 2); (3, 2); (2, 9)],
     [OUnit; OUnit; OUnit; OUnit; OUnit; OPair 2 9; OPanic; OList [4; 5; 1; 3; 2]]).
Proof. vm_compute. reflexivity. Qed.
End Prio.

(* ===================== synchronized variants: lock discipline (tie T3) ===================== *)
Module Locks.
Import LockModel LockProofs.
Import String.
Open Scope string_scope.

(* FULL STATEMENT (DESIGN C16_sync_linearizable): every concurrent history of SyncMap / OrderSync / SyncSlice /
   SyncPrioritySlice / MutexBucket is linearizable with respect to the sequential models above.
   PROVED HERE (partial): for ANY set of methods that passes [well_locked] (in particular the skeletons that
   translate/c16locks extracts from the current sources on every run, see extracted_well_locked in the
   generated file), any number of threads, each calling any sequence of those methods along any of their
   paths, in every reachable state of the lock machine:
     1. a thread holding an object's lock for writing excludes every other holder of that lock;
     2. a thread about to access a guarded field holds that object's lock (in write mode for a write), and
        no other thread holds the lock unless both are readers and the access is a read — i.e. the write
        critical sections are atomic blocks with respect to all guarded accesses, read sections overlap
        only reads (no data race on guarded state);
     3. no deadlock: while some thread is unfinished, some thread can step (no lock is taken while one is
        held, Go mutexes not being re-entrant).
   MISSING: the trace-level step from "atomic blocks" to linearizability against the sequential models
   (immediate for methods whose body is one block; GetOrSet and Appends consist of several blocks and are
   not atomic as a whole). *)
Theorem C16_sync_linearizable_partial :
  forall (ms : list method) (threads : list (list (list ev))) (st : state LM),
  forallb well_locked ms = true ->
  (forall paths, In paths threads -> forall p, In p paths -> In p (all_paths ms)) ->
  reach (init_state threads) st ->
  (forall i j li lj o m, i <> j -> nth_error (snd st) i = Some (Some li) -> nth_error (snd st) j = Some (Some lj) ->
     fst li = Some (o, MW) -> fst lj = Some (o, m) -> False) /\
  (forall j h o f w t, nth_error (snd st) j = Some (Some (h, Acc o f w :: t)) ->
     (exists m, h = Some (o, m) /\ (w = true -> m = MW)) /\
     (forall i li m, i <> j -> nth_error (snd st) i = Some (Some li) -> fst li = Some (o, m) -> m = MR /\ w = false)) /\
  ((exists i l, nth_error (snd st) i = Some (Some l)) -> exists i st' e, gstep st i tt = Some (st', e)).
Proof. exact well_locked_threads_safe. Qed.
Print Assumptions C16_sync_linearizable_partial.

(* non-vacuity of the discipline: the usual shapes pass; the three defect shapes found in /repo do not *)
Example C16_locks_example :
  path_ok [Lock "self"; DeferUnlock "self"; Acc "self" "data" true] = true /\
  path_ok [RLock "self"; Acc "self" "kv" false; RUnlock "self"; Lock "self"; DeferUnlock "self"; Acc "self" "kv" true] = true /\
  path_ok [CallSelf "self" "Append"; Acc "self" "items" true] = false /\                       (* Appends: sort() outside the lock *)
  path_ok [Lock "self"; DeferUnlock "self"; Acc "self" "data" false; Unlock "self"] = false /\ (* DeleteExist: unlocks twice *)
  path_ok [Lock "self"; Unlock "self"; Acc "self" "data" true] = false /\                      (* UnmarshalJSON *)
  path_ok [Lock "self"; CallSelf "self" "Get"; Unlock "self"] = false.                          (* self-deadlock *)
Proof. vm_compute. repeat split. Qed.

(* ---- one atomic step of the model = one critical section of the code (second T3 obligation) ----
   [well_locked] accepts a method that reads under one critical section and acts on what it read under a later
   one (check-then-act, RLock then Lock): every access is inside SOME section.  The sequential models above
   execute every method as one step, so the generated file also proves [forallb step_ok methods = true]
   (AtomicModel.v) for the current sources, and this theorem says what that means: every path of a method
   that is not one of the four declared multi-step methods executes nothing, or one call of a locking method
   of its own object, or exactly one Lock ... Unlock / RLock ... RUnlock block that contains all its accesses
   to guarded fields (a read block containing reads only).  With C16_sync_linearizable_partial (write
   blocks exclude every other holder, read blocks exclude writers) such a block is an atomic step. *)
Theorem C16_atomic_step_is_one_critical_section : forall (ms : list method),
  forallb AtomicModel.step_ok ms = true ->
  forall m p, In m ms -> In p (mpaths m) -> AtomicModel.multi_step (mtype m) (mname m) = None ->
  AtomicModel.one_section (AtomicModel.flatc [] p).
Proof. exact AtomicProofs.step_ok_one_section. Qed.
Print Assumptions C16_atomic_step_is_one_critical_section.

(* The declared multi-step methods, as the several atomic steps they are:
   MutexBucketItem.GetOrSet (RLock: look up; if absent Lock: look up AGAIN, then store) — whatever other threads
   did to the map between the two blocks (m2 arbitrary), the call is the atomic GetOrSet of the sequential model
   executed on m1 at block 1 when the key was found there (block 2 does not run), else on m2 at block 2. *)
Theorem C16_get_or_set_linearizes : forall (m1 m2 : MapX.amap Z) (k v : Z),
  match AtomicModel.gos_run m1 m2 k v with
  | (None, x, ex) => MapsModel.Bucket.spec_step m1 (MapsModel.Bucket.ItemGetOrSet k v) = (m1, MapsModel.Bucket.OGetSet x ex)
  | (Some m', x, ex) => MapsModel.Bucket.spec_step m2 (MapsModel.Bucket.ItemGetOrSet k v) = (m', MapsModel.Bucket.OGetSet x ex)
  end.
Proof. exact AtomicProofs.get_or_set_linearizes. Qed.
Print Assumptions C16_get_or_set_linearizes.

(* ... and the re-check is what makes it so (the declared shape demands a write block that starts by re-reading kv) *)
Theorem C16_get_or_set_needs_recheck : exists (m1 m2 : MapX.amap Z) (k v : Z),
  match AtomicModel.gos_run_unchecked m1 m2 k v with
  | (None, x, ex) => MapsModel.Bucket.spec_step m1 (MapsModel.Bucket.ItemGetOrSet k v) <> (m1, MapsModel.Bucket.OGetSet x ex)
  | (Some m', x, ex) => MapsModel.Bucket.spec_step m2 (MapsModel.Bucket.ItemGetOrSet k v) <> (m', MapsModel.Bucket.OGetSet x ex)
  end.
Proof. exact AtomicProofs.get_or_set_unchecked_refuted. Qed.
Print Assumptions C16_get_or_set_needs_recheck.

(* SyncPrioritySlice.Appends(p, vs) = one atomic Append per value, then a critical section that sorts: the sort
   leaves every ordered slice as it is (and every reachable slice is ordered, C16_priority_step_keeps_all), so
   under any interleaving Appends is the sequence of its Append steps — NOT one atomic batch; without
   interference the steps add up to the Appends of the sequential model. *)
Theorem C16_appends_is_a_sequence_of_appends :
  (forall s : list PrioModel.item, PrioProofs.sorted s -> AtomicModel.sort_step s = s) /\
  (forall (s : list PrioModel.item) (p : Z) (vs : list Z), PrioProofs.sorted s ->
     AtomicModel.sort_step (fold_left (fun s v => AtomicModel.append_step s v p) vs s) = fst (PrioModel.step s (PrioModel.Appends p vs))).
Proof. split; [exact AtomicProofs.appends_sort_noop | exact AtomicProofs.appends_is_appends]. Qed.
Print Assumptions C16_appends_is_a_sequence_of_appends.

(* Why two sections are rejected: OrderSync.Del with the position read in one section and used in the next
   (AtomicModel.del_stale) is Del when nothing happens in between, and with a single Del of another key in
   between it leaves the deleted key in the entry list, a live key's index past the end, and a state that no
   atomic execution of the two calls produces. *)
Theorem C16_del_over_two_sections_breaks_order :
  (forall o k, AtomicModel.del_stale o o k = MapsModel.Order.del o k) /\
  (let o1 := fst (MapsModel.Order.run MapsModel.Order.empty [MapsModel.Order.Set_ 1 10; MapsModel.Order.Set_ 2 20; MapsModel.Order.Set_ 3 30]) in
   let o2 := MapsModel.Order.del o1 1 in
   let bad := AtomicModel.del_stale o1 o2 3 in
   bad <> MapsModel.Order.del o2 3 /\ bad <> MapsModel.Order.del (MapsModel.Order.del o1 3) 1 /\
   In 3%Z (map fst (MapsModel.Order.value bad)) /\ MapX.mget 2 (MapsModel.Order.idx bad) = Some 1%nat /\
   List.length (MapsModel.Order.value bad) = 1%nat).
Proof. split; [exact AtomicProofs.del_stale_same | exact AtomicProofs.del_two_sections_refuted]. Qed.
Print Assumptions C16_del_over_two_sections_breaks_order.

(* non-vacuity of the atomicity obligation: the shapes of the current sources pass, the split Del, a lock upgrade,
   a write under RLock, GetOrSet without re-check and a third section do not; the declared shapes are per method *)
Example C16_atomic_example :
  AtomicModel.path_step_ok "OrderSync" "Del" [Lock "self"; DeferUnlock "self"; Acc "self" "idx" false; Acc "self" "value" true] = true /\
  AtomicModel.path_step_ok "OrderSync" "Del" [RLock "self"; Acc "self" "idx" false; RUnlock "self"] = true /\
  AtomicModel.path_step_ok "OrderSync" "Del"
    [RLock "self"; Acc "self" "idx" false; RUnlock "self"; Lock "self"; DeferUnlock "self"; Acc "self" "value" true] = false /\
  AtomicModel.path_step_ok "SyncMap" "MarshalJSON" [CallSelf "self" "Map"] = true /\
  AtomicModel.path_step_ok "SyncMap" "Set" [RLock "self"; DeferRUnlock "self"; Acc "self" "data" true] = false /\
  AtomicModel.path_step_ok "MutexBucketItem" "GetOrSet"
    [RLock "self"; Acc "self" "kv" false; RUnlock "self"; Lock "self"; DeferUnlock "self"; Acc "self" "kv" false; Acc "self" "kv" true] = true /\
  AtomicModel.path_step_ok "MutexBucketItem" "GetOrSet"
    [RLock "self"; Acc "self" "kv" false; RUnlock "self"; Lock "self"; DeferUnlock "self"; Acc "self" "kv" true] = false /\
  AtomicModel.path_step_ok "MutexBucketItem" "GetAndDel"
    [RLock "self"; Acc "self" "kv" false; RUnlock "self"; Lock "self"; DeferUnlock "self"; Acc "self" "kv" false; Acc "self" "kv" true] = false /\
  AtomicModel.path_step_ok "SyncPrioritySlice" "Appends"
    [CallSelf "self" "Append"; CallSelf "self" "Append"; Lock "self"; DeferUnlock "self"; Acc "self" "items" true] = true /\
  AtomicModel.path_step_ok "SyncPrioritySlice" "Appends"
    [CallSelf "self" "Append"; Lock "self"; Acc "self" "items" true; Unlock "self"; Lock "self"; Acc "self" "items" true; Unlock "self"] = false /\
  AtomicModel.path_step_ok "MutexBucket" "Len"
    [RLock "bucket"; Acc "bucket" "kv" false; RUnlock "bucket"; RLock "bucket"; Acc "bucket" "kv" false; RUnlock "bucket"] = true /\
  AtomicModel.path_step_ok "MutexBucket" "Get"
    [RLock "bucket"; Acc "bucket" "kv" false; RUnlock "bucket"; RLock "bucket"; Acc "bucket" "kv" false; RUnlock "bucket"] = false.
Proof. vm_compute. repeat split. Qed.
End Locks.
