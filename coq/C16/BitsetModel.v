(* MV.C16.BitsetModel — executable model of toolkit/dynamic_bit_set.go: a slice of 64-bit words (N).
   Set/Clear/IsSet/Bits/NotIn/Copy follow the Go code.  Equal, In and Key are modelled as REPAIRED by
   fixes/C16-bitset-trailing-zero-words.patch (words beyond the shorter operand count as zero; Key drops
   trailing zero words); the code as found in /repo is kept below as equal_go / in_go / key_go.
   The `key` cache field is always empty for sets built through the exported API and is not modelled.
   No proofs here. *)
From MV Require Import Lib.ListX.
Open Scope N_scope.

Definition bitset := list N.

Definition new_bitset : bitset := [0].     (* NewDynamicBitSet(): make([]uint64, 1) *)
Definition zero_bitset : bitset := [].     (* new(DynamicBitSet): nil slice *)

Definition index_of (pos : N) : nat := N.to_nat (pos / 64).
Definition offset_of (pos : N) : N := pos mod 64.

(* for len(bits) <= index { bits = append(bits, 0) }; bits[index] = f(bits[index]) *)
Fixpoint set_word (i : nat) (f : N -> N) (l : list N) : list N :=
  match i, l with
  | O, [] => [f 0]
  | O, w :: t => f w :: t
  | S i', [] => 0 :: set_word i' f []
  | S i', w :: t => w :: set_word i' f t
  end.

Definition set_bit (s : bitset) (pos : N) : bitset :=
  set_word (index_of pos) (fun w => N.lor w (N.shiftl 1 (offset_of pos))) s.

Definition clear_bit (s : bitset) (pos : N) : bitset :=
  if (index_of pos <? length s)%nat
  then upd (index_of pos) (N.ldiff (nth (index_of pos) s 0) (N.shiftl 1 (offset_of pos))) s
  else s.

(* bits[index] & (1 << offset) != 0 *)
Definition is_set (s : bitset) (pos : N) : bool :=
  if (length s <=? index_of pos)%nat then false
  else N.testbit (nth (index_of pos) s 0) (offset_of pos).

Definition word_bits (i : N) (w : N) : list N :=
  map (fun j => i * 64 + N.of_nat j) (filter (fun j => N.testbit w (N.of_nat j)) (seq 0 64)).

Fixpoint bits_from (i : N) (l : list N) : list N :=
  match l with
  | [] => []
  | w :: t => word_bits i w ++ bits_from (i + 1) t
  end.
Definition bits (s : bitset) : list N := bits_from 0 s.

Definition all_zero (l : list N) : bool := forallb (N.eqb 0) l.

(* repaired Equal: common prefix equal, the rest of the longer operand zero *)
Fixpoint equal (a b : bitset) : bool :=
  match a, b with
  | [], _ => all_zero b
  | _, [] => all_zero a
  | x :: a', y :: b' => (x =? y) && equal a' b'
  end.

(* repaired In: db contains mask; mask words beyond db must be zero *)
Fixpoint in_ (db mask : bitset) : bool :=
  match mask with
  | [] => true
  | m :: mt =>
      match db with
      | [] => all_zero mask
      | d :: dt => (N.land d m =? m) && in_ dt mt
      end
  end.

(* NotIn as in the Go code: mask words beyond db are skipped *)
Fixpoint not_in (db mask : bitset) : bool :=
  match mask, db with
  | [], _ => true
  | _, [] => true
  | m :: mt, d :: dt => (N.land d m =? 0) && not_in dt mt
  end.

(* repaired Key: the words without trailing zero words (the Go string is their little-endian bytes) *)
Fixpoint trim (l : list N) : list N :=
  match l with
  | [] => []
  | x :: t => match trim t with
              | [] => if x =? 0 then [] else [x]
              | t' => x :: t'
              end
  end.
Definition key (s : bitset) : list N := trim s.

(* ---- the code as found (defective: results depend on trailing zero words) ---- *)
Definition equal_go (a b : bitset) : bool := (length a =? length b)%nat && list_eqb N.eqb a b.
Fixpoint in_go (db mask : bitset) : bool :=
  match mask with
  | [] => true
  | m :: mt => match db with [] => false | d :: dt => (N.land d m =? m) && in_go dt mt end
  end.
Definition key_go (s : bitset) : list N := s.

(* ---- a machine with two bit sets a (false) and b (true) ---- *)
Inductive op :=
| Set_ (w : bool) (pos : N) | Clear_ (w : bool) (pos : N) | IsSet (w : bool) (pos : N) | Bits (w : bool)
| Equal (w : bool)      (* w.Equal(other) *)
| In_ (w : bool)        (* w.In(other): w contains other *)
| NotIn (w : bool)      (* w.NotIn(other) *)
| Key (w : bool) | KeyEq (* a.Key() == b.Key() *)
| CopyTo (w : bool)     (* other = w.Copy() *)
| Fresh (w : bool) (zero : bool).   (* w = NewDynamicBitSet() / new(DynamicBitSet) *)

Inductive out := OUnit | OBool (b : bool) | OList (l : list N) | OBad.

Definition sel (st : bitset * bitset) (w : bool) : bitset := if w then snd st else fst st.
Definition oth (st : bitset * bitset) (w : bool) : bitset := if w then fst st else snd st.
Definition put (st : bitset * bitset) (w : bool) (s : bitset) : bitset * bitset :=
  if w then (fst st, s) else (s, snd st).

Definition step (st : bitset * bitset) (o : op) : (bitset * bitset) * out :=
  match o with
  | Set_ w p => (put st w (set_bit (sel st w) p), OUnit)
  | Clear_ w p => (put st w (clear_bit (sel st w) p), OUnit)
  | IsSet w p => (st, OBool (is_set (sel st w) p))
  | Bits w => (st, OList (bits (sel st w)))
  | Equal w => (st, OBool (equal (sel st w) (oth st w)))
  | In_ w => (st, OBool (in_ (sel st w) (oth st w)))
  | NotIn w => (st, OBool (not_in (sel st w) (oth st w)))
  | Key w => (st, OList (key (sel st w)))
  | KeyEq => (st, OBool (list_eqb N.eqb (key (fst st)) (key (snd st))))
  | CopyTo w => (put st (negb w) (sel st w), OUnit)
  | Fresh w z => (put st w (if z then zero_bitset else new_bitset), OUnit)
  end.

Fixpoint run (st : bitset * bitset) (ops : list op) : (bitset * bitset) * list out :=
  match ops with
  | [] => (st, [])
  | o :: t => let '(s1, x) := step st o in let '(s2, xs) := run s1 t in (s2, x :: xs)
  end.

Definition init (za zb : bool) : bitset * bitset :=
  (if za then zero_bitset else new_bitset, if zb then zero_bitset else new_bitset).

(* ---------- abstract specification: a finite set of positions as a plain list ---------- *)
Definition sset := list N.
Definition smem (l : sset) (q : N) : bool := existsb (N.eqb q) l.
Definition ssub (l1 l2 : sset) : bool := forallb (smem l2) l1.          (* l1 included in l2 *)
Definition sdisj (l1 l2 : sset) : bool := forallb (fun x => negb (smem l2 x)) l1.
Definition sseteq (l1 l2 : sset) : bool := ssub l1 l2 && ssub l2 l1.

Definition spec_step (st : sset * sset) (o : op) : (sset * sset) * out :=
  match o with
  | Set_ w p => (put st w (p :: sel st w), OUnit)
  | Clear_ w p => (put st w (filter (fun x => negb (x =? p)) (sel st w)), OUnit)
  | IsSet w p => (st, OBool (smem (sel st w) p))
  | Bits w => (st, OList (sel st w))                 (* compared as a set, see out_rel *)
  | Equal w => (st, OBool (sseteq (sel st w) (oth st w)))
  | In_ w => (st, OBool (ssub (oth st w) (sel st w)))
  | NotIn w => (st, OBool (sdisj (oth st w) (sel st w)))
  | Key w => (st, OUnit)                             (* a key alone says nothing; KeyEq is what matters *)
  | KeyEq => (st, OBool (sseteq (fst st) (snd st)))
  | CopyTo w => (put st (negb w) (sel st w), OUnit)
  | Fresh w z => (put st w [], OUnit)
  end.

Fixpoint spec_run (st : sset * sset) (ops : list op) : (sset * sset) * list out :=
  match ops with
  | [] => (st, [])
  | o :: t => let '(s1, x) := spec_step st o in let '(s2, xs) := spec_run s1 t in (s2, x :: xs)
  end.
