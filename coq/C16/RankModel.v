(* MV.C16.RankModel — executable model of toolkit/ranking/binary_search.go
   (BinarySearch[CompetitorID := int64, Score := int64]).  Transcribes the Go algorithm:
   scores = slice of (id, score) ordered by Cmp, competitors = id -> score map, GetRank = binary
   search with a linear scan among equal scores, competitor = binary search for the insertion point
   with a forward tie scan, eviction of the last entry above rankCount.  Both loops run on explicit
   fuel [length scores + 1]; running out of fuel is the output [OFuel] (the Go code would spin).
   No proofs here. *)
From MV Require Import Lib.ListX C16.MapX.
Open Scope Z_scope.

Record board := { asc : bool; cap : Z; scores : list (Z * Z); comp : amap Z }.

(* NewBinarySearch(options...): rankCount defaults to 100, WithBinarySearchCount(n) stores max(n,1) *)
Definition new_board (cnt : option Z) (a : bool) : board :=
  {| asc := a;
     cap := match cnt with None => 100 | Some n => if n <=? 0 then 1 else n end;
     scores := []; comp := [] |}.

(* Cmp *)
Definition cmp (a : bool) (s1 s2 : Z) : Z :=
  let r := if s1 >? s2 then 1 else if s1 <? s2 then -1 else 0 in
  if a then - r else r.

Definition nthZ (i : Z) (l : list (Z * Z)) : Z * Z := nth (Z.to_nat i) l (0, 0).
Definition lenZ (l : list (Z * Z)) : Z := Z.of_nat (length l).

(* event: (competitor, oldRank, newRank, oldScore, newScore) *)
Definition ev := (Z * Z * Z * Z * Z)%type.

Inductive err := ENotExist | EIndex | ENoRank.

Inductive rres := RFound (i : Z) | RNotExist | RIndexErr | RFuel.

(* for i := from; i <= ...; i++ over n indices: first index whose id is cid *)
Fixpoint find_up (cid : Z) (sc : list (Z * Z)) (i : Z) (n : nat) : option Z :=
  match n with
  | O => None
  | S n' => if fst (nthZ i sc) =? cid then Some i else find_up cid sc (i + 1) n'
  end.
Fixpoint find_down (cid : Z) (sc : list (Z * Z)) (i : Z) (n : nat) : option Z :=
  match n with
  | O => None
  | S n' => if fst (nthZ i sc) =? cid then Some i else find_down cid sc (i - 1) n'
  end.

(* the loop of GetRank *)
Fixpoint rank_loop (fuel : nat) (a : bool) (sc : list (Z * Z)) (cid cscore low high : Z) : rres :=
  match fuel with
  | O => RFuel
  | S f =>
      if low <=? high then
        let mid := (low + high) / 2 in
        let '(id, score) := nthZ mid sc in
        if id =? cid then RFound mid
        else if cmp a score cscore =? 0 then
          match find_up cid sc (mid + 1) (Z.to_nat (high - mid)) with
          | Some i => RFound i
          | None =>
              match find_down cid sc (mid - 1) (Z.to_nat (mid - low)) with
              | Some i => RFound i
              | None => rank_loop f a sc cid cscore low high   (* nothing changes: the Go loop spins *)
              end
          end
        else if cmp a score cscore <? 0 then rank_loop f a sc cid cscore low (mid - 1)
        else rank_loop f a sc cid cscore (mid + 1) high
      else RIndexErr
  end.

Definition fuel_of (sc : list (Z * Z)) : nat := S (length sc).

Definition get_rank (b : board) (cid : Z) : rres :=
  match mget cid (comp b) with
  | None => RNotExist
  | Some cs => rank_loop (fuel_of (scores b)) (asc b) (scores b) cid cs 0 (lenZ (scores b) - 1)
  end.

(* for low = from; low <= high; low++ { if Cmp(scores[low].Score, score) != 0 { break } } *)
Fixpoint scan_ne (a : bool) (sc : list (Z * Z)) (score : Z) (i : Z) (n : nat) : Z :=
  match n with
  | O => i
  | S n' => if cmp a (snd (nthZ i sc)) score =? 0 then scan_ne a sc score (i + 1) n' else i
  end.

(* the search loop of competitor: Some low on exit, None = out of fuel *)
Fixpoint ins_loop (fuel : nat) (a : bool) (sc : list (Z * Z)) (score low high : Z) : option Z :=
  match fuel with
  | O => None
  | S f =>
      if low <=? high then
        let mid := (low + high) / 2 in
        let c := cmp a (snd (nthZ mid sc)) score in
        if c =? 0 then ins_loop f a sc score (scan_ne a sc score (mid + 1) (Z.to_nat (high - mid))) high
        else if c <? 0 then ins_loop f a sc score low (mid - 1)
        else ins_loop f a sc score (mid + 1) high
      else Some low
  end.

Definition remove_at (i : Z) (l : list (Z * Z)) : list (Z * Z) :=
  firstn (Z.to_nat i) l ++ skipn (Z.to_nat (i + 1)) l.
Definition insert_at (i : Z) (x : Z * Z) (l : list (Z * Z)) : list (Z * Z) :=
  firstn (Z.to_nat i) l ++ x :: skipn (Z.to_nat i) l.

Definition set_sc (b : board) (sc : list (Z * Z)) (m : amap Z) : board :=
  {| asc := asc b; cap := cap b; scores := sc; comp := m |}.

(* competitor(id, oldScore, oldRank, score, low, high); None = out of fuel *)
Definition competitor (b : board) (cid oldScore oldRank score low high : Z) : option (board * list ev) :=
  match ins_loop (fuel_of (scores b)) (asc b) (scores b) score low high with
  | None => None
  | Some low' =>
      let count := lenZ (scores b) in
      if low' =? count then
        if (0 <? cap b) && (cap b <=? count) then Some (b, [])
        else
          let sc := scores b ++ [(cid, score)] in
          Some (set_sc b sc (mset cid score (comp b)), [(cid, oldRank, lenZ sc - 1, oldScore, score)])
      else
        let sc := insert_at low' (cid, score) (scores b) in
        let m := mset cid score (comp b) in
        let e1 := (cid, oldRank, low', oldScore, score) in
        if (cap b <=? 0) || (lenZ sc <=? cap b) then Some (set_sc b sc m, [e1])
        else
          let cnt := lenZ sc - 1 in
          let '(lid, lscore) := nthZ cnt sc in
          Some (set_sc b (firstn (Z.to_nat cnt) sc) (mdel lid m), [e1; (lid, cnt, -1, lscore, lscore)])
  end.

Inductive op :=
| Competitor (cid score : Z) | Remove (cid : Z) | Size | GetRank (cid : Z) | GetRankDefault (cid d : Z)
| GetCompetitor (rank : Z) | GetRange (s e : Z) | GetScore (cid : Z) | GetScoreDefault (cid d : Z)
| GetAll | Clear | Cmp (s1 s2 : Z)
| Snapshot.   (* harness-level observation: Size, then for every listed id its GetScore and GetRank *)

Inductive out :=
| OUnit
| OEv (l : list ev)        (* rank-change events raised by the operation, in order *)
| OInt (v : Z)
| OErr (e : err)
| OList (l : list Z)       (* nil and empty are identified *)
| OSnap (size : Z) (l : list (Z * Z * Z))   (* Size, [(id, GetScore id, GetRank id)] in list order *)
| OFuel                    (* a loop of the Go code would not terminate *)
| OBad.                    (* never produced by the model *)

Definition do_competitor (b : board) (cid score : Z) : board * out :=
  match mget cid (comp b) with
  | Some v =>
      if cmp (asc b) v score =? 0 then (b, OEv [])
      else
        match get_rank b cid with
        | RFound rank =>
            let b1 := set_sc b (remove_at rank (scores b)) (mdel cid (comp b)) in
            let r := if cmp (asc b) score v >? 0
                     then competitor b1 cid v rank score 0 (rank - 1)
                     else competitor b1 cid v rank score rank (lenZ (scores b1) - 1) in
            match r with Some (b2, evs) => (b2, OEv evs) | None => (b1, OFuel) end
        | RFuel => (b, OFuel)
        | _ => (b, OEv [])
        end
  | None =>
      let n := lenZ (scores b) in
      if (0 <? cap b) && (cap b <=? n) && (cmp (asc b) score (snd (nthZ (n - 1) (scores b))) <=? 0)
      then (b, OEv [])
      else match competitor b cid 0 (-1) score 0 (n - 1) with
           | Some (b2, evs) => (b2, OEv evs)
           | None => (b, OFuel)
           end
  end.

Definition do_remove (b : board) (cid : Z) : board * out :=
  match mget cid (comp b) with
  | None => (b, OEv [])
  | Some _ =>
      match get_rank b cid with
      | RFound rank =>
          let old := snd (nthZ rank (scores b)) in
          (set_sc b (remove_at rank (scores b)) (mdel cid (comp b)), OEv [(cid, rank, -1, old, old)])
      | RFuel => (b, OFuel)
      | _ => (set_sc b (scores b) (mdel cid (comp b)), OEv [])
      end
  end.

Definition out_rank (r : rres) : out :=
  match r with
  | RFound i => OInt i
  | RNotExist => OErr ENotExist
  | RIndexErr => OErr EIndex
  | RFuel => OFuel
  end.

Definition get_competitor (b : board) (rank : Z) : option Z :=
  if (rank <? 0) || (lenZ (scores b) <=? rank) then None else Some (fst (nthZ rank (scores b))).

Definition get_range (b : board) (s e : Z) : out :=
  if (s <? 1) || (e <? s) then OErr ENoRank
  else
    let total := lenZ (scores b) in
    if total <? s then OErr ENoRank
    else
      let e' := if total <? e then total else e in
      OList (map fst (firstn (Z.to_nat (e' - (s - 1))) (skipn (Z.to_nat (s - 1)) (scores b)))).

(* None if some listed id has no score or no rank (never the case in a reachable state) *)
Fixpoint snap_rows (b : board) (l : list (Z * Z)) : option (list (Z * Z * Z)) :=
  match l with
  | [] => Some []
  | (id, _) :: t =>
      match mget id (comp b), get_rank b id, snap_rows b t with
      | Some s, RFound r, Some rows => Some ((id, s, r) :: rows)
      | _, _, _ => None
      end
  end.

Definition step (b : board) (o : op) : board * out :=
  match o with
  | Competitor cid score => do_competitor b cid score
  | Remove cid => do_remove b cid
  | Size => (b, OInt (Z.of_nat (length (comp b))))
  | GetRank cid => (b, out_rank (get_rank b cid))
  | GetRankDefault cid d =>
      (b, match get_rank b cid with RFound i => OInt i | RFuel => OFuel | _ => OInt d end)
  | GetCompetitor rank =>
      (b, match get_competitor b rank with Some c => OInt c | None => OErr ENoRank end)
  | GetRange s e => (b, get_range b s e)
  | GetScore cid => (b, match mget cid (comp b) with Some s => OInt s | None => OErr ENotExist end)
  | GetScoreDefault cid d => (b, match mget cid (comp b) with Some s => OInt s | None => OInt d end)
  | GetAll => (b, OList (map fst (scores b)))
  | Clear => (set_sc b [] [], OUnit)
  | Cmp s1 s2 => (b, OInt (cmp (asc b) s1 s2))
  | Snapshot =>
      (b, match snap_rows b (scores b) with
          | Some rows => OSnap (Z.of_nat (length (comp b))) rows
          | None => OErr EIndex
          end)
  end.

Fixpoint run (b : board) (ops : list op) : board * list out :=
  match ops with
  | [] => (b, [])
  | o :: t => let '(b1, x) := step b o in let '(b2, xs) := run b1 t in (b2, x :: xs)
  end.

(* ---------- specification-side notions used by the theorems ---------- *)

(* the score last submitted for an id by the operations so far (None after Remove / Clear) *)
Fixpoint last_submitted (ops : list op) (cid : Z) (acc : option Z) : option Z :=
  match ops with
  | [] => acc
  | Competitor c s :: t => last_submitted t cid (if c =? cid then Some s else acc)
  | Remove c :: t => last_submitted t cid (if c =? cid then None else acc)
  | Clear :: t => last_submitted t cid None
  | _ :: t => last_submitted t cid acc
  end.
