(* MV.C16.MapsProofs — Order (index map + dense entries with swap-delete) refines the entry list searched
   linearly; the bucket array refines one plain map; absent-key operations are harmless. *)
From MV Require Import Lib.ListX C16.ListAux C16.MapX C16.MapsModel.
From Coq Require Import ZifyBool ZifyNat.
Open Scope Z_scope.
Arguments Nat.sub : simpl never.
Arguments Z.of_nat : simpl never.
Arguments Z.to_nat : simpl never.

(* =============================== Order =============================== *)
Module OrderProofs.
Import Order.

Definition keyat (l : list (Z * Z)) (i : nat) : Z := fst (nth i l (0, 0)).

Record Inv (o : order) : Prop := {
  inj : forall i j, (i < length (value o))%nat -> (j < length (value o))%nat ->
        keyat (value o) i = keyat (value o) j -> i = j;
  agree : forall k i, mget k (idx o) = Some i <-> (i < length (value o))%nat /\ keyat (value o) i = k
}.

Lemma find_pos_some k l : forall i, find_pos k l = Some i -> (i < length l)%nat /\ keyat l i = k.
Proof.
  induction l as [|[k' v] t IH]; intros i H; cbn [find_pos] in H; [discriminate|].
  destruct (Z.eqb_spec k' k).
  - inversion H; subst. split; [simpl; lia|reflexivity].
  - destruct (find_pos k t) as [j|] eqn:E; [|discriminate]. inversion H; subst.
    destruct (IH j eq_refl) as [H1 H2]. split; [simpl; lia|exact H2].
Qed.

Lemma find_pos_none k l : find_pos k l = None -> forall i, (i < length l)%nat -> keyat l i <> k.
Proof.
  induction l as [|[k' v] t IH]; intros H i Hi; cbn [find_pos] in H; [simpl in Hi; lia|].
  destruct (Z.eqb_spec k' k); [discriminate|].
  destruct (find_pos k t) eqn:E; [discriminate|].
  destruct i as [|i]; [exact n|]. apply (IH eq_refl i). simpl in Hi; lia.
Qed.

Lemma idx_find o k : Inv o -> mget k (idx o) = find_pos k (value o).
Proof.
  intros [Hinj Hag]. destruct (find_pos k (value o)) as [i|] eqn:E.
  - apply Hag. apply find_pos_some; auto.
  - destruct (mget k (idx o)) as [i|] eqn:G; auto. apply Hag in G as [G1 G2].
    exfalso. eapply find_pos_none; eauto.
Qed.

Lemma empty_inv : Inv empty.
Proof.
  constructor; cbn [empty value idx]; intros; simpl in *; try lia.
  split; [discriminate|intros [H _]; lia].
Qed.

Lemma keyat_app1 l x i : (i < length l)%nat -> keyat (l ++ [x]) i = keyat l i.
Proof. intros H. unfold keyat. rewrite app_nth1; auto. Qed.
Lemma keyat_app2 l x : keyat (l ++ [x]) (length l) = fst x.
Proof. unfold keyat. rewrite app_nth2, Nat.sub_diag by lia. reflexivity. Qed.

Lemma add_inv o k v : Inv o -> mget k (idx o) = None -> Inv (add o k v).
Proof.
  intros HI Hg. pose proof HI as [Hinj Hag]. unfold add. rewrite Hg.
  assert (Hnk : forall i, (i < length (value o))%nat -> keyat (value o) i <> k).
  { intros i Hi E. assert (mget k (idx o) = Some i) by (apply Hag; auto). congruence. }
  constructor; cbn [value idx]; rewrite ?app_length; cbn [length].
  - intros i j Hi Hj E.
    destruct (Nat.eq_dec i (length (value o))) as [->|Hi'], (Nat.eq_dec j (length (value o))) as [->|Hj']; auto.
    + rewrite keyat_app2, keyat_app1 in E by lia. exfalso. apply (Hnk j); [lia|auto].
    + rewrite keyat_app2, keyat_app1 in E by lia. exfalso. apply (Hnk i); [lia|auto].
    + rewrite !keyat_app1 in E by lia. apply Hinj; auto; lia.
  - intros k' i. destruct (Z.eq_dec k k') as [->|Hne].
    + rewrite mget_mset_same. split.
      * intros E; inversion E; subst. split; [lia|apply keyat_app2].
      * intros [Hi E]. destruct (Nat.eq_dec i (length (value o))) as [->|Hi']; auto.
        rewrite keyat_app1 in E by lia. exfalso. apply (Hnk i); [lia|auto].
    + rewrite mget_mset_other by auto. rewrite Hag. split.
      * intros [Hi E]. split; [lia|]. rewrite keyat_app1; auto.
      * intros [Hi E]. destruct (Nat.eq_dec i (length (value o))) as [->|Hi'].
        -- rewrite keyat_app2 in E. simpl in E. contradiction.
        -- rewrite keyat_app1 in E by lia. split; [lia|auto].
Qed.

Lemma nth_firstn_lt {A} i n (l : list A) d : (i < n)%nat -> nth i (firstn n l) d = nth i l d.
Proof. revert i n; induction l as [|h t IH]; intros [|i] [|n] H; simpl; try lia; auto. apply IH. lia. Qed.

Lemma keyat_upd_samekey l i v j : keyat (upd i (fst (nth i l (0, 0)), v) l) j = keyat l j.
Proof.
  unfold keyat. destruct (Nat.eq_dec i j) as [->|Hne].
  - destruct (Nat.lt_ge_cases j (length l)).
    + rewrite nth_upd_same by auto. reflexivity.
    + rewrite !nth_overflow by (rewrite ?upd_length; lia). reflexivity.
  - rewrite nth_upd_other by auto. reflexivity.
Qed.

Lemma nth_del l i n (x : Z * Z) j : (i < n)%nat -> (n <= length l)%nat -> (j < n)%nat ->
  nth j (firstn n (upd i x l)) (0, 0) = if Nat.eq_dec j i then x else nth j l (0, 0).
Proof.
  intros Hi Hn Hj. rewrite nth_firstn_lt by auto.
  destruct (Nat.eq_dec j i) as [->|Hne]; [apply nth_upd_same; lia|apply nth_upd_other; auto].
Qed.

Lemma del_inv o k : Inv o -> Inv (del o k).
Proof.
  intros HI. pose proof HI as [Hinj Hag]. unfold del.
  destruct (mget k (idx o)) as [i|] eqn:Hg; auto.
  apply Hag in Hg as [Hi Hk]. set (n := length (value o)) in *.
  destruct (Nat.ltb_spec i (n - 1)) as [Hmid|Hlast].
  - (* swap the last entry into the hole *)
    set (lst := nth (n - 1) (value o) (0, 0)).
    assert (Hlk : fst lst = keyat (value o) (n - 1)) by reflexivity.
    assert (Hlne : fst lst <> k).
    { intros E. assert (n - 1 = i)%nat; [|lia]. apply Hinj; fold n; first [lia | congruence]. }
    assert (Hnth : forall j, (j < n - 1)%nat ->
              keyat (firstn (n - 1) (upd i lst (value o))) j = if Nat.eq_dec j i then fst lst else keyat (value o) j).
    { intros j Hj. unfold keyat. rewrite nth_del by (fold n; lia). destruct (Nat.eq_dec j i); auto. }
    assert (Hlen : length (firstn (n - 1) (upd i lst (value o))) = (n - 1)%nat).
    { rewrite firstn_length, upd_length. fold n. lia. }
    constructor; cbn [value idx]; rewrite Hlen.
    + intros a b Ha Hb E. rewrite !Hnth in E by auto.
      destruct (Nat.eq_dec a i) as [->|Hai], (Nat.eq_dec b i) as [->|Hbi]; auto.
      * rewrite Hlk in E. assert (n - 1 = b)%nat; [|lia]. apply Hinj; fold n; auto; lia.
      * rewrite Hlk in E. assert (a = n - 1)%nat; [|lia]. apply Hinj; fold n; auto; lia.
      * apply Hinj; fold n; auto; lia.
    + intros k' j. destruct (Z.eq_dec k k') as [->|Hkk].
      * rewrite mget_mdel_same. split; [discriminate|]. intros [Hj E]. exfalso. rewrite Hnth in E by auto.
        destruct (Nat.eq_dec j i); [contradiction|]. assert (j = i); [|lia]. apply Hinj; fold n; first [lia | congruence].
      * rewrite mget_mdel_other by auto. destruct (Z.eq_dec (fst lst) k') as [<-|Hlk'].
        -- rewrite mget_mset_same. split.
           ++ intros E; inversion E; subst j. split; [lia|]. rewrite Hnth by lia. destruct (Nat.eq_dec i i); [auto|lia].
           ++ intros [Hj E]. rewrite Hnth in E by auto. destruct (Nat.eq_dec j i) as [->|Hji]; auto.
              exfalso. rewrite Hlk in E. assert (j = n - 1)%nat; [|lia]. apply Hinj; fold n; auto; lia.
        -- rewrite mget_mset_other by auto. rewrite Hag. fold n. split.
           ++ intros [Hj E]. assert (j <> i) by (intros ->; congruence).
              assert (j <> n - 1)%nat by (intros ->; rewrite <- Hlk in E; contradiction).
              split; [lia|]. rewrite Hnth by lia. destruct (Nat.eq_dec j i); [contradiction|auto].
           ++ intros [Hj E]. rewrite Hnth in E by auto. destruct (Nat.eq_dec j i); [contradiction|]. split; [lia|auto].
  - (* the entry is the last one *)
    assert (Ei : i = (n - 1)%nat) by lia.
    assert (Hlen : length (firstn (n - 1) (value o)) = (n - 1)%nat) by (rewrite firstn_length; fold n; lia).
    assert (Hnth : forall j, (j < n - 1)%nat -> keyat (firstn (n - 1) (value o)) j = keyat (value o) j).
    { intros j Hj. unfold keyat. rewrite nth_firstn_lt by auto. reflexivity. }
    constructor; cbn [value idx]; rewrite Hlen.
    + intros a b Ha Hb E. rewrite !Hnth in E by auto. apply Hinj; fold n; auto; lia.
    + intros k' j. destruct (Z.eq_dec k k') as [->|Hkk].
      * rewrite mget_mdel_same. split; [discriminate|]. intros [Hj E]. exfalso. rewrite Hnth in E by auto.
        assert (j = i); [|lia]. apply Hinj; fold n; first [lia | congruence].
      * rewrite mget_mdel_other by auto. rewrite Hag. fold n. split.
        -- intros [Hj E]. assert (j <> i) by (intros ->; congruence). split; [lia|]. rewrite Hnth by lia. auto.
        -- intros [Hj E]. rewrite Hnth in E by auto. split; [lia|auto].
Qed.

Lemma step_refines o x : Inv o ->
  Inv (fst (step o x)) /\ value (fst (step o x)) = fst (spec_step (value o) x) /\
  snd (step o x) = snd (spec_step (value o) x).
Proof.
  intros HI. pose proof (idx_find o) as Hf. destruct x; cbn [step spec_step fst snd].
  - rewrite Hf by auto. auto.
  - rewrite <- Hf by auto. destruct (mget k (idx o)) as [i|] eqn:G.
    + unfold add. rewrite G. auto.
    + split; [apply add_inv; auto|]. unfold add. rewrite G. auto.
  - rewrite <- Hf by auto. destruct (mget k (idx o)) as [i|] eqn:G; cbn [fst snd].
    + pose proof HI as [Hinj Hag]. apply Hag in G as [Hi Hk].
      split; [|split; auto].
      * constructor; cbn [value idx]; rewrite ?upd_length.
        -- intros a b Ha Hb E. rewrite !keyat_upd_samekey in E. apply Hinj; auto.
        -- intros k' j. rewrite Hag. rewrite keyat_upd_samekey. reflexivity.
      * cbn [value]. f_equal. f_equal. exact Hk.
    + split; [apply add_inv; auto|]. unfold add. rewrite G. auto.
  - auto.
  - rewrite <- Hf by auto. split; [apply del_inv; auto|]. split; auto.
    unfold del. destruct (mget k (idx o)) as [i|] eqn:G; auto.
    destruct (Nat.ltb_spec i (length (value o) - 1)); cbn [value]; auto.
    rewrite firstn_upd_le by lia. reflexivity.
  - auto.
Qed.

(* C16_order_refines_map_with_order *)
Theorem order_refines_list : forall ops,
  snd (run empty ops) = snd (spec_run [] ops) /\ value (fst (run empty ops)) = fst (spec_run [] ops).
Proof.
  assert (H : forall ops o, Inv o ->
            snd (run o ops) = snd (spec_run (value o) ops) /\ value (fst (run o ops)) = fst (spec_run (value o) ops)).
  { induction ops as [|x t IH]; intros o HI; cbn [run spec_run]; auto.
    destruct (step_refines o x HI) as (H1 & H2 & H3).
    destruct (step o x) as [o1 y], (spec_step (value o) x) as [l1 y']. cbn [fst snd] in *. subst.
    destruct (IH o1 H1) as [E1 E2]. destruct (run o1 t), (spec_run (value o1) t). cbn [fst snd] in *.
    split; congruence. }
  intros ops. apply (H ops empty empty_inv).
Qed.

(* keys stay pairwise distinct: the entry list is a map *)
Theorem order_keys_distinct : forall ops, NoDup (map fst (value (fst (run empty ops)))).
Proof.
  assert (H : forall ops o, Inv o -> Inv (fst (run o ops))).
  { induction ops as [|x t IH]; intros o HI; cbn [run]; auto.
    destruct (step_refines o x HI) as (H1 & _). destruct (step o x) as [o1 y]. cbn [fst] in *.
    specialize (IH o1 H1). destruct (run o1 t). auto. }
  intros ops. destruct (H ops empty empty_inv) as [Hinj _].
  apply (NoDup_nth _ 0). intros i j Hi Hj E. rewrite map_length in *.
  change 0 with (fst (0, 0)) in E. rewrite !map_nth in E. apply Hinj; auto.
Qed.

(* absent keys: Get answers "absent", Del changes nothing *)
Theorem order_absent_harmless : forall o k, mget k (idx o) = None ->
  step o (Get k) = (o, OGet None) /\ step o (Del k) = (o, OUnit).
Proof. intros o k H. cbn [step]. unfold del. rewrite H. auto. Qed.

End OrderProofs.

(* =============================== Bucket =============================== *)
Module BucketProofs.
Import Bucket.

Record R (b : buckets) (m : amap Z) : Prop := {
  r_size : (0 < length b)%nat;
  r_get : forall k, bget b k = mget k m;
  r_len : blen b = length m;
  r_nd : NoDup (map fst m);
  r_ndb : forall i, NoDup (map fst (nth i b []))
}.

Lemma hash_lt size k : (0 < size)%nat -> (hash size k < size)%nat.
Proof. intros H. unfold hash. pose proof (Z.mod_pos_bound k (Z.of_nat size) ltac:(lia)). lia. Qed.

Lemma blen_upd h m' : forall b, (h < length b)%nat ->
  (blen (upd h m' b) + length (nth h b []) = blen b + length m')%nat.
Proof.
  induction h as [|h IH]; intros [|x t] H; simpl in H; try lia; cbn [upd blen fold_right nth].
  - lia.
  - specialize (IH t ltac:(lia)). unfold blen in IH. lia.
Qed.

Lemma nth_repeat_nil (i n : nat) : nth i (repeat (@nil (Z * Z)) n) [] = [].
Proof. revert i; induction n as [|n IH]; intros [|i]; simpl; auto. Qed.

Lemma new_R size : (0 < size)%nat -> R (new size) [].
Proof.
  intros H. unfold new. constructor; rewrite ?repeat_length; auto.
  - intros k. unfold bget. rewrite repeat_length, nth_repeat_nil. reflexivity.
  - clear H. induction size; simpl; auto.
  - constructor.
  - intros i. rewrite nth_repeat_nil. constructor.
Qed.

Lemma bget_set b k v k' : (0 < length b)%nat ->
  bget (bset b k v) k' = if Z.eq_dec k k' then Some v else bget b k'.
Proof.
  intros H. unfold bget, bset. rewrite upd_length.
  pose proof (hash_lt (length b) k H). pose proof (hash_lt (length b) k' H).
  destruct (Nat.eq_dec (hash (length b) k) (hash (length b) k')) as [E|E].
  - rewrite <- E. rewrite nth_upd_same by auto.
    destruct (Z.eq_dec k k') as [->|Hne]; [apply mget_mset_same|apply mget_mset_other; auto].
  - rewrite nth_upd_other by auto. destruct (Z.eq_dec k k') as [->|Hne]; [contradiction|reflexivity].
Qed.

Lemma bget_del b k k' : (0 < length b)%nat ->
  bget (bdel b k) k' = if Z.eq_dec k k' then None else bget b k'.
Proof.
  intros H. unfold bget, bdel. rewrite upd_length.
  pose proof (hash_lt (length b) k H). pose proof (hash_lt (length b) k' H).
  destruct (Nat.eq_dec (hash (length b) k) (hash (length b) k')) as [E|E].
  - rewrite <- E. rewrite nth_upd_same by auto.
    destruct (Z.eq_dec k k') as [->|Hne]; [apply mget_mdel_same|apply mget_mdel_other; auto].
  - rewrite nth_upd_other by auto. destruct (Z.eq_dec k k') as [->|Hne]; [contradiction|reflexivity].
Qed.

Lemma mset_length {V} k (v : V) m : NoDup (map fst m) ->
  length (mset k v m) = match mget k m with Some _ => length m | None => S (length m) end.
Proof.
  intros Hnd. unfold mset. cbn [length]. destruct (mget k m) eqn:G.
  - eapply mdel_length_present; eauto.
  - rewrite mdel_absent; auto.
Qed.

Lemma mdel_length {V} k (m : amap V) : NoDup (map fst m) ->
  length m = match mget k m with Some _ => S (length (mdel k m)) | None => length (mdel k m) end.
Proof.
  intros Hnd. destruct (mget k m) eqn:G.
  - symmetry. eapply mdel_length_present; eauto.
  - rewrite mdel_absent; auto.
Qed.

Lemma nth_upd_nodup (b : buckets) h m' i :
  (forall j, NoDup (map fst (nth j b []))) -> NoDup (map fst m') -> NoDup (map fst (nth i (upd h m' b) [])).
Proof.
  intros Hb Hm. destruct (Nat.eq_dec h i) as [->|Hne].
  - destruct (Nat.lt_ge_cases i (length b)).
    + rewrite nth_upd_same; auto.
    + rewrite nth_overflow; [constructor|]. rewrite upd_length. assumption.
  - rewrite nth_upd_other; auto.
Qed.

Lemma R_set b m k v : R b m -> R (bset b k v) (mset k v m).
Proof.
  intros [Hs Hg Hl Hnd Hndb]. pose proof (hash_lt (length b) k Hs) as Hh.
  constructor.
  - unfold bset. rewrite upd_length; auto.
  - intros k'. rewrite bget_set by auto. destruct (Z.eq_dec k k') as [->|Hne];
      [rewrite mget_mset_same|rewrite mget_mset_other by auto]; auto.
  - unfold bset. pose proof (blen_upd (hash (length b) k) (mset k v (nth (hash (length b) k) b [])) b Hh) as E.
    rewrite mset_length in E by apply Hndb. rewrite mset_length by auto.
    specialize (Hg k). unfold bget in Hg. rewrite Hg in E. destruct (mget k m); lia.
  - apply mset_nodup; auto.
  - intros i. apply nth_upd_nodup; auto. apply mset_nodup. apply Hndb.
Qed.

Lemma R_del b m k : R b m -> R (bdel b k) (mdel k m).
Proof.
  intros [Hs Hg Hl Hnd Hndb]. pose proof (hash_lt (length b) k Hs) as Hh.
  constructor.
  - unfold bdel. rewrite upd_length; auto.
  - intros k'. rewrite bget_del by auto. destruct (Z.eq_dec k k') as [->|Hne];
      [rewrite mget_mdel_same|rewrite mget_mdel_other by auto]; auto.
  - unfold bdel. pose proof (blen_upd (hash (length b) k) (mdel k (nth (hash (length b) k) b [])) b Hh) as E.
    pose proof (mdel_length k (nth (hash (length b) k) b []) (Hndb _)) as E1.
    pose proof (mdel_length k m Hnd) as E2.
    specialize (Hg k). unfold bget in Hg. rewrite Hg in E1. destruct (mget k m); lia.
  - apply mdel_nodup; auto.
  - intros i. apply nth_upd_nodup; auto. apply mdel_nodup. apply Hndb.
Qed.

Lemma R_clear b m : R b m -> R (map (fun _ => []) b) [].
Proof.
  intros [Hs _ _ _ _]. constructor; rewrite ?map_length; auto.
  - intros k. unfold bget. rewrite map_length. cbn [mget].
    set (h := hash (length b) k). clearbody h. revert h. induction b as [|x t IH]; intros [|h]; cbn [map nth]; auto.
    destruct t; [destruct h; reflexivity|]. apply IH. simpl; lia.
  - clear Hs. induction b; simpl; auto.
  - constructor.
  - intros i. revert i. clear Hs. induction b as [|x t IH]; intros [|i]; cbn [map nth]; try constructor. apply IH.
Qed.

Lemma step_refines b m x : R b m ->
  R (fst (step b x)) (fst (spec_step m x)) /\ snd (step b x) = snd (spec_step m x).
Proof.
  intros HR. pose proof (r_get b m HR) as Hg. pose proof (r_len b m HR) as Hl.
  destruct x; cbn [step spec_step fst snd]; rewrite ?Hg, ?Hl; auto using R_set, R_del.
  - split; auto. eapply R_clear; eauto.
  - destruct (mget k m); cbn [fst snd]; auto using R_set.
Qed.

(* C16_bucket_refines_map *)
Theorem bucket_refines_map : forall size ops, (0 < size)%nat ->
  snd (run (new size) ops) = snd (spec_run [] ops).
Proof.
  assert (H : forall ops b m, R b m -> snd (run b ops) = snd (spec_run m ops)).
  { induction ops as [|x t IH]; intros b m HR; cbn [run spec_run]; auto.
    destruct (step_refines b m x HR) as [H1 H2].
    destruct (step b x) as [b1 y], (spec_step m x) as [m1 y']. cbn [fst snd] in *. subst.
    specialize (IH b1 m1 H1). destruct (run b1 t), (spec_run m1 t). cbn [snd] in *. congruence. }
  intros size ops Hs. apply H. apply new_R; auto.
Qed.

End BucketProofs.

(* =============================== SyncMap =============================== *)
Module SMapProofs.
Import SMap.

(* absent keys: every delete flavour leaves the map as it is and answers zero value / false *)
Theorem syncmap_absent_harmless : forall m k, mget k m = None ->
  step m (Delete k) = (m, OUnit) /\
  step m (DeleteGet k) = (m, OVal 0) /\
  step m (DeleteGetExist k) = (m, OValBool 0 false) /\
  step m (DeleteExist k) = (m, OBool false) /\
  step m (Get k) = (m, OVal 0) /\ step m (GetExist k) = (m, OValBool 0 false) /\ step m (Exist k) = (m, OBool false).
Proof.
  intros m k H. cbn [step]. unfold mmem. rewrite H, mdel_absent by auto. cbn [zero_or]. repeat split.
Qed.

(* the sequential behaviour is that of the plain map: reads see the last write, deletes remove *)
Theorem syncmap_is_map : forall m k k' v,
  snd (step (fst (step m (Set_ k v))) (GetExist k')) =
    (if Z.eq_dec k k' then OValBool v true else snd (step m (GetExist k'))) /\
  snd (step (fst (step m (Delete k))) (GetExist k')) =
    (if Z.eq_dec k k' then OValBool 0 false else snd (step m (GetExist k'))).
Proof.
  intros m k k' v. cbn [step fst snd]. unfold mmem. split; destruct (Z.eq_dec k k') as [->|Hne].
  - rewrite mget_mset_same. reflexivity.
  - rewrite mget_mset_other by auto. reflexivity.
  - rewrite mget_mdel_same. reflexivity.
  - rewrite mget_mdel_other by auto. reflexivity.
Qed.

End SMapProofs.
