(* MV.C16.PrioProofs — the priority slice is always ordered by priority and every operation keeps exactly
   the items it should (permutation of the unsorted effect); append-only histories keep every appended item. *)
From MV Require Import Lib.ListX C16.ListAux C16.PrioModel.
From Coq Require Import Sorting.Sorted Sorting.Permutation.
Open Scope Z_scope.

Definition le_prio (a b : item) : Prop := snd a <= snd b.
Definition sorted (l : list item) : Prop := StronglySorted le_prio l.

Lemma ins_perm x l : Permutation (ins x l) (x :: l).
Proof.
  induction l as [|y t IH]; cbn [ins]; auto.
  destruct (snd y <=? snd x); auto.
  rewrite IH. apply perm_swap.
Qed.

Lemma ins_sorted x l : sorted l -> sorted (ins x l).
Proof.
  induction 1 as [|y t Hs IH Hf]; cbn [ins].
  - constructor; constructor.
  - destruct (Z.leb_spec (snd y) (snd x)).
    + constructor; auto. rewrite Forall_forall in *. intros z Hz.
      apply (Permutation_in _ (ins_perm x t)) in Hz. destruct Hz as [<-|Hz]; auto.
    + constructor; [constructor; auto|]. constructor; [unfold le_prio; lia|].
      rewrite Forall_forall in *. intros z Hz. specialize (Hf z Hz). unfold le_prio in *. lia.
Qed.

Lemma fold_ins l : forall acc, sorted acc ->
  sorted (fold_left (fun a x => ins x a) l acc) /\ Permutation (fold_left (fun a x => ins x a) l acc) (acc ++ l).
Proof.
  induction l as [|x t IH]; intros acc Ha; cbn [fold_left].
  - rewrite app_nil_r. auto.
  - destruct (IH (ins x acc) (ins_sorted x acc Ha)) as [H1 H2]. split; auto.
    rewrite H2. rewrite ins_perm. cbn [app]. apply Permutation_middle.
Qed.

Lemma psort_sorted l : sorted (psort l).
Proof. apply fold_ins. constructor. Qed.
Lemma psort_perm l : Permutation (psort l) l.
Proof. apply (fold_ins l []). constructor. Qed.

Lemma sorted_upd_same_prio l i x : sorted l -> (i < length l)%nat -> snd x = snd (nth i l (0, 0)) -> sorted (upd i x l).
Proof.
  intros Hs. revert i. induction Hs as [|y t Hs IH Hf]; intros [|i] Hi E; simpl in *; try lia.
  - constructor; auto. rewrite Forall_forall in *. intros z Hz. specialize (Hf z Hz). unfold le_prio in *. lia.
  - constructor; [apply IH; auto; lia|]. rewrite Forall_forall in *. intros z Hz.
    destruct (In_nth _ _ (0, 0) Hz) as (j & Hj & <-). rewrite upd_length in Hj.
    destruct (Nat.eq_dec i j) as [->|Hne].
    + rewrite nth_upd_same by lia. unfold le_prio. rewrite E.
      apply (Hf (nth j t (0, 0))). apply nth_In. lia.
    + rewrite nth_upd_other by auto. apply Hf. apply nth_In. auto.
Qed.

(* every step leaves an ordered slice, from an ordered one *)
Lemma step_sorted s o : sorted s -> sorted (fst (step s o)).
Proof.
  intros Hs. unfold step. destruct (effect s o) as [s1 resort] eqn:E. cbn [fst].
  destruct resort; [apply psort_sorted|].
  destruct o; cbn [effect] in E; try (inversion E; subst; auto; fail).
  - destruct (in_range s i) eqn:Hr; inversion E; subst; auto.
    destruct (Z.eqb_spec (snd (at_ s i)) p) as [Ep|]; [|discriminate].
    unfold in_range in Hr. apply sorted_upd_same_prio; auto; try lia; try (simpl; unfold at_ in Ep; auto).
  - destruct (in_range s i) eqn:Hr; inversion E; subst; auto.
    unfold in_range in Hr. apply sorted_upd_same_prio; auto; try lia.
  - destruct (in_range s i); inversion E; subst; auto.
  - inversion E; subst. constructor.
Qed.

(* ... holding exactly the items of the operation's unsorted effect *)
Lemma step_perm s o : Permutation (fst (step s o)) (fst (effect s o)).
Proof.
  unfold step. destruct (effect s o) as [s1 resort]. cbn [fst]. destruct resort; auto. apply psort_perm.
Qed.

Lemma run_sorted ops : forall s, sorted s -> sorted (fst (run s ops)).
Proof.
  induction ops as [|o t IH]; intros s Hs; cbn [run]; auto.
  pose proof (step_sorted s o Hs) as H. destruct (step s o) as [s1 x]. cbn [fst] in H.
  specialize (IH s1 H). destruct (run s1 t). auto.
Qed.

Lemma run_keeps ops : forall s acc, Permutation s acc -> forallb append_only ops = true ->
  Permutation (fst (run s ops)) (appended ops acc).
Proof.
  induction ops as [|o t IH]; intros s acc Hp Ha; cbn [run appended]; auto.
  cbn [forallb] in Ha. apply andb_true_iff in Ha as [Ho Ht].
  pose proof (step_perm s o) as Hs. destruct (step s o) as [s1 x] eqn:Es. cbn [fst] in Hs.
  assert (H : Permutation s1 (match o with
                              | Append _ _ | Appends _ _ | AppendOpt _ _ | Clear => fst (effect acc o)
                              | _ => acc end)).
  { rewrite Hs. destruct o; cbn [effect fst append_only] in *; try discriminate; auto;
      try (apply Permutation_app_tail; auto). }
  specialize (IH s1 _ H Ht). destruct (run s1 t). cbn [fst] in *.
  destruct o; auto.
Qed.

(* C16_priority_sorted_keeps_all *)
Theorem priority_sorted_keeps_all : forall ops,
  sorted (fst (run [] ops)) /\
  (forallb append_only ops = true -> Permutation (fst (run [] ops)) (appended ops [])).
Proof.
  intros ops. split; [apply run_sorted; constructor|]. intros H. apply run_keeps; auto.
Qed.

(* the canonical form used by the step-by-step comparison identifies exactly the permutations *)
Lemma cins_perm x l : Permutation (cins x l) (x :: l).
Proof.
  induction l as [|y t IH]; cbn [cins]; auto. destruct (item_leb x y); auto. rewrite IH. apply perm_swap.
Qed.
Lemma canon_perm l : Permutation (canon l) l.
Proof. induction l as [|x t IH]; cbn [canon]; auto. rewrite cins_perm. auto. Qed.

Theorem canon_eq_perm : forall a b, canon a = canon b -> Permutation a b.
Proof. intros a b E. rewrite <- (canon_perm a), <- (canon_perm b), E. reflexivity. Qed.
