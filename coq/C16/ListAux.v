(* MV.C16.ListAux — general list lemmas used by several C16 proofs. *)
From MV Require Import Lib.ListX.
From Coq Require Import Sorting.Sorted.

Lemma nth_skipn' {A} (l : list A) n i d : nth i (skipn n l) d = nth (n + i)%nat l d.
Proof.
  revert n; induction l as [|h t IH]; intros [|n]; simpl; auto. destruct i; auto.
Qed.
Lemma filter_length_le' {A} (f : A -> bool) l : (length (filter f l) <= length l)%nat.
Proof. induction l as [|h t IH]; simpl; auto. destruct (f h); simpl; lia. Qed.

Lemma ss_app_iff {A} (R : A -> A -> Prop) l1 l2 :
  StronglySorted R (l1 ++ l2) <->
  StronglySorted R l1 /\ StronglySorted R l2 /\ (forall x y, In x l1 -> In y l2 -> R x y).
Proof.
  induction l1 as [|h t IH]; simpl.
  - split; [intros H; repeat split; auto; try constructor; intros; contradiction | tauto].
  - split.
    + intros H. inversion H as [|? ? Hs Hf]; subst. apply IH in Hs as (H1 & H2 & H3).
      rewrite Forall_app in Hf. destruct Hf as [Hf1 Hf2]. repeat split; auto.
      * constructor; auto.
      * intros x y [E|Hx] Hy; [subst; rewrite Forall_forall in Hf2; auto | auto].
    + intros (H1 & H2 & H3). inversion H1 as [|? ? Hs Hf]; subst. constructor.
      * apply IH. repeat split; auto.
      * rewrite Forall_app. split; auto. rewrite Forall_forall. intros y Hy. apply H3; auto.
Qed.

Lemma ss_impl {A} (R S : A -> A -> Prop) l : (forall x y, R x y -> S x y) -> StronglySorted R l -> StronglySorted S l.
Proof.
  intros HRS. induction 1 as [|x t Hs IH Hf]; constructor; auto.
  rewrite Forall_forall in *. auto.
Qed.

Lemma In_mid {T} (A B : list T) x y : In y (A ++ x :: B) <-> y = x \/ In y (A ++ B).
Proof. rewrite !in_app_iff. simpl. intuition. Qed.

