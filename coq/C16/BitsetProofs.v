(* MV.C16.BitsetProofs — the word-list bit set refines a finite set of positions: every observation
   (IsSet, Bits, Equal, In, NotIn, equality of keys) is a function of the represented set, whatever the
   number of (trailing zero) words. *)
From MV Require Import Lib.ListX C16.ListAux C16.BitsetModel.
From Coq Require Import ZifyBool ZifyNat ZifyN Sorting.Sorted NArith.
Ltac Zify.zify_post_hook ::= Z.div_mod_to_equations.
Open Scope N_scope.
Arguments N.div : simpl never.
Arguments N.modulo : simpl never.
Arguments N.mul : simpl never.
Arguments N.add : simpl never.
Arguments N.shiftl : simpl never.
Arguments N.testbit : simpl never.
Arguments N.lor : simpl never.
Arguments N.land : simpl never.
Arguments N.ldiff : simpl never.

Definition wordat (s : bitset) (i : nat) : N := nth i s 0.

Lemma nth_nil0 (j : nat) : nth j (@nil N) 0 = 0.
Proof. destruct j; reflexivity. Qed.

Lemma nth_set_word i f : forall l j,
  nth j (set_word i f l) 0 = if (j =? i)%nat then f (nth i l 0) else nth j l 0.
Proof.
  induction i as [|i IH]; intros [|w t] [|j]; cbn [set_word nth Nat.eqb]; rewrite ?IH, ?nth_nil0; auto.
  destruct j; reflexivity.
Qed.

Lemma is_set_nth s q : is_set s q = N.testbit (wordat s (index_of q)) (offset_of q).
Proof.
  unfold is_set, wordat. destruct (Nat.leb_spec (length s) (index_of q)); auto.
  rewrite nth_overflow by lia. symmetry. apply N.bits_0.
Qed.

Lemma pos_eq_iff q p : q = p <-> index_of q = index_of p /\ offset_of q = offset_of p.
Proof. unfold index_of, offset_of. split; [intros ->; auto|]. intros [H1 H2]. lia. Qed.

Lemma offset_lt q : offset_of q < 64.
Proof. unfold offset_of. lia. Qed.

Lemma bit_mask off j : N.testbit (N.shiftl 1 off) j = (off =? j).
Proof. rewrite N.shiftl_1_l. apply N.pow2_bits_eqb. Qed.

(* C16_bitset: Set inserts, Clear removes *)
Lemma is_set_set s p q : is_set (set_bit s p) q = (q =? p) || is_set s q.
Proof.
  rewrite !is_set_nth. unfold set_bit, wordat. rewrite nth_set_word.
  destruct (Nat.eqb_spec (index_of q) (index_of p)) as [Ei|Ei].
  - rewrite N.lor_spec, bit_mask, Ei.
    destruct (N.eqb_spec (offset_of p) (offset_of q)) as [Eo|Eo].
    + assert (q = p) by (apply pos_eq_iff; auto). subst. rewrite N.eqb_refl, orb_true_r. reflexivity.
    + destruct (N.eqb_spec q p); [subst; contradiction|]. rewrite orb_false_r. reflexivity.
  - destruct (N.eqb_spec q p); [subst; contradiction|]. reflexivity.
Qed.

Lemma is_set_clear s p q : is_set (clear_bit s p) q = negb (q =? p) && is_set s q.
Proof.
  unfold clear_bit. destruct (Nat.ltb_spec (index_of p) (length s)) as [Hin|Hout].
  - rewrite !is_set_nth. unfold wordat.
    destruct (Nat.eq_dec (index_of p) (index_of q)) as [Ei|Ei].
    + rewrite <- Ei. rewrite nth_upd_same by auto. rewrite N.ldiff_spec, bit_mask.
      destruct (N.eqb_spec (offset_of p) (offset_of q)) as [Eo|Eo].
      * assert (q = p) by (apply pos_eq_iff; auto). subst. rewrite N.eqb_refl, andb_false_r. reflexivity.
      * destruct (N.eqb_spec q p); [subst; contradiction|]. rewrite andb_true_r. reflexivity.
    + rewrite nth_upd_other by auto. destruct (N.eqb_spec q p); [subst; contradiction|]. reflexivity.
  - destruct (N.eqb_spec q p) as [->|]; auto. cbn [negb andb].
    unfold is_set. destruct (Nat.leb_spec (length s) (index_of p)); auto. lia.
Qed.

Lemma is_set_new q : is_set new_bitset q = false.
Proof.
  rewrite is_set_nth. unfold wordat, new_bitset. destruct (index_of q) as [|[|n]]; cbn [nth]; apply N.bits_0.
Qed.
Lemma is_set_zero q : is_set zero_bitset q = false.
Proof. reflexivity. Qed.

(* Bits *)
Lemma in_word_bits i w q : In q (word_bits i w) <-> q / 64 = i /\ N.testbit w (q mod 64) = true.
Proof.
  unfold word_bits. rewrite in_map_iff. split.
  - intros (j & E & Hin). apply filter_In in Hin as [Hj Hb]. apply in_seq in Hj.
    subst q. replace ((i * 64 + N.of_nat j) / 64) with i by lia.
    replace ((i * 64 + N.of_nat j) mod 64) with (N.of_nat j) by lia. auto.
  - intros [Hi Hb]. exists (N.to_nat (q mod 64)). split; [lia|].
    apply filter_In. split; [apply in_seq; lia|]. rewrite N2Nat.id. auto.
Qed.

Lemma in_bits_from l : forall i q,
  In q (bits_from i l) <->
  i <= q / 64 /\ (N.to_nat (q / 64 - i) < length l)%nat /\
  N.testbit (nth (N.to_nat (q / 64 - i)) l 0) (q mod 64) = true.
Proof.
  induction l as [|w t IH]; intros i q; cbn [bits_from length].
  - split; [contradiction | intros (_ & H & _); lia].
  - rewrite in_app_iff, in_word_bits, IH. split.
    + intros [[Hi Hb]|(Hi & Hl & Hb)].
      * subst i. rewrite N.sub_diag. cbn [N.to_nat nth]. repeat split; auto; lia.
      * replace (N.to_nat (q / 64 - i)) with (S (N.to_nat (q / 64 - (i + 1)))) by lia.
        cbn [nth]. repeat split; auto; lia.
    + intros (Hi & Hl & Hb). destruct (N.eq_dec (q / 64) i) as [E|E].
      * left. subst i. rewrite N.sub_diag in Hb. cbn [N.to_nat nth] in Hb. auto.
      * right. replace (N.to_nat (q / 64 - i)) with (S (N.to_nat (q / 64 - (i + 1)))) in * by lia.
        cbn [nth] in Hb. repeat split; auto; lia.
Qed.

Lemma in_bits s q : In q (bits s) <-> is_set s q = true.
Proof.
  unfold bits. rewrite in_bits_from. unfold is_set, index_of, offset_of. rewrite N.sub_0_r.
  destruct (Nat.leb_spec (length s) (N.to_nat (q / 64))); split.
  - intros (_ & H1 & _); lia.
  - discriminate.
  - intros (_ & _ & Hb); auto.
  - intros H'; repeat split; auto; lia.
Qed.

Lemma word_bits_sorted i w : StronglySorted N.lt (word_bits i w).
Proof.
  unfold word_bits.
  assert (H : forall l, StronglySorted lt l -> StronglySorted N.lt (map (fun j => i * 64 + N.of_nat j) l)).
  { induction 1 as [|x t Hs IH Hf]; cbn [map]; constructor; auto.
    rewrite Forall_forall in *. intros y Hy. apply in_map_iff in Hy as (z & <- & Hz). specialize (Hf z Hz). lia. }
  apply H.
  assert (H2 : forall n m, StronglySorted lt (filter (fun j => N.testbit w (N.of_nat j)) (seq n m))).
  { intros n m; revert n; induction m as [|m IH]; intros n; cbn [seq filter]; [constructor|].
    destruct (N.testbit w (N.of_nat n)); auto. constructor; auto.
    rewrite Forall_forall. intros y Hy. apply filter_In in Hy as [Hy _]. apply in_seq in Hy. lia. }
  apply H2.
Qed.

Lemma bits_from_sorted l : forall i, StronglySorted N.lt (bits_from i l).
Proof.
  induction l as [|w t IH]; intros i; cbn [bits_from]; [constructor|].
  apply ss_app_iff. split; [apply word_bits_sorted|]. split; [apply IH|].
  intros x y Hx Hy. apply in_word_bits in Hx as [Hx _]. apply in_bits_from in Hy as (Hy & _). lia.
Qed.

Lemma bits_sorted s : StronglySorted N.lt (bits s).
Proof. apply bits_from_sorted. Qed.

(* well-formed words: nothing above bit 63 *)
Definition wfw (w : N) : Prop := forall m, 64 <= m -> N.testbit w m = false.
Definition wf (s : bitset) : Prop := Forall wfw s.

Lemma wfw_0 : wfw 0.
Proof. intros m _. apply N.bits_0. Qed.

Lemma wf_wordat s i : wf s -> wfw (wordat s i).
Proof.
  intros H. unfold wordat. destruct (Nat.lt_ge_cases i (length s)).
  - unfold wf in H. rewrite Forall_forall in H. apply H. apply nth_In; auto.
  - rewrite nth_overflow by lia. apply wfw_0.
Qed.

Lemma wf_set_word i f : (forall w, wfw w -> wfw (f w)) -> forall l, wf l -> wf (set_word i f l).
Proof.
  intros Hf. induction i as [|i IH]; intros [|w t] H; cbn [set_word].
  - constructor; [apply Hf, wfw_0|constructor].
  - inversion H; subst. constructor; auto.
  - constructor; [apply wfw_0|]. apply IH. constructor.
  - inversion H; subst. constructor; auto. apply IH; auto.
Qed.

Lemma wf_upd i v l : wfw v -> wf l -> wf (upd i v l).
Proof.
  intros Hv. revert i; induction l as [|w t IH]; intros [|i] H; cbn [upd]; auto;
    inversion H; subst; constructor; auto. apply IH; auto.
Qed.

Lemma wf_set s p : wf s -> wf (set_bit s p).
Proof.
  intros H. apply wf_set_word; auto. intros w Hw m Hm. rewrite N.lor_spec, bit_mask, Hw by auto.
  pose proof (offset_lt p). destruct (N.eqb_spec (offset_of p) m); [lia|reflexivity].
Qed.

Lemma wf_clear s p : wf s -> wf (clear_bit s p).
Proof.
  intros H. unfold clear_bit. destruct (Nat.ltb_spec (index_of p) (length s)); auto.
  apply wf_upd; auto. intros m Hm. rewrite N.ldiff_spec.
  pose proof (wf_wordat s (index_of p) H m Hm) as E. unfold wordat in E. rewrite E. reflexivity.
Qed.

(* the represented set determines the words and conversely *)
Lemma words_ext a b : wf a -> wf b ->
  ((forall i, wordat a i = wordat b i) <-> (forall q, is_set a q = is_set b q)).
Proof.
  intros Ha Hb. split.
  - intros H q. rewrite !is_set_nth, H. reflexivity.
  - intros H i. apply N.bits_inj. intros j.
    destruct (N.lt_ge_cases j 64) as [Hj|Hj].
    + specialize (H (N.of_nat i * 64 + j)). rewrite !is_set_nth in H.
      unfold index_of, offset_of in H.
      replace ((N.of_nat i * 64 + j) / 64) with (N.of_nat i) in H by lia.
      replace ((N.of_nat i * 64 + j) mod 64) with j in H by lia.
      rewrite Nat2N.id in H. exact H.
    + rewrite (wf_wordat a i Ha j Hj), (wf_wordat b i Hb j Hj). reflexivity.
Qed.

Lemma all_zero_iff l : all_zero l = true <-> forall i, nth i l 0 = 0.
Proof.
  unfold all_zero. induction l as [|x t IH]; cbn [forallb].
  - split; auto. intros _ [|i]; reflexivity.
  - rewrite andb_true_iff, IH. split.
    + intros [E H] [|i]; cbn [nth]; auto. lia.
    + intros H. split; [specialize (H O); cbn [nth] in H; lia|]. intros i. apply (H (S i)).
Qed.

Lemma equal_words a : forall b, equal a b = true <-> forall i, wordat a i = wordat b i.
Proof.
  unfold wordat. induction a as [|x a' IH]; intros b.
  - cbn [equal]. rewrite all_zero_iff. split; intros H i; specialize (H i); destruct i; cbn [nth] in *; auto.
  - destruct b as [|y b']; cbn [equal].
    + rewrite all_zero_iff. split; intros H i; specialize (H i); destruct i; cbn [nth] in *; auto.
    + rewrite andb_true_iff, IH. split.
      * intros [E H] [|i]; cbn [nth]; auto. lia.
      * intros H. split; [specialize (H O); cbn [nth] in H; lia|]. intros i. apply (H (S i)).
Qed.

(* C16_bitset: Equal is equality of the represented sets *)
Theorem equal_spec a b : wf a -> wf b ->
  (equal a b = true <-> forall q, is_set a q = is_set b q).
Proof. intros Ha Hb. rewrite equal_words. apply words_ext; auto. Qed.

Lemma land_sub d m : wfw m ->
  (N.land d m = m <-> forall j, j < 64 -> N.testbit m j = true -> N.testbit d j = true).
Proof.
  intros Hm. split.
  - intros E j _ Hj. rewrite <- E in Hj. rewrite N.land_spec in Hj. apply andb_true_iff in Hj. tauto.
  - intros H. apply N.bits_inj. intros j. rewrite N.land_spec.
    destruct (N.lt_ge_cases j 64) as [Hj|Hj].
    + specialize (H j Hj). destruct (N.testbit m j); [rewrite H; auto|apply andb_false_r].
    + rewrite (Hm j Hj). apply andb_false_r.
Qed.

Lemma land_disj d m : wfw m ->
  (N.land d m = 0 <-> forall j, j < 64 -> N.testbit m j = true -> N.testbit d j = false).
Proof.
  intros Hm. split.
  - intros E j _ Hj. assert (H : N.testbit (N.land d m) j = false) by (rewrite E; apply N.bits_0).
    rewrite N.land_spec, Hj, andb_true_r in H. auto.
  - intros H. apply N.bits_inj. intros j. rewrite N.land_spec, N.bits_0.
    destruct (N.lt_ge_cases j 64) as [Hj|Hj].
    + specialize (H j Hj). destruct (N.testbit m j); [rewrite H; auto|apply andb_false_r].
    + rewrite (Hm j Hj). apply andb_false_r.
Qed.

Lemma in_words db : forall mask, in_ db mask = true <->
  forall i, N.land (wordat db i) (wordat mask i) = wordat mask i.
Proof.
  unfold wordat. induction db as [|d dt IH]; intros mask.
  - destruct mask as [|m mt]; cbn [in_].
    + split; auto. intros _ i. destruct i; cbn [nth]; apply N.land_0_l.
    + rewrite all_zero_iff. split; intros H i; specialize (H i).
      * rewrite H. destruct i; cbn [nth]; apply N.land_0_l.
      * rewrite <- H. destruct i; cbn [nth]; rewrite N.land_0_l; reflexivity.
  - destruct mask as [|m mt]; cbn [in_].
    + split; auto. intros _ i. destruct i; cbn [nth]; apply N.land_0_r.
    + rewrite andb_true_iff, IH. split.
      * intros [E H] [|i]; cbn [nth]; auto. lia.
      * intros H. split; [specialize (H O); cbn [nth] in H; lia|]. intros i. apply (H (S i)).
Qed.

Lemma is_set_bit s i j : j < 64 -> is_set s (N.of_nat i * 64 + j) = N.testbit (wordat s i) j.
Proof.
  intros Hj. rewrite is_set_nth. unfold index_of, offset_of.
  replace ((N.of_nat i * 64 + j) / 64) with (N.of_nat i) by lia.
  replace ((N.of_nat i * 64 + j) mod 64) with j by lia. rewrite Nat2N.id. reflexivity.
Qed.

(* C16_bitset: db.In(mask) is inclusion of mask in db *)
Theorem in_spec db mask : wf mask ->
  (in_ db mask = true <-> forall q, is_set mask q = true -> is_set db q = true).
Proof.
  intros Hm. rewrite in_words. split.
  - intros H q. rewrite !is_set_nth. specialize (H (index_of q)).
    apply (proj1 (land_sub _ _ (wf_wordat mask (index_of q) Hm)) H). apply offset_lt.
  - intros H i. apply land_sub; [apply wf_wordat; auto|]. intros j Hj.
    rewrite <- !is_set_bit by auto. apply H.
Qed.

Lemma not_in_words db : forall mask, not_in db mask = true <->
  forall i, N.land (wordat db i) (wordat mask i) = 0.
Proof.
  unfold wordat. induction db as [|d dt IH]; intros mask.
  - destruct mask as [|m mt]; cbn [not_in]; split; auto; intros _ i; destruct i; cbn [nth]; apply N.land_0_l.
  - destruct mask as [|m mt]; cbn [not_in].
    + split; auto. intros _ i. destruct i; cbn [nth]; apply N.land_0_r.
    + rewrite andb_true_iff, IH. split.
      * intros [E H] [|i]; cbn [nth]; auto. lia.
      * intros H. split; [specialize (H O); cbn [nth] in H; lia|]. intros i. apply (H (S i)).
Qed.

(* C16_bitset: db.NotIn(mask) is disjointness *)
Theorem not_in_spec db mask : wf mask ->
  (not_in db mask = true <-> forall q, is_set mask q = true -> is_set db q = false).
Proof.
  intros Hm. rewrite not_in_words. split.
  - intros H q. rewrite !is_set_nth. specialize (H (index_of q)).
    apply (proj1 (land_disj _ _ (wf_wordat mask (index_of q) Hm)) H). apply offset_lt.
  - intros H i. apply land_disj; [apply wf_wordat; auto|]. intros j Hj.
    rewrite <- !is_set_bit by auto. apply H.
Qed.

(* Key: equal keys iff equal sets *)
Lemma trim_cons x t :
  trim (x :: t) = if (x =? 0) && (match trim t with [] => true | _ => false end) then [] else x :: trim t.
Proof.
  cbn [trim]. destruct (trim t); destruct (N.eqb_spec x 0); reflexivity.
Qed.

Lemma trim_nil_iff l : trim l = [] <-> all_zero l = true.
Proof.
  unfold all_zero. induction l as [|x t IH]; [cbn; tauto|].
  rewrite trim_cons. cbn [forallb]. rewrite andb_true_iff, <- IH.
  destruct (N.eqb_spec x 0) as [->|Hx]; cbn [andb].
  - destruct (trim t); split; auto; try discriminate. intros [_ H]; discriminate.
  - split; [discriminate|]. intros [H _]. destruct (N.eqb_spec 0 x); [lia|discriminate].
Qed.

Lemma trim_eq_equal a : forall b, trim a = trim b <-> equal a b = true.
Proof.
  induction a as [|x a' IH]; intros b.
  - cbn [equal]. rewrite <- trim_nil_iff. cbn [trim]. split; auto.
  - destruct b as [|y b'].
    + cbn [equal]. rewrite <- trim_nil_iff. cbn [trim]. tauto.
    + cbn [equal]. rewrite andb_true_iff, <- IH, !trim_cons.
      destruct (N.eqb_spec x 0) as [->|Hx], (N.eqb_spec y 0) as [->|Hy]; cbn [andb];
        destruct (trim a') eqn:Ea, (trim b') eqn:Eb; split;
        try (intros [E1 E2]); try (intros E; inversion E; subst); try discriminate; try (split; auto; lia);
        try (f_equal; auto; lia); try lia; auto.
Qed.

Theorem key_spec a b : wf a -> wf b ->
  (key a = key b <-> forall q, is_set a q = is_set b q).
Proof. intros Ha Hb. unfold key. rewrite trim_eq_equal. apply equal_spec; auto. Qed.

(* ---------- refinement of the two-set machine to plain finite sets ---------- *)
Lemma smem_true l q : smem l q = true <-> In q l.
Proof.
  unfold smem. rewrite existsb_exists. split.
  - intros (x & Hx & E). apply N.eqb_eq in E. subst; auto.
  - intros H. exists q. split; auto. apply N.eqb_refl.
Qed.

Lemma ssub_iff l1 l2 : ssub l1 l2 = true <-> forall q, smem l1 q = true -> smem l2 q = true.
Proof.
  unfold ssub. rewrite forallb_forall. split.
  - intros H q Hq. apply H. apply smem_true; auto.
  - intros H x Hx. apply H. apply smem_true; auto.
Qed.

Lemma sdisj_iff l1 l2 : sdisj l1 l2 = true <-> forall q, smem l1 q = true -> smem l2 q = false.
Proof.
  unfold sdisj. rewrite forallb_forall. split.
  - intros H q Hq. apply smem_true in Hq. specialize (H q Hq). destruct (smem l2 q); auto; discriminate.
  - intros H x Hx. rewrite H; auto. apply smem_true; auto.
Qed.

Lemma sseteq_iff l1 l2 : sseteq l1 l2 = true <-> forall q, smem l1 q = smem l2 q.
Proof.
  unfold sseteq. rewrite andb_true_iff, !ssub_iff. split.
  - intros [H1 H2] q. destruct (smem l1 q) eqn:E1, (smem l2 q) eqn:E2; auto.
    + rewrite H1 in E2; auto.
    + rewrite H2 in E1; auto.
  - intros H. split; intros q Hq; [rewrite <- H|rewrite H]; auto.
Qed.

Lemma bool_eq_iff (x y : bool) : (x = true <-> y = true) -> x = y.
Proof. destruct x, y; intuition. Qed.

Lemma smem_cons p l q : smem (p :: l) q = (q =? p) || smem l q.
Proof. reflexivity. Qed.

Lemma smem_remove p l q : smem (filter (fun x => negb (x =? p)) l) q = negb (q =? p) && smem l q.
Proof.
  apply bool_eq_iff. rewrite andb_true_iff, !smem_true, filter_In, negb_true_iff.
  destruct (N.eqb_spec q p); intuition.
Qed.

Definition R1 (s : bitset) (l : sset) : Prop := wf s /\ forall q, is_set s q = smem l q.
Definition Rel (st : bitset * bitset) (sp : sset * sset) : Prop := R1 (fst st) (fst sp) /\ R1 (snd st) (snd sp).

(* Bits is compared as a set (the model additionally returns it strictly increasing); Key alone is unconstrained *)
Definition out_rel (o : op) (m s : out) : Prop :=
  match o with
  | Bits _ => exists l l', m = OList l /\ s = OList l' /\ StronglySorted N.lt l /\ forall q, In q l <-> In q l'
  | Key _ => True
  | _ => m = s
  end.

Fixpoint outs_rel (ops : list op) (ms ss : list out) : Prop :=
  match ops, ms, ss with
  | [], [], [] => True
  | o :: t, m :: mt, s :: st => out_rel o m s /\ outs_rel t mt st
  | _, _, _ => False
  end.

Lemma rel_sel st sp w : Rel st sp -> R1 (sel st w) (sel sp w) /\ R1 (oth st w) (oth sp w).
Proof. intros [H1 H2]. destruct w; cbn [sel oth]; auto. Qed.

Lemma rel_put st sp w s l : Rel st sp -> R1 s l -> Rel (put st w s) (put sp w l).
Proof. intros [H1 H2] H. destruct w; split; cbn [put fst snd]; auto. Qed.

Lemma R1_new (z : bool) : R1 (if z then zero_bitset else new_bitset) [].
Proof.
  destruct z; split; try (intros q; cbn [smem existsb]; auto using is_set_new, is_set_zero).
  - constructor.
  - constructor; [apply wfw_0|constructor].
Qed.

Lemma step_refines st sp o : Rel st sp ->
  Rel (fst (step st o)) (fst (spec_step sp o)) /\ out_rel o (snd (step st o)) (snd (spec_step sp o)).
Proof.
  intros HR. destruct o; cbn [step spec_step fst snd out_rel];
    try (destruct (rel_sel st sp w HR) as [[Hwa Ha] [Hwb Hb]]).
  - split; auto. apply rel_put; auto. split; [apply wf_set; auto|].
    intros q. rewrite is_set_set, smem_cons, Ha. reflexivity.
  - split; auto. apply rel_put; auto. split; [apply wf_clear; auto|].
    intros q. rewrite is_set_clear, smem_remove, Ha. reflexivity.
  - split; auto. rewrite Ha. reflexivity.
  - split; auto. eexists _, _. split; [reflexivity|]. split; [reflexivity|]. split; [apply bits_sorted|].
    intros q. rewrite in_bits, Ha. apply smem_true.
  - split; auto. f_equal. apply bool_eq_iff. rewrite equal_spec, sseteq_iff by auto.
    split; intros H q; specialize (H q); congruence.
  - split; auto. f_equal. apply bool_eq_iff. rewrite in_spec, ssub_iff by auto.
    split; intros H q; specialize (H q); rewrite ?Ha, ?Hb in *; auto.
  - split; auto. f_equal. apply bool_eq_iff. rewrite not_in_spec, sdisj_iff by auto.
    split; intros H q; specialize (H q); rewrite ?Ha, ?Hb in *; auto.
  - split; auto.
  - split; auto. destruct HR as [[Hwa Ha] [Hwb Hb]]. f_equal. apply bool_eq_iff.
    rewrite (list_eqb_eq N.eqb N.eqb_eq), key_spec, sseteq_iff by auto.
    split; intros H q; specialize (H q); congruence.
  - split; auto. apply rel_put; auto. split; auto.
  - split; auto. apply rel_put; auto. apply R1_new.
Qed.

Lemma run_refines ops : forall st sp, Rel st sp ->
  outs_rel ops (snd (run st ops)) (snd (spec_run sp ops)).
Proof.
  induction ops as [|o t IH]; intros st sp HR; cbn [run spec_run].
  - simpl. auto.
  - pose proof (step_refines st sp o HR) as [H1 H2].
    destruct (step st o) as [s1 x], (spec_step sp o) as [p1 y]. cbn [fst snd] in *.
    specialize (IH s1 p1 H1). destruct (run s1 t), (spec_run p1 t). cbn [snd outs_rel] in *. auto.
Qed.

(* C16_bitset_refines_set *)
Theorem bitset_refines_set : forall za zb ops,
  outs_rel ops (snd (run (init za zb) ops)) (snd (spec_run ([], []) ops)).
Proof.
  intros. apply run_refines. split; cbn [init fst snd]; apply R1_new.
Qed.

(* every reachable representation is well formed, so the representation-independence theorems apply *)
Lemma run_wf ops : forall st, wf (fst st) -> wf (snd st) -> wf (fst (fst (run st ops))) /\ wf (snd (fst (run st ops))).
Proof.
  induction ops as [|o t IH]; intros st Ha Hb; cbn [run]; auto.
  assert (H : wf (fst (fst (step st o))) /\ wf (snd (fst (step st o)))).
  { destruct o; cbn [step fst snd]; auto; destruct w; cbn [put sel fst snd negb]; auto using wf_set, wf_clear.
    - destruct zero; split; auto; repeat constructor; apply wfw_0.
    - destruct zero; split; auto; repeat constructor; apply wfw_0. }
  destruct (step st o) as [s1 x]. cbn [fst] in H. destruct H as [H1 H2].
  specialize (IH s1 H1 H2). destruct (run s1 t). auto.
Qed.

Theorem bitset_representation_independent : forall za zb ops,
  let st := fst (run (init za zb) ops) in
  let a := fst st in let b := snd st in
  (equal a b = true <-> forall q, is_set a q = is_set b q) /\
  (in_ a b = true <-> forall q, is_set b q = true -> is_set a q = true) /\
  (not_in a b = true <-> forall q, is_set b q = true -> is_set a q = false) /\
  (key a = key b <-> forall q, is_set a q = is_set b q).
Proof.
  intros za zb ops st a b.
  assert (H : wf a /\ wf b).
  { apply run_wf; destruct za, zb; cbn [init fst snd]; repeat constructor; apply wfw_0. }
  destruct H as [Ha Hb].
  split; [apply equal_spec; auto|]. split; [apply in_spec; auto|]. split; [apply not_in_spec; auto|].
  apply key_spec; auto.
Qed.
