(* MV.C16.MapX — association-list maps over Z keys, shared by the C16 container models.
   [mset] removes the key before consing, so keys stay pairwise distinct and [length] is the size. *)
From MV Require Import Lib.ListX.
Open Scope Z_scope.

Definition amap (V : Type) := list (Z * V).

Fixpoint mget {V} (k : Z) (m : amap V) : option V :=
  match m with
  | [] => None
  | (k', v) :: t => if k' =? k then Some v else mget k t
  end.

Definition mdel {V} (k : Z) (m : amap V) : amap V :=
  filter (fun p => negb (fst p =? k)) m.

Definition mset {V} (k : Z) (v : V) (m : amap V) : amap V := (k, v) :: mdel k m.

Definition mmem {V} (k : Z) (m : amap V) : bool :=
  match mget k m with Some _ => true | None => false end.

(* insertion sort of an association list by key: canonical form for comparison with Go map dumps *)
Fixpoint kins {V} (p : Z * V) (l : amap V) : amap V :=
  match l with
  | [] => [p]
  | q :: t => if fst p <=? fst q then p :: l else q :: kins p t
  end.
Fixpoint ksort {V} (l : amap V) : amap V :=
  match l with [] => [] | p :: t => kins p (ksort t) end.

(* ---------- lemmas ---------- *)

Lemma mget_mdel_same {V} k (m : amap V) : mget k (mdel k m) = None.
Proof.
  induction m as [|[k' v] t IH]; simpl; auto.
  destruct (Z.eqb_spec k' k); simpl; auto.
  destruct (Z.eqb_spec k' k); try contradiction; auto.
Qed.

Lemma mget_mdel_other {V} k k' (m : amap V) : k <> k' -> mget k' (mdel k m) = mget k' m.
Proof.
  intros Hn. induction m as [|[k2 v] t IH]; simpl; auto.
  destruct (Z.eqb_spec k2 k); simpl.
  - subst. destruct (Z.eqb_spec k k'); try contradiction; auto.
  - destruct (Z.eqb_spec k2 k'); auto.
Qed.

Lemma mget_mset_same {V} k (v : V) m : mget k (mset k v m) = Some v.
Proof. unfold mset; simpl. rewrite Z.eqb_refl. reflexivity. Qed.

Lemma mget_mset_other {V} k k' (v : V) m : k <> k' -> mget k' (mset k v m) = mget k' m.
Proof.
  intros Hn. unfold mset; simpl. destruct (Z.eqb_spec k k'); try contradiction.
  apply mget_mdel_other; auto.
Qed.

Lemma mget_In {V} k (v : V) m : mget k m = Some v -> In (k, v) m.
Proof.
  induction m as [|[k' v'] t IH]; simpl; try discriminate.
  destruct (Z.eqb_spec k' k); intros H.
  - inversion H; subst; auto.
  - right; auto.
Qed.

Lemma mget_None_notin {V} k (m : amap V) : mget k m = None <-> ~ In k (map fst m).
Proof.
  induction m as [|[k' v'] t IH]; simpl.
  - tauto.
  - destruct (Z.eqb_spec k' k); split; intros H; try discriminate.
    + exfalso; apply H; auto.
    + intros [E|E]; [contradiction|]. apply IH in H. contradiction.
    + apply IH. intros E; apply H; auto.
Qed.

Lemma In_mget_nodup {V} k (v : V) m : NoDup (map fst m) -> In (k, v) m -> mget k m = Some v.
Proof.
  induction m as [|[k' v'] t IH]; simpl; intros Hnd Hin; try contradiction.
  inversion Hnd as [|? ? Hni Hnd']; subst.
  destruct Hin as [E|Hin].
  - inversion E; subst. rewrite Z.eqb_refl. reflexivity.
  - destruct (Z.eqb_spec k' k).
    + subst. exfalso. apply Hni. change k with (fst (k, v)). apply in_map; auto.
    + apply IH; auto.
Qed.

Lemma mdel_keys_subset {V} k (m : amap V) x : In x (map fst (mdel k m)) -> In x (map fst m).
Proof.
  unfold mdel. rewrite !in_map_iff. intros (p & E & Hin). apply filter_In in Hin as [Hin _].
  exists p; auto.
Qed.

Lemma mdel_nodup {V} k (m : amap V) : NoDup (map fst m) -> NoDup (map fst (mdel k m)).
Proof.
  induction m as [|[k' v'] t IH]; simpl; intros Hnd; auto.
  inversion Hnd as [|? ? Hni Hnd']; subst.
  destruct (Z.eqb_spec k' k); simpl; auto.
  constructor; auto. intros Hin. apply Hni. eapply mdel_keys_subset; eauto.
Qed.

Lemma mset_nodup {V} k (v : V) m : NoDup (map fst m) -> NoDup (map fst (mset k v m)).
Proof.
  intros Hnd. unfold mset; simpl. constructor.
  - apply mget_None_notin. apply mget_mdel_same.
  - apply mdel_nodup; auto.
Qed.

Lemma mdel_absent {V} k (m : amap V) : mget k m = None -> mdel k m = m.
Proof.
  induction m as [|[k' v'] t IH]; simpl; auto.
  destruct (Z.eqb_spec k' k); try discriminate. simpl. intros H. f_equal; auto.
Qed.

Lemma mdel_length_present {V} k (m : amap V) v :
  NoDup (map fst m) -> mget k m = Some v -> S (length (mdel k m)) = length m.
Proof.
  induction m as [|[k' v'] t IH]; simpl; try discriminate.
  intros Hnd Hg. inversion Hnd as [|? ? Hni Hnd']; subst.
  destruct (Z.eqb_spec k' k); simpl.
  - subst. f_equal. f_equal. apply mdel_absent. apply mget_None_notin; auto.
  - f_equal. apply IH; auto.
Qed.
