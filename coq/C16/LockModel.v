(* MV.C16.LockModel — lock skeletons (tie T3).  translate/c16locks reads the CURRENT Go sources of
   SyncMap, OrderSync, SyncSlice, SyncPrioritySlice, MutexBucket and MutexBucketItem and emits, per method
   and per control-flow path, the sequence of lock operations, deferred unlocks, accesses to guarded fields
   and calls of the object's own locking methods.  This file defines what "well locked" means and the
   concurrent machine in which the generic consequences are proved (LockProofs.v).
   Owners are the textual lock owners of a path: "self" for the receiver, a variable name for a local
   object (the bucket item in MutexBucket).  A path may hold at most one lock at a time. *)
From MV Require Import Lib.ListX Lib.Sched.
From Coq Require Import String.
Open Scope Z_scope.

Inductive ev :=
| Lock (o : string) | RLock (o : string) | Unlock (o : string) | RUnlock (o : string)
| DeferUnlock (o : string) | DeferRUnlock (o : string)
| Acc (o f : string) (w : bool)        (* access to guarded field f of object o; w = write *)
| CallSelf (o m : string).             (* call of locking method m on the same object o *)

Record method := { mtype : string; mname : string; mpaths : list (list ev) }.

Inductive mode := MR | MW.
Definition lheld := option (string * mode).     (* the one lock a thread holds, if any *)

(* one flat event (no defer, no call): None = discipline violated *)
Definition step1 (h : lheld) (e : ev) : option lheld :=
  match e, h with
  | Lock o, None => Some (Some (o, MW))
  | RLock o, None => Some (Some (o, MR))
  | Unlock o, Some (o', MW) => if String.eqb o o' then Some None else None
  | RUnlock o, Some (o', MR) => if String.eqb o o' then Some None else None
  | Acc o _ w, Some (o', m) =>
      if String.eqb o o' && (negb w || match m with MW => true | MR => false end) then Some h else None
  | _, _ => None      (* locking while holding a lock (Go mutexes are not re-entrant; no nesting),
                         unlocking what is not held, access outside a critical section / in read mode *)
  end.

(* a flat event list is well locked from h if every event is allowed and nothing is held at the end *)
Fixpoint fwl (h : lheld) (p : list ev) : bool :=
  match p with
  | [] => match h with None => true | Some _ => false end
  | e :: t => match step1 h e with Some h' => fwl h' t | None => false end
  end.

(* a method path with defers and self calls: the deferred unlocks run LIFO at the return;
   a call of an own locking method is allowed only when no lock is held *)
Fixpoint wlr (h : lheld) (ds : list ev) (p : list ev) : bool :=
  match p with
  | [] => fwl h ds
  | DeferUnlock o :: t => wlr h (Unlock o :: ds) t
  | DeferRUnlock o :: t => wlr h (RUnlock o :: ds) t
  | CallSelf _ _ :: t => match h with None => wlr h ds t | Some _ => false end
  | e :: t => match step1 h e with Some h' => wlr h' ds t | None => false end
  end.

Definition path_ok (p : list ev) : bool := wlr None [] p.
Definition well_locked (m : method) : bool := forallb path_ok (mpaths m).

(* what a path executes: own events in order, then the deferred unlocks; self calls are separate blocks *)
Fixpoint flatten (ds : list ev) (p : list ev) : list ev :=
  match p with
  | [] => ds
  | DeferUnlock o :: t => flatten (Unlock o :: ds) t
  | DeferRUnlock o :: t => flatten (RUnlock o :: ds) t
  | CallSelf _ _ :: t => flatten ds t
  | e :: t => e :: flatten ds t
  end.

Definition all_paths (ms : list method) : list (list ev) := List.concat (map mpaths ms).

(* ---------- the concurrent machine: any number of threads, each a finite sequence of flat events ---------- *)
(* lock table: per owner, number of writers (0/1) and of readers *)
Definition ltable := string -> Z * Z.
Definition free_table : ltable := fun _ => (0, 0).
Definition set_tab (s : ltable) (o : string) (v : Z * Z) : ltable :=
  fun x => if String.eqb x o then v else s x.

(* ghost bookkeeping of what a thread holds (total: the machine itself never consults the discipline) *)
Definition ghost (h : lheld) (e : ev) : lheld :=
  match e with
  | Lock o => Some (o, MW)
  | RLock o => Some (o, MR)
  | Unlock _ | RUnlock _ => None
  | _ => h
  end.

Definition cont (h' : lheld) (t : list ev) : option (lheld * list ev) :=
  match t with [] => None | _ => Some (h', t) end.

Definition lstep (s : ltable) (l : lheld * list ev) (_ : unit)
  : option (ltable * option (lheld * list ev) * list (lheld * list ev) * ev) :=
  match l with
  | (_, []) => None
  | (h, e :: t) =>
      let c := cont (ghost h e) t in
      let '(w, r) := match e with Lock o | RLock o | Unlock o | RUnlock o => s o | _ => (0, 0) end in
      match e with
      | Lock o => if (w =? 0) && (r =? 0) then Some (set_tab s o (w + 1, r), c, [], e) else None   (* blocks *)
      | RLock o => if w =? 0 then Some (set_tab s o (w, r + 1), c, [], e) else None                (* blocks *)
      | Unlock o => Some (set_tab s o (w - 1, r), c, [], e)
      | RUnlock o => Some (set_tab s o (w, r - 1), c, [], e)
      | _ => Some (s, c, [], e)
      end
  end.

Definition LM : machine :=
  {| shared := ltable; local := lheld * list ev; choice := unit; Sched.ev := ev; tstep := lstep |}.

(* a thread runs a sequence of method paths *)
Definition program (paths : list (list ev)) : list ev := List.concat (map (flatten []) paths).
Definition thread_of (paths : list (list ev)) : option (lheld * list ev) :=
  match program paths with [] => None | p => Some (None, p) end.
Definition init_state (threads : list (list (list ev))) : state LM := (free_table, map thread_of threads).
