(* MV.C16.AtomicModel — "one atomic step of the model = one critical section of the code" (tie T3, second
   obligation).  The sequential models of the synchronized containers (MapsModel, PrioModel) treat every
   exported method as ONE atomic step.  [well_locked] (LockModel.v) only says that every access to a guarded
   field is inside SOME critical section of the right mode; a method that reads under one section and acts
   on what it read under a later one (check-then-act, lock "upgrade" RLock -> Lock) is well locked and not
   atomic.  This file defines, on the same lock skeletons,
     - [sections p]: the critical sections / calls of locking methods that a path executes, in order;
     - [atomic_path p]: nothing at all, or one call of a locking method of the own object, or exactly one
       critical section (a read section containing reads only);
     - [multi_step]: the methods of the current sources that consist of several critical sections, each with
       the exact shape its paths may have (never a blanket exemption: any other shape of such a method is
       rejected too).  GetOrSet and Appends are legitimate: their several-step behaviour is modelled below
       and proved in AtomicProofs.v.  MutexBucket.Len / Clear are a listed defect whose shape is pinned;
     - [step_ok m]: every path of m is atomic or has the shape declared for m.
   translate/c16locks generates [Lemma extracted_atomic_steps : forallb step_ok methods = true] from the
   current sources on every run.
   No proofs here. *)
From MV Require Import Lib.ListX C16.MapX C16.LockModel C16.MapsModel C16.PrioModel.
From Coq Require Import String.
Open Scope string_scope.

(* what a path executes, the calls of own locking methods kept: own events in order, then the deferred
   unlocks (LIFO) *)
Fixpoint flatc (ds : list ev) (p : list ev) : list ev :=
  match p with
  | [] => ds
  | DeferUnlock o :: t => flatc (Unlock o :: ds) t
  | DeferRUnlock o :: t => flatc (RUnlock o :: ds) t
  | e :: t => e :: flatc ds t
  end.

Definition accs := list (string * bool).        (* (field, write) in program order *)

Inductive sec :=
| Sec (o : string) (m : mode) (a : accs)   (* a complete critical section of o's lock in mode m with its accesses *)
| Call (o c : string)                      (* a call of locking method c of object o: that method's own section(s) *)
| Stray.                                   (* anything else: access outside a section or to another owner, lock taken
                                              inside a section, unmatched unlock, call inside a section, section left open *)

Definition lock_ev (o : string) (m : mode) : ev := match m with MW => Lock o | MR => RLock o end.
Definition unlock_ev (o : string) (m : mode) : ev := match m with MW => Unlock o | MR => RUnlock o end.
Definition acc_ev (o : string) (x : string * bool) : ev := Acc o (fst x) (snd x).

Fixpoint secs (cur : option (string * mode * accs)) (p : list ev) : list sec :=
  match p with
  | [] => match cur with None => [] | Some _ => [Stray] end
  | e :: t =>
      match cur, e with
      | None, Lock o => secs (Some (o, MW, [])) t
      | None, RLock o => secs (Some (o, MR, [])) t
      | None, CallSelf o c => Call o c :: secs None t
      | Some (o, MW, a), Unlock o' => if String.eqb o o' then Sec o MW a :: secs None t else Stray :: secs None t
      | Some (o, MR, a), RUnlock o' => if String.eqb o o' then Sec o MR a :: secs None t else Stray :: secs None t
      | Some (o, m, a), Acc o' f w =>
          if String.eqb o o' then secs (Some (o, m, (a ++ [(f, w)])%list)) t else Stray :: secs cur t
      | _, _ => Stray :: secs cur t
      end
  end.

Definition sections (p : list ev) : list sec := secs None (flatc [] p).

Definition reads_only (a : accs) : bool := forallb (fun x => negb (snd x)) a.

Definition atomic_path (p : list ev) : bool :=
  match sections p with
  | [] => true
  | [Sec _ MW _] => true
  | [Sec _ MR a] => reads_only a
  | [Call _ _] => true
  | _ => false
  end.

(* ---------- methods declared to be several atomic steps, with the only shapes they may have ---------- *)
Definition is_rsec (o : string) (s : sec) : bool :=
  match s with Sec o' MR a => String.eqb o o' && reads_only a | _ => false end.
Definition is_wsec (o : string) (s : sec) : bool :=
  match s with Sec o' MW _ => String.eqb o o' | _ => false end.
Definition is_call (o c : string) (s : sec) : bool :=
  match s with Call o' c' => String.eqb o o' && String.eqb c c' | _ => false end.
(* double-checked write section: it starts by RE-READING field f (the check is repeated under the write lock) *)
Definition is_rechecking_wsec (o f : string) (s : sec) : bool :=
  match s with
  | Sec o' MW ((f', false) :: _) => String.eqb o o' && String.eqb f f'
  | _ => false
  end.

Definition multi_step (typ name : string) : option (list sec -> bool) :=
  if String.eqb typ "MutexBucketItem" && String.eqb name "GetOrSet" then
    (* double-checked locking: a read section (read-only), then a write section that re-reads kv first.
       Modelled as two steps below ([gos_run]); theorem AtomicProofs.get_or_set_linearizes *)
    Some (fun s => match s with
                   | [a] => is_rsec "self" a
                   | [a; b] => is_rsec "self" a && is_rechecking_wsec "self" "kv" b
                   | _ => false
                   end)
  else if String.eqb typ "SyncPrioritySlice" && String.eqb name "Appends" then
    (* Append, ..., Append (each an atomic step of its own), then one write section (the final sort).
       Modelled as [appends_run]; theorem AtomicProofs.appends_is_appends *)
    Some (fun s => match rev s with
                   | b :: calls => is_wsec "self" b && forallb (is_call "self" "Append") calls
                   | [] => false
                   end)
  else if String.eqb typ "MutexBucket" && String.eqb name "Len" then
    (* AS FOUND, not legitimate: one read-only section per bucket, each on the bucket's own lock — a sum of
       per-bucket snapshots, NOT a snapshot of the whole map.  Open finding C16-mutexbucket-len-not-atomic
       (known_findings.json), reproduced by the regular concurrent rounds of harness/cmd/c16conc.  The entry pins
       the shape of the defect so that it is reported once (KNOWN-FINDING) and any other shape is a new broken
       obligation; it claims nothing about atomicity (docs/C16-NOTES.md) *)
    Some (forallb (is_rsec "bucket"))
  else if String.eqb typ "MutexBucket" && String.eqb name "Clear" then
    (* AS FOUND, same open finding: one write section per bucket — each bucket is cleared atomically, the map
       as a whole is not *)
    Some (forallb (is_wsec "bucket"))
  else None.

Definition path_step_ok (typ name : string) (p : list ev) : bool :=
  atomic_path p || match multi_step typ name with Some shape => shape (sections p) | None => false end.

Definition step_ok (m : method) : bool := forallb (path_step_ok (mtype m) (mname m)) (mpaths m).

(* the form that [atomic_path] guarantees (AtomicProofs.atomic_path_one_section) *)
Definition one_section (f : list ev) : Prop :=
  f = [] \/
  (exists o c, f = [CallSelf o c]) \/
  (exists o m a, f = (lock_ev o m :: map (acc_ev o) a ++ [unlock_ev o m])%list /\ (m = MR -> reads_only a = true)).

(* ---------- the declared multi-step methods as several atomic steps ---------- *)
Open Scope Z_scope.

(* MutexBucketItem.GetOrSet: block 1 (RLock) looks the key up in the map as it is THEN (m1); when absent,
   block 2 (Lock) runs on the map as it is LATER (m2, any other threads having run in between): it looks
   the key up AGAIN and only then stores.  Result: final map (None = block 2 did not run, map untouched),
   value, existed. *)
Definition gos_run (m1 m2 : amap Z) (k v : Z) : option (amap Z) * Z * bool :=
  match mget k m1 with
  | Some x => (None, x, true)
  | None =>
      match mget k m2 with
      | Some x => (Some m2, x, true)
      | None => (Some (mset k v m2), v, false)
      end
  end.

(* the same WITHOUT the re-check in block 2 (the shape [is_rechecking_wsec] rejects): *)
Definition gos_run_unchecked (m1 m2 : amap Z) (k v : Z) : option (amap Z) * Z * bool :=
  match mget k m1 with
  | Some x => (None, x, true)
  | None => (Some (mset k v m2), v, false)
  end.

(* SyncPrioritySlice.Appends(p, vs): one Append step per value, other threads' steps in between (each
   [env] maps the slice to what the other threads made of it, preserving nothing but its being a state of
   the model), then the final sort as a step of its own. *)
Definition append_step (s : list item) (v p : Z) : list item := fst (PrioModel.step s (Append v p)).
Definition sort_step (s : list item) : list item := psort s.

(* OrderSync.Del split over two critical sections (the rejected check-then-act shape): the position is read
   from o1, the swap-delete is done on o2 with that stale position. *)
Definition del_stale (o1 o2 : Order.order) (k : Z) : Order.order :=
  match mget k (Order.idx o1) with
  | None => o2
  | Some i =>
      let n := List.length (Order.value o2) in
      let '(val1, idx1) :=
        if (i <? n - 1)%nat then
          let last := nth (n - 1) (Order.value o2) (0, 0) in
          (upd i last (Order.value o2), mset (fst last) i (Order.idx o2))
        else (Order.value o2, Order.idx o2) in
      {| Order.idx := mdel k idx1; Order.value := firstn (n - 1) val1 |}
  end.
