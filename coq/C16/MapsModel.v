(* MV.C16.MapsModel — executable models of
     mappings.Order / OrderSync   (module Order:  idx map + dense entry slice with swap-delete),
     mappings.Bucket / MutexBucket (module Bucket: slice of per-hash maps; hash = key mod size in the harness),
     mappings.SyncMap             (module SMap:   one map; DeleteExist as REPAIRED by
                                   fixes/C16-syncmap-deleteexist-double-unlock.patch, i.e. returning false
                                   for an absent key instead of unlocking twice and killing the process),
     listings.SyncSlice           (module SSlice: one slice).
   Keys and values are int64 (Z).  The locks are the subject of LockModel.v, not of these sequential models.
   No proofs here. *)
From MV Require Import Lib.ListX C16.MapX.
Open Scope Z_scope.

(* =============================== Order =============================== *)
Module Order.

Record order := { idx : amap nat; value : list (Z * Z) }.
Definition empty : order := {| idx := []; value := [] |}.

Inductive op := Get (k : Z) | Add (k v : Z) | Set_ (k v : Z) | Len | Del (k : Z) | Range (stop : nat).
(* Range n: the handle returns false at its n-th call (n = 0: never) *)

Inductive out := OUnit | OGet (r : option Z) | OLen (n : nat) | OPairs (l : list (Z * Z)) | OBad.

Definition add (o : order) (k v : Z) : order :=
  match mget k (idx o) with
  | Some _ => o
  | None => {| idx := mset k (length (value o)) (idx o); value := value o ++ [(k, v)] |}
  end.

Definition del (o : order) (k : Z) : order :=
  match mget k (idx o) with
  | None => o
  | Some i =>
      let n := length (value o) in
      let '(val1, idx1) :=
        if (i <? n - 1)%nat then
          let last := nth (n - 1) (value o) (0, 0) in
          (upd i last (value o), mset (fst last) i (idx o))
        else (value o, idx o) in
      {| idx := mdel k idx1; value := firstn (n - 1) val1 |}
  end.

Definition step (o : order) (x : op) : order * out :=
  match x with
  | Get k => (o, OGet (match mget k (idx o) with Some i => Some (snd (nth i (value o) (0, 0))) | None => None end))
  | Add k v => (add o k v, OUnit)
  | Set_ k v =>
      match mget k (idx o) with
      | None => (add o k v, OUnit)
      | Some i => ({| idx := idx o; value := upd i (fst (nth i (value o) (0, 0)), v) (value o) |}, OUnit)
      end
  | Len => (o, OLen (length (value o)))
  | Del k => (del o k, OUnit)
  | Range n => (o, OPairs (if (n =? 0)%nat then value o else firstn n (value o)))
  end.

Fixpoint run (o : order) (ops : list op) : order * list out :=
  match ops with
  | [] => (o, [])
  | x :: t => let '(o1, y) := step o x in let '(o2, ys) := run o1 t in (o2, y :: ys)
  end.

(* specification: the entry list alone, every lookup by linear search *)
Fixpoint find_pos (k : Z) (l : list (Z * Z)) : option nat :=
  match l with
  | [] => None
  | (k', _) :: t => if k' =? k then Some O else option_map S (find_pos k t)
  end.

Definition spec_step (l : list (Z * Z)) (x : op) : list (Z * Z) * out :=
  match x with
  | Get k => (l, OGet (match find_pos k l with Some i => Some (snd (nth i l (0, 0))) | None => None end))
  | Add k v => (match find_pos k l with Some _ => l | None => l ++ [(k, v)] end, OUnit)
  | Set_ k v => (match find_pos k l with Some i => upd i (k, v) l | None => l ++ [(k, v)] end, OUnit)
  | Len => (l, OLen (length l))
  | Del k =>
      (match find_pos k l with
       | None => l
       | Some i => firstn (length l - 1) (upd i (nth (length l - 1) l (0, 0)) l)    (* swap-delete *)
       end, OUnit)
  | Range n => (l, OPairs (if (n =? 0)%nat then l else firstn n l))
  end.

Fixpoint spec_run (l : list (Z * Z)) (ops : list op) : list (Z * Z) * list out :=
  match ops with
  | [] => (l, [])
  | x :: t => let '(l1, y) := spec_step l x in let '(l2, ys) := spec_run l1 t in (l2, y :: ys)
  end.

End Order.

(* =============================== Bucket =============================== *)
Module Bucket.

Definition buckets := list (amap Z).
Definition new (size : nat) : buckets := repeat [] size.
Definition hash (size : nat) (k : Z) : nat := Z.to_nat (k mod Z.of_nat size).

Inductive op :=
| Get (k : Z) | Set_ (k v : Z) | Del (k : Z) | Len | Clear
| ItemGet (k : Z) | ItemGetOrSet (k v : Z) | ItemGetAndDel (k : Z) | ItemNoLockGetAndDel (k : Z).
(* Item*: b.GetBucket(k).<method>(k, ...) — MutexBucket only *)

Inductive out := OUnit | OGet (r : option Z) | OLen (n : nat) | OGetSet (v : Z) (existed : bool) | OBad.

Definition bget (b : buckets) (k : Z) : option Z := mget k (nth (hash (length b) k) b []).
Definition bset (b : buckets) (k v : Z) : buckets :=
  let h := hash (length b) k in upd h (mset k v (nth h b [])) b.
Definition bdel (b : buckets) (k : Z) : buckets :=
  let h := hash (length b) k in upd h (mdel k (nth h b [])) b.
Definition blen (b : buckets) : nat := fold_right (fun m acc => (length m + acc)%nat) O b.

Definition step (b : buckets) (x : op) : buckets * out :=
  match x with
  | Get k | ItemGet k => (b, OGet (bget b k))
  | Set_ k v => (bset b k v, OUnit)
  | Del k => (bdel b k, OUnit)
  | Len => (b, OLen (blen b))
  | Clear => (map (fun _ => []) b, OUnit)
  | ItemGetOrSet k v =>
      match bget b k with
      | Some x => (b, OGetSet x true)
      | None => (bset b k v, OGetSet v false)
      end
  | ItemGetAndDel k | ItemNoLockGetAndDel k => (bdel b k, OGet (bget b k))
  end.

Fixpoint run (b : buckets) (ops : list op) : buckets * list out :=
  match ops with
  | [] => (b, [])
  | x :: t => let '(b1, y) := step b x in let '(b2, ys) := run b1 t in (b2, y :: ys)
  end.

(* specification: one plain map *)
Definition spec_step (m : amap Z) (x : op) : amap Z * out :=
  match x with
  | Get k | ItemGet k => (m, OGet (mget k m))
  | Set_ k v => (mset k v m, OUnit)
  | Del k => (mdel k m, OUnit)
  | Len => (m, OLen (length m))
  | Clear => ([], OUnit)
  | ItemGetOrSet k v =>
      match mget k m with
      | Some x => (m, OGetSet x true)
      | None => (mset k v m, OGetSet v false)
      end
  | ItemGetAndDel k | ItemNoLockGetAndDel k => (mdel k m, OGet (mget k m))
  end.

Fixpoint spec_run (m : amap Z) (ops : list op) : amap Z * list out :=
  match ops with
  | [] => (m, [])
  | x :: t => let '(m1, y) := spec_step m x in let '(m2, ys) := spec_run m1 t in (m2, y :: ys)
  end.

End Bucket.

(* =============================== SyncMap =============================== *)
Module SMap.

Inductive op :=
| Set_ (k v : Z) | Get (k : Z) | Exist (k : Z) | GetExist (k : Z) | Delete (k : Z) | DeleteGet (k : Z)
| DeleteGetExist (k : Z) | DeleteExist (k : Z) | Clear | ClearHandle | RangeAll | Keys | Slice | Map | Size
| AtomSet (k v : Z).     (* Atom(func(m){ m[k] = v }) *)

Inductive out :=
| OUnit | OVal (v : Z) | OBool (b : bool) | OValBool (v : Z) (b : bool) | OLen (n : nat)
| OPairs (l : list (Z * Z))    (* sorted by key: Go map iteration order is not observable *)
| OList (l : list Z)           (* sorted *)
| OBad.

Definition zero_or (r : option Z) : Z := match r with Some v => v | None => 0 end.

(* insertion sort on Z for the canonical form of Slice() *)
Fixpoint zins (x : Z) (l : list Z) : list Z :=
  match l with [] => [x] | y :: t => if x <=? y then x :: l else y :: zins x t end.
Fixpoint zsort (l : list Z) : list Z := match l with [] => [] | x :: t => zins x (zsort t) end.

Definition step (m : amap Z) (x : op) : amap Z * out :=
  match x with
  | Set_ k v | AtomSet k v => (mset k v m, OUnit)
  | Get k => (m, OVal (zero_or (mget k m)))
  | Exist k => (m, OBool (mmem k m))
  | GetExist k => (m, OValBool (zero_or (mget k m)) (mmem k m))
  | Delete k => (mdel k m, OUnit)
  | DeleteGet k => (mdel k m, OVal (zero_or (mget k m)))
  | DeleteGetExist k => (mdel k m, OValBool (zero_or (mget k m)) (mmem k m))
  | DeleteExist k => (mdel k m, OBool (mmem k m))
  | Clear => ([], OUnit)
  | ClearHandle => ([], OPairs (ksort m))
  | RangeAll | Map => (m, OPairs (ksort m))
  | Keys => (m, OList (zsort (map fst m)))
  | Slice => (m, OList (zsort (map snd m)))
  | Size => (m, OLen (length m))
  end.

Fixpoint run (m : amap Z) (ops : list op) : amap Z * list out :=
  match ops with
  | [] => (m, [])
  | x :: t => let '(m1, y) := step m x in let '(m2, ys) := run m1 t in (m2, y :: ys)
  end.

End SMap.

(* =============================== SyncSlice =============================== *)
Module SSlice.

Inductive op :=
| Get (i : Z) | GetRange (s e : Z) | Set_ (i v : Z) | Append (vs : list Z) | Release | Clear | GetData.

Inductive out := OUnit | OVal (v : Z) | OList (l : list Z) | OPanic | OBad.

(* capacity is not modelled: GetWithRange(s, e) with len < e <= cap (Go re-slicing into spare capacity) is
   outside the model and is never generated; e > len is reported as OPanic here *)
Definition in_range (l : list Z) (i : Z) : bool := (0 <=? i) && (i <? Z.of_nat (length l)).

Definition step (l : list Z) (x : op) : list Z * out :=
  match x with
  | Get i => (l, if in_range l i then OVal (nth (Z.to_nat i) l 0) else OPanic)
  | GetRange s e =>
      (l, if (0 <=? s) && (s <=? e) && (e <=? Z.of_nat (length l))
          then OList (firstn (Z.to_nat (e - s)) (skipn (Z.to_nat s) l)) else OPanic)
  | Set_ i v => if in_range l i then (upd (Z.to_nat i) v l, OUnit) else (l, OPanic)
  | Append vs => (l ++ vs, OUnit)
  | Release | Clear => ([], OUnit)
  | GetData => (l, OList l)
  end.

Fixpoint run (l : list Z) (ops : list op) : list Z * list out :=
  match ops with
  | [] => (l, [])
  | x :: t => let '(l1, y) := step l x in let '(l2, ys) := run l1 t in (l2, y :: ys)
  end.

End SSlice.
