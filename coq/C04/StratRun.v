(* MV.C04.StratRun — evaluation of recorded runs of the real strategy layer against MV.C04.StratModel (tie T1).
   A case = configuration of the ONE strategy instance, the decider as a table (per victim: directive by accident
   count, the last entry repeats), the operation sequence with the oracle delay of every failure, and what the
   harness observed: per operation the calls received by the fake Supervisor (virtual time, testing/synctest;
   calls of one operation listed in the order in which the timers were created) and the victim's
   AccidentCount() after the operation. *)
From Coq Require Import ZArith List Bool Uint63.
From MV Require Import Lib.ListX C04.StratModel.
Open Scope Z_scope.

(* literals: primitive-integer literals are parsed natively (much faster than decimal Z / unary nat literals) *)
Definition zi (n : int) : Z := Uint63.to_Z n.
Definition zn (n : int) : Z := - Uint63.to_Z n.
Definition ni (n : int) : nat := Z.to_nat (Uint63.to_Z n).
Arguments zi n%uint63.
Arguments zn n%uint63.
Arguments ni n%uint63.

Record case := {
  cid : nat; ccfg : cfg;
  ctab : list (list directive);
  cops : list op;
  iobs : list (list call);   (* per operation *)
  icnt : list Z }.           (* per operation: AccidentCount() of the operation's victim afterwards; Advance: 0 *)

(* the harness's decider: row of the victim, entry count-1, the last entry repeats, an empty row is Restart *)
Definition dec_of_table (tab : list (list directive)) : decider := fun v c =>
  match nth_error tab v with
  | None => DRestart
  | Some row => nth (Z.to_nat (c - 1)) row (last row DRestart)
  end.

Fixpoint trace (cf : cfg) (dec : decider) (s : state) (ops : list op) : list (list call) :=
  match ops with
  | [] => []
  | o :: t => out cf dec s o :: trace cf dec (next cf dec s o) t
  end.

Fixpoint counts (cf : cfg) (dec : decider) (s : state) (ops : list op) : list Z :=
  match ops with
  | [] => []
  | o :: t => let s' := next cf dec s o in
              match o with Fail v _ | Solved v => cnt s' v | Advance _ => 0 end :: counts cf dec s' t
  end.

Definition ckind_eqb (a b : ckind) : bool :=
  match a, b with
  | KRestart, KRestart | KStop, KStop | KResume, KResume | KEscalate, KEscalate | KPanic, KPanic => true
  | _, _ => false
  end.

Definition call_eqb (a b : call) : bool :=
  match a, b with
  | Call k v t, Call k' v' t' => ckind_eqb k k' && Nat.eqb v v' && (t =? t')
  | _, _ => false   (* CBad equals nothing *)
  end.

Definition case_ok (c : case) : bool :=
  let dec := dec_of_table (ctab c) in
  oracle_ok (ccfg c) dec (cops c)
  && list_eqb (list_eqb call_eqb) (trace (ccfg c) dec init (cops c)) (iobs c)
  && list_eqb Z.eqb (counts (ccfg c) dec init (cops c)) (icnt c).

Definition mismatches (cs : list case) : list nat := fail_ids case_ok cid cs.
