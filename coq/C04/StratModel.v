(* MV.C04.StratModel — executable model of the supervision STRATEGY layer of engine/vivid/supervision:
   one_for_one.go (oneForOne.OnPolicyDecision), accident_state.go (Record / Solved / AccidentCount),
   restart_strategy.go, stop_strategy.go, resume_strategy.go (the canned strategies), directive.go, and
   their use of time.AfterFunc.  (The kernel model MV.Kernel, used by the other theorems of C04, treats
   directives as immediate and scripted; this file is the part it leaves out.)

   What is a state: ONE strategy instance that serves any number of victims (the guard owns one OneForOne for
   all top-level actors; a parent that embeds a Strategy shares it between its children), per victim the
   number of accidents recorded since the last Solved (len(accidentTimes)), and the multiset of restart
   timers started with time.AfterFunc that have not fired yet, each (victim, due time), in creation order.

   Operations (what the kernel does to this layer):
     Fail v d   ctx.accidentState.Record(); strategy.OnPolicyDecision(record) for victim v.
                d is an ORACLE input: the value chrono.StandardExponentialBackoff returned for this record
                (its value is property C18's business; [adm] below is its contract, checked on every run).
     Solved v   ctx.accidentState.Solved() (a successful OnLaunch).
     Advance d  virtual time passes; every timer that is due fires and calls Supervisor.Restart(victim).
   Output: the calls received by the Supervisor, each with the (virtual) time at which it was made. *)
From Coq Require Import ZArith List Bool.
From MV Require Import Lib.ListX.
Open Scope Z_scope.

Inductive directive := DStop | DRestart | DResume | DEscalate
                     | DInvalid.   (* any other value of the uint8: OnPolicyDecision panics *)

Inductive skind := OneForOne | CannedRestart | CannedStop | CannedResume.

(* OneForOne(restartCount, baseDelay, maxDelay, decide); the three numbers are ignored by the canned strategies *)
Record cfg := { kind : skind; limit : Z; base : Z; mx : Z }.

(* decide.Decide(record): the victim and the AccidentCount of the record's state are what it may depend on *)
Definition decider := nat -> Z -> directive.

Inductive ckind := KRestart | KStop | KResume | KEscalate
                 | KPanic.   (* not a Supervisor call: OnPolicyDecision panicked ("not support directive") *)

Inductive call := Call (k : ckind) (v : nat) (t : Z)
                | CBad.      (* never produced by the model: unrepresentable implementation output *)

Inductive op := Fail (v : nat) (d : Z) | Solved (v : nat) | Advance (d : Z).

Record state := { now : Z; cnt : nat -> Z; timers : list (nat * Z) }.

Definition init : state := {| now := 0; cnt := fun _ => 0; timers := [] |}.

Definition setc (f : nat -> Z) (v : nat) (c : Z) : nat -> Z := fun w => if Nat.eqb w v then c else f w.

(* what OnPolicyDecision does with a record: a Supervisor call made before it returns, or time.AfterFunc(d, Restart) *)
Inductive effect := ESync (k : ckind) | ETimer (d : Z).

(* one_for_one.go:28-47; c = record.State.AccidentCount(), d = StandardExponentialBackoff(c, restartCount, base, max) *)
Definition one_for_one (dec : decider) (v : nat) (c d : Z) : effect :=
  match dec v c with
  | DRestart => if d =? -1 then ESync KStop else ETimer d
  | DStop => ESync KStop
  | DEscalate => ESync KEscalate
  | DResume => ESync KResume
  | DInvalid => ESync KPanic
  end.

Definition on_decision (cf : cfg) (dec : decider) (v : nat) (c d : Z) : effect :=
  match kind cf with
  | OneForOne => one_for_one dec v c d
  | CannedRestart => ESync KRestart
  | CannedStop => ESync KStop
  | CannedResume => ESync KResume
  end.

Definition due_now (T : Z) (p : nat * Z) : bool := snd p <=? T.
Definition restart_call (p : nat * Z) : call := Call KRestart (fst p) (snd p).

(* the timers that fire when the clock reaches T (each at its own due time; listed in creation order) *)
Definition fired (T : Z) (tm : list (nat * Z)) : list call := map restart_call (filter (due_now T) tm).
Definition pending (T : Z) (tm : list (nat * Z)) : list (nat * Z) := filter (fun p => negb (due_now T p)) tm.

(* state after one operation.  time.AfterFunc(d <= 0) fires at once: that Restart is part of the Fail step *)
Definition next (cf : cfg) (dec : decider) (s : state) (o : op) : state :=
  match o with
  | Solved v => {| now := now s; cnt := setc (cnt s) v 0; timers := timers s |}
  | Advance d => let T := now s + Z.max 0 d in
                 {| now := T; cnt := cnt s; timers := pending T (timers s) |}
  | Fail v d =>
      let c := cnt s v + 1 in
      {| now := now s; cnt := setc (cnt s) v c;
         timers := match on_decision cf dec v c d with
                   | ETimer dd => if dd <=? 0 then timers s else timers s ++ [(v, now s + dd)]
                   | ESync _ => timers s
                   end |}
  end.

(* Supervisor calls made during one operation *)
Definition out (cf : cfg) (dec : decider) (s : state) (o : op) : list call :=
  match o with
  | Solved _ => []
  | Advance d => fired (now s + Z.max 0 d) (timers s)
  | Fail v d =>
      match on_decision cf dec v (cnt s v + 1) d with
      | ESync k => [Call k v (now s)]
      | ETimer dd => if dd <=? 0 then [Call KRestart v (now s)] else []
      end
  end.

Fixpoint exec (cf : cfg) (dec : decider) (s : state) (ops : list op) : state :=
  match ops with
  | [] => s
  | o :: t => exec cf dec (next cf dec s o) t
  end.

Fixpoint calls (cf : cfg) (dec : decider) (s : state) (ops : list op) : list call :=
  match ops with
  | [] => []
  | o :: t => out cf dec s o ++ calls cf dec (next cf dec s o) t
  end.

(* ---- contract of the oracle (chrono.StandardExponentialBackoff(count, limit, base, max), exponential_backoff.go:29-31):
   -1 exactly when a limit is set and the count exceeds it; otherwise a delay in [0, max] (0 when base <= 0).
   This is what C18 proves of the back-off model (C18_backoff_minus_one_iff, C18_backoff_bounds). *)
Definition over_limit (cf : cfg) (c : Z) : bool := (limit cf >? -1) && (c >? limit cf).

Definition adm (cf : cfg) (c d : Z) : bool :=
  if over_limit cf c then d =? -1
  else (0 <=? d) && (d <=? Z.max 0 (mx cf)) && (negb (base cf <=? 0) || (d =? 0)).

(* the oracle value of a Fail matters only where the code consults the back-off: OneForOne deciding Restart *)
Definition op_ok (cf : cfg) (dec : decider) (s : state) (o : op) : bool :=
  match o with
  | Fail v d => match kind cf, dec v (cnt s v + 1) with
                | OneForOne, DRestart => adm cf (cnt s v + 1) d
                | _, _ => true
                end
  | _ => true
  end.

Fixpoint ops_ok (cf : cfg) (dec : decider) (s : state) (ops : list op) : bool :=
  match ops with
  | [] => true
  | o :: t => op_ok cf dec s o && ops_ok cf dec (next cf dec s o) t
  end.

Definition oracle_ok (cf : cfg) (dec : decider) (ops : list op) : bool := ops_ok cf dec init ops.

(* ---- vocabulary of the specification: everything below is a function of the operation sequence alone *)

(* virtual time after the operations *)
Definition clock (ops : list op) : Z :=
  fold_left (fun t o => match o with Advance d => t + Z.max 0 d | _ => t end) ops 0.

(* failures of v since its last Solved *)
Definition streak (v : nat) (ops : list op) : Z :=
  fold_left (fun c o => match o with
                        | Fail w _ => if Nat.eqb w v then c + 1 else c
                        | Solved w => if Nat.eqb w v then 0 else c
                        | Advance _ => c
                        end) ops 0.

(* v's own operations (and the passing of time) *)
Definition concerns (v : nat) (o : op) : bool :=
  match o with Fail w _ | Solved w => Nat.eqb w v | Advance _ => true end.

Definition about (v : nat) (c : call) : bool :=
  match c with Call _ w _ => Nat.eqb w v | CBad => false end.

Definition timer_of (v : nat) (p : nat * Z) : bool := Nat.eqb (fst p) v.

(* the directive that is due for the failure [Fail v d] that follows the operations [pre]:
   a restart of v at a certain time, or a call to be made at once *)
Inductive due := DueRestart (at_ : Z) | DueCall (k : ckind).

Definition decided (cf : cfg) (dec : decider) (pre : list op) (v : nat) (d : Z) : due :=
  let c := streak v pre + 1 in
  let t := clock pre in
  match kind cf with
  | CannedRestart => DueRestart t
  | CannedStop => DueCall KStop
  | CannedResume => DueCall KResume
  | OneForOne =>
      match dec v c with
      | DRestart => if over_limit cf c then DueCall KStop else DueRestart (t + d)
      | DStop => DueCall KStop
      | DEscalate => DueCall KEscalate
      | DResume => DueCall KResume
      | DInvalid => DueCall KPanic
      end
  end.

(* contribution of one operation that follows [pre]: the restart it grants / the call it demands at once *)
Definition sched1 (cf : cfg) (dec : decider) (pre : list op) (o : op) : list (nat * Z) :=
  match o with
  | Fail v d => match decided cf dec pre v d with DueRestart a => [(v, a)] | DueCall _ => [] end
  | _ => []
  end.

Definition imm1 (cf : cfg) (dec : decider) (pre : list op) (o : op) : list call :=
  match o with
  | Fail v d => match decided cf dec pre v d with DueCall k => [Call k v (clock pre)] | DueRestart _ => [] end
  | _ => []
  end.

(* the restarts (victim, time) granted by the decisions taken in [ops], which follow [pre] *)
Fixpoint scheduled (cf : cfg) (dec : decider) (pre ops : list op) : list (nat * Z) :=
  match ops with
  | [] => []
  | o :: t => sched1 cf dec pre o ++ scheduled cf dec (pre ++ [o]) t
  end.

(* the calls to be made at once, in the order of the decisions *)
Fixpoint immediate (cf : cfg) (dec : decider) (pre ops : list op) : list call :=
  match ops with
  | [] => []
  | o :: t => imm1 cf dec pre o ++ immediate cf dec (pre ++ [o]) t
  end.

Definition is_restart (c : call) : bool := match c with Call KRestart _ _ => true | _ => false end.

(* (victim, time) of the Restart calls of an output *)
Fixpoint restarts (cs : list call) : list (nat * Z) :=
  match cs with
  | [] => []
  | Call KRestart v t :: r => (v, t) :: restarts r
  | _ :: r => restarts r
  end.
