(* MV.C04.Properties — property C04 ("a failing actor is suspended and the supervisor's directive is applied")
   on the kernel model. PARTIAL: the statements proved so far are the two mechanisms the property rests on;
   the trace-level statement "no user message is handled between a failure and the decision" is checked on every
   run by the lockstep harness and its monitor (C04:user-message-before-decision) but not yet proved. *)
From MV Require Import Lib.ListX Kernel.Model Kernel.Run Kernel.Lifecycle.
Open Scope Z_scope.

(* a suspended mailbox never hands a user message to the actor: with nothing in flight, the runner of a
   suspended mailbox pops a system message or nothing *)
Theorem C04_suspended_pops_no_user_partial : forall a,
  a_susp a = true -> a_inflight a = None ->
  match a_inflight (pop1 a) with Some (MU _) => False | _ => True end.
Proof. exact suspended_pops_no_user. Qed.
Print Assumptions C04_suspended_pops_no_user_partial.

(* the scripted scenario of the DESIGN probe: B fails on message 2 while message 3 is already queued;
   in the model (= repaired code) message 3 is handled only after the supervisor's Resume decision *)
Definition c04_roles : list role :=
  [ {| victim := None; sup := [DResume]; rules := [ {| r_on := KL; r_n := -1; r_inst := -1; r_do := [ASpawn 1 1] |} ] |};
    {| victim := None; sup := []; rules := [ {| r_on := KP; r_n := 2; r_inst := -1; r_do := [APanic] |} ] |} ].
Example C04_example :
  exists s os, krun c04_roles kinit [LSpawn 0 0; LRun 2; LRun 3; LTell 1 2; LTell 1 3; LRun 3; LRun 2; LRun 3] = Some (s, os) /\
    os = [[OSp rGuard 0]; [OH 0 0 TL 0 rNone; OSp 0 1]; [OH 1 0 TL 0 rNone]; [OS rGuard 1 1]; [OS rGuard 1 2];
          [OH 1 0 (TP 2) 1 rNone; OF 1 0]; [ODec 0 1 DResume 1]; [OH 1 0 (TP 3) 2 rNone]].
Proof. eexists. eexists. split; vm_compute; reflexivity. Qed.
