(* MV.C04.Properties — property C04 ("a failing actor is suspended and the supervisor's directive is applied")
   on the kernel model and on the strategy-layer model. PARTIAL: proved are the mechanisms the property rests on and
   the statement "no user message reaches the failing actor until the decision" in its state form
   (C04_no_user_message_until_decision_step, _run); that the failing step leaves the actor suspended with nothing in flight,
   and the effects of each directive, are checked on every run by the lockstep harness (step equality with the
   model, monitor C04:user-message-before-decision), not by theorem. *)
From MV Require Import Lib.ListX Kernel.Model Kernel.Run Kernel.Lifecycle Kernel.Status Kernel.Registry Kernel.Suspend Kernel.Queue Kernel.NoUser Kernel.Watch Kernel.Directive.
Open Scope Z_scope.

(* a suspended mailbox never hands a user message to the actor: with nothing in flight, the runner of a
   suspended mailbox pops a system message or nothing *)
Theorem C04_suspended_pops_no_user_partial : forall a,
  a_susp a = true -> a_inflight a = None ->
  match a_inflight (pop1 a) with Some (MU _) => False | _ => True end.
Proof. exact suspended_pops_no_user. Qed.
Print Assumptions C04_suspended_pops_no_user_partial.

(* Mechanism of "handles no further user message until its supervisor has decided", for every role table, every run
   from the freshly started system and every following step: an actor (other than the two system actors) whose
   mailbox is suspended — with no resume request pending for its address: a supervisor's Resume decision travels as a
   queued request that the actor applies itself, and only while it is alive (so that a decision about an earlier failure
   cannot resume an actor that is restarting; found while proving C03, see DESIGN) — is still suspended after the step,
   and still nothing is pending, UNLESS the step's observations show one of the three things that legitimately lift a
   suspension: a supervisor applying the Resume directive to that address (ODec _ t DResume _), an actor with that
   address completing its restart (its own OnTerminated, OH t _ TTS) or an actor with that address starting to
   terminate (OH t _ TT; from then on user messages become dead letters).
   Nothing else — no send, spawn, watch, failure of another actor, restart or stop of another address, timer —
   resumes it. Uses the registry invariant (an address resolves to an object carrying that address). *)
Theorem C04_suspension_lifted_only_by_directive : forall roles ls s os l s' o u a,
  krun roles kinit ls = Some (s, os) ->
  get s u = Some a -> is_sys (a_tok a) = false -> a_susp a = true -> nrp (a_tok a) s -> kstep roles s l = Some (s', o) ->
  ((exists a', get s' u = Some a' /\ a_tok a' = a_tok a /\ a_susp a' = true) /\ nrp (a_tok a) s') \/ marker (a_tok a) o = true.
Proof. exact suspension_lifted_only_by_directive_reachable. Qed.
Print Assumptions C04_suspension_lifted_only_by_directive.

(* a resume request for an address becomes pending only in a step that shows a marker for that address (in fact the
   supervisor's Resume decision), from every reachable state; none is pending in the freshly started system *)
Theorem C04_resume_request_only_by_directive : forall roles ls s os l s' o t,
  krun roles kinit ls = Some (s, os) -> is_sys t = false -> nrp t s -> kstep roles s l = Some (s', o) ->
  nrp t s' \/ marker t o = true.
Proof. intros roles ls s os l s' o t Hr. apply resume_request_only_by_directive. eapply RI_reachable; [apply RI_init|exact Hr]. Qed.
Print Assumptions C04_resume_request_only_by_directive.
Theorem C04_no_resume_request_at_start : forall t, nrp t kinit.
Proof. exact nrp_init. Qed.
Print Assumptions C04_no_resume_request_at_start.

(* "The failing actor handles no further user message until its supervisor has decided." waiting t a: the object is at
   address t, its mailbox is suspended and no user message is in flight — the situation a failure leaves behind
   (ReportAbnormal / the panic path suspend the mailbox inside the failing step, whose in-flight message was already
   taken out, and the pop at the end of a step takes no user message from a suspended mailbox). For every role table,
   from every state reachable from the fresh system: a waiting actor (not a system actor), no resume request pending for
   its address, is still waiting — and nothing is pending — after any step whose observations contain no marker for t
   (Resume applied to t by a supervisor / own OnTerminated of a restart completing / OnTerminate of a termination
   starting). While it waits, a run of its mailbox processes system messages only, so no user message is handed to it,
   and its queued user messages keep their order (C02_kernel_mailbox_order_step). *)
Theorem C04_no_user_message_until_decision_step : forall roles ls s os l s' o u a,
  krun roles kinit ls = Some (s, os) ->
  get s u = Some a -> is_sys (a_tok a) = false -> waiting (a_tok a) a -> nrp (a_tok a) s ->
  kstep roles s l = Some (s', o) -> marker (a_tok a) o = false ->
  (exists a', get s' u = Some a' /\ waiting (a_tok a) a') /\ nrp (a_tok a) s'.
Proof.
  intros roles ls s os l s' o u a Hr. apply no_user_step. eapply RI_reachable; [apply RI_init|exact Hr].
Qed.
Print Assumptions C04_no_user_message_until_decision_step.

(* ... and through any number of further steps, as long as none of them shows a marker *)
Theorem C04_no_user_message_until_decision_run : forall roles ls0 s0 os0 ls s' os u a,
  krun roles kinit ls0 = Some (s0, os0) ->
  get s0 u = Some a -> is_sys (a_tok a) = false -> waiting (a_tok a) a -> nrp (a_tok a) s0 ->
  krun roles s0 ls = Some (s', os) -> (forall o, In o os -> marker (a_tok a) o = false) ->
  exists a', get s' u = Some a' /\ waiting (a_tok a) a'.
Proof.
  intros roles ls0 s0 os0 ls s' os u a Hr. apply no_user_run. eapply RI_reachable; [apply RI_init|exact Hr].
Qed.
Print Assumptions C04_no_user_message_until_decision_run.

(* how "waiting" arises, for every role table and from ANY state: whenever an actor's own step ends with its mailbox
   suspended — the step in which it panicked or reported an abnormality (ReportAbnormal suspends the mailbox before the
   supervisor is told), or the step in which it began a restart (onRestart suspends) — it has no user message in flight:
   it is waiting in the sense above, and by the two theorems above stays so until the decision / the completion. For a
   restart this is also C03's "no user message handled between OnRestarting and the fresh instance". *)
Theorem C04_own_step_ending_suspended_is_waiting : forall roles s u s' o a',
  kstep roles s (LRun u) = Some (s', o) -> get s' (Z.to_nat u) = Some a' -> a_susp a' = true -> waiting (a_tok a') a'.
Proof. exact own_step_ending_suspended_is_waiting. Qed.
Print Assumptions C04_own_step_ending_suspended_is_waiting.

(* registry well-formedness in every reachable state (used above; also the basis of C12's kernel-level reading) *)
Theorem C04_registry_wellformed : forall roles ls s os,
  krun roles kinit ls = Some (s, os) -> forall t u, lookup t (registry s) = Some u -> exists a, get s u = Some a /\ a_tok a = t.
Proof. intros roles ls s os H. eapply RI_reachable; [apply RI_init|exact H]. Qed.
Print Assumptions C04_registry_wellformed.

(* "and then exactly the decided directive takes effect", the deciding step — for every role table and from ANY state:
   when a supervisor object (not terminated) runs an accident record r, the directive is the victim's own strategy if the
   record carries one, otherwise the entry of the supervisor's directive list at the victim's accident count (the last entry
   once the list is exhausted: the restart limit), otherwise — no strategy anywhere — the record is escalated; that
   directive is shown as the FIRST observation of the step (ODec supervisor victim d count), and the mailbox of the object
   registered under the victim's address holds one more message from the supervisor carrying exactly that directive
   (restart request / resume request / non-graceful terminate request; for "restart all" every registered child of the
   supervisor gains a restart request). Escalate, or no strategy: the object registered under the supervisor's parent
   gains the SAME record (victim object, address and strategy unchanged), and beyond the root the process crashes. *)
Theorem C04_decided_directive_takes_effect : forall roles s u a e r s' o,
  get s u = Some a -> a_inflight a = Some (MS e) -> e_msg e = SAccident r -> a_st a <> Terminated ->
  kstep roles s (LRun (Z.of_nat u)) = Some (s', o) ->
  let esc :=
    (a_parent a <> rNone -> forall v, lookup (a_parent a) (registry s) = Some v -> v <> u ->
       gains (carries_rec r (a_tok a) (a_parent a)) v s s') /\
    (a_parent a = rNone -> crashed s' = true /\ In OCrash o) in
  match decision roles a r (acc_count s r) with
  | Some d =>
      hd_error o = Some (ODec (a_tok a) (ar_vref r) d (acc_count s r)) /\
      match d with
      | DRestart | DResume | DStop =>
          forall v, lookup (ar_vref r) (registry s) = Some v -> gains (carries d (a_tok a) (ar_vref r)) v s s'
      | DRestartAll =>
          forall c v, In c (a_children a) -> lookup c (registry s) = Some v -> gains (carries DRestartAll (a_tok a) c) v s s'
      | DEscalate => esc
      end
  | None => esc
  end.
Proof. exact directive_step. Qed.
Print Assumptions C04_decided_directive_takes_effect.

(* "Resume continues with the same instance and the queued messages": the step in which a living actor, registered under
   its address, takes the resume request out of its mailbox shows nothing and leaves the actor alive under the SAME
   instance number, its mailbox no longer suspended, its system queue and its user queue exactly as they were (the
   post-state holds pop1 of that record: the runner takes the next message — a system message first, otherwise, the
   mailbox being released, the oldest user message). *)
Theorem C04_resume_continues_same_instance_and_queue : forall roles s v b e s' o,
  get s v = Some b -> a_inflight b = Some (MS e) -> e_msg e = SResumeReq -> a_st b = Alive ->
  lookup (a_tok b) (registry s) = Some v ->
  kstep roles s (LRun (Z.of_nat v)) = Some (s', o) ->
  o = [] /\ exists b0 : actor, get s' v = Some (pop1 b0) /\ a_susp b0 = false /\
    a_st b0 = Alive /\ a_inst b0 = a_inst b /\ a_tok b0 = a_tok b /\ a_userq b0 = a_userq b /\ a_sysq b0 = a_sysq b /\ a_inflight b0 = None.
Proof. exact resume_request_applied. Qed.
Print Assumptions C04_resume_continues_same_instance_and_queue.

(* "Restart replaces the instance ... and then handles the queued messages": the step in which a living actor takes a restart
   request shows OnRestarting handled by the present instance as its first Handled observation, leaves the actor restarting
   (waiting for its children) or alive again (the restart completed within the step: C03_restart_completes_in_order says what
   that step shows, C03_restart_installs_a_fresh_instance that the instance is new), and keeps every user message that was in
   flight or queued, in order, at the front of its mailbox *)
Theorem C04_restart_request_keeps_queue : forall roles s v b e s' o,
  get s v = Some b -> a_inflight b = Some (MS e) -> e_msg e = SRestart -> a_st b = Alive -> is_sys (a_tok b) = false ->
  kstep roles s (LRun (Z.of_nat v)) = Some (s', o) ->
  exists b', get s' v = Some b' /\ a_tok b' = a_tok b /\ (a_st b' = Restarting \/ a_st b' = Alive) /\
    hd_error (MV.Kernel.Restart.handled o) = Some (OH (a_tok b) (a_inst b) TRG 0%nat rNone) /\
    exists app, seq b' = seq b ++ app.
Proof. exact restart_request_applied. Qed.
Print Assumptions C04_restart_request_keeps_queue.

(* "Stop terminates it": the step in which a living or restarting actor takes a terminate request leaves it terminating,
   or terminated at once, under its address (the request is then handed to every child: Kernel.Hierarchy / C05) *)
Theorem C04_stop_request_makes_receiver_terminating : forall roles s v b e g s' o,
  get s v = Some b -> a_inflight b = Some (MS e) -> e_msg e = STerminate g -> (a_st b = Alive \/ a_st b = Restarting) ->
  kstep roles s (LRun (Z.of_nat v)) = Some (s', o) ->
  exists b', get s' v = Some b' /\ st_ge_terminating (a_st b') = true /\ a_tok b' = a_tok b.
Proof. exact stop_request_applied. Qed.
Print Assumptions C04_stop_request_makes_receiver_terminating.

(* the scripted scenario of the DESIGN probe: B fails on message 2 while message 3 is already queued;
   in the model (= repaired code) message 3 is handled only after the supervisor's Resume decision *)
Definition c04_roles : list role :=
  [ {| victim := None; sup := [DResume]; rules := [ {| r_on := KL; r_n := -1; r_inst := -1; r_do := [ASpawn 1 1] |} ] |};
    {| victim := None; sup := []; rules := [ {| r_on := KP; r_n := 2; r_inst := -1; r_do := [APanic] |} ] |} ].
Example C04_example :
  exists s os, krun c04_roles kinit [LSpawn 0 0; LRun 2; LRun 3; LTell 1 2; LTell 1 3; LRun 3; LRun 2; LRun 3; LRun 3] = Some (s, os) /\
    os = [[OSp rGuard 0]; [OH 0 0 TL 0 rNone; OSp 0 1]; [OH 1 0 TL 0 rNone]; [OS rGuard 1 1]; [OS rGuard 1 2];
          [OH 1 0 (TP 2) 1 rNone; OF 1 0]; [ODec 0 1 DResume 1]; []; [OH 1 0 (TP 3) 2 rNone]].
Proof. eexists. eexists. split; vm_compute; reflexivity. Qed.

(* non-vacuity of the hypotheses above: right after the failing step of that scenario the actor (object 3, address 1) is
   waiting and no resume request is pending for its address *)
Example C04_window_example :
  exists s os a, krun c04_roles kinit [LSpawn 0 0; LRun 2; LRun 3; LTell 1 2; LTell 1 3; LRun 3] = Some (s, os) /\
    get s 3 = Some a /\ waiting 1 a /\ nrp 1 s.
Proof.
  eexists. eexists. eexists. split; [vm_compute; reflexivity|]. split; [vm_compute; reflexivity|].
  split; [repeat split|apply nrpb_sound; vm_compute; reflexivity].
Qed.

(* non-vacuity of C04_decided_directive_takes_effect and of C04_resume_continues_same_instance_and_queue on the same scenario:
   after the failing step the supervisor (object 2, address 0) has the accident record in flight; it decides Resume (its
   list [DResume], accident count 1), and the victim (object 3, registered under address 1) gains the resume request; one
   step later the victim has that request in flight, is alive and registered under its address *)
Example C04_directive_example :
  exists s os a e r, krun c04_roles kinit [LSpawn 0 0; LRun 2; LRun 3; LTell 1 2; LTell 1 3; LRun 3] = Some (s, os) /\
    get s 2 = Some a /\ a_inflight a = Some (MS e) /\ e_msg e = SAccident r /\ a_st a <> Terminated /\
    decision c04_roles a r (acc_count s r) = Some DResume /\ lookup (ar_vref r) (registry s) = Some 3%nat /\
    exists s2 o2 b e2, kstep c04_roles s (LRun 2) = Some (s2, o2) /\ get s2 3 = Some b /\ a_inflight b = Some (MS e2) /\
      e_msg e2 = SResumeReq /\ a_st b = Alive /\ lookup (a_tok b) (registry s2) = Some 3%nat /\ a_susp b = true /\ length (a_userq b) = 1%nat.
Proof.
  eexists. eexists. eexists. eexists. eexists. split; [vm_compute; reflexivity|].
  split; [vm_compute; reflexivity|]. split; [vm_compute; reflexivity|]. split; [vm_compute; reflexivity|].
  split; [vm_compute; discriminate|]. split; [vm_compute; reflexivity|]. split; [vm_compute; reflexivity|].
  eexists. eexists. eexists. eexists. split; [vm_compute; reflexivity|]. split; [vm_compute; reflexivity|].
  repeat split; vm_compute; reflexivity.
Qed.

(* The defect found while proving C03's "no user message in between" (repaired in /repo, see known_findings.json): a Resume
   decision about an earlier failure of A arrives while A is restarting and waits for its child. With the request queued
   and applied only by a living actor, the old instance handles nothing between OnRestarting and OnTerminate; the user
   message 9 is handled by the new instance after OnRestarted and OnLaunch. *)
Definition c04_stale_roles : list role :=
 [ {| victim := None; sup := [DRestartAll]; rules := [ {| r_on := KL; r_n := -1; r_inst := -1; r_do := [ASpawn 1 1; ASpawn 2 2] |} ] |};
   {| victim := Some DResume; sup := []; rules := [ {| r_on := KL; r_n := -1; r_inst := -1; r_do := [ASpawn 3 3] |};
        {| r_on := KP; r_n := 1; r_inst := -1; r_do := [AReport] |} ] |};
   {| victim := None; sup := []; rules := [ {| r_on := KP; r_n := 2; r_inst := -1; r_do := [APanic] |} ] |};
   {| victim := None; sup := []; rules := [] |} ].
Definition c04_stale_labels : list label :=
 [LSpawn 0 0; LRun 2; LRun 3; LRun 4; LRun 5; LTell 1 1; LTell 1 1; LTell 1 9; LTell 2 2;
  LRun 3; LRun 2; LRun 4; LRun 3; LRun 2; LRun 3; LRun 2; LRun 3; LRun 3; LRun 5; LRun 3].
Definition handled_by1 (os : list (list obs)) : list (nat * trig) :=
  flat_map (fun o => match o with OH a' i t _ _ => if (a' =? 1) then [(i, t)] else [] | _ => [] end) (concat os).
Example C04_stale_resume_does_not_resume_a_restarting_actor :
  exists s os, krun c04_stale_roles kinit c04_stale_labels = Some (s, os) /\
    exists rest, handled_by1 os = [(0%nat, TL); (0%nat, TP 1); (0%nat, TP 1); (0%nat, TRG)] ++ rest /\
                 forall it, In it rest -> fst it = 0%nat -> exists w, snd it = TT \/ snd it = TTS \/ snd it = TTO w.
Proof.
  eexists. eexists. split; [vm_compute; reflexivity|]. vm_compute. eexists. split; [reflexivity|].
  intros it Hin H0. repeat (destruct Hin as [<-|Hin]; [first [discriminate H0|exists 3; auto]|]). destruct Hin.
Qed.


(* ================================================================================================================
   STRATEGY LAYER (MV.C04.StratModel: supervision/one_for_one.go, accident_state.go, the canned strategies, and
   their use of time.AfterFunc).  One strategy instance shared by any number of victims; per victim the accident
   count since the last Solved; the multiset of pending restart timers.  The back-off delay of every failure is an
   oracle input (its VALUE is property C18's business); [oracle_ok] says the oracle respects the contract of
   chrono.StandardExponentialBackoff: -1 exactly when a limit is set and the count exceeds it, otherwise a delay
   in [0, max] (0 when base <= 0).  All statements hold for every operation sequence, any number of victims, every
   limit / base / max and every decider that is a function of (victim, accident count of the record). *)
From Coq Require Import Permutation.
(* Floats is deliberately not imported: Print Assumptions then prints the kernel's primitive float / integer operations
   with their full names (PrimFloat.mul, ...); they are primitives evaluated by the kernel, not logical axioms *)
From MV Require Import C04.StratModel C04.StratRun C04.StratProofs C18.BackoffModel C04.StratOracle.

(* (a) per-victim independence of a shared strategy instance: the calls about victim v, v's pending timers, v's
   accident count and the clock are exactly those of the run of v's OWN operations (its failures, its Solved, and
   the passing of time).  So a sibling's failure never cancels, delays, duplicates or adds a restart, and never
   changes the count, of another victim. *)
Theorem C04_strat_sibling_independence : forall cf dec v ops,
  let own := filter (concerns v) ops in
  filter (about v) (calls cf dec init ops) = calls cf dec init own
  /\ filter (timer_of v) (timers (exec cf dec init ops)) = timers (exec cf dec init own)
  /\ cnt (exec cf dec init ops) v = cnt (exec cf dec init own) v
  /\ now (exec cf dec init ops) = now (exec cf dec init own).
Proof. exact independence. Qed.
Print Assumptions C04_strat_sibling_independence.

(* (b) the ledger of restarts, with the pending-timer invariant: the Restart calls made so far together with the
   timers still pending are, as multisets of (victim, time), exactly the restarts granted by the decisions taken
   ([scheduled]: OneForOne deciding Restart with count <= limit or no limit -> decision time + decided delay; the
   canned Restart strategy -> decision time); every pending timer is due strictly later than now; no call carries a
   time later than now. *)
Theorem C04_strat_restart_ledger : forall cf dec ops,
  oracle_ok cf dec ops = true ->
  let s := exec cf dec init ops in
  let cs := calls cf dec init ops in
  Permutation (restarts cs ++ timers s) (scheduled cf dec [] ops)
  /\ (forall v a, In (v, a) (timers s) -> clock ops < a)
  /\ (forall k v t, In (Call k v t) cs -> t <= clock ops).
Proof. exact restart_ledger. Qed.
Print Assumptions C04_strat_restart_ledger.

(* ... hence: a restart granted n times for (victim v, time a) has been carried out exactly n times at exactly
   time a and is no longer pending once the clock has reached a, and has not been carried out at all (never
   earlier) and is pending exactly n times while the clock has not advanced that far. *)
Theorem C04_strat_restart_exactly_once : forall cf dec ops v a,
  oracle_ok cf dec ops = true ->
  let n := occ (scheduled cf dec [] ops) (v, a) in
  (a <= clock ops -> occ (restarts (calls cf dec init ops)) (v, a) = n /\ occ (timers (exec cf dec init ops)) (v, a) = O)
  /\ (clock ops < a -> occ (restarts (calls cf dec init ops)) (v, a) = O /\ occ (timers (exec cf dec init ops)) (v, a) = n).
Proof. exact restart_exactly_once. Qed.
Print Assumptions C04_strat_restart_exactly_once.

(* step form of (b): OneForOne deciding Restart for the c-th consecutive failure, c <= limit or limit < 0: the delay
   lies within [0, max]; nothing is called at the decision and exactly one timer (v, decision time + delay) is
   added (delay 0: the Restart happens at once, no timer). *)
Theorem C04_strat_restart_granted : forall cf dec pre v d,
  kind cf = OneForOne -> (limit cf < 0 \/ streak v pre + 1 <= limit cf) ->
  dec v (streak v pre + 1) = DRestart ->
  oracle_ok cf dec (pre ++ [Fail v d]) = true ->
  let s := exec cf dec init pre in
  0 <= d <= Z.max 0 (mx cf)
  /\ decided cf dec pre v d = DueRestart (clock pre + d)
  /\ (0 < d -> out cf dec s (Fail v d) = [] /\ timers (next cf dec s (Fail v d)) = timers s ++ [(v, clock pre + d)])
  /\ (d = 0 -> out cf dec s (Fail v d) = [Call KRestart v (clock pre)] /\ timers (next cf dec s (Fail v d)) = timers s).
Proof. exact restart_granted. Qed.
Print Assumptions C04_strat_restart_granted.

(* (c) the restart limit is honoured: with a limit >= 0, a failure that is (at least) the (limit+1)-th in a row
   without Solved and for which the decider says Restart yields exactly Stop, at once, and no timer. *)
Theorem C04_strat_limit_honoured : forall cf dec pre v d,
  kind cf = OneForOne -> 0 <= limit cf -> limit cf < streak v pre + 1 ->
  dec v (streak v pre + 1) = DRestart ->
  oracle_ok cf dec (pre ++ [Fail v d]) = true ->
  let s := exec cf dec init pre in
  out cf dec s (Fail v d) = [Call KStop v (clock pre)]
  /\ timers (next cf dec s (Fail v d)) = timers s
  /\ decided cf dec pre v d = DueCall KStop.
Proof. exact limit_honoured. Qed.
Print Assumptions C04_strat_limit_honoured.

(* the accident count is the number of failures since the last Solved ... *)
Theorem C04_strat_count_exact : forall cf dec ops v, cnt (exec cf dec init ops) v = streak v ops.
Proof. exact count_exact. Qed.
Print Assumptions C04_strat_count_exact.

(* ... which grows by one with every failure of v, without saturation (n failures in a row add n, for every n), is
   reset to 0 by Solved, and is not touched by anything that happens to another victim or by time *)
Theorem C04_strat_count_laws : forall v pre,
  (forall fs, Forall (fail_of v) fs -> streak v (pre ++ fs) = streak v pre + Z.of_nat (length fs))
  /\ streak v (pre ++ [Solved v]) = 0
  /\ (forall o, concerns v o = false -> streak v (pre ++ [o]) = streak v pre)
  /\ (forall d, streak v (pre ++ [Advance d]) = streak v pre).
Proof.
  intros v pre. split; [intros fs; apply streak_fails|]. split; [apply streak_solved|].
  split; [intros o; apply streak_other|intros d; apply streak_advance].
Qed.
Print Assumptions C04_strat_count_laws.

(* (d) everything that is not a Restart is called at once: the non-Restart calls of a run are, in order, exactly
   the calls demanded by the decisions (Stop / Resume / Escalate of the decider, Stop for an exhausted limit, the
   canned Stop and Resume), each at its decision time *)
Theorem C04_strat_immediate_calls : forall cf dec ops,
  oracle_ok cf dec ops = true ->
  filter (fun c => negb (is_restart c)) (calls cf dec init ops) = immediate cf dec [] ops.
Proof. exact immediate_calls. Qed.
Print Assumptions C04_strat_immediate_calls.

(* step form of (d): a decision other than Restart produces exactly that call, at once, and no timer *)
Theorem C04_strat_directive_at_once : forall cf dec pre v d,
  kind cf = OneForOne ->
  dec v (streak v pre + 1) <> DRestart ->
  let s := exec cf dec init pre in
  out cf dec s (Fail v d) = [Call (call_of (dec v (streak v pre + 1))) v (clock pre)]
  /\ timers (next cf dec s (Fail v d)) = timers s.
Proof. exact directive_at_once. Qed.
Print Assumptions C04_strat_directive_at_once.

(* the canned RestartStrategy / StopStrategy / ResumeStrategy: exactly their call, at once, never a timer *)
Theorem C04_strat_canned_at_once : forall cf dec pre v d,
  kind cf <> OneForOne ->
  let s := exec cf dec init pre in
  out cf dec s (Fail v d) = [Call (canned_call (kind cf)) v (clock pre)]
  /\ timers (exec cf dec init (pre ++ [Fail v d])) = [].
Proof. exact canned_at_once. Qed.
Print Assumptions C04_strat_canned_at_once.

(* the oracle contract is not an extra assumption about the code: it is what property C18 proves of the model of
   chrono.ExponentialBackoff (C18_stop_iff, C18_nonneg, C18_le_max, and 0 for base <= 0), for every count, limit,
   base, max >= 0 and whatever floats math.Pow and rand.Float64 deliver *)
Theorem C04_strat_oracle_contract_is_C18 : forall k count limit base max (rnd p r : PrimFloat.float),
  0 <= max ->
  adm {| kind := k; limit := limit; base := base; mx := max |} count
      (BackoffModel.backoff count limit base max rnd p r) = true.
Proof. exact adm_of_backoff. Qed.
Print Assumptions C04_strat_oracle_contract_is_C18.

(* ---- non-vacuity: two victims under ONE OneForOne(limit 2, base 10, max 100); victim 1 fails inside the back-off
   window of victim 0; victim 0 then exhausts its limit while victim 1 recovers *)
Definition strat_cf : cfg := {| kind := OneForOne; limit := 2; base := 10; mx := 100 |}.
Definition strat_dec : decider := fun v c => if Nat.eqb v 2 then DEscalate else DRestart.
Definition strat_ops : list op :=
  [Fail 0 20; Fail 1 25; Advance 10; Fail 1 45; Advance 15; Fail 0 40; Advance 100; Solved 1; Fail 0 (-1); Fail 1 18; Fail 2 0].

Example C04_strat_example :
  oracle_ok strat_cf strat_dec strat_ops = true
  /\ trace strat_cf strat_dec init strat_ops =
     [[]; []; []; []; [Call KRestart 0 20; Call KRestart 1 25]; []; [Call KRestart 1 55; Call KRestart 0 65]; [];
      [Call KStop 0 125]; []; [Call KEscalate 2 125]]
  /\ timers (exec strat_cf strat_dec init strat_ops) = [(1%nat, 143)]
  /\ scheduled strat_cf strat_dec [] strat_ops = [(0%nat, 20); (1%nat, 25); (1%nat, 55); (0%nat, 65); (1%nat, 143)]
  /\ immediate strat_cf strat_dec [] strat_ops = [Call KStop 0 125; Call KEscalate 2 125]
  /\ streak 0 strat_ops = 3 /\ streak 1 strat_ops = 1
  /\ calls strat_cf strat_dec init (filter (concerns 0%nat) strat_ops) = [Call KRestart 0 20; Call KRestart 0 65; Call KStop 0 125].
Proof. repeat split; vm_compute; reflexivity. Qed.

(* the hypotheses of the step theorems are satisfiable: third failure of victim 0 (limit 2 exhausted), second failure
   of victim 1 (granted), the Escalate decision for victim 2 *)
Example C04_strat_example_hyps :
  (let pre := firstn 8 strat_ops in
   kind strat_cf = OneForOne /\ 0 <= limit strat_cf /\ limit strat_cf < streak 0 pre + 1
   /\ strat_dec 0%nat (streak 0 pre + 1) = DRestart /\ oracle_ok strat_cf strat_dec (pre ++ [Fail 0 (-1)]) = true)
  /\ (let pre := firstn 3 strat_ops in
      streak 1 pre + 1 <= limit strat_cf /\ strat_dec 1%nat (streak 1 pre + 1) = DRestart
      /\ oracle_ok strat_cf strat_dec (pre ++ [Fail 1 45]) = true)
  /\ strat_dec 2%nat (streak 2 (firstn 10 strat_ops) + 1) <> DRestart
  /\ kind {| kind := CannedStop; limit := 0; base := 0; mx := 0 |} <> OneForOne.
Proof. vm_compute. repeat split; congruence. Qed.
