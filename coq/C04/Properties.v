(* MV.C04.Properties — property C04 ("a failing actor is suspended and the supervisor's directive is applied")
   on the kernel model. PARTIAL: the statements proved so far are the two mechanisms the property rests on;
   the trace-level statement "no user message is handled between a failure and the decision" is checked on every
   run by the lockstep harness and its monitor (C04:user-message-before-decision) but not yet proved. *)
From MV Require Import Lib.ListX Kernel.Model Kernel.Run Kernel.Lifecycle Kernel.Status Kernel.Registry Kernel.Suspend.
Open Scope Z_scope.

(* a suspended mailbox never hands a user message to the actor: with nothing in flight, the runner of a
   suspended mailbox pops a system message or nothing *)
Theorem C04_suspended_pops_no_user_partial : forall a,
  a_susp a = true -> a_inflight a = None ->
  match a_inflight (pop1 a) with Some (MU _) => False | _ => True end.
Proof. exact suspended_pops_no_user. Qed.
Print Assumptions C04_suspended_pops_no_user_partial.

(* Mechanism of "handles no further user message until its supervisor has decided", for every role table, every run
   from the freshly started system and every following step: an actor (other than the two system actors) whose
   mailbox is suspended is still suspended after the step, UNLESS the step's observations show one of the three
   things that legitimately lift a suspension: a supervisor applying the Resume directive to that address
   (ODec _ t DResume _), an actor with that address completing its restart (its own OnTerminated, OH t _ TTS) or an
   actor with that address starting to terminate (OH t _ TT; from then on user messages become dead letters).
   Nothing else — no send, spawn, watch, failure of another actor, restart or stop of another address, timer —
   resumes it. Uses the registry invariant (an address resolves to an object carrying that address). *)
Theorem C04_suspension_lifted_only_by_directive : forall roles ls s os l s' o u a,
  krun roles kinit ls = Some (s, os) ->
  get s u = Some a -> is_sys (a_tok a) = false -> a_susp a = true -> kstep roles s l = Some (s', o) ->
  (exists a', get s' u = Some a' /\ a_tok a' = a_tok a /\ a_susp a' = true) \/ marker (a_tok a) o = true.
Proof. exact suspension_lifted_only_by_directive_reachable. Qed.
Print Assumptions C04_suspension_lifted_only_by_directive.

(* registry well-formedness in every reachable state (used above; also the basis of C12's kernel-level reading) *)
Theorem C04_registry_wellformed : forall roles ls s os,
  krun roles kinit ls = Some (s, os) -> forall t u, lookup t (registry s) = Some u -> exists a, get s u = Some a /\ a_tok a = t.
Proof. intros roles ls s os H. eapply RI_reachable; [apply RI_init|exact H]. Qed.
Print Assumptions C04_registry_wellformed.

(* the scripted scenario of the DESIGN probe: B fails on message 2 while message 3 is already queued;
   in the model (= repaired code) message 3 is handled only after the supervisor's Resume decision *)
Definition c04_roles : list role :=
  [ {| victim := None; sup := [DResume]; rules := [ {| r_on := KL; r_n := -1; r_inst := -1; r_do := [ASpawn 1 1] |} ] |};
    {| victim := None; sup := []; rules := [ {| r_on := KP; r_n := 2; r_inst := -1; r_do := [APanic] |} ] |} ].
Example C04_example :
  exists s os, krun c04_roles kinit [LSpawn 0 0; LRun 2; LRun 3; LTell 1 2; LTell 1 3; LRun 3; LRun 2; LRun 3] = Some (s, os) /\
    os = [[OSp rGuard 0]; [OH 0 0 TL 0 rNone; OSp 0 1]; [OH 1 0 TL 0 rNone]; [OS rGuard 1 1]; [OS rGuard 1 2];
          [OH 1 0 (TP 2) 1 rNone; OF 1 0]; [ODec 0 1 DResume 1]; [OH 1 0 (TP 3) 2 rNone]].
Proof. eexists. eexists. split; vm_compute; reflexivity. Qed.
