(* MV.C04.StratOracle — the contract [adm] that the strategy model demands of its oracle input is what property C18
   proves of the (repaired) model of chrono.ExponentialBackoff: for every count, limit, base, max >= 0 and whatever
   floats math.Pow and rand.Float64 deliver, the value of the back-off is admissible. *)
From Coq Require Import ZArith Bool Floats Lia.
From MV Require Import C18.BackoffModel C18.BackoffProofs C04.StratModel.
Open Scope Z_scope.

Lemma adm_of_backoff : forall k count limit base max (rnd p r : PrimFloat.float),
  0 <= max ->
  adm {| kind := k; limit := limit; base := base; mx := max |} count (backoff count limit base max rnd p r) = true.
Proof.
  intros k count lim b m rnd p r Hm. unfold adm, over_limit. cbn [StratModel.limit StratModel.base mx].
  pose proof (backoff_stop_iff count lim b m rnd p r Hm) as S.
  pose proof (backoff_le_max count lim b m rnd p r Hm) as M.
  destruct (Z.gtb_spec lim (-1)) as [L|L]; cbn [andb].
  - destruct (Z.gtb_spec count lim) as [C|C].
    + apply Z.eqb_eq, S. lia.
    + assert (N : ~ (0 <= lim /\ lim < count)) by lia.
      pose proof (backoff_nonneg count lim b m rnd p r Hm N) as P.
      rewrite Z.max_r by lia.
      destruct (Z.leb_spec 0 (backoff count lim b m rnd p r)); [|lia].
      destruct (Z.leb_spec (backoff count lim b m rnd p r) m); [|lia]. cbn [andb].
      destruct (Z.leb_spec b 0) as [B|B]; cbn [negb orb]; auto.
      apply Z.eqb_eq. unfold backoff, delay_fixed, stop.
      destruct (Z.gtb_spec count lim); [lia|]. cbn [andb].
      destruct (Z.leb_spec b 0); [reflexivity|lia].
  - assert (N : ~ (0 <= lim /\ lim < count)) by lia.
    pose proof (backoff_nonneg count lim b m rnd p r Hm N) as P.
    rewrite Z.max_r by lia.
    destruct (Z.leb_spec 0 (backoff count lim b m rnd p r)); [|lia].
    destruct (Z.leb_spec (backoff count lim b m rnd p r) m); [|lia]. cbn [andb].
    destruct (Z.leb_spec b 0) as [B|B]; cbn [negb orb]; auto.
    apply Z.eqb_eq. unfold backoff, delay_fixed, stop.
    destruct (Z.gtb_spec lim (-1)); [lia|]. rewrite andb_false_r.
    destruct (Z.leb_spec b 0); [reflexivity|lia].
Qed.
