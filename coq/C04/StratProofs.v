(* MV.C04.StratProofs — proofs about MV.C04.StratModel (strategy layer of C04): per-victim independence of a shared
   strategy instance, the ledger of restart timers, the restart limit, the accident count, immediate directives. *)
From Coq Require Import ZArith List Bool Lia Permutation.
From MV Require Import Lib.ListX C04.StratModel C04.StratRun.
Open Scope Z_scope.

Arguments Z.add : simpl never.
Arguments Z.max : simpl never.
Arguments Z.leb : simpl never.
Arguments Z.gtb : simpl never.
Arguments Z.eqb : simpl never.

(* ---------------------------------------------------------------- generalities *)

Lemma exec_app cf dec : forall a s b, exec cf dec s (a ++ b) = exec cf dec (exec cf dec s a) b.
Proof. induction a as [|o a IH]; intros s b; cbn [exec app]; auto. Qed.

Lemma calls_app cf dec : forall a s b,
  calls cf dec s (a ++ b) = calls cf dec s a ++ calls cf dec (exec cf dec s a) b.
Proof.
  induction a as [|o a IH]; intros s b; cbn [calls exec app]; auto.
  rewrite IH, app_assoc. reflexivity.
Qed.

Lemma ops_ok_app cf dec : forall a s b,
  ops_ok cf dec s (a ++ b) = ops_ok cf dec s a && ops_ok cf dec (exec cf dec s a) b.
Proof.
  induction a as [|o a IH]; intros s b; cbn [ops_ok exec app]; auto.
  rewrite IH, andb_assoc. reflexivity.
Qed.

Lemma concat_trace cf dec : forall ops s, concat (trace cf dec s ops) = calls cf dec s ops.
Proof. induction ops as [|o t IH]; intros s; cbn [trace calls concat]; auto. rewrite IH. reflexivity. Qed.

Definition fclock (t : Z) (o : op) : Z := match o with Advance d => t + Z.max 0 d | _ => t end.
Definition fstreak (v : nat) (c : Z) (o : op) : Z :=
  match o with
  | Fail w _ => if Nat.eqb w v then c + 1 else c
  | Solved w => if Nat.eqb w v then 0 else c
  | Advance _ => c
  end.

Lemma clock_snoc pre o : clock (pre ++ [o]) = fclock (clock pre) o.
Proof. unfold clock. rewrite fold_left_app. reflexivity. Qed.

Lemma streak_snoc v pre o : streak v (pre ++ [o]) = fstreak v (streak v pre) o.
Proof. unfold streak. rewrite fold_left_app. reflexivity. Qed.

Lemma now_next cf dec s o : now (next cf dec s o) = fclock (now s) o.
Proof. destruct o; reflexivity. Qed.

Lemma cnt_next cf dec s o v : cnt (next cf dec s o) v = fstreak v (cnt s v) o.
Proof.
  destruct o as [w d|w|d]; cbn [next cnt fstreak]; unfold setc; auto.
  - rewrite (Nat.eqb_sym v w). destruct (Nat.eqb_spec w v); subst; auto.
  - rewrite (Nat.eqb_sym v w). destruct (Nat.eqb w v); auto.
Qed.

(* the state reached by [pre] agrees with the two functions of the operation sequence *)
Definition agrees (pre : list op) (s : state) : Prop := now s = clock pre /\ forall v, cnt s v = streak v pre.

Lemma agrees_init : agrees [] init.
Proof. split; reflexivity. Qed.

Lemma agrees_next cf dec pre s o : agrees pre s -> agrees (pre ++ [o]) (next cf dec s o).
Proof.
  intros [Hn Hc]. split.
  - rewrite now_next, clock_snoc, Hn. reflexivity.
  - intros v. rewrite cnt_next, streak_snoc, Hc. reflexivity.
Qed.

Lemma agrees_exec cf dec : forall ops pre s, agrees pre s -> agrees (pre ++ ops) (exec cf dec s ops).
Proof.
  induction ops as [|o t IH]; intros pre s H; cbn [exec].
  - rewrite app_nil_r. exact H.
  - replace (pre ++ o :: t) with ((pre ++ [o]) ++ t) by (rewrite <- app_assoc; reflexivity).
    apply IH, agrees_next, H.
Qed.

Lemma agrees_run cf dec ops : agrees ops (exec cf dec init ops).
Proof. apply (agrees_exec cf dec ops [] init agrees_init). Qed.

Lemma fclock_mono t o : t <= fclock t o.
Proof. destruct o; cbn [fclock]; lia. Qed.

Lemma now_mono cf dec : forall ops s, now s <= now (exec cf dec s ops).
Proof.
  induction ops as [|o t IH]; intros s; cbn [exec]; [lia|].
  specialize (IH (next cf dec s o)). rewrite now_next in IH. pose proof (fclock_mono (now s) o). lia.
Qed.

(* ---------------------------------------------------------------- filters *)

Lemma filter_comm {A} (p q : A -> bool) : forall l, filter p (filter q l) = filter q (filter p l).
Proof.
  induction l as [|x l IH]; cbn [filter]; auto.
  destruct (q x) eqn:Q, (p x) eqn:P; cbn [filter]; rewrite ?Q, ?P, IH; reflexivity.
Qed.

Lemma about_restart_call v : forall l,
  filter (about v) (map restart_call l) = map restart_call (filter (timer_of v) l).
Proof.
  induction l as [|[w a] l IH]; cbn [map filter]; auto.
  unfold restart_call at 1, about at 1, timer_of at 1. cbn [fst snd].
  destruct (Nat.eqb w v); cbn [map]; rewrite IH; reflexivity.
Qed.

Lemma restarts_app : forall a b, restarts (a ++ b) = restarts a ++ restarts b.
Proof.
  induction a as [|c a IH]; intros b; cbn [restarts app]; auto.
  destruct c as [k v t|]; [destruct k|]; cbn [app]; rewrite ?IH; reflexivity.
Qed.

Lemma restarts_restart_call : forall l, restarts (map restart_call l) = l.
Proof. induction l as [|[w a] l IH]; cbn [map restarts restart_call fst snd]; auto. rewrite IH. reflexivity. Qed.

Lemma others_restart_call : forall l, filter (fun c => negb (is_restart c)) (map restart_call l) = [].
Proof. induction l as [|[w a] l IH]; cbn [map filter restart_call is_restart negb]; auto. Qed.

Lemma partition_perm {A} (p : A -> bool) : forall l,
  Permutation (filter p l ++ filter (fun x => negb (p x)) l) l.
Proof.
  induction l as [|x l IH]; cbn [filter]; [constructor|].
  destruct (p x); cbn [negb app].
  - apply perm_skip, IH.
  - apply Permutation_sym, Permutation_cons_app, Permutation_sym, IH.
Qed.

(* ---------------------------------------------------------------- (a) per-victim independence *)

(* what victim v can see of a state *)
Definition same_for (v : nat) (s s' : state) : Prop :=
  now s = now s' /\ cnt s v = cnt s' v /\ filter (timer_of v) (timers s) = timers s'.

Lemma own_step cf dec v s s' o :
  concerns v o = true -> same_for v s s' ->
  same_for v (next cf dec s o) (next cf dec s' o) /\ filter (about v) (out cf dec s o) = out cf dec s' o.
Proof.
  intros Hc (Hn & Hk & Ht). destruct o as [w d|w|d]; cbn [concerns] in Hc.
  - apply Nat.eqb_eq in Hc. subst w.
    unfold same_for. cbn [next out now cnt timers]. rewrite <- Hk, <- Hn.
    destruct (on_decision cf dec v (cnt s v + 1) d) as [k|dd].
    + repeat split; auto.
      * unfold setc. rewrite Nat.eqb_refl. reflexivity.
      * cbn [filter about]. rewrite Nat.eqb_refl. reflexivity.
    + destruct (dd <=? 0).
      * repeat split; auto.
        -- unfold setc. rewrite Nat.eqb_refl. reflexivity.
        -- cbn [filter about]. rewrite Nat.eqb_refl. reflexivity.
      * repeat split; auto.
        -- unfold setc. rewrite Nat.eqb_refl. reflexivity.
        -- rewrite filter_app, Ht. cbn [filter]. unfold timer_of. cbn [fst]. rewrite Nat.eqb_refl. reflexivity.
  - apply Nat.eqb_eq in Hc. subst w.
    unfold same_for. cbn [next out now cnt timers filter]. repeat split; auto.
    unfold setc. rewrite Nat.eqb_refl. reflexivity.
  - unfold same_for. cbn [next out now cnt timers]. rewrite <- Hn. repeat split; auto.
    + unfold pending. rewrite filter_comm, Ht. reflexivity.
    + unfold fired. rewrite about_restart_call, filter_comm, Ht. reflexivity.
Qed.

Lemma other_step cf dec v s s' o :
  concerns v o = false -> same_for v s s' ->
  same_for v (next cf dec s o) s' /\ filter (about v) (out cf dec s o) = [].
Proof.
  intros Hc (Hn & Hk & Ht). destruct o as [w d|w|d]; cbn [concerns] in Hc; try discriminate.
  - assert (Hvw : Nat.eqb v w = false) by (rewrite Nat.eqb_sym; exact Hc).
    unfold same_for. cbn [next out now cnt timers]. unfold setc. rewrite Hvw.
    destruct (on_decision cf dec w (cnt s w + 1) d) as [k|dd].
    + repeat split; auto. cbn [filter about]. rewrite Hc. reflexivity.
    + destruct (dd <=? 0).
      * repeat split; auto. cbn [filter about]. rewrite Hc. reflexivity.
      * repeat split; auto. rewrite filter_app. cbn [filter]. unfold timer_of. cbn [fst]. rewrite Hc, app_nil_r. exact Ht.
  - assert (Hvw : Nat.eqb v w = false) by (rewrite Nat.eqb_sym; exact Hc).
    unfold same_for. cbn [next out now cnt timers filter]. unfold setc. rewrite Hvw. repeat split; auto.
Qed.

Lemma independence_from cf dec v : forall ops s s',
  same_for v s s' ->
  filter (about v) (calls cf dec s ops) = calls cf dec s' (filter (concerns v) ops)
  /\ same_for v (exec cf dec s ops) (exec cf dec s' (filter (concerns v) ops)).
Proof.
  induction ops as [|o t IH]; intros s s' H; cbn [calls exec filter]; [split; auto|].
  rewrite filter_app. destruct (concerns v o) eqn:Hc.
  - destruct (own_step cf dec v s s' o Hc H) as [H1 H2].
    destruct (IH _ _ H1) as [I1 I2]. cbn [calls exec]. rewrite H2, I1. split; auto.
  - destruct (other_step cf dec v s s' o Hc H) as [H1 H2].
    destruct (IH _ _ H1) as [I1 I2]. rewrite H2, I1. split; auto.
Qed.

Theorem independence cf dec v ops :
  let own := filter (concerns v) ops in
  filter (about v) (calls cf dec init ops) = calls cf dec init own
  /\ filter (timer_of v) (timers (exec cf dec init ops)) = timers (exec cf dec init own)
  /\ cnt (exec cf dec init ops) v = cnt (exec cf dec init own) v
  /\ now (exec cf dec init ops) = now (exec cf dec init own).
Proof.
  cbn zeta. destruct (independence_from cf dec v ops init init) as [H1 (H2 & H3 & H4)].
  - repeat split.
  - auto.
Qed.

(* every call of v's own run is about v: nothing of another victim leaks into it *)
Lemma own_run_about cf dec v ops :
  filter (about v) (calls cf dec init (filter (concerns v) ops)) = calls cf dec init (filter (concerns v) ops).
Proof.
  pose proof (independence cf dec v ops) as [H _]. cbn zeta in H. rewrite <- H.
  set (l := calls cf dec init ops). clearbody l. clear H.
  induction l as [|x l IH]; cbn [filter]; auto.
  destruct (about v x) eqn:E; cbn [filter]; rewrite ?E, IH; reflexivity.
Qed.

(* ---------------------------------------------------------------- pending-timer invariant, call times *)

Definition all_later (s : state) : Prop := forall p, In p (timers s) -> now s < snd p.

Lemma all_later_next cf dec s o : all_later s -> all_later (next cf dec s o).
Proof.
  intros H p Hp. destruct o as [w d|w|d]; cbn [next now timers] in *.
  - destruct (on_decision cf dec w (cnt s w + 1) d) as [k|dd]; auto.
    destruct (Z.leb_spec dd 0); auto.
    apply in_app_or in Hp as [Hp|[Hp|[]]]; auto. subst p. cbn [snd]. lia.
  - auto.
  - unfold pending in Hp. apply filter_In in Hp as [_ Hp]. unfold due_now in Hp.
    destruct (Z.leb_spec (snd p) (now s + Z.max 0 d)); [discriminate|lia].
Qed.

Lemma all_later_exec cf dec : forall ops s, all_later s -> all_later (exec cf dec s ops).
Proof. induction ops as [|o t IH]; intros s H; cbn [exec]; auto. apply IH, all_later_next, H. Qed.

Lemma out_times cf dec s o k v t : In (Call k v t) (out cf dec s o) -> now s <= t /\ t <= now (next cf dec s o) \/ t <= now (next cf dec s o) /\ k = KRestart.
Proof.
  destruct o as [w d|w|d]; cbn [out next now].
  - destruct (on_decision cf dec w (cnt s w + 1) d) as [k'|dd].
    + intros [H|[]]. inversion H; subst. left. lia.
    + destruct (dd <=? 0); [|intros []]. intros [H|[]]. inversion H; subst. left. lia.
  - intros [].
  - unfold fired. intros H. apply in_map_iff in H as ([w a] & E & H). unfold restart_call in E. cbn [fst snd] in E.
    inversion E; subst. apply filter_In in H as [_ H]. unfold due_now in H. cbn [snd] in H.
    destruct (Z.leb_spec t (now s + Z.max 0 d)); [|discriminate]. right. split; auto.
Qed.

Lemma calls_times cf dec : forall ops s k v t, In (Call k v t) (calls cf dec s ops) -> t <= now (exec cf dec s ops).
Proof.
  induction ops as [|o r IH]; intros s k v t H; cbn [calls exec] in *; [destruct H|].
  apply in_app_or in H as [H|H].
  - pose proof (now_mono cf dec r (next cf dec s o)). apply out_times in H. lia.
  - eapply IH, H.
Qed.

Lemma restarts_In : forall cs v t, In (v, t) (restarts cs) -> In (Call KRestart v t) cs.
Proof.
  induction cs as [|c cs IH]; intros v t H; cbn [restarts] in H; [destruct H|].
  destruct c as [k w a|]; [destruct k|]; try (right; apply IH, H).
  destruct H as [H|H]; [inversion H; subst; left; reflexivity|right; apply IH, H].
Qed.

(* ---------------------------------------------------------------- what a decision does *)

(* the model's effect of a failure (which tests the oracle value against -1, like the code) is the decision
   that the specification derives from the count, provided the oracle value respects the back-off contract *)
Lemma effect_decided cf dec pre v d :
  (kind cf = OneForOne -> dec v (streak v pre + 1) = DRestart -> adm cf (streak v pre + 1) d = true) ->
  match decided cf dec pre v d with
  | DueCall k => on_decision cf dec v (streak v pre + 1) d = ESync k /\ k <> KRestart
  | DueRestart a =>
      (on_decision cf dec v (streak v pre + 1) d = ESync KRestart /\ a = clock pre)
      \/ (on_decision cf dec v (streak v pre + 1) d = ETimer d /\ 0 <= d /\ a = clock pre + d)
  end.
Proof.
  intros Hadm. unfold decided, on_decision, one_for_one.
  destruct (kind cf) eqn:K; try (split; [reflexivity|discriminate]); try (left; split; reflexivity).
  destruct (dec v (streak v pre + 1)) eqn:D; try (split; [reflexivity|discriminate]).
  specialize (Hadm eq_refl eq_refl). unfold adm in Hadm.
  destruct (over_limit cf (streak v pre + 1)).
  - rewrite Hadm. split; [reflexivity|discriminate].
  - apply andb_true_iff in Hadm as [Hadm _]. apply andb_true_iff in Hadm as [H0 _].
    destruct (Z.leb_spec 0 d); [|discriminate].
    destruct (Z.eqb_spec d (-1)); [lia|]. right. repeat split; auto.
Qed.

Lemma op_ok_adm cf dec pre s v d :
  agrees pre s -> op_ok cf dec s (Fail v d) = true ->
  kind cf = OneForOne -> dec v (streak v pre + 1) = DRestart -> adm cf (streak v pre + 1) d = true.
Proof.
  intros [_ Hc] H K D. cbn [op_ok] in H. rewrite Hc, K, D in H. exact H.
Qed.

(* one step against the specification: the Restart calls made and the timers left are the timers there were
   plus the restart this operation grants; the other calls are exactly what the operation demands at once *)
Lemma ledger_step cf dec pre s o :
  agrees pre s -> op_ok cf dec s o = true ->
  Permutation (restarts (out cf dec s o) ++ timers (next cf dec s o)) (timers s ++ sched1 cf dec pre o)
  /\ filter (fun c => negb (is_restart c)) (out cf dec s o) = imm1 cf dec pre o.
Proof.
  intros Ha Hok. destruct o as [v d|v|d].
  - pose proof (effect_decided cf dec pre v d (op_ok_adm cf dec pre s v d Ha Hok)) as E.
    destruct Ha as [Hn Hc]. cbn [out next timers sched1 imm1]. rewrite Hc, Hn.
    destruct (decided cf dec pre v d) as [a|k].
    + destruct E as [[E Ea]|(E & Hd & Ea)]; rewrite E; subst a.
      * split; [|reflexivity]. cbn [restarts app]. apply Permutation_cons_append.
      * destruct (Z.leb_spec d 0).
        -- assert (d = 0) by lia. subst d. rewrite Z.add_0_r. split; [|reflexivity].
           cbn [restarts app]. apply Permutation_cons_append.
        -- split; [|reflexivity]. cbn [restarts app]. apply Permutation_refl.
    + destruct E as [E Hk]. rewrite E. split.
      * destruct k; try congruence; cbn [restarts app]; rewrite app_nil_r; apply Permutation_refl.
      * destruct k; try congruence; reflexivity.
  - cbn [out next timers sched1 imm1 restarts app filter]. rewrite app_nil_r. split; [apply Permutation_refl|reflexivity].
  - cbn [out next timers sched1 imm1]. rewrite app_nil_r. split.
    + unfold fired, pending. rewrite restarts_restart_call. apply partition_perm.
    + unfold fired. apply others_restart_call.
Qed.

Lemma ledger_from cf dec : forall ops pre s,
  agrees pre s -> ops_ok cf dec s ops = true ->
  Permutation (restarts (calls cf dec s ops) ++ timers (exec cf dec s ops)) (timers s ++ scheduled cf dec pre ops)
  /\ filter (fun c => negb (is_restart c)) (calls cf dec s ops) = immediate cf dec pre ops.
Proof.
  induction ops as [|o t IH]; intros pre s Ha Hok; cbn [calls exec scheduled immediate restarts app filter].
  - rewrite app_nil_r. split; [apply Permutation_refl|reflexivity].
  - cbn [ops_ok] in Hok. apply andb_true_iff in Hok as [Ho Ht].
    destruct (ledger_step cf dec pre s o Ha Ho) as [S1 S2].
    destruct (IH (pre ++ [o]) (next cf dec s o) (agrees_next cf dec pre s o Ha) Ht) as [I1 I2].
    split.
    + rewrite restarts_app, <- app_assoc.
      eapply Permutation_trans; [apply Permutation_app_head, I1|].
      rewrite !app_assoc. apply Permutation_app_tail, S1.
    + rewrite filter_app, S2, I2. reflexivity.
Qed.

(* ---------------------------------------------------------------- (b) the ledger of restarts *)

Theorem restart_ledger cf dec ops :
  oracle_ok cf dec ops = true ->
  let s := exec cf dec init ops in
  let cs := calls cf dec init ops in
  Permutation (restarts cs ++ timers s) (scheduled cf dec [] ops)
  /\ (forall v a, In (v, a) (timers s) -> clock ops < a)
  /\ (forall k v t, In (Call k v t) cs -> t <= clock ops).
Proof.
  intros Hok. cbn zeta. destruct (ledger_from cf dec ops [] init agrees_init Hok) as [H _].
  pose proof (agrees_run cf dec ops) as [Hn _]. repeat split.
  - exact H.
  - intros v a Hin. rewrite <- Hn. apply (all_later_exec cf dec ops init) in Hin; [exact Hin|intros p []].
  - intros k v t Hin. rewrite <- Hn. eapply calls_times, Hin.
Qed.

Definition pair_eq_dec : forall x y : nat * Z, {x = y} + {x <> y}.
Proof. decide equality; [apply Z.eq_dec|apply Nat.eq_dec]. Defined.

Definition occ (l : list (nat * Z)) (p : nat * Z) : nat := count_occ pair_eq_dec l p.

(* each granted restart happens exactly once, exactly at its time, and not before *)
Theorem restart_exactly_once cf dec ops v a :
  oracle_ok cf dec ops = true ->
  let n := occ (scheduled cf dec [] ops) (v, a) in
  (a <= clock ops -> occ (restarts (calls cf dec init ops)) (v, a) = n /\ occ (timers (exec cf dec init ops)) (v, a) = O)
  /\ (clock ops < a -> occ (restarts (calls cf dec init ops)) (v, a) = O /\ occ (timers (exec cf dec init ops)) (v, a) = n).
Proof.
  intros Hok. cbn zeta. destruct (restart_ledger cf dec ops Hok) as (P & L & T). cbn zeta in *.
  pose proof (proj1 (Permutation_count_occ pair_eq_dec _ _) P (v, a)) as C.
  rewrite count_occ_app in C. unfold occ. split; intros H.
  - assert (Z0 : count_occ pair_eq_dec (timers (exec cf dec init ops)) (v, a) = O).
    { apply count_occ_not_In. intros Hin. apply L in Hin. lia. }
    split; [lia|exact Z0].
  - assert (Z0 : count_occ pair_eq_dec (restarts (calls cf dec init ops)) (v, a) = O).
    { apply count_occ_not_In. intros Hin. apply restarts_In, T in Hin. lia. }
    split; [exact Z0|lia].
Qed.

(* ---------------------------------------------------------------- (d) the calls made at once *)

Theorem immediate_calls cf dec ops :
  oracle_ok cf dec ops = true ->
  filter (fun c => negb (is_restart c)) (calls cf dec init ops) = immediate cf dec [] ops.
Proof. intros Hok. apply (ledger_from cf dec ops [] init agrees_init Hok). Qed.

(* step form: a Stop / Resume / Escalate decision of OneForOne *)
Definition call_of (d : directive) : ckind :=
  match d with DStop => KStop | DResume => KResume | DEscalate => KEscalate | DRestart => KRestart | DInvalid => KPanic end.

Theorem directive_at_once cf dec pre v d :
  kind cf = OneForOne ->
  dec v (streak v pre + 1) <> DRestart ->
  let s := exec cf dec init pre in
  out cf dec s (Fail v d) = [Call (call_of (dec v (streak v pre + 1))) v (clock pre)]
  /\ timers (next cf dec s (Fail v d)) = timers s.
Proof.
  intros K D. cbn zeta. pose proof (agrees_run cf dec pre) as [Hn Hc].
  cbn [out next timers]. rewrite Hc, Hn. unfold on_decision, one_for_one. rewrite K.
  destruct (dec v (streak v pre + 1)); try congruence; split; reflexivity.
Qed.

(* the canned strategies: exactly their call, at once, and never a timer *)
Definition canned_call (k : skind) : ckind :=
  match k with CannedRestart => KRestart | CannedStop => KStop | CannedResume => KResume | OneForOne => KPanic end.

Lemma canned_no_timer cf dec : kind cf <> OneForOne -> forall ops s, timers s = [] -> timers (exec cf dec s ops) = [].
Proof.
  intros K. induction ops as [|o t IH]; intros s H; cbn [exec]; auto. apply IH.
  destruct o as [w d|w|d]; cbn [next timers]; auto.
  - unfold on_decision. destruct (kind cf); try congruence; exact H.
  - rewrite H. reflexivity.
Qed.

Theorem canned_at_once cf dec pre v d :
  kind cf <> OneForOne ->
  let s := exec cf dec init pre in
  out cf dec s (Fail v d) = [Call (canned_call (kind cf)) v (clock pre)]
  /\ timers (exec cf dec init (pre ++ [Fail v d])) = [].
Proof.
  intros K. cbn zeta. pose proof (agrees_run cf dec pre) as [Hn Hc]. split.
  - cbn [out]. rewrite Hn. unfold on_decision. destruct (kind cf); try congruence; reflexivity.
  - apply canned_no_timer; auto.
Qed.

(* ---------------------------------------------------------------- (c) the restart limit and the count *)

Theorem count_exact cf dec ops v : cnt (exec cf dec init ops) v = streak v ops.
Proof. apply agrees_run. Qed.

Lemma streak_fail v pre d : streak v (pre ++ [Fail v d]) = streak v pre + 1.
Proof. rewrite streak_snoc. cbn [fstreak]. rewrite Nat.eqb_refl. reflexivity. Qed.

Lemma streak_solved v pre : streak v (pre ++ [Solved v]) = 0.
Proof. rewrite streak_snoc. cbn [fstreak]. rewrite Nat.eqb_refl. reflexivity. Qed.

Lemma streak_other v pre o : concerns v o = false -> streak v (pre ++ [o]) = streak v pre.
Proof.
  intros H. rewrite streak_snoc. destruct o as [w d|w|d]; cbn [fstreak concerns] in *; try rewrite H; auto; discriminate.
Qed.

Lemma streak_advance v pre d : streak v (pre ++ [Advance d]) = streak v pre.
Proof. rewrite streak_snoc. reflexivity. Qed.

Definition fail_of (v : nat) (o : op) : Prop := match o with Fail w _ => w = v | _ => False end.

(* n failures in a row count n, whatever n: the count does not saturate *)
Theorem streak_fails v : forall fs pre, Forall (fail_of v) fs -> streak v (pre ++ fs) = streak v pre + Z.of_nat (length fs).
Proof.
  induction fs as [|o fs IH]; intros pre H; cbn [length].
  - rewrite app_nil_r. lia.
  - inversion H as [|o' fs' Ho Hfs]; subst.
    replace (pre ++ o :: fs) with ((pre ++ [o]) ++ fs) by (rewrite <- app_assoc; reflexivity).
    rewrite IH by exact Hfs. destruct o as [w d|w|d]; cbn [fail_of] in Ho; try contradiction. subst w.
    rewrite streak_fail. lia.
Qed.

Theorem limit_honoured cf dec pre v d :
  kind cf = OneForOne -> 0 <= limit cf -> limit cf < streak v pre + 1 ->
  dec v (streak v pre + 1) = DRestart ->
  oracle_ok cf dec (pre ++ [Fail v d]) = true ->
  let s := exec cf dec init pre in
  out cf dec s (Fail v d) = [Call KStop v (clock pre)]
  /\ timers (next cf dec s (Fail v d)) = timers s
  /\ decided cf dec pre v d = DueCall KStop.
Proof.
  intros K L0 L D Hok. cbn zeta. unfold oracle_ok in Hok. rewrite ops_ok_app in Hok.
  apply andb_true_iff in Hok as [_ Hok]. cbn [ops_ok] in Hok. rewrite andb_true_r in Hok.
  pose proof (agrees_run cf dec pre) as Ha.
  pose proof (op_ok_adm cf dec pre _ v d Ha Hok K D) as A.
  destruct Ha as [Hn Hc]. unfold adm in A.
  assert (O : over_limit cf (streak v pre + 1) = true).
  { unfold over_limit. apply andb_true_iff. split.
    - destruct (Z.gtb_spec (limit cf) (-1)); auto; lia.
    - destruct (Z.gtb_spec (streak v pre + 1) (limit cf)); auto; lia. }
  rewrite O in A. cbn [out next timers]. rewrite Hc, Hn. unfold decided, on_decision, one_for_one.
  rewrite K, D, A, O. repeat split.
Qed.

(* a Restart decision within the limit (or without limit): one timer, due after the decided delay, which lies
   within the configured bounds; no call is made before (a delay of 0 restarts at once) *)
Theorem restart_granted cf dec pre v d :
  kind cf = OneForOne -> (limit cf < 0 \/ streak v pre + 1 <= limit cf) ->
  dec v (streak v pre + 1) = DRestart ->
  oracle_ok cf dec (pre ++ [Fail v d]) = true ->
  let s := exec cf dec init pre in
  0 <= d <= Z.max 0 (mx cf)
  /\ decided cf dec pre v d = DueRestart (clock pre + d)
  /\ (0 < d -> out cf dec s (Fail v d) = [] /\ timers (next cf dec s (Fail v d)) = timers s ++ [(v, clock pre + d)])
  /\ (d = 0 -> out cf dec s (Fail v d) = [Call KRestart v (clock pre)] /\ timers (next cf dec s (Fail v d)) = timers s).
Proof.
  intros K L D Hok. cbn zeta. unfold oracle_ok in Hok. rewrite ops_ok_app in Hok.
  apply andb_true_iff in Hok as [_ Hok]. cbn [ops_ok] in Hok. rewrite andb_true_r in Hok.
  pose proof (agrees_run cf dec pre) as Ha.
  pose proof (op_ok_adm cf dec pre _ v d Ha Hok K D) as A.
  destruct Ha as [Hn Hc]. unfold adm in A.
  assert (O : over_limit cf (streak v pre + 1) = false).
  { unfold over_limit. apply andb_false_iff.
    destruct (Z.gtb_spec (limit cf) (-1)); auto.
    destruct (Z.gtb_spec (streak v pre + 1) (limit cf)); auto. lia. }
  rewrite O in A. apply andb_true_iff in A as [A _]. apply andb_true_iff in A as [A1 A2].
  destruct (Z.leb_spec 0 d); [|discriminate]. destruct (Z.leb_spec d (Z.max 0 (mx cf))); [|discriminate].
  cbn [out next timers]. rewrite Hc, Hn. unfold decided, on_decision, one_for_one. rewrite K, D, O.
  destruct (Z.eqb_spec d (-1)); [lia|].
  split; [lia|]. split; [reflexivity|].
  split; intros Hd; destruct (Z.leb_spec d 0); try lia; split; reflexivity.
Qed.
