(* MV.C07.FutLib — small generic lemmas about pools and [gstep] used by the C07 proofs
   (kept here because coq/Lib is shared). *)
From MV Require Import Lib.ListX Lib.Sched.
Open Scope Z_scope.

Definition b2z (b : bool) : Z := if b then 1 else 0.
Arguments b2z !b : simpl nomatch.
Lemma b2z_bounds b : 0 <= b2z b <= 1. Proof. destruct b; simpl; lia. Qed.

Section G.
Variable M : machine.

Lemma gstep_inv (st : state M) i c st' e :
  gstep st i c = Some (st', e) ->
  exists l s' ol sp, nth_error (snd st) i = Some (Some l) /\
    tstep M (fst st) l c = Some (s', ol, sp, e) /\ st' = (s', upd i ol (snd st) ++ map Some sp).
Proof.
  unfold gstep. destruct (nth_error (snd st) i) as [[l|]|] eqn:Hn; try discriminate.
  destruct (tstep M (fst st) l c) as [[[[s' ol] sp] e']|] eqn:Ht; try discriminate.
  intros H; inversion H; subst. exists l, s', ol, sp. auto.
Qed.

Lemma nth_error_upd {A} (p : list A) i x j :
  nth_error (upd i x p) j = if Nat.eqb i j then (match nth_error p j with Some _ => Some x | None => None end) else nth_error p j.
Proof.
  revert i j; induction p as [|h t IH]; intros [|i] [|j]; simpl; auto.
  destruct (Nat.eqb i j); reflexivity.
Qed.

(* a live thread of the pool after a step is an untouched old thread, the continuation of the stepping
   thread, or a freshly spawned one *)
Lemma live_after (p : pool M) i ol (sp : list (local M)) j l' :
  nth_error (upd i ol p ++ map Some sp) j = Some (Some l') ->
  (j <> i /\ nth_error p j = Some (Some l')) \/ ol = Some l' \/ In l' sp.
Proof.
  intros H. destruct (Nat.lt_ge_cases j (length (upd i ol p))) as [Hlt|Hge].
  - rewrite nth_error_app1 in H by assumption. rewrite nth_error_upd in H.
    destruct (Nat.eqb_spec i j) as [->|Hne].
    + destruct (nth_error p j); inversion H; subst; auto.
    + left; split; [congruence | exact H].
  - rewrite nth_error_app2 in H by assumption. right; right.
    apply nth_error_In in H. apply in_map_iff in H. destruct H as (x & Hx & Hin). inversion Hx; subst; exact Hin.
Qed.

Lemma all_live_step (P : local M -> Prop) (p : pool M) i ol sp :
  (forall j l, j <> i -> nth_error p j = Some (Some l) -> P l) ->
  (forall l, ol = Some l -> P l) -> (forall l, In l sp -> P l) ->
  all_live P (upd i ol p ++ map Some sp).
Proof.
  intros H1 H2 H3 j l Hn. destruct (live_after _ _ _ _ _ _ Hn) as [[Hne Ho]|[Ho|Ho]]; eauto.
Qed.

Lemma reach_trans (a b c : state M) : reach a b -> reach b c -> reach a c.
Proof. intros Hab Hbc. induction Hbc; [assumption | econstructor; eauto]. Qed.

(* two different live threads both count in a total *)
Lemma total_two (f : local M -> Z) (p : pool M) i j l l' :
  (forall x, 0 <= f x) -> i <> j ->
  nth_error p i = Some (Some l) -> nth_error p j = Some (Some l') -> f l + f l' <= total f p.
Proof.
  intros Hf. revert i j. induction p as [|h t IH]; intros [|i] [|j] Hne Hi Hj; simpl in *; try discriminate; try congruence.
  - inversion Hi; subst. pose proof (total_ge_nth M f t j l' Hf Hj). lia.
  - inversion Hj; subst. pose proof (total_ge_nth M f t i l Hf Hi). lia.
  - assert (i <> j) by congruence. specialize (IH i j H Hi Hj).
    destruct h as [x|]; [specialize (Hf x)|]; lia.
Qed.

Lemma total_all_live_zero (f : local M -> Z) (P : local M -> Prop) (p : pool M) :
  (forall l, P l -> f l = 0) -> all_live P p -> total f p = 0.
Proof.
  intros Hz. induction p as [|[l|] t IH]; intros Ha; simpl; auto.
  - rewrite (Hz l (Ha 0%nat l eq_refl)). rewrite IH; [reflexivity|]. intros i l' Hn. apply (Ha (S i)). exact Hn.
  - apply IH. intros i l' Hn. apply (Ha (S i)). exact Hn.
Qed.

End G.

Arguments gstep_inv {M}.
Arguments live_after {M}.
Arguments all_live_step {M}.
Arguments reach_trans {M}.
Arguments total_two {M}.
Arguments total_all_live_zero {M}.
