(* MV.C07.IdsModel — layer-A machine for the source of the temporary reply addresses and the routing of
   replies through the registry, i.e. what surrounds the future process of MV.C07.FutModel:

     actor_context.go   nextChildGuid():   ctx.childGuid++ ; return ctx.childGuid
                                            = load ; store(+1) ; load          [ANext ; AStore ; ARet]    (as written)
                                            = atomic.AddUint64(&ctx.childGuid, 1)   [ANext]   (fixes/C07-guid-atomic.patch)
                        FutureAsk():        id := ctx.ref.Derivation(nextChildGuid())
     future.go          New():              rc.Register(id, fp)  — LoadOrStore; ONLY when the address was free does
                                            Initialize run (f.rc = rc, timer armed)                       [AReg]
     actor_context.go   deliveryUserMessage(target, ..., sender = f.Ref(), message)                       [ASend]
                        Reply():            rc.GetProcess(sender).DeliveryUserMessage(reply)              [RReply]
     future.go          timer:              Close(ErrorFutureTimeout) -> Unregister                       [ITimer]

   [atomic_ids] selects which text of nextChildGuid the machine runs. ActorSystem.FutureAsk, the typed helper
   called with the system, and every goroutine using them go through ONE context (system.guard), hence one
   counter: the environment thread spawns any number of asker threads, each performing any number of asks in
   sequence. The inside of a future (one-shot completion) is the machine of FutModel; here a future is
   abstracted to "completed with the reply to request r' / with the timeout", at most once (FutProofs.done_once),
   the completion unregistering the address in the same step.  No proofs in this file. *)
From MV Require Import Lib.ListX Lib.Sched.
Open Scope Z_scope.

Inductive ipc :=
| IEnv
| ANext                       (* about to call nextChildGuid (or to stop asking) *)
| AStore (v : Z)              (* as written: loaded v, about to store v+1 *)
| ARet                        (* as written: stored, about to load the field again for the return value *)
| AReg (r : nat) (id : Z)     (* request r was given address id; about to rc.Register(id, future r) *)
| ASend (r : nat) (id : Z)    (* about to deliver request r with sender = address id *)
| RReply (r : nat) (id : Z)   (* the target's reply to request r, routed through the registry to address id *)
| ITimer (r : nat) (id : Z).  (* the timer armed by Initialize of future r *)

Inductive ichoice := ICNone | ICAsker | ICReply | ICSilent | ICStop.

Inductive ievent :=
| IEvSpawn
| IEvLoad (v : Z)
| IEvStore (v : Z)
| IEvId (r : nat) (id : Z)
| IEvRegister (r : nat) (id : Z) (exist : bool)
| IEvSend (r : nat)
| IEvDeliver (r : nat) (to : option nat) (won : bool)
| IEvTimeout (r : nat) (won : bool)
| IEvStop.

Record ish := {
  atomic_ids : bool;               (* which text of nextChildGuid *)
  guid : Z;                        (* ctx.childGuid *)
  reg : list (Z * nat);            (* rc.processes restricted to reply addresses: address -> owning future (request number) *)
  (* ghost *)
  issued : list Z;                 (* issued[r] = the id nextChildGuid returned for request r *)
  armed : list nat;                (* requests whose future was initialised: f.rc set, timer armed *)
  unarmed : list nat;              (* requests whose Register reported the address taken: no Initialize, no timer *)
  results : list (nat * option nat); (* (o, Some r): future o completed with the reply to request r; (o, None): with the timeout *)
  everreg : list Z;                (* every address that was ever stored in the registry *)
  askers : Z                       (* asker threads spawned so far *)
}.

Definition iinit_sh (atomic : bool) : ish :=
  {| atomic_ids := atomic; guid := 0; reg := []; issued := []; armed := []; unarmed := []; results := [];
     everreg := []; askers := 0 |}.

Fixpoint lookup (id : Z) (l : list (Z * nat)) : option nat :=
  match l with
  | [] => None
  | (k, o) :: t => if Z.eqb k id then Some o else lookup id t
  end.
Definition unreg (id : Z) (l : list (Z * nat)) : list (Z * nat) := filter (fun x => negb (Z.eqb (fst x) id)) l.
Definition resolved (o : nat) (l : list (nat * option nat)) : bool := existsb (fun x => Nat.eqb (fst x) o) l.

Definition set_guid v s := {| atomic_ids := atomic_ids s; guid := v; reg := reg s; issued := issued s; armed := armed s;
  unarmed := unarmed s; results := results s; everreg := everreg s; askers := askers s |}.
Definition issue id s := {| atomic_ids := atomic_ids s; guid := guid s; reg := reg s; issued := issued s ++ [id]; armed := armed s;
  unarmed := unarmed s; results := results s; everreg := everreg s; askers := askers s |}.
Definition register id r s := {| atomic_ids := atomic_ids s; guid := guid s; reg := reg s ++ [(id, r)]; issued := issued s;
  armed := armed s ++ [r]; unarmed := unarmed s; results := results s; everreg := everreg s ++ [id]; askers := askers s |}.
Definition refuse r s := {| atomic_ids := atomic_ids s; guid := guid s; reg := reg s; issued := issued s; armed := armed s;
  unarmed := unarmed s ++ [r]; results := results s; everreg := everreg s; askers := askers s |}.
Definition complete o (w : option nat) id s := {| atomic_ids := atomic_ids s; guid := guid s; reg := unreg id (reg s); issued := issued s;
  armed := armed s; unarmed := unarmed s; results := results s ++ [(o, w)]; everreg := everreg s; askers := askers s |}.
Definition add_asker s := {| atomic_ids := atomic_ids s; guid := guid s; reg := reg s; issued := issued s; armed := armed s;
  unarmed := unarmed s; results := results s; everreg := everreg s; askers := askers s + 1 |}.

Definition IR := (ish * option ipc * list ipc * ievent)%type.

Definition istep (s : ish) (l : ipc) (c : ichoice) : option IR :=
  match l with
  | IEnv =>
      match c with
      | ICAsker => Some (add_asker s, Some IEnv, [ANext], IEvSpawn)
      | _ => None
      end
  | ANext =>
      match c with
      | ICStop => Some (s, None, [], IEvStop)
      | _ =>
          if atomic_ids s then
            let id := guid s + 1 in
            Some (issue id (set_guid id s), Some (AReg (length (issued s)) id), [], IEvId (length (issued s)) id)
          else Some (s, Some (AStore (guid s)), [], IEvLoad (guid s))
      end
  | AStore v => Some (set_guid (v + 1) s, Some ARet, [], IEvStore (v + 1))
  | ARet => Some (issue (guid s) s, Some (AReg (length (issued s)) (guid s)), [], IEvId (length (issued s)) (guid s))
  | AReg r id =>
      match lookup id (reg s) with
      | Some _ => Some (refuse r s, Some (ASend r id), [], IEvRegister r id true)
      | None => Some (register id r s, Some (ASend r id), [ITimer r id], IEvRegister r id false)
      end
  | ASend r id =>
      match c with
      | ICReply => Some (s, Some ANext, [RReply r id], IEvSend r)
      | ICSilent => Some (s, Some ANext, [], IEvSend r)
      | _ => None
      end
  | RReply r id =>
      match lookup id (reg s) with
      | None => Some (s, None, [], IEvDeliver r None false)                  (* no such process: the abyss *)
      | Some o =>
          if resolved o (results s) then Some (s, None, [], IEvDeliver r (Some o) false)
          else Some (complete o (Some r) id s, None, [], IEvDeliver r (Some o) true)
      end
  | ITimer r id =>
      if resolved r (results s) then Some (s, None, [], IEvTimeout r false)
      else Some (complete r None id s, None, [], IEvTimeout r true)
  end.

Definition Ids : machine :=
  {| shared := ish; local := ipc; Sched.choice := ichoice; ev := ievent; tstep := istep |}.

Definition iinit (atomic : bool) : state Ids := (iinit_sh atomic, [Some IEnv]).

(* ---- observables ---- *)
Definition isasker (l : ipc) : Z :=
  match l with ANext | AStore _ | ARet | AReg _ _ | ASend _ _ => 1 | _ => 0 end.
(* every thread except the environment and idle askers has finished *)
Definition iidle (l : ipc) : Prop := l = IEnv \/ l = ANext.
Definition iquiescent (st : state Ids) : Prop := @all_live Ids iidle (snd st).
