(* MV.C07.Properties — statements of property C07 ("an ask resolves exactly once: with its own reply or with a
   timeout") on two layer-A machines:
     MV.C07.FutModel  transcribes engine/future/future.go statement by statement (one future process, its registry
                      slot, the timer goroutine, any number of deliverers / user Close / Forward / Result calls);
     MV.C07.IdsModel  transcribes the id source nextChildGuid of engine/vivid/actor_context.go (both texts: as written
                      = load ; store ; load, and repaired = one atomic add), Register's LoadOrStore + conditional
                      Initialize, and the routing of a reply through the registry to the future registered under the
                      sender address, for any number of asker threads on one context.
   Quantification: every schedule of every length (reach), unbounded threads spawned by the environment thread.
   Repairs modelled: fixes/C07-guid-atomic.patch (atomic counter: [iinit true]), fixes/C07-error-reply.patch (an error
   reply inside a MessageWrapper fails the ask). The code as written is [iinit false]. *)
From MV Require Import Lib.ListX Lib.Sched C07.FutLib C07.FutModel C07.FutProofs C07.IdsModel C07.IdsProofs
  C07.LifeModel C07.LifeSource C07.LifeProofs.
Open Scope Z_scope.

(* ---------------------------------------------------------------- the future process *)

(* close(f.done) is executed at most once in every run (a second execution would panic); done is closed iff it
   was executed *)
Theorem C07_done_closed_once : forall st, reach init st ->
  closes (fst st) <= 1 /\ (done (fst st) = true <-> closes (fst st) = 1).
Proof. exact done_once. Qed.
Print Assumptions C07_done_closed_once.

(* Full statement wanted: from the moment done is closed, Result() = (f.message, f.err) never changes.
   It is FALSE of future.go for f.message (C07_message_after_completion_refuted below). Proved: f.err never
   changes; f.message never changes either, from any state in which no deliverer that read closed = false before
   the completion is still about to execute `f.message = message`. *)
Theorem C07_resolves_once_partial : forall st st',
  reach init st -> done (fst st) = true -> reach st st' ->
  done (fst st') = true /\ err (fst st') = err (fst st) /\
  (in_flight_stores st = 0 -> message (fst st') = message (fst st)).
Proof. exact stable_after_done. Qed.
Print Assumptions C07_resolves_once_partial.

(* the late store: Result() = (nil, timeout) and later Result() = (7, timeout) *)
Theorem C07_message_after_completion_refuted :
  exists st st', reach init st /\ done (fst st) = true /\ result (fst st) = (None, Some RTimeout) /\
                 reach st st' /\ result (fst st') = (Some 7%nat, Some RTimeout).
Proof. exact message_after_completion_refuted. Qed.
Print Assumptions C07_message_after_completion_refuted.

(* the result is a message delivered to THIS process with a nil error ((nil, nil) only after the user's own
   Close(nil)), or the timeout error of the armed and fired timer, or an error reply delivered to THIS process,
   or the reason of the user's own Close; f.message is never anything but a message delivered to this process *)
Theorem C07_outcome : forall st, reach init st -> done (fst st) = true ->
  let s := fst st in
  (forall m, message s = Some m -> In m (delivered s)) /\
  match err s with
  | None => (exists m, message s = Some m /\ In m (delivered s)) \/ In None (reasons s)
  | Some RTimeout => has_timer s = true /\ fired s = true
  | Some (RErr e) => In e (errs_in s)
  | Some (RUser e) => In (Some e) (reasons s)
  end.
Proof. exact outcome. Qed.
Print Assumptions C07_outcome.

(* no later than its timeout (model time = the step at which the scheduler runs the timer goroutine): once the
   timer's Close has executed its CAS the future is closed, and done is closed unless the winner of the CAS is
   still between the CAS and its next two statements (f.err = reason ; close(f.done)), which are never blocked *)
Theorem C07_by_timeout : forall st, reach init st -> fired (fst st) = true -> T tfc (snd st) = 0 ->
  closed (fst st) = true /\ (done (fst st) = true \/ T pre (snd st) = 1).
Proof. exact by_timeout. Qed.
Print Assumptions C07_by_timeout.

(* never by hanging: with the timer armed, when every started call has returned and the timer goroutine has run
   or was stopped, the ask is completed *)
Theorem C07_no_hang : forall st, reach init st -> has_timer (fst st) = true -> quiescent st -> done (fst st) = true.
Proof. exact no_hang. Qed.
Print Assumptions C07_no_hang.

(* released: the address leaves the registry only through the completion, and it is gone as soon as the winner
   has executed its Unregister statement *)
Theorem C07_released : forall st, reach init st ->
  (registered (fst st) = false -> closed (fst st) = true) /\
  (closed (fst st) = true -> T pend (snd st) = 0 -> registered (fst st) = false).
Proof. exact released. Qed.
Print Assumptions C07_released.

Theorem C07_released_quiescent : forall st, reach init st -> quiescent st -> done (fst st) = true ->
  registered (fst st) = false.
Proof. exact released_quiescent. Qed.
Print Assumptions C07_released_quiescent.

(* Close's execForward and Forward exclude each other *)
Theorem C07_forward_mutex : forall st, reach init st -> T holds (snd st) <= 1.
Proof. exact forward_mutex. Qed.
Print Assumptions C07_forward_mutex.

(* ---------------------------------------------------------------- reply addresses *)

(* nextChildGuid as written, one asker thread performing any number of asks one after the other: distinct ids *)
Theorem C07_ids_distinct_sequential : forall st,
  reach (iinit false) st -> askers (fst st) <= 1 -> NoDup (issued (fst st)).
Proof. exact ids_distinct_sequential. Qed.
Print Assumptions C07_ids_distinct_sequential.

(* repaired nextChildGuid (one atomic add), any number of concurrent asker threads on one context: distinct ids *)
Theorem C07_ids_distinct_concurrent : forall st, reach (iinit true) st -> NoDup (issued (fst st)).
Proof. exact ids_distinct_concurrent. Qed.
Print Assumptions C07_ids_distinct_concurrent.

(* nextChildGuid as written, two concurrent askers (ActorSystem.FutureAsk from two goroutines): both asks get id 1;
   Register reports the address taken for request 1, whose future is never initialised (no timer) and never
   completes; future 0 completes with the reply to request 1 *)
Theorem C07_ids_distinct_concurrent_refuted :
  exists st, reach (iinit false) st /\
    issued (fst st) = [1; 1] /\ ~ NoDup (issued (fst st)) /\
    unarmed (fst st) = [1%nat] /\ results (fst st) = [(0%nat, Some 1%nat)] /\
    snd st = [Some IEnv; None; None; None; None; None].
Proof. exact ids_distinct_concurrent_refuted. Qed.
Print Assumptions C07_ids_distinct_concurrent_refuted.

(* own reply: whichever text of the counter runs, as long as the ids handed out are pairwise distinct a future
   that completes with a reply completes with the reply to ITS OWN request *)
Theorem C07_own_reply : forall b st, reach (iinit b) st -> NoDup (issued (fst st)) ->
  forall o r, In (o, Some r) (results (fst st)) -> o = r.
Proof. exact own_reply. Qed.
Print Assumptions C07_own_reply.

(* repaired counter: never another request's reply, for any number of concurrent askers *)
Theorem C07_own_reply_concurrent : forall st, reach (iinit true) st ->
  forall o r, In (o, Some r) (results (fst st)) -> o = r.
Proof. intros st Hr. apply (own_reply true st Hr). apply ids_distinct_concurrent. exact Hr. Qed.
Print Assumptions C07_own_reply_concurrent.

(* repaired counter: Register never finds a reply address taken: every future is initialised, its timer armed
   (so C07_no_hang applies to every ask) *)
Theorem C07_every_ask_armed : forall st, reach (iinit true) st -> unarmed (fst st) = [].
Proof. exact every_ask_armed. Qed.
Print Assumptions C07_every_ask_armed.

(* ---------------------------------------------------------------- the id source over the life of an actor context
   MV.C07.LifeModel: one actor address; every consumer of the context's counter (FutureAsk, the typed helper,
   AwaitForward, ActorOf without a name) on any number of threads; restarts at any moment (same context, children
   gone); [linit r b]: r = a store into the counter on the restart path (None = the source has none; tie T3 extracts
   it from the tree under test), b = the actor may also be terminated and created again under the same name. *)

(* every value nextChildGuid ever returned, tagged with the context that returned it, is distinct from every other:
   the addresses handed out by ONE actor context are pairwise distinct over its whole life, restarts included,
   whichever consumer took them *)
Theorem C07_handed_distinct_whole_life : forall b st, reach (linit None b) st -> NoDup (lhanded (fst st)).
Proof. exact handed_distinct. Qed.
Print Assumptions C07_handed_distinct_whole_life.

(* one context (restarts, no re-creation): the reply addresses of all its asks are pairwise distinct *)
Theorem C07_ask_addresses_distinct_whole_life : forall st, reach (linit None false) st -> NoDup (lissued (fst st)).
Proof. exact ask_addresses_distinct. Qed.
Print Assumptions C07_ask_addresses_distinct_whole_life.

(* corollary: no two live asks (issued, not yet resolved by a reply or a timeout) share a reply address *)
Theorem C07_live_asks_distinct_addresses : forall st, reach (linit None false) st ->
  forall r1 r2 id, llive (fst st) r1 -> llive (fst st) r2 ->
    nth_error (lissued (fst st)) r1 = Some id -> nth_error (lissued (fst st)) r2 = Some id -> r1 = r2.
Proof. exact live_asks_distinct_addresses. Qed.
Print Assumptions C07_live_asks_distinct_addresses.

(* one context: Register never reports an address taken — every future is initialised (timer armed: C07_no_hang
   applies to every ask), no ActorOf / AwaitForward is refused — restarts included *)
Theorem C07_every_ask_armed_whole_life : forall st, reach (linit None false) st ->
  lunarmed (fst st) = [] /\ lrefused (fst st) = 0%nat.
Proof. exact life_every_ask_armed. Qed.
Print Assumptions C07_every_ask_armed_whole_life.

(* one context: a future completes with a reply only if it is the reply to its own request — restarts included *)
Theorem C07_own_reply_whole_life : forall st, reach (linit None false) st ->
  forall o q, In (o, Some q) (lresults (fst st)) -> o = q.
Proof. intros st Hr. exact (life_own_reply None false st Hr (ask_addresses_distinct st Hr)). Qed.
Print Assumptions C07_own_reply_whole_life.

(* the same four facts for any source whose extracted counter accesses are the machine's (tie T3 proves the
   hypothesis for the tree under test by vm_compute on every run: Instance.v) *)
Theorem C07_whole_life_at_source : forall acc cs cr, source_ok acc cs cr = true ->
  forall st, reach (linit_src acc false) st ->
    NoDup (lhanded (fst st)) /\ NoDup (lissued (fst st)) /\ lunarmed (fst st) = [] /\ lrefused (fst st) = 0%nat /\
    (forall o q, In (o, Some q) (lresults (fst st)) -> o = q).
Proof. exact at_source. Qed.
Print Assumptions C07_whole_life_at_source.

(* a restart path that stores 0 into the counter: ask 0 is pending across the restart, the first ask of the new
   instance gets the same reply address; its future is never initialised (no timer) and never resolves, the old
   ask resolves with the reply to the OTHER request *)
Theorem C07_counter_reset_on_restart_refuted : forall b,
  exists st, reach (linit (Some 0) b) st /\
    lissued (fst st) = [1; 1] /\ ~ NoDup (lissued (fst st)) /\
    lunarmed (fst st) = [1%nat] /\ lresults (fst st) = [(0%nat, Some 1%nat)] /\
    lresolved 1%nat (lresults (fst st)) = false /\
    snd st = [Some LEnv; None; None; None].
Proof. exact reset_on_restart_refuted. Qed.
Print Assumptions C07_counter_reset_on_restart_refuted.

(* FULL statement "reply addresses are unique among live asks" for one actor ADDRESS is false of the source as it is:
   the actor is terminated and created again under the same name (a new context, counter 0) while an ask of the
   old context is still pending — same collision (open finding C07-respawn-same-name-reuses-reply-address) *)
Theorem C07_unique_across_recreation_refuted :
  exists st, reach (linit None true) st /\
    lissued (fst st) = [1; 1] /\ ~ NoDup (lissued (fst st)) /\
    lunarmed (fst st) = [1%nat] /\ lresults (fst st) = [(0%nat, Some 1%nat)] /\
    lresolved 1%nat (lresults (fst st)) = false /\
    snd st = [Some LEnv; None; None; None].
Proof. exact respawn_refuted. Qed.
Print Assumptions C07_unique_across_recreation_refuted.

(* ---------------------------------------------------------------- non-vacuity *)

(* a reply wins against the timer: done closed once, own message, nil error, address released, timer cancelled *)
Example C07_example_reply :
  exists st es, run init [(0%nat, CInit true); (0%nat, CDeliver (PMsg 5%nat)); (2%nat, CNone); (2%nat, CNone); (2%nat, CNone);
                          (2%nat, CNone); (2%nat, CNone); (2%nat, CNone); (2%nat, CNone); (2%nat, CNone); (2%nat, CNone);
                          (1%nat, CNone)] = Some (st, es)
    /\ result (fst st) = (Some 5%nat, None) /\ done (fst st) = true /\ registered (fst st) = false
    /\ cancelled (fst st) = true /\ snd st = [Some Env; None; None].
Proof. eexists. eexists. split; [vm_compute; reflexivity | vm_compute; repeat split; reflexivity]. Qed.

(* an error reply races a second, ordinary reply and the timer: the error wins *)
Example C07_example_error :
  exists st es, run init [(0%nat, CInit true); (0%nat, CDeliver (PErr 3%nat)); (0%nat, CDeliver (PMsg 4%nat));
                          (2%nat, CNone); (3%nat, CNone); (2%nat, CNone); (3%nat, CNone); (3%nat, CNone);
                          (1%nat, CNone); (1%nat, CNone); (2%nat, CNone); (2%nat, CNone)] = Some (st, es)
    /\ result (fst st) = (Some 4%nat, Some (RErr 3%nat)) /\ done (fst st) = true /\ closes (fst st) = 1.
Proof. eexists. eexists. split; [vm_compute; reflexivity | vm_compute; repeat split; reflexivity]. Qed.

(* a state satisfying the hypotheses of C07_by_timeout in which done is not closed yet *)
Example C07_example_by_timeout :
  exists st es, run init [(0%nat, CInit true); (1%nat, CNone); (1%nat, CNone)] = Some (st, es)
    /\ fired (fst st) = true /\ T tfc (snd st) = 0 /\ done (fst st) = false /\ T pre (snd st) = 1.
Proof. eexists. eexists. split; [vm_compute; reflexivity | vm_compute; repeat split; reflexivity]. Qed.

(* three askers on the repaired counter obtain 1, 2, 3 whatever the order; one sequential asker on the code as
   written obtains 1, 2 *)
Example C07_example_ids :
  (exists st es, run (iinit true) [(0%nat, ICAsker); (0%nat, ICAsker); (0%nat, ICAsker); (3%nat, ICNone); (1%nat, ICNone); (2%nat, ICNone)]
                 = Some (st, es) /\ issued (fst st) = [1; 2; 3]) /\
  (exists st es, run (iinit false) [(0%nat, ICAsker); (1%nat, ICNone); (1%nat, ICNone); (1%nat, ICNone); (1%nat, ICNone);
                                    (1%nat, ICSilent); (1%nat, ICNone); (1%nat, ICNone); (1%nat, ICNone)]
                 = Some (st, es) /\ issued (fst st) = [1; 2] /\ askers (fst st) = 1).
Proof. split; eexists; eexists; (split; [vm_compute; reflexivity | vm_compute; repeat split; reflexivity]). Qed.

(* the whole-life machine: an ask (id 1) pending, an anonymous child (id 2), a restart (the child is gone), an
   AwaitForward (id 3), a second ask (id 4) answered: four distinct values, both futures armed, the second resolved
   with its own reply; and the extracted description of the present source is accepted by [source_ok] *)
Example C07_example_whole_life :
  (exists st es, run (linit None false)
     [(0%nat, LCThread); (1%nat, LCAsk); (1%nat, LCNone); (1%nat, LCSilent); (1%nat, LCChild); (1%nat, LCNone);
      (0%nat, LCRestart); (1%nat, LCAwait); (1%nat, LCNone); (1%nat, LCAsk); (1%nat, LCNone); (1%nat, LCReply); (4%nat, LCNone)]
     = Some (st, es) /\ lhanded (fst st) = [(0%nat, 1); (0%nat, 2); (0%nat, 3); (0%nat, 4)] /\ lissued (fst st) = [1; 4] /\
       larmed (fst st) = [0%nat; 1%nat] /\ lresults (fst st) = [(1%nat, Some 1%nat)] /\ lreg (fst st) = [(1, PFut 0%nat); (3, PFwd)] /\
       llive (fst st) 0%nat) /\
  source_ok model_accesses example_consumers example_creators = true /\
  source_rst reset_accesses = Some (Some 0) /\ source_ok reset_accesses example_consumers example_creators = false.
Proof.
  split; [|repeat split; reflexivity].
  eexists; eexists. split; [vm_compute; reflexivity | vm_compute; repeat split; try reflexivity; lia].
Qed.

(* ---------------------------------------------------------------- creation of the future, release of its reply address
   MV.C07.RegModel: future.New -> ResourceController.Register -> futureProcess.Initialize as SEPARATE atomic steps —
   publish in the registry (LoadOrStore), f.rc = rc, f.ref = id, arm the timer when timeout > 0 — executed by the creating
   goroutine in the ORDER the machine is given ([reg_init o t], t = the timeout is positive), interleaved with the timer
   goroutine (it may run immediately after it is armed: every timeout value, 1 ns included) and with any number of other
   Close callers (the reply, a second reply, the user's Close) once New has returned. Close = CAS ; close(done) ; Stop ;
   Unregister (deletes whatever is stored under the address; dereferences f.rc and f.ref). [source_order] is the order of
   the unchanged source; tie T3 (harness/translate/c07reg) extracts the order of the tree under test on every run and the
   generated RegInstance.v proves [order_ok] of it by vm_compute. *)
From MV Require Import C07.RegModel C07.RegProofs.

(* every order accepted by [order_ok] (before the timer is armed, and before New returns, the future is stored in the
   registry — exactly once — and holds its controller and its reference), every timeout, every schedule: no goroutine
   dereferences a nil controller / reference, every Unregister finds the future, the address is stored at most once and
   removed at most once, and it is registered exactly from its publication to its release *)
Theorem C07_reply_address_stored_once_removed_once : forall o t st, order_ok o = true -> reach (reg_init o t) st ->
  nil_deref (fst st) = false /\ missed (fst st) = 0 /\
  0 <= stores (fst st) <= 1 /\ 0 <= releases (fst st) <= 1 /\
  (in_registry (fst st) = true <-> stores (fst st) = 1 /\ releases (fst st) = 0).
Proof. exact reg_sound. Qed.
Print Assumptions C07_reply_address_stored_once_removed_once.

(* the order of the unchanged source (publish, then Initialize: rc, ref, timer), every timeout, every schedule: once the
   ask is complete (the CAS was won) and the winner has got past its Unregister statement, the address is not
   registered: it was stored once and removed once *)
Theorem C07_reply_address_released : forall t st, reach (reg_init source_order t) st ->
  fclosed (fst st) = true -> KT kpend (snd st) = 0 ->
  in_registry (fst st) = false /\ stores (fst st) = 1 /\ releases (fst st) = 1.
Proof. intros t st. exact (reg_released source_order t st source_order_ok). Qed.
Print Assumptions C07_reply_address_released.

(* ... and it is never registered again, whatever still runs afterwards (late replies, further Close calls, the
   cancelled timer goroutine) *)
Theorem C07_reply_address_never_registered_again : forall t st st', reach (reg_init source_order t) st ->
  fclosed (fst st) = true -> KT kpend (snd st) = 0 -> KT kcreating (snd st) = 0 -> reach st st' ->
  in_registry (fst st') = false /\ stores (fst st') = 1 /\ releases (fst st') = 1.
Proof. intros t st st'. exact (reg_released_for_ever source_order t st st' source_order_ok). Qed.
Print Assumptions C07_reply_address_never_registered_again.

(* when nothing is running any more — New has returned, every Close call has returned, the timer goroutine has run or was
   cancelled — the timer had been armed if the timeout is positive (so C07_no_hang applies), and a completed ask's address
   is not registered *)
Theorem C07_reply_address_released_quiescent : forall t st, reach (reg_init source_order t) st -> kquiescent st ->
  created (fst st) = true /\ (t = true -> timer_armed (fst st) = true) /\
  (fdone (fst st) = true -> in_registry (fst st) = false /\ stores (fst st) = 1 /\ releases (fst st) = 1).
Proof. intros t st. exact (reg_released_quiescent source_order t st source_order_ok). Qed.
Print Assumptions C07_reply_address_released_quiescent.

(* the same for any source whose extracted creation order is accepted (tie T3 proves the hypothesis for the tree under
   test by vm_compute on every run: C07_creation_order_source_facts in the generated RegInstance.v) *)
Theorem C07_reply_address_released_at_source : forall o, order_ok o = true -> forall t st, reach (reg_init o t) st ->
  (fclosed (fst st) = true -> KT kpend (snd st) = 0 ->
   in_registry (fst st) = false /\ stores (fst st) = 1 /\ releases (fst st) = 1) /\
  (fclosed (fst st) = true -> KT kpend (snd st) = 0 -> KT kcreating (snd st) = 0 -> forall st', reach st st' ->
   in_registry (fst st') = false /\ stores (fst st') = 1 /\ releases (fst st') = 1).
Proof.
  intros o Ho t st Hr. split; [exact (reg_released o t st Ho Hr)|].
  intros Hc Hz Hk st' Hr'. exact (reg_released_for_ever o t st st' Ho Hr Hc Hz Hk Hr').
Qed.
Print Assumptions C07_reply_address_released_at_source.

(* "Initialize before publishing" (Register = Load ; Initialize ; LoadOrStore), a timeout shorter than the creation: the
   timer fires between AfterFunc and LoadOrStore; its Close completes the ask and unregisters an address that is not
   registered yet (missed = 1); Register then stores the completed future. Everything has returned, the ask is complete,
   and its address stays registered for ever — the class of the seeded change C07-register-initialises-before-publishing *)
Theorem C07_register_initialises_before_publishing_refuted :
  exists st, reach (reg_init init_first_order true) st /\
    fdone (fst st) = true /\ kquiescent st /\ snd st = [Some KEnv; None; None] /\
    in_registry (fst st) = true /\ releases (fst st) = 0 /\ missed (fst st) = 1 /\ nil_deref (fst st) = false /\
    forall st', reach st st' -> in_registry (fst st') = true /\ releases (fst st') = 0.
Proof. exact init_first_leaks. Qed.
Print Assumptions C07_register_initialises_before_publishing_refuted.

(* the text before fix 2879fd7 (f.ref stored after the timer was armed), a timeout shorter than the creation: the timer's
   Close reaches rc.Unregister(f.ref, f.ref) with a nil reference — nil dereference in the timer goroutine *)
Theorem C07_ref_stored_after_timer_refuted :
  exists st, reach (reg_init ref_after_timer_order true) st /\
    nil_deref (fst st) = true /\ fdone (fst st) = true /\ in_registry (fst st) = true.
Proof. exact ref_after_timer_crashes. Qed.
Print Assumptions C07_ref_stored_after_timer_refuted.

(* non-vacuity: the model's own description of the source denotes [source_order]; it is accepted, the two changed
   orders are not; on the source order the earliest possible timer releases the address *)
Example C07_example_creation_orders :
  creation_order model_register model_initialize model_new = source_order /\
  order_ok source_order = true /\ order_ok init_first_order = false /\ order_ok ref_after_timer_order = false /\
  creation_order [RgLookup; RgInitialize; RgPublish] model_initialize model_new = init_first_order.
Proof. repeat split; reflexivity. Qed.
