(* MV.C07.RegModel — layer-A machine for the CREATION of a future and the release of its temporary reply address:
   the statements of future.New -> ResourceController.Register -> futureProcess.Initialize as separate atomic steps,
   interleaved with the timer goroutine and with every other caller of Close.

     future.New                      fp := &futureProcess{...} ; fp.ref, _ = rc.Register(id, fp)
     ResourceController.Register     [SPublish]  rc.processes.LoadOrStore(id.GetLogicalAddress(), process)
                                                 if !exist { process.Initialize(rc, id) }
     futureProcess.Initialize        [SSetRc]    f.rc = rc
                                     [SSetRef]   f.ref = id
                                     [SArm]      if f.timeout > 0 { f.timer = time.AfterFunc(f.timeout, func() { f.Close(ErrorFutureTimeout) }) }
     (New, after Register returned)  [SSetRef]   fp.ref = <result of Register>
     timer goroutine                 [KTimer]    runs at ANY time after [SArm] (every timeout value, 1 ns included:
                                                 the scheduler decides when the deadline is), unless Stop() came first
     Close(reason)                   [KCas]      if !f.closed.CompareAndSwap(false, true) { return }
                                     [KDone]     f.err = reason ; close(f.done)          (the ask is complete: Result() returns)
                                     [KStop]     if f.timer != nil { f.timer.Stop() }
                                     [KUnreg]    f.rc.Unregister(f.ref, f.ref)            (deletes whatever is stored under the address;
                                                                                          dereferences f.rc and f.ref)
   The machine is PARAMETERISED BY THE ORDER of the creation steps: the creator thread executes the list [prog] it is
   given, one step at a time; tie T3 (harness/translate/c07reg, go/ast) extracts that list from Register / Initialize /
   New of the tree under test on every run. Any number of further Close callers (the reply routed to the address, a second
   reply, the user's own Close) are spawned by the environment once the creation has finished (the address is derived from
   a fresh id: nobody can address the future before New has returned it). One future on one fresh address (distinctness
   of addresses: MV.C07.IdsProofs / LifeProofs). No proofs in this file. *)
From MV Require Import Lib.ListX Lib.Sched C07.FutLib.
Open Scope Z_scope.

Inductive cstep :=
| SLookup      (* rc.processes.Load(address): finds nothing under a fresh address; no effect *)
| SPublish     (* rc.processes.LoadOrStore / Store (address, process): the future becomes reachable and removable *)
| SSetRc       (* f.rc = rc *)
| SSetRef      (* f.ref = id *)
| SArm         (* f.timer = time.AfterFunc(timeout, Close(timeout error)) when timeout > 0 *)
| SOther.      (* a statement touching the registry / the timer that the machine does not have (never enabled) *)

Inductive kpc :=
| KEnv | KCreate | KTimer | KCas | KDone | KStop | KUnreg.

Inductive kchoice := KCNone | KCClose.     (* environment: spawn one more caller of Close *)

Inductive kev :=
| KvCreate (c : cstep) | KvCreated | KvSpawn | KvFire | KvCancelled | KvCas (ok : bool) | KvDone | KvStop (had : bool)
| KvUnreg (found : bool) | KvNilDeref.

(* fields 1-9: memory of the algorithm (prog = what the creator still has to execute); 10-14 ghost *)
Record regsh := {
  prog : list cstep;
  timeout_pos : bool;        (* timeout > 0 *)
  in_registry : bool;        (* rc.processes holds the future under its address *)
  rc_set : bool;             (* f.rc != nil *)
  ref_set : bool;            (* f.ref != nil *)
  timer_armed : bool;        (* f.timer != nil *)
  timer_stopped : bool;
  fclosed : bool;            (* f.closed *)
  fdone : bool;              (* f.done closed: the ask is complete *)
  created : bool;            (* New has returned: the request can be sent, replies / user Close can arrive *)
  published : bool;          (* ghost: a store into the registry happened *)
  stores : Z;                (* ghost: number of stores of the future into the registry *)
  releases : Z;              (* ghost: Unregister calls that removed the future *)
  missed : Z;                (* ghost: Unregister calls that found nothing under the address *)
  nil_deref : bool           (* ghost: Unregister through a nil f.rc / f.ref: panic in a goroutine, the process dies *)
}.

Definition reg_init_sh (o : list cstep) (t : bool) : regsh :=
  {| prog := o; timeout_pos := t; in_registry := false; rc_set := false; ref_set := false; timer_armed := false;
     timer_stopped := false; fclosed := false; fdone := false; created := false; published := false;
     stores := 0; releases := 0; missed := 0; nil_deref := false |}.

Definition set_prog (l : list cstep) (s : regsh) : regsh :=
  {| prog := l; timeout_pos := timeout_pos s; in_registry := in_registry s; rc_set := rc_set s; ref_set := ref_set s; timer_armed := timer_armed s; timer_stopped := timer_stopped s; fclosed := fclosed s; fdone := fdone s; created := created s; published := published s; stores := stores s; releases := releases s; missed := missed s; nil_deref := nil_deref s |}.
Definition do_publish (s : regsh) : regsh :=
  {| prog := prog s; timeout_pos := timeout_pos s; in_registry := true; rc_set := rc_set s; ref_set := ref_set s; timer_armed := timer_armed s; timer_stopped := timer_stopped s; fclosed := fclosed s; fdone := fdone s; created := created s; published := true; stores := stores s + (if in_registry s then 0 else 1); releases := releases s; missed := missed s; nil_deref := nil_deref s |}.
Definition set_rc (s : regsh) : regsh :=
  {| prog := prog s; timeout_pos := timeout_pos s; in_registry := in_registry s; rc_set := true; ref_set := ref_set s; timer_armed := timer_armed s; timer_stopped := timer_stopped s; fclosed := fclosed s; fdone := fdone s; created := created s; published := published s; stores := stores s; releases := releases s; missed := missed s; nil_deref := nil_deref s |}.
Definition set_ref (s : regsh) : regsh :=
  {| prog := prog s; timeout_pos := timeout_pos s; in_registry := in_registry s; rc_set := rc_set s; ref_set := true; timer_armed := timer_armed s; timer_stopped := timer_stopped s; fclosed := fclosed s; fdone := fdone s; created := created s; published := published s; stores := stores s; releases := releases s; missed := missed s; nil_deref := nil_deref s |}.
Definition set_armed (s : regsh) : regsh :=
  {| prog := prog s; timeout_pos := timeout_pos s; in_registry := in_registry s; rc_set := rc_set s; ref_set := ref_set s; timer_armed := true; timer_stopped := timer_stopped s; fclosed := fclosed s; fdone := fdone s; created := created s; published := published s; stores := stores s; releases := releases s; missed := missed s; nil_deref := nil_deref s |}.
Definition set_tstopped (s : regsh) : regsh :=
  {| prog := prog s; timeout_pos := timeout_pos s; in_registry := in_registry s; rc_set := rc_set s; ref_set := ref_set s; timer_armed := timer_armed s; timer_stopped := true; fclosed := fclosed s; fdone := fdone s; created := created s; published := published s; stores := stores s; releases := releases s; missed := missed s; nil_deref := nil_deref s |}.
Definition set_fclosed (s : regsh) : regsh :=
  {| prog := prog s; timeout_pos := timeout_pos s; in_registry := in_registry s; rc_set := rc_set s; ref_set := ref_set s; timer_armed := timer_armed s; timer_stopped := timer_stopped s; fclosed := true; fdone := fdone s; created := created s; published := published s; stores := stores s; releases := releases s; missed := missed s; nil_deref := nil_deref s |}.
Definition set_fdone (s : regsh) : regsh :=
  {| prog := prog s; timeout_pos := timeout_pos s; in_registry := in_registry s; rc_set := rc_set s; ref_set := ref_set s; timer_armed := timer_armed s; timer_stopped := timer_stopped s; fclosed := fclosed s; fdone := true; created := created s; published := published s; stores := stores s; releases := releases s; missed := missed s; nil_deref := nil_deref s |}.
Definition set_created (s : regsh) : regsh :=
  {| prog := prog s; timeout_pos := timeout_pos s; in_registry := in_registry s; rc_set := rc_set s; ref_set := ref_set s; timer_armed := timer_armed s; timer_stopped := timer_stopped s; fclosed := fclosed s; fdone := fdone s; created := true; published := published s; stores := stores s; releases := releases s; missed := missed s; nil_deref := nil_deref s |}.
(* rc.Unregister(f.ref, f.ref): Compute(address, delete) removes whatever is stored under the address *)
Definition do_unregister (s : regsh) : regsh :=
  {| prog := prog s; timeout_pos := timeout_pos s; in_registry := false; rc_set := rc_set s; ref_set := ref_set s; timer_armed := timer_armed s; timer_stopped := timer_stopped s; fclosed := fclosed s; fdone := fdone s; created := created s; published := published s; stores := stores s;
     releases := releases s + (if in_registry s then 1 else 0); missed := missed s + (if in_registry s then 0 else 1); nil_deref := nil_deref s |}.
Definition set_nil_deref (s : regsh) : regsh :=
  {| prog := prog s; timeout_pos := timeout_pos s; in_registry := in_registry s; rc_set := rc_set s; ref_set := ref_set s; timer_armed := timer_armed s; timer_stopped := timer_stopped s; fclosed := fclosed s; fdone := fdone s; created := created s; published := published s; stores := stores s; releases := releases s; missed := missed s; nil_deref := true |}.

Definition KR := (regsh * option kpc * list kpc * kev)%type.

Definition regstep (s : regsh) (l : kpc) (c : kchoice) : option KR :=
  match l with
  | KCreate =>
      match prog s with
      | [] => Some (set_created s, None, [], KvCreated)
      | SLookup :: t => Some (set_prog t s, Some KCreate, [], KvCreate SLookup)
      | SPublish :: t => Some (do_publish (set_prog t s), Some KCreate, [], KvCreate SPublish)
      | SSetRc :: t => Some (set_rc (set_prog t s), Some KCreate, [], KvCreate SSetRc)
      | SSetRef :: t => Some (set_ref (set_prog t s), Some KCreate, [], KvCreate SSetRef)
      | SArm :: t =>
          if timeout_pos s then Some (set_armed (set_prog t s), Some KCreate, [KTimer], KvCreate SArm)
          else Some (set_prog t s, Some KCreate, [], KvCreate SArm)
      | SOther :: _ => None
      end
  | KEnv =>
      match c with
      | KCClose => if created s then Some (s, Some KEnv, [KCas], KvSpawn) else None
      | KCNone => None
      end
  | KTimer =>
      if timer_stopped s then Some (s, None, [], KvCancelled) else Some (s, Some KCas, [], KvFire)
  | KCas =>
      if fclosed s then Some (s, None, [], KvCas false) else Some (set_fclosed s, Some KDone, [], KvCas true)
  | KDone => Some (set_fdone s, Some KStop, [], KvDone)
  | KStop =>
      if timer_armed s then Some (set_tstopped s, Some KUnreg, [], KvStop true) else Some (s, Some KUnreg, [], KvStop false)
  | KUnreg =>
      if rc_set s && ref_set s then Some (do_unregister s, None, [], KvUnreg (in_registry s))
      else Some (set_nil_deref s, None, [], KvNilDeref)
  end.

Definition Reg : machine :=
  {| shared := regsh; local := kpc; Sched.choice := kchoice; ev := kev; tstep := regstep |}.

Definition reg_init (o : list cstep) (t : bool) : state Reg := (reg_init_sh o t, [Some KEnv; Some KCreate]).

(* ---- the orders ---- *)
(* the unchanged source: Register = LoadOrStore, then Initialize (rc, ref, timer); New stores the ref once more *)
Definition source_order : list cstep := [SPublish; SSetRc; SSetRef; SArm; SSetRef].
(* "initialise before publishing": Register = Load ; Initialize ; LoadOrStore *)
Definition init_first_order : list cstep := [SLookup; SSetRc; SSetRef; SArm; SPublish; SSetRef].
(* the text before fix 2879fd7: the timer is armed inside Register, the ref stored by New afterwards *)
Definition ref_after_timer_order : list cstep := [SPublish; SSetRc; SArm; SSetRef].

(* a creation order for which the theorems hold: whenever the timer is armed, and when the creation ends (from
   then on replies and user Close calls can arrive), the future is in the registry (stored exactly once) and
   holds its controller and its reference *)
Fixpoint ok_from (pub rc ref : bool) (rest : list cstep) : bool :=
  match rest with
  | [] => pub && rc && ref
  | SLookup :: t => ok_from pub rc ref t
  | SPublish :: t => negb pub && ok_from true rc ref t
  | SSetRc :: t => ok_from pub true ref t
  | SSetRef :: t => ok_from pub rc true t
  | SArm :: t => pub && rc && ref && ok_from pub rc ref t
  | SOther :: _ => false
  end.
Definition order_ok (o : list cstep) : bool := ok_from false false false o && existsb (fun c => match c with SArm => true | _ => false end) o.

(* ---- the facts tie T3 extracts (statements in source order) and the creation order they denote ---- *)
Inductive rstmt :=            (* ResourceController.Register *)
| RgLookup | RgPublish | RgInitialize | RgOther.
Inductive nstmt :=            (* future.New *)
| NwRegister | NwInitialize | NwStep (c : cstep).

Definition inline_register (ini : list cstep) (r : list rstmt) : list cstep :=
  flat_map (fun x => match x with RgLookup => [SLookup] | RgPublish => [SPublish] | RgInitialize => ini | RgOther => [SOther] end) r.
Definition creation_order (reg : list rstmt) (ini : list cstep) (new : list nstmt) : list cstep :=
  flat_map (fun x => match x with NwRegister => inline_register ini reg | NwInitialize => ini | NwStep c => [c] end) new.

(* the model's own description of the source it was written from *)
Definition model_register : list rstmt := [RgPublish; RgInitialize].
Definition model_initialize : list cstep := [SSetRc; SSetRef; SArm].
Definition model_new : list nstmt := [NwRegister; NwStep SSetRef].

(* ---- observables ---- *)
(* the winner of the CAS between its CAS and the end of its Unregister *)
Definition kpend (l : kpc) : Z := match l with KDone | KStop | KUnreg => 1 | _ => 0 end.
(* a goroutine that can call, or is inside, Close *)
Definition kbusy (l : kpc) : Z := match l with KTimer | KCas | KDone | KStop | KUnreg => 1 | _ => 0 end.
Definition kcreating (l : kpc) : Z := match l with KCreate => 1 | _ => 0 end.
Definition is_kenv (l : kpc) : Prop := l = KEnv.
(* every started call has returned, the creation is finished, the timer goroutine has run or was cancelled *)
Definition kquiescent (st : state Reg) : Prop := @all_live Reg is_kenv (snd st).
