(* MV.C07.FutRun — executable comparison of the machines with the Go code.
   (T2) [case]/[mismatches]: replay of schedules recorded from the instrumented CURRENT text of
        engine/future/future.go under the controlled scheduler: each log entry = (thread id, choice, event observed
        in the Go code); the machine must be able to take that step and must predict exactly that event.
   (T1) [tcase]/[tmismatches]: outcome tables observed on the real ActorSystem (harness/cmd/c07ask): for every
        (behaviour of the target, ordering of the reply w.r.t. the deadline) the outcomes the machine allows are
        computed by running it on the corresponding schedules. *)
From MV Require Import Lib.ListX Lib.Sched C07.FutModel C07.IdsModel.
Open Scope Z_scope.

Definition reason_eqb (a b : reason) : bool :=
  match a, b with
  | RTimeout, RTimeout => true
  | RErr x, RErr y | RUser x, RUser y => Nat.eqb x y
  | _, _ => false
  end.
Definition oreason_eqb := opt_eqb reason_eqb.
Definition payload_eqb (a b : payload) : bool :=
  match a, b with PMsg x, PMsg y | PErr x, PErr y => Nat.eqb x y | _, _ => false end.
Definition choice_eqb (a b : choice) : bool :=
  match a, b with
  | CNone, CNone | CRead, CRead => true
  | CInit x, CInit y => Bool.eqb x y
  | CDeliver x, CDeliver y => payload_eqb x y
  | CClose x, CClose y => opt_eqb Nat.eqb x y
  | CForward x, CForward y => Nat.eqb x y
  | _, _ => false
  end.
Definition event_eqb (a b : event) : bool :=
  match a, b with
  | EvInit x, EvInit y | EvLoad x, EvLoad y | EvCas x, EvCas y | EvUnreg x, EvUnreg y => Bool.eqb x y
  | EvSpawn x, EvSpawn y => choice_eqb x y
  | EvFire, EvFire | EvCancelled, EvCancelled | EvCloseDone, EvCloseDone | EvStop, EvStop
  | EvLock, EvLock | EvUnlock, EvUnlock | EvExit, EvExit => true
  | EvStoreMsg x, EvStoreMsg y => Nat.eqb x y
  | EvStoreErr x, EvStoreErr y => oreason_eqb x y
  | EvForward r m, EvForward r' m' => Nat.eqb r r' && oreason_eqb m m'
  | EvRead m r, EvRead m' r' => opt_eqb Nat.eqb m m' && oreason_eqb r r'
  | _, _ => false
  end.

(* None = the whole log is a run of the machine with equal events; Some k = first diverging step *)
Fixpoint replay (st : state Fut) (log : list (nat * choice * event)) (k : nat) : option nat :=
  match log with
  | [] => None
  | (i, c, EvExit) :: t =>
      match nth_error (snd st) i with
      | Some None => replay st t (S k)
      | _ => Some k
      end
  | (i, c, e) :: t =>
      match gstep st i c with
      | Some (st', e') => if event_eqb e e' then replay st' t (S k) else Some k
      | None => Some k
      end
  end.

Fixpoint final (st : state Fut) (log : list (nat * choice * event)) : option (state Fut) :=
  match log with
  | [] => Some st
  | (i, c, EvExit) :: t => final st t
  | (i, c, _) :: t => match gstep st i c with Some (st', _) => final st' t | None => None end
  end.

(* final observation of the Go side at quiescence: closed, done closed, address still registered, f.message, f.err *)
Record fin := { fclosed : bool; fdone : bool; freg : bool; fmsg : option msg; ferr : oreason }.
Record case := { cid : nat; clog : list (nat * choice * event); cend : option fin }.

Definition case_ok (c : case) : bool :=
  match replay init (clog c) 0 with
  | Some _ => false
  | None =>
      match cend c, final init (clog c) with
      | None, _ => true
      | Some f, Some st =>
          let s := fst st in
          Bool.eqb (closed s) (fclosed f) && Bool.eqb (done s) (fdone f) && Bool.eqb (registered s) (freg f) &&
          opt_eqb Nat.eqb (message s) (fmsg f) && oreason_eqb (err s) (ferr f)
      | Some _, None => false
      end
  end.

Definition mismatches (cs : list case) : list nat := fail_ids case_ok cid cs.
Definition divergence (c : case) : option nat := replay init (clog c) 0.

(* ------------------------------------------------------------------ T1: outcome tables of the real system *)

Inductive beh := BEcho | BDelay | BNever | BError | BTwice | BRace.
Inductive oclass := KBefore | KAfter | KNear | KNone.
Inductive toutcome := OOwn | OTimeout | OMsgTimeout | OErrReply | OBad.

Definition toutcome_eqb (a b : toutcome) : bool :=
  match a, b with
  | OOwn, OOwn | OTimeout, OTimeout | OMsgTimeout, OMsgTimeout | OErrReply, OErrReply => true
  | _, _ => false                                   (* OBad equals nothing: the model never produces it *)
  end.

(* the request is number 1: its reply is message 1 / error 1; a second reply is message 2 *)
Definition classify (s : sh) : toutcome :=
  if done s then
    match err s, message s with
    | None, Some m => if Nat.eqb m 1 then OOwn else OBad
    | Some RTimeout, None => OTimeout
    | Some RTimeout, Some m => if Nat.eqb m 1 then OMsgTimeout else OBad
    | Some (RErr e), None => if Nat.eqb e 1 then OErrReply else OBad
    | _, _ => OBad
    end
  else OBad.

(* run one thread until it ends or blocks *)
Fixpoint drain (fuel : nat) (i : nat) (st : state Fut) : state Fut :=
  match fuel with
  | O => st
  | S f => match gstep st i CNone with Some (st', _) => drain f i st' | None => st end
  end.
Definition step1 (i : nat) (c : choice) (st : state Fut) : state Fut :=
  match gstep st i c with Some (st', _) => st' | None => st end.

Definition replies (b : beh) : list payload :=
  match b with
  | BNever => []
  | BError => [PErr 1%nat]
  | BTwice => [PMsg 1%nat; PMsg 2%nat]
  | _ => [PMsg 1%nat]
  end.

(* thread ids: 0 = environment, 1 = timer, 2.. = deliverers in the order of the replies *)
Definition spawn_all (ps : list payload) (st : state Fut) : state Fut :=
  fold_left (fun st p => step1 0%nat (CDeliver p) st) ps st.
Definition drain_from (n k : nat) (st : state Fut) : state Fut :=
  fold_left (fun st i => drain 20%nat i st) (seq n k) st.

Definition armed0 : state Fut := step1 0%nat (CInit true) init.
Definition run_before (b : beh) : state Fut :=       (* every reply is delivered before the timer goroutine runs *)
  drain 20%nat 1%nat (drain_from 2%nat (length (replies b)) (spawn_all (replies b) armed0)).
Definition run_after (b : beh) : state Fut :=        (* the timer goroutine runs to the end first *)
  drain_from 2%nat (length (replies b)) (spawn_all (replies b) (drain 20%nat 1%nat armed0)).
Definition run_between (b : beh) : state Fut :=      (* first deliverer reads closed = false, then the timer runs to the end *)
  drain_from 2%nat (length (replies b)) (drain 20%nat 1%nat (step1 2%nat CNone (spawn_all (replies b) armed0))).

Definition model_outcomes (b : beh) (k : oclass) : list toutcome :=
  match k with
  | KBefore => match replies b with [] => [] | _ => [classify (fst (run_before b))] end
  | KAfter => match replies b with [] => [] | _ => [classify (fst (run_after b))] end
  | KNear => match replies b with [] => [] | _ =>
               [classify (fst (run_before b)); classify (fst (run_after b)); classify (fst (run_between b))] end
  | KNone => [classify (fst (run_after BNever))]     (* no reply was ever sent (or the request never answered) *)
  end.

(* the repaired id source: k askers obtain their ids in any order: the model hands out distinct ones *)
Fixpoint nodupb (l : list Z) : bool :=
  match l with [] => true | x :: t => negb (existsb (Z.eqb x) t) && nodupb t end.
Definition model_dups (k : nat) : nat :=
  let st0 := fold_left (fun (st : state Ids) (_ : nat) => match gstep st 0%nat ICAsker with Some (st', _) => st' | None => st end) (seq 0%nat k) (iinit true) in
  let st1 := fold_left (fun (st : state Ids) i => match gstep st i ICNone with Some (st', _) => st' | None => st end) (seq 1%nat k) st0 in
  if nodupb (issued (fst st1)) && Nat.eqb (length (issued (fst st1))) k then 0%nat else 1%nat.
(* addresses still registered once everything has returned *)
Definition model_not_released (b : beh) : nat := if registered (fst (run_before b)) then 1%nat else 0%nat.

Record tcase := { tcid : nat; ck : nat; cbeh : beh; ccells : list (oclass * toutcome * nat);
                  cdup : nat; cnotrel : nat; cnotdel : nat }.

Definition cell_ok (b : beh) (x : oclass * toutcome * nat) : bool :=
  match x with
  | (k, o, n) => Nat.eqb n 0 || existsb (toutcome_eqb o) (model_outcomes b k)
  end.

Definition tcase_ok (c : tcase) : bool :=
  forallb (cell_ok (cbeh c)) (ccells c) &&
  Nat.eqb (cdup c) (model_dups (ck c)) && Nat.eqb (cnotrel c) (model_not_released (cbeh c)) && Nat.eqb (cnotdel c) 0.

Definition tmismatches (cs : list tcase) : list nat := fail_ids tcase_ok tcid cs.
