(* MV.C07.LifeSource — the facts about the id counter that tie T3 (harness/translate/c07guid, go/ast over the
   package engine/vivid of the tree under test) extracts on every run, and what they mean for the machine of
   LifeModel: which configuration [rst] the source is. No proofs in this file. *)
From Coq Require Import String.
From MV Require Import Lib.ListX Lib.Sched C07.LifeModel.
Open Scope Z_scope.

(* one syntactic occurrence of the field childGuid *)
Inductive gkind :=
| GAdd1 (used : bool)        (* atomic.AddUint64(&x.childGuid, 1); used = the result is the value of the expression *)
| GAddOther                  (* atomic.AddUint64 with another delta *)
| GLoad                      (* atomic.LoadUint64 *)
| GStore (v : option Z)      (* atomic.StoreUint64(&x.childGuid, v) / x.childGuid = v; Some = integer literal *)
| GIncDec                    (* x.childGuid++ / -- / op= *)
| GCas                       (* CompareAndSwap / Swap *)
| GInit (v : option Z)       (* key of a composite literal *)
| GAddr                      (* &x.childGuid handed to anything else *)
| GRead.                     (* any other (plain) read *)

Record gaccess := { gfn : string; gk : gkind }.

(* how a call of nextChildGuid() is used *)
Inductive guse :=
| UDerive                    (* X.Derivation(convert.(Fast)Uint64ToString(nextChildGuid())): names one temporary address *)
| UName                      (* descriptor.name = convert.(Fast)Uint64ToString(nextChildGuid()): names one anonymous child *)
| UOther.
Record gcons := { cfn : string; cuse : guse }.

Definition on_restart_path (f : string) : bool := String.eqb f "onRestart" || String.eqb f "tryRestarted".

(* Some None: the only accesses are single atomic add-and-fetch of 1 inside nextChildGuid (the machine's LNext),
   Some (Some v): additionally ONE store of the literal v on the restart path (the machine's [rst = Some v]),
   None: anything the machine does not have *)
Fixpoint source_rst_go (acc : list gaccess) (adds : nat) (r : option Z) : option (option Z) :=
  match acc with
  | [] => if Nat.eqb adds 1 then Some r else None
  | a :: t =>
      match gk a with
      | GAdd1 true => if String.eqb (gfn a) "nextChildGuid" then source_rst_go t (S adds) r else None
      | GStore (Some v) =>
          if on_restart_path (gfn a) then match r with None => source_rst_go t adds (Some v) | Some _ => None end else None
      | _ => None
      end
  end.
Definition source_rst (acc : list gaccess) : option (option Z) := source_rst_go acc 0 None.

Definition consumers_ok (cs : list gcons) : bool :=
  negb (Nat.eqb (length cs) 0) && forallb (fun c => match cuse c with UOther => false | _ => true end) cs.
(* contexts (hence counters) are created, without an initialiser for the counter, in newActorContext (one per ActorOf)
   and in spawnTopActor (the bootstrap context that spawns the top actors of a system) only *)
Definition creators_ok (cr : list string) : bool :=
  existsb (fun f => String.eqb f "newActorContext") cr &&
  forallb (fun f => String.eqb f "newActorContext" || String.eqb f "spawnTopActor") cr.

Definition source_ok (acc : list gaccess) (cs : list gcons) (cr : list string) : bool :=
  match source_rst acc with
  | Some None => consumers_ok cs && creators_ok cr
  | _ => false
  end.

(* the machine the source is (an unmodelled source is mapped to the resetting machine: nothing is claimed of it) *)
Definition linit_src (acc : list gaccess) (b : bool) : state Life :=
  linit (match source_rst acc with Some r => r | None => Some 0 end) b.

(* the model's own description of the source it was written from (the translator must find exactly this class) *)
Definition model_accesses : list gaccess := [ {| gfn := "nextChildGuid"; gk := GAdd1 true |} ].

(* descriptions used by the non-vacuity example of Properties.v *)
Definition example_consumers : list gcons := [ {| cfn := "FutureAsk"; cuse := UDerive |}; {| cfn := "ActorOf"; cuse := UName |} ].
Definition example_creators : list string := ["newActorContext"%string].
Definition reset_accesses : list gaccess := model_accesses ++ [ {| gfn := "tryRestarted"; gk := GStore (Some 0) |} ].
