(* MV.C07.LifeProofs — the id source over the whole life of an actor context: every consumer of the counter
   (ask, typed ask, AwaitForward, anonymous child) takes a fresh value, restarts included; hence no two asks of a
   context ever share a reply address, every future is initialised and completes only with its own reply.
   A restart path that stores into the counter, and the re-creation of an actor under the same name (a new
   context, counter 0, while the old context's futures are still registered), both break this: witnesses. *)
From MV Require Import Lib.ListX Lib.Sched C07.FutLib C07.LifeModel C07.LifeSource.
Open Scope Z_scope.
Arguments Z.add : simpl never.
Arguments Z.sub : simpl never.
Arguments Z.of_nat : simpl never.

Definition LT (f : lpc -> Z) (p : pool Life) : Z := @total Life f p.

Ltac lstep_cases Ht :=
  match type of Ht with
  | tstep Life ?s ?l ?c = _ =>
      cbn [tstep Life] in Ht; destruct l; cbn [lstep] in Ht;
      repeat match type of Ht with
      | context [match ?c with LCNone => _ | _ => _ end] => destruct c
      | context [if respawnable ?s then _ else _] => let Hc := fresh "Hrs" in destruct (respawnable s) eqn:Hc
      | context [match llookup ?id ?r with _ => _ end] => let Hc := fresh "Hlk" in destruct (llookup id r) as [[?o| |]|] eqn:Hc
      | context [if lresolved ?o ?r then _ else _] => let Hc := fresh "Hres" in destruct (lresolved o r) eqn:Hc
      end;
      try discriminate; inversion Ht; subst; clear Ht
  end.

Ltac ok := first [assumption | reflexivity].

Ltac lfields :=
  cbn [take_id lissue lregister larm lrefuse_ask lrefuse set_reg lcomplete lrestart lrespawn
       rst respawnable lguid lreg lctx linc lhanded lissued lowner larmed lunarmed lresults leverreg lrefused] in *.

Lemma NoDup_snoc {A} (l : list A) x : NoDup l -> ~ In x l -> NoDup (l ++ [x]).
Proof.
  intros Hn Hx. induction Hn as [|a l Ha Hn IH]; simpl.
  - constructor; [intros []|constructor].
  - constructor.
    + intros Hin. apply in_app_or in Hin. destruct Hin as [Hin|[<-|[]]]; [contradiction|]. apply Hx. left; reflexivity.
    + apply IH. intros Hin. apply Hx. right; exact Hin.
Qed.

Lemma NoDup_app_l {A} (l m : list A) : NoDup (l ++ m) -> NoDup l.
Proof. induction l as [|a l IH]; simpl; intros H; [constructor|]. inversion H; subst. constructor; [|auto]. intros Hin. apply H2. apply in_or_app. left; exact Hin. Qed.

Lemma Forall_snoc {A} (P : A -> Prop) l x : Forall P l -> P x -> Forall P (l ++ [x]).
Proof. intros Hl Hx. apply Forall_app. split; [exact Hl | constructor; [exact Hx | constructor]]. Qed.

Lemma nth_error_snoc_old {A} (l : list A) x r v : nth_error l r = Some v -> nth_error (l ++ [x]) r = Some v.
Proof. intros H. rewrite nth_error_app1; [exact H|]. apply nth_error_Some. congruence. Qed.

Lemma nth_error_snoc_new {A} (l : list A) x : nth_error (l ++ [x]) (length l) = Some x.
Proof. rewrite nth_error_app2 by lia. rewrite Nat.sub_diag. reflexivity. Qed.

Lemma llookup_In id l p : llookup id l = Some p -> In (id, p) l.
Proof.
  induction l as [|[k q] t IH]; simpl; [discriminate|].
  destruct (Z.eqb_spec k id) as [->|Hne]; intros H; [inversion H; subst; left; reflexivity | right; auto].
Qed.

Lemma In_lunreg x id l : In x (lunreg id l) -> In x l.
Proof. unfold lunreg. intros H. apply filter_In in H. tauto. Qed.
Lemma In_rmkids x l : In x (rmkids l) -> In x l.
Proof. unfold rmkids. intros H. apply filter_In in H. tauto. Qed.
Lemma In_rmkid x id l : In x (rmkid id l) -> In x l.
Proof. unfold rmkid. intros H. apply filter_In in H. tauto. Qed.

(* ------------------------------------------------------------------ (1) one context, its whole life *)

(* every value nextChildGuid ever returned, tagged with the context that returned it: pairwise distinct — whatever
   the consumer (ask, typed ask, AwaitForward, anonymous child), however many restarts and concurrent users *)
Definition InvH (st : state Life) : Prop :=
  let s := fst st in
  rst s = None /\ 0 <= lguid s /\
  (forall c id, In (c, id) (lhanded s) -> (c < lctx s)%nat \/ (c = lctx s /\ 1 <= id <= lguid s)) /\
  NoDup (lhanded s).

Lemma invH_step st i c st' e : InvH st -> gstep st i c = Some (st', e) -> InvH st'.
Proof.
  intros (Hr & Hg0 & Hb & Hnd) Hg. destruct (gstep_inv st i c st' e Hg) as (l & s' & ol & sp & Hn & Ht & ->).
  destruct st as [s p]. cbn [fst snd] in *. unfold InvH. cbn [fst snd].
  lstep_cases Ht; lfields; try rewrite Hr.
  all: try (repeat split; try ok; try lia; fail).
  (* respawn: a new context number, counter 0 *)
  all: try (split; [ok|]; split; [lia|]; split; [|assumption];
            intros c0 id0 Hin; destruct (Hb c0 id0 Hin) as [Hlt|[-> _]]; left; lia).
  (* a consumer takes guid+1 *)
  all: split; [ok|]; split; [lia|]; split;
    [ intros c0 id0 Hin; apply in_app_or in Hin; destruct Hin as [Hin|[Heq|[]]];
      [ destruct (Hb c0 id0 Hin) as [Hlt|[-> Hle]]; [left; exact Hlt | right; split; [reflexivity | lia]]
      | inversion Heq; subst; right; split; [reflexivity | lia] ]
    | apply NoDup_snoc; [exact Hnd|]; intros Hin; destruct (Hb _ _ Hin) as [Hlt|[_ Hle]]; lia ].
Qed.

Theorem handed_distinct b st : reach (linit None b) st -> NoDup (lhanded (fst st)).
Proof.
  intros Hr. assert (H : InvH st).
  { revert st Hr. apply inv_reach; [|exact invH_step]. unfold InvH, linit; simpl. repeat split; try lia; try constructor.
    all: contradiction. }
  destruct H as (_ & _ & _ & H). exact H.
Qed.

(* the reply addresses of the asks of ONE context (no re-creation under the same name): pairwise distinct *)
Definition InvD (st : state Life) : Prop :=
  let s := fst st in
  rst s = None /\ respawnable s = false /\ lctx s = 0%nat /\
  Forall (fun x => x <= lguid s) (lissued s) /\ NoDup (lissued s) /\ Forall (fun c => c = 0%nat) (lowner s).

Lemma invD_step st i c st' e : InvD st -> gstep st i c = Some (st', e) -> InvD st'.
Proof.
  intros (Hr & Hb & Hc & Hle & Hnd & Hown) Hg. destruct (gstep_inv st i c st' e Hg) as (l & s' & ol & sp & Hn & Ht & ->).
  destruct st as [s p]. cbn [fst snd] in *. unfold InvD. cbn [fst snd].
  lstep_cases Ht; lfields; try rewrite Hr; try congruence.
  all: try (repeat split; ok).
  (* a consumer other than an ask: the counter grows *)
  all: try (split; [ok|]; split; [ok|]; split; [ok|]; split; [|split; assumption];
            eapply Forall_impl; [|exact Hle]; simpl; intros; lia).
  (* an ask *)
  split; [ok|]; split; [ok|]; split; [ok|]; split; [|split].
  - apply Forall_snoc; [eapply Forall_impl; [|exact Hle]; simpl; intros; lia | lia].
  - apply NoDup_snoc; [exact Hnd|]. intros Hin. rewrite Forall_forall in Hle. specialize (Hle _ Hin). simpl in Hle. lia.
  - apply Forall_snoc; assumption.
Qed.

Lemma invD_reach st : reach (linit None false) st -> InvD st.
Proof.
  revert st. apply inv_reach; [|exact invD_step]. unfold InvD, linit; simpl. repeat split; constructor.
Qed.

Theorem ask_addresses_distinct st : reach (linit None false) st -> NoDup (lissued (fst st)).
Proof. intros Hr. destruct (invD_reach st Hr) as (_ & _ & _ & _ & H & _). exact H. Qed.

(* corollary: no two live asks share a reply address *)
Theorem live_asks_distinct_addresses st : reach (linit None false) st ->
  forall r1 r2 id, llive (fst st) r1 -> llive (fst st) r2 ->
    nth_error (lissued (fst st)) r1 = Some id -> nth_error (lissued (fst st)) r2 = Some id -> r1 = r2.
Proof.
  intros Hr r1 r2 id (H1 & _) _ E1 E2. eapply NoDup_nth_error; [exact (ask_addresses_distinct st Hr) | exact H1 | congruence].
Qed.

(* ------------------------------------------------------------------ (2) distinct addresses => own reply only *)

Definition lowf (s : lsh) (l : lpc) : Prop :=
  match l with
  | LReg r id | LSend r id | LReply r id | LTimer r id => nth_error (lissued s) r = Some id
  | _ => True
  end.

Definition InvO (st : state Life) : Prop :=
  let s := fst st in
  @all_live Life (lowf s) (snd st) /\
  (NoDup (lissued s) ->
     (forall id o, In (id, PFut o) (lreg s) -> nth_error (lissued s) o = Some id) /\
     (forall o r, In (o, Some r) (lresults s) -> o = r)).

Lemma lowf_issue s id l : lowf s l -> lowf (lissue id s) l.
Proof. destruct l; simpl; auto using nth_error_snoc_old. Qed.

Lemma invO_step st i c st' e : InvO st -> gstep st i c = Some (st', e) -> InvO st'.
Proof.
  intros (Hw & HN) Hg. destruct (gstep_inv st i c st' e Hg) as (l & s' & ol & sp & Hn & Ht & ->).
  destruct st as [s p]. cbn [fst snd] in *. pose proof (Hw i l Hn) as Hl.
  unfold InvO. cbn [fst snd].
  lstep_cases Ht; cbn [lowf] in Hl; lfields.
  all: split;
    [ apply all_live_step;
      [ intros j l' _ Hj; first [ exact (Hw j l' Hj) | (apply lowf_issue; exact (Hw j l' Hj)) ]
      | first [ discriminate
              | (intros l' Hl'; inversion Hl'; subst; cbn [lowf]; lfields;
                 first [ exact I | assumption | apply nth_error_snoc_new ]) ]
      | intros l' Hin; cbn [In] in Hin; first [ contradiction | (destruct Hin as [<-|[]]; cbn [lowf]; first [exact I | assumption]) ] ]
    | ].
  all: intros Hnd; lfields;
    try (assert (Hnd0 : NoDup (lissued s)) by (eapply NoDup_app_l; exact Hnd));
    first [ destruct (HN Hnd) as (HR & HO) | destruct (HN Hnd0) as (HR & HO) ].
  all: try (split; [exact HR | exact HO]).
  (* the registry shrinks (restart, respawn, a child terminates, a forwarding future closes) *)
  all: try (split; [intros id0 o0 Hin; apply HR;
                    first [ eapply In_rmkids; exact Hin | eapply In_rmkid; exact Hin | eapply In_lunreg; exact Hin ] | exact HO]).
  (* issue: registry and results unchanged, issued extended *)
  all: try (split; [intros id0 o0 Hin; apply nth_error_snoc_old; apply HR; exact Hin | exact HO]).
  (* register: a future / a forwarding future / a child *)
  all: try (split; [|exact HO]; intros id0 o0 Hin; apply in_app_or in Hin; destruct Hin as [Hin|[Heq|[]]];
            [apply HR; exact Hin | inversion Heq; subst; exact Hl]).
  (* reply delivered to the future registered under the address *)
  - split.
    + intros id0 o0 Hin. apply HR. eapply In_lunreg; exact Hin.
    + intros o0 r0 Hin. apply in_app_or in Hin. destruct Hin as [Hin|[Heq|[]]]; [apply HO; exact Hin|].
      inversion Heq; subst. apply llookup_In in Hlk. apply HR in Hlk.
      eapply NoDup_nth_error; [exact Hnd | apply nth_error_Some; congruence | congruence].
  (* timeout *)
  - split.
    + intros id0 o0 Hin. apply HR. eapply In_lunreg; exact Hin.
    + intros o0 r0 Hin. apply in_app_or in Hin. destruct Hin as [Hin|[Heq|[]]]; [apply HO; exact Hin|]. discriminate.
Qed.

(* whatever happens to the counter: while the reply addresses handed out so far are pairwise distinct, a future
   completes with a reply only if it is the reply to its own request *)
Theorem life_own_reply r b st : reach (linit r b) st -> NoDup (lissued (fst st)) ->
  forall o q, In (o, Some q) (lresults (fst st)) -> o = q.
Proof.
  intros Hr. assert (H : InvO st).
  { revert st Hr. apply inv_reach; [|exact invO_step]. unfold InvO, linit; simpl. split.
    - intros j l H. destruct j as [|j]; simpl in H; [inversion H; subst; exact I | destruct j; discriminate].
    - intros _. split; intros; contradiction. }
  intros Hnd. destruct H as (_ & H). destruct (H Hnd) as (_ & HO). exact HO.
Qed.

(* ------------------------------------------------------------------ (3) every Register finds its address free *)

Definition atreg (id : Z) (l : lpc) : Z :=
  match l with LReg _ id' | LFwd id' | LKid id' => if Z.eqb id id' then 1 else 0 | _ => 0 end.
Lemma nn_atreg id l : 0 <= atreg id l. Proof. destruct l; simpl; try lia; destruct (Z.eqb id id0); lia. Qed.
Definition memz (id : Z) (l : list Z) : bool := existsb (Z.eqb id) l.

Lemma memz_snoc id l x : memz id (l ++ [x]) = memz id l || Z.eqb id x.
Proof. unfold memz. rewrite existsb_app. simpl. rewrite orb_false_r. reflexivity. Qed.

Lemma memz_In id l : In id l -> memz id l = true.
Proof. intros H. unfold memz. apply existsb_exists. exists id. split; [exact H | apply Z.eqb_refl]. Qed.

Definition InvR (st : state Life) : Prop :=
  let s := fst st in let p := snd st in
  rst s = None /\ respawnable s = false /\ 0 <= lguid s /\ lunarmed s = [] /\ lrefused s = 0%nat /\
  (forall id q, In (id, q) (lreg s) -> In id (leverreg s)) /\
  (forall id, LT (atreg id) p + b2z (memz id (leverreg s)) <= 1 /\
              (~ (1 <= id <= lguid s) -> LT (atreg id) p = 0 /\ memz id (leverreg s) = false)).

Lemma invR_step st i c st' e : InvR st -> gstep st i c = Some (st', e) -> InvR st'.
Proof.
  intros (Hr & Hb & Hg0 & Hun & Hrf & Hreg & Hid) Hg. destruct (gstep_inv st i c st' e Hg) as (l & s' & ol & sp & Hn & Ht & ->).
  destruct st as [s p]. cbn [fst snd] in *. unfold InvR, LT in *. cbn [fst snd].
  assert (Gat : forall id, atreg id l <= @total Life (atreg id) p) by (intros id; apply (total_ge_nth Life (atreg id) p i l (nn_atreg id) Hn)).
  assert (Nat_ : forall id, 0 <= @total Life (atreg id) p) by (intros id; apply (total_nonneg Life (atreg id) p (nn_atreg id))).
  lstep_cases Ht; try congruence; lfields; try rewrite Hr.
  (* an address that is still in the registry was stored there once: Register cannot report it taken for a thread
     that holds the only copy of that id *)
  all: try match goal with Hlk : llookup ?id (lreg _) = Some _ |- _ =>
         match goal with Hn : nth_error _ _ = Some (Some ?pc) |- _ =>
           match pc with LReg _ _ => idtac | LFwd _ => idtac | LKid _ => idtac end;
           exfalso; apply llookup_In in Hlk; apply Hreg in Hlk; apply memz_In in Hlk;
           destruct (Hid id) as (Hsum & _); rewrite Hlk in Hsum; specialize (Gat id); cbn [atreg] in Gat;
           rewrite Z.eqb_refl in Gat; cbn [b2z] in Hsum; lia end end.
  all: (split; [ok|]); (split; [ok|]); (split; [lia|]); (split; [ok|]); (split; [ok|]).
  all: split; [ intros id0 o0 Hin;
                first [ (apply Hreg with o0; exact Hin)
                      | (apply in_app_or in Hin; apply in_or_app; destruct Hin as [Hin|[Heq|[]]];
                         [left; apply Hreg with o0; exact Hin | right; inversion Heq; subst; left; reflexivity])
                      | (apply Hreg with o0; first [ eapply In_lunreg; exact Hin | eapply In_rmkids; exact Hin | eapply In_rmkid; exact Hin ]) ] |].
  all: intros id0; rewrite total_app, (total_upd _ _ _ _ _ _ Hn), total_map_Some; rewrite ?memz_snoc;
       destruct (Hid id0) as (Hsum & Hout); specialize (Gat id0); specialize (Nat_ id0);
       cbn [total fo fold_right atreg] in *;
       match type of Hsum with _ + b2z (memz id0 ?L) <= 1 => destruct (memz id0 L) eqn:Em end;
       repeat match goal with
       | |- context [Z.eqb id0 ?x] => destruct (Z.eqb_spec id0 x)
       | H : context [Z.eqb id0 ?x] |- _ => destruct (Z.eqb_spec id0 x)
       end; subst;
       cbn [b2z orb] in *;
       (split; [try lia | intros Hrange; try (split; [lia | try reflexivity; try tauto])]).
  all: try (destruct (Hout ltac:(lia)) as (Hz & Hmm); try congruence; try lia).
  all: try (destruct (Hout Hrange) as (Hz & Hmm); try congruence; try lia; split; [lia | congruence]).
  all: try (destruct Hout as (Hz & Hmm); [lia|]; try congruence; try lia).
Qed.

Lemma invR_reach st : reach (linit None false) st -> InvR st.
Proof.
  revert st. apply inv_reach; [|exact invR_step]. unfold InvR, linit, LT; simpl.
  repeat split; try lia; try contradiction; try reflexivity.
Qed.

(* one context over its whole life: Register never reports an address taken — every future is initialised (timer
   armed), no ActorOf panics with "already exists", no AwaitForward future is left without its controller *)
Theorem life_every_ask_armed st : reach (linit None false) st -> lunarmed (fst st) = [] /\ lrefused (fst st) = 0%nat.
Proof. intros Hr. destruct (invR_reach st Hr) as (_ & _ & _ & H1 & H2 & _). split; assumption. Qed.

(* ------------------------------------------------------------------ (4) witnesses *)

(* thread 1 = the handler. ask 0 stays pending (silent target); the actor is restarted / re-created; the next
   instance asks: request 1 is answered *)
Definition reuse_sched (again : lchoice) : list (nat * lchoice) :=
  [(0%nat, LCThread);
   (1%nat, LCAsk); (1%nat, LCNone); (1%nat, LCSilent);       (* ask 0: id 1, registered, timer = thread 2, target silent *)
   (0%nat, again);                                           (* restart / respawn while ask 0 is pending *)
   (1%nat, LCAsk); (1%nat, LCNone); (1%nat, LCReply);        (* ask 1: Register reports "exists"; reply = thread 3 *)
   (3%nat, LCNone);                                          (* the reply to request 1 completes future 0 *)
   (2%nat, LCNone);                                          (* timer of future 0: already completed *)
   (1%nat, LCStop)].

Lemma reuse_run r b again :
  (match again with LCRestart => r = Some 0 | LCRespawn => r = None /\ b = true | _ => False end) ->
  exists st, reach (linit r b) st /\
    lissued (fst st) = [1; 1] /\ ~ NoDup (lissued (fst st)) /\
    lunarmed (fst st) = [1%nat] /\ lresults (fst st) = [(0%nat, Some 1%nat)] /\
    lresolved 1%nat (lresults (fst st)) = false /\
    snd st = [Some LEnv; None; None; None].
Proof.
  intros Hc.
  assert (E : exists st es, run (linit r b) (reuse_sched again) = Some (st, es) /\
              lissued (fst st) = [1; 1] /\ lunarmed (fst st) = [1%nat] /\ lresults (fst st) = [(0%nat, Some 1%nat)] /\
              snd st = [Some LEnv; None; None; None]).
  { destruct again; try contradiction.
    - subst r. destruct b; eexists; eexists; (split; [vm_compute; reflexivity | vm_compute; repeat split; reflexivity]).
    - destruct Hc as [-> ->]. eexists; eexists; (split; [vm_compute; reflexivity | vm_compute; repeat split; reflexivity]). }
  destruct E as (st & es & Hrun & Hi & Hu & Hres & Hp).
  exists st. split; [eapply run_reach; [constructor | exact Hrun]|].
  rewrite Hi, Hu, Hres, Hp. repeat split; try reflexivity.
  intros Hnd. inversion Hnd; subst. apply H1. left; reflexivity.
Qed.

(* a restart path that stores 0 into the counter (the change tie T3 looks for): an ask pending across the restart
   and the first ask of the new instance get the same reply address; the new ask is never initialised (no timer)
   and never resolves, the old one resolves with the reply to the other request *)
Theorem reset_on_restart_refuted b :
  exists st, reach (linit (Some 0) b) st /\
    lissued (fst st) = [1; 1] /\ ~ NoDup (lissued (fst st)) /\
    lunarmed (fst st) = [1%nat] /\ lresults (fst st) = [(0%nat, Some 1%nat)] /\
    lresolved 1%nat (lresults (fst st)) = false /\
    snd st = [Some LEnv; None; None; None].
Proof. apply (reuse_run (Some 0) b LCRestart). reflexivity. Qed.

(* the source as it is, the actor terminated and created again under the same name while an ask of the old
   context is still pending: same collision (open finding C07-respawn-same-name-reuses-reply-address) *)
Theorem respawn_refuted :
  exists st, reach (linit None true) st /\
    lissued (fst st) = [1; 1] /\ ~ NoDup (lissued (fst st)) /\
    lunarmed (fst st) = [1%nat] /\ lresults (fst st) = [(0%nat, Some 1%nat)] /\
    lresolved 1%nat (lresults (fst st)) = false /\
    snd st = [Some LEnv; None; None; None].
Proof. apply (reuse_run None true LCRespawn). split; reflexivity. Qed.

(* ------------------------------------------------------------------ (5) instantiation at the extracted source facts *)

Lemma linit_src_ok acc cs cr b : source_ok acc cs cr = true -> linit_src acc b = linit None b.
Proof.
  unfold source_ok, linit_src. destruct (source_rst acc) as [[v|]|]; try discriminate. reflexivity.
Qed.

(* for a source whose extracted counter accesses are the machine's (tie T3 checks [source_ok ... = true] on the tree
   under test): everything above holds of the machine that source is *)
Theorem at_source acc cs cr : source_ok acc cs cr = true ->
  forall st, reach (linit_src acc false) st ->
    NoDup (lhanded (fst st)) /\ NoDup (lissued (fst st)) /\ lunarmed (fst st) = [] /\ lrefused (fst st) = 0%nat /\
    (forall o q, In (o, Some q) (lresults (fst st)) -> o = q).
Proof.
  intros Hok st Hr. rewrite (linit_src_ok acc cs cr false Hok) in Hr.
  split; [exact (handed_distinct false st Hr)|]. split; [exact (ask_addresses_distinct st Hr)|].
  destruct (life_every_ask_armed st Hr) as (H1 & H2). split; [exact H1|]. split; [exact H2|].
  exact (life_own_reply None false st Hr (ask_addresses_distinct st Hr)).
Qed.

Lemma model_source_ok : source_rst model_accesses = Some None.
Proof. reflexivity. Qed.
