(* MV.C07.FutProofs — invariants of the future machine over every reachable state (every schedule, any
   number of deliverers, user Close calls, Forward calls and readers, timer armed or not). *)
From MV Require Import Lib.ListX Lib.Sched C07.FutLib C07.FutModel.
From Coq Require Import ZifyBool.
Open Scope Z_scope.
Arguments Z.add : simpl never.
Arguments Z.sub : simpl never.
Arguments Z.of_nat : simpl never.

Arguments b2z !b : simpl nomatch.

Definition T (f : pc -> Z) (p : pool Fut) : Z := @total Fut f p.

(* indicator functions over thread states *)
Definition post (l : pc) : Z := match l with CStop | CUnreg => 1 | _ => 0 end.       (* won, done closed, address not yet released *)
Definition perr (l : pc) : Z := match l with CErr _ => 1 | _ => 0 end.               (* won, f.err not yet written *)
Definition tm (l : pc) : Z := match l with TFire => 1 | _ => 0 end.                   (* the armed timer goroutine *)
Definition tfc (l : pc) : Z := match l with CCas (Some RTimeout) => 1 | _ => 0 end.  (* the timer's Close, CAS pending *)
Definition holds (l : pc) : Z := match l with FLoad | XFwd _ _ | XUnlock => 1 | _ => 0 end. (* forwardsMutex owner *)
Definition env0 (l : pc) : Z := match l with Env0 => 1 | _ => 0 end.

Definition Inv (st : state Fut) : Prop :=
  let s := fst st in let p := snd st in
  b2z (closed s) = T pre p + b2z (done s) /\
  closes s = b2z (done s) /\
  b2z (registered s) + b2z (closed s) - T pend p = 1 /\
  T post p <= b2z (done s) /\
  b2z (has_timer s) = T tm p + b2z (fired s) + b2z (cancelled s) /\
  b2z (fired s) <= b2z (closed s) + T tfc p /\
  b2z (cancelled s) <= b2z (stopped s) /\
  b2z (stopped s) <= b2z (done s) /\
  b2z (fmutex s) = T holds p /\
  T env0 p + b2z (has_timer s) <= 1 /\
  T tfc p <= b2z (fired s).

Lemma nn_pre l : 0 <= pre l. Proof. destruct l; simpl; lia. Qed.
Lemma nn_pend l : 0 <= pend l. Proof. destruct l; simpl; lia. Qed.
Lemma nn_post l : 0 <= post l. Proof. destruct l; simpl; lia. Qed.
Lemma nn_perr l : 0 <= perr l. Proof. destruct l; simpl; lia. Qed.
Lemma nn_tm l : 0 <= tm l. Proof. destruct l; simpl; lia. Qed.
Lemma nn_tfc l : 0 <= tfc l. Proof. destruct l as [| | | | |[[| |]|]| | | | | | | | | |]; simpl; lia. Qed.
Lemma nn_holds l : 0 <= holds l. Proof. destruct l; simpl; lia. Qed.
Lemma nn_env0 l : 0 <= env0 l. Proof. destruct l; simpl; lia. Qed.
Lemma nn_storing l : 0 <= storing l. Proof. destruct l; simpl; lia. Qed.
Lemma perr_le_pre l : perr l <= pre l. Proof. destruct l; simpl; lia. Qed.

Lemma inv_init : Inv init.
Proof. unfold Inv, init, T, b2z; simpl. lia. Qed.

Lemma inv_step st i c st' e : Inv st -> gstep st i c = Some (st', e) -> Inv st'.
Proof.
  destruct st as [s p]. unfold Inv, gstep. cbn [fst snd].
  intros (H1 & H2 & H3 & H4 & H5 & H6 & H7 & H8 & H9 & H10 & H11).
  destruct (nth_error p i) as [[l|]|] eqn:Hn; try discriminate.
  pose proof (total_ge_nth Fut pre p i l nn_pre Hn) as Gpre.
  pose proof (total_ge_nth Fut pend p i l nn_pend Hn) as Gpend.
  pose proof (total_ge_nth Fut post p i l nn_post Hn) as Gpost.
  pose proof (total_ge_nth Fut tm p i l nn_tm Hn) as Gtm.
  pose proof (total_ge_nth Fut tfc p i l nn_tfc Hn) as Gtfc.
  pose proof (total_ge_nth Fut holds p i l nn_holds Hn) as Gholds.
  pose proof (total_ge_nth Fut env0 p i l nn_env0 Hn) as Genv0.
  pose proof (total_nonneg Fut pre p nn_pre) as Npre.
  pose proof (total_nonneg Fut tfc p nn_tfc) as Ntfc.
  pose proof (total_nonneg Fut tm p nn_tm) as Ntm.
  pose proof (total_nonneg Fut env0 p nn_env0) as Nenv0.
  pose proof (b2z_bounds (closed s)) as Bcl. pose proof (b2z_bounds (done s)) as Bdn.
  pose proof (b2z_bounds (registered s)) as Brg. pose proof (b2z_bounds (has_timer s)) as Bht.
  pose proof (b2z_bounds (fired s)) as Bfi. pose proof (b2z_bounds (cancelled s)) as Bca.
  pose proof (b2z_bounds (stopped s)) as Bst. pose proof (b2z_bounds (fmutex s)) as Bfm.
  unfold T in *.
  cbn [tstep Fut]. destruct l; cbn [mstep];
    cbn [pre pend post tm tfc holds env0] in Gpre, Gpend, Gpost, Gtm, Gtfc, Gholds, Genv0;
  repeat match goal with
  | |- context [match ?c with CNone => _ | _ => _ end] => destruct c
  | |- context [match ?r with [] => _ | _ => _ end] => destruct r
  | |- context [if closed ?s then _ else _] => let Hc := fresh "Hc" in destruct (closed s) eqn:Hc
  | |- context [if stopped ?s then _ else _] => let Hc := fresh "Hst" in destruct (stopped s) eqn:Hc
  | |- context [if fmutex ?s then _ else _] => let Hc := fresh "Hfm" in destruct (fmutex s) eqn:Hc
  | |- context [if done ?s then _ else _] => let Hc := fresh "Hdn" in destruct (done s) eqn:Hc
  | |- context [if has_timer ?s then _ else _] => let Hc := fresh "Hht" in destruct (has_timer s) eqn:Hc
  | |- context [if ?t then [TFire] else []] => destruct t
  end;
  try discriminate;
  (intros Hstep; inversion Hstep; subst; clear Hstep; cbn [fst snd];
   unfold after_lock, record_payload, user_reason;
   repeat match goal with
   | |- context [match ?p with PMsg _ => _ | PErr _ => _ end] => destruct p
   | |- context [match ?r with Some _ => _ | None => _ end] => destruct r
   | |- context [match forwards ?s with [] => _ | _ => _ end] => destruct (forwards s)
   | r : reason |- _ => destruct r
   end;
   repeat rewrite total_app; repeat rewrite (total_upd _ _ _ _ _ _ Hn);
   cbn [total fo map pre pend post tm tfc holds env0
        set_closed set_message set_err set_has_timer set_stopped set_registered set_fmutex set_forwards
        add_delivered add_err_in add_reason set_fired set_cancelled close_done
        closed message err done has_timer stopped registered fmutex forwards closes fired cancelled] in *;
   repeat match goal with
   | |- context [match ?r with Some _ => _ | None => _ end] => destruct r
   | |- context [match ?r with RTimeout => _ | _ => _ end] => destruct r
   end;
   repeat match goal with Hx : _ = true |- _ => rewrite Hx in * | Hx : _ = false |- _ => rewrite Hx in * end;
   cbn [b2z] in *;
   repeat split; lia).
Qed.

Theorem inv_reachable st : reach init st -> Inv st.
Proof. apply inv_reach; [exact inv_init | exact inv_step]. Qed.

Lemma inv_reach_from st st' : Inv st -> reach st st' -> Inv st'.
Proof. intros Hi Hr. induction Hr; [assumption | eapply inv_step; eauto]. Qed.

(* ------------------------------------------------------------------ consequences of the counting invariant *)

Lemma T_quiescent (f : pc -> Z) st : quiescent st -> f Env = 0 -> T f (snd st) = 0.
Proof.
  intros Hq Hf. unfold T. apply (total_all_live_zero (M:=Fut) f is_env); [|exact Hq].
  intros l Hl. unfold is_env in Hl. subst. exact Hf.
Qed.

(* resolves once, part 1: close(f.done) is executed at most once (a second close would panic) *)
Theorem done_once st : reach init st -> closes (fst st) <= 1 /\ (done (fst st) = true <-> closes (fst st) = 1).
Proof.
  intros Hr. destruct (inv_reachable st Hr) as (_ & H2 & _). rewrite H2.
  destruct (done (fst st)); simpl; split; try lia; split; intros; try lia; try reflexivity; discriminate.
Qed.

(* with the timer armed, once the timer's Close has performed its CAS the future is closed, and done is
   closed except while the winner still has to execute its next two statements (f.err = reason ; close(f.done)) *)
Theorem by_timeout st : reach init st -> fired (fst st) = true -> T tfc (snd st) = 0 ->
  closed (fst st) = true /\ (done (fst st) = true \/ T pre (snd st) = 1).
Proof.
  intros Hr Hf Hz. destruct (inv_reachable st Hr) as (H1 & _ & _ & _ & _ & H6 & _).
  unfold T in *. rewrite Hf, Hz in H6. pose proof (b2z_bounds (closed (fst st))) as B.
  assert (Hc : closed (fst st) = true) by (destruct (closed (fst st)); [reflexivity | simpl in H6; lia]).
  split; [exact Hc|]. rewrite Hc in H1. destruct (done (fst st)); [left; reflexivity | right; cbn [b2z] in H1; lia].
Qed.

(* never by hanging: when every started call has returned and the timer goroutine has run (or was stopped),
   an armed future is completed *)
Theorem no_hang st : reach init st -> has_timer (fst st) = true -> quiescent st -> done (fst st) = true.
Proof.
  intros Hr Ht Hq. destruct (inv_reachable st Hr) as (H1 & _ & _ & _ & H5 & H6 & H7 & H8 & _).
  rewrite (T_quiescent pre st Hq eq_refl) in H1. rewrite (T_quiescent tm st Hq eq_refl) in H5.
  rewrite (T_quiescent tfc st Hq eq_refl) in H6. rewrite Ht in H5.
  pose proof (b2z_bounds (closed (fst st))). pose proof (b2z_bounds (stopped (fst st))).
  destruct (done (fst st)); [reflexivity|].
  destruct (fired (fst st)), (cancelled (fst st)); simpl in *; lia.
Qed.

(* released: the address leaves the registry exactly through the completion, and is gone once the winner of
   the CAS has got past its Unregister statement — in particular whenever no call is in progress *)
Theorem released st : reach init st ->
  (registered (fst st) = false -> closed (fst st) = true) /\
  (closed (fst st) = true -> T pend (snd st) = 0 -> registered (fst st) = false).
Proof.
  intros Hr. destruct (inv_reachable st Hr) as (_ & _ & H3 & _).
  pose proof (total_nonneg Fut pend (snd st) nn_pend) as N. unfold T in *.
  pose proof (b2z_bounds (closed (fst st))).
  split.
  - intros Hreg. rewrite Hreg in H3. destruct (closed (fst st)); [reflexivity | simpl in *; lia].
  - intros Hc Hz. rewrite Hc, Hz in H3. destruct (registered (fst st)); [simpl in *; lia | reflexivity].
Qed.

Theorem released_quiescent st : reach init st -> quiescent st -> done (fst st) = true -> registered (fst st) = false.
Proof.
  intros Hr Hq Hd. destruct (released st Hr) as (_ & H). apply H; [|apply (T_quiescent pend st Hq eq_refl)].
  destruct (inv_reachable st Hr) as (H1 & _). rewrite Hd in H1.
  pose proof (total_nonneg Fut pre (snd st) nn_pre). unfold T in *.
  destruct (closed (fst st)); [reflexivity | simpl in *; lia].
Qed.

(* the forwards mutex is held by at most one thread *)
Theorem forward_mutex st : reach init st -> T holds (snd st) <= 1.
Proof.
  intros Hr. destruct (inv_reachable st Hr) as (_ & _ & _ & _ & _ & _ & _ & _ & H9 & _).
  rewrite <- H9. apply b2z_bounds.
Qed.

(* ------------------------------------------------------------------ stability after completion *)

Ltac step_cases Ht :=
  match type of Ht with
  | tstep Fut ?s ?l ?c = _ =>
      cbn [tstep Fut] in Ht; destruct l; cbn [mstep] in Ht;
      repeat match type of Ht with
      | context [match ?c with CNone => _ | _ => _ end] => destruct c
      | context [match ?r with [] => _ | _ => _ end] => destruct r
      | context [if closed ?s then _ else _] => let Hc := fresh "Hc" in destruct (closed s) eqn:Hc
      | context [if stopped ?s then _ else _] => let Hc := fresh "Hst" in destruct (stopped s) eqn:Hc
      | context [if fmutex ?s then _ else _] => let Hc := fresh "Hfm" in destruct (fmutex s) eqn:Hc
      | context [if done ?s then _ else _] => let Hc := fresh "Hdn" in destruct (done s) eqn:Hc
      end;
      try discriminate; inversion Ht; subst; clear Ht
  end.

Ltac fields :=
  cbn [set_closed set_message set_err set_has_timer set_stopped set_registered set_fmutex set_forwards
       add_delivered add_err_in add_reason set_fired set_cancelled close_done record_payload
       closed message err done has_timer stopped registered fmutex forwards closes delivered errs_in reasons fired cancelled] in *.

Lemma step_after_done st i c st' e :
  Inv st -> done (fst st) = true -> gstep st i c = Some (st', e) ->
  done (fst st') = true /\ err (fst st') = err (fst st) /\
  (T storing (snd st) = 0 -> T storing (snd st') = 0 /\ message (fst st') = message (fst st)).
Proof.
  intros HI Hd Hg. destruct (gstep_inv st i c st' e Hg) as (l & s' & ol & sp & Hn & Ht & ->).
  destruct st as [s p]. cbn [fst snd] in *.
  destruct HI as (H1 & _). cbn [fst snd] in H1. rewrite Hd in H1.
  pose proof (total_ge_nth Fut pre p i l nn_pre Hn) as Gpre.
  pose proof (total_ge_nth Fut storing p i l nn_storing Hn) as Gsto.
  pose proof (total_nonneg Fut pre p nn_pre) as Npre.
  pose proof (b2z_bounds (closed s)) as Bc. unfold T in *.
  assert (Hcl : closed s = true) by (destruct (closed s); [reflexivity | simpl in H1; lia]).
  rewrite Hcl in H1. simpl in H1.
  step_cases Ht; cbn [pre storing] in Gpre, Gsto; try lia; try congruence;
    try (destruct p0); try (destruct r);
    fields; (split; [try assumption; try reflexivity | split; [reflexivity|]]);
    intros Hz; rewrite ?total_app, ?(total_upd _ _ _ _ _ _ Hn); unfold after_lock;
    try (destruct timer); try (destruct (forwards s)); try (destruct (forwards s'));
    cbn [total fo map storing]; try (split; [lia | reflexivity]);
    try lia.
Qed.

(* resolves once, part 2: from the moment done is closed, f.err never changes again; and f.message never
   changes again unless a deliverer that had read closed = false BEFORE the completion is still about to
   execute its `f.message = message` *)
Theorem stable_after_done st st' :
  reach init st -> done (fst st) = true -> reach st st' ->
  done (fst st') = true /\ err (fst st') = err (fst st) /\
  (in_flight_stores st = 0 -> message (fst st') = message (fst st)).
Proof.
  intros Hr Hd Hr'. unfold in_flight_stores.
  assert (G : done (fst st') = true /\ err (fst st') = err (fst st) /\
              (T storing (snd st) = 0 -> T storing (snd st') = 0 /\ message (fst st') = message (fst st))).
  { induction Hr' as [|st1 i c st2 e Hr1 IH Hg].
    - repeat split; auto.
    - destruct IH as (Hd1 & He1 & Hm1).
      assert (HI : Inv st1) by (eapply inv_reach_from; [apply inv_reachable; exact Hr | exact Hr1]).
      destruct (step_after_done st1 i c st2 e HI Hd1 Hg) as (Hd2 & He2 & Hm2).
      split; [exact Hd2|]. split; [congruence|]. intros Hz. destruct (Hm1 Hz) as (Hz1 & Hmm).
      destruct (Hm2 Hz1) as (Hz2 & Hmm2). split; [exact Hz2 | congruence]. }
  destruct G as (G1 & G2 & G3). split; [exact G1|]. split; [exact G2|]. intros Hz. apply G3. exact Hz.
Qed.

(* ------------------------------------------------------------------ where the result comes from *)

(* the reason a Close call carries is legitimate in shared state s *)
Definition err_ok (s : sh) (r : oreason) : Prop :=
  match r with
  | None => message s <> None \/ In None (reasons s)       (* Close(nil): after `f.message = m`, or the user's Close(nil) *)
  | Some RTimeout => fired s = true                          (* only the armed timer's goroutine *)
  | Some (RErr e) => In e (errs_in s)                        (* an error reply delivered to this process *)
  | Some (RUser e) => In (Some e) (reasons s)                (* the user's Close(reason) *)
  end.

Definition wf (s : sh) (l : pc) : Prop :=
  match l with
  | DLoad (PMsg m) | DStore m => In m (delivered s)
  | DLoad (PErr e) => In e (errs_in s)
  | CCas r | CErr r => err_ok s r
  | _ => True
  end.

Definition ext (s s' : sh) : Prop :=
  incl (delivered s) (delivered s') /\ incl (errs_in s) (errs_in s') /\ incl (reasons s) (reasons s') /\
  (message s <> None -> message s' <> None) /\ (fired s = true -> fired s' = true).

Lemma err_ok_mono s s' r : ext s s' -> err_ok s r -> err_ok s' r.
Proof.
  intros (Hd & He & Hr & Hm & Hf). destruct r as [[|e|e]|]; simpl; auto.
  intros [H|H]; [left; auto | right; auto].
Qed.

Lemma wf_mono s s' l : ext s s' -> wf s l -> wf s' l.
Proof.
  intros Hx. pose proof (fun r => err_ok_mono s s' r Hx) as Hm. destruct Hx as (Hd & He & Hr & _).
  destruct l; simpl; auto; try (destruct p); auto.
Qed.

Lemma mstep_ext s l c s' ol sp e : mstep s l c = Some (s', ol, sp, e) -> ext s s'.
Proof.
  intros Ht. change (tstep Fut s l c = Some (s', ol, sp, e)) in Ht.
  step_cases Ht; unfold ext; try (destruct p); fields;
    repeat split; auto using incl_refl, incl_appl; try congruence; try discriminate.
Qed.

Definition Inv2 (st : state Fut) : Prop :=
  let s := fst st in let p := snd st in
  @all_live Fut (wf s) p /\
  (forall m, message s = Some m -> In m (delivered s)) /\
  (T perr p = 0 -> closed s = true -> err_ok s (err s)).

Lemma inv2_init : Inv2 init.
Proof.
  unfold Inv2, init; cbn [fst snd]. split; [|split].
  - intros j l H. destruct j as [|j]; simpl in H; [inversion H; subst; exact I | destruct j; discriminate].
  - simpl. discriminate.
  - simpl. discriminate.
Qed.

Lemma inv2_step st i c st' e : Inv st -> Inv2 st -> gstep st i c = Some (st', e) -> Inv2 st'.
Proof.
  intros HI (Hw & Hm & He) Hg. destruct (gstep_inv st i c st' e Hg) as (l & s' & ol & sp & Hn & Ht & ->).
  destruct st as [s p]. cbn [fst snd] in *.
  pose proof (mstep_ext _ _ _ _ _ _ _ Ht) as Hx.
  pose proof (Hw i l Hn) as Hl.
  pose proof (total_ge_nth Fut perr p i l nn_perr Hn) as Gperr.
  pose proof (total_nonneg Fut perr p nn_perr) as Nperr.
  destruct HI as (H1 & _). cbn [fst snd] in H1.
  pose proof (total_le Fut perr pre p perr_le_pre) as Lpp.
  pose proof (b2z_bounds (closed s)) as Bc. pose proof (b2z_bounds (done s)) as Bd.
  unfold Inv2. cbn [fst snd]. split; [|split].
  - (* thread-local facts *)
    apply all_live_step.
    + intros j l' _ Hj. eapply wf_mono; [exact Hx | eapply Hw; exact Hj].
    + intros l' Hol. subst ol. clear Hx He Hw.
      step_cases Ht; try (destruct p0); cbn [wf err_ok] in *; fields; auto;
        try (apply in_or_app; simpl; tauto); try (left; discriminate).
      all: unfold after_lock; try (destruct (has_timer s); exact I);
        try (destruct (forwards s); exact I); try (destruct (forwards s'); exact I).
    + intros l' Hin. clear Hx He Hw.
      step_cases Ht; try (destruct timer); try (destruct p0); cbn [In] in Hin; try tauto;
        destruct Hin as [<-|[]]; cbn [wf err_ok user_reason]; fields; try exact I;
        try (apply in_or_app; simpl; tauto).
      destruct r; cbn [err_ok]; [|right]; apply in_or_app; simpl; tauto.
  - (* f.message holds a message that was delivered to this process *)
    clear He. intros m. step_cases Ht; try (destruct p0); fields; intros Hmm;
      try (apply Hm; exact Hmm); try (apply in_or_app; left; apply Hm; exact Hmm).
    inversion Hmm; subst. exact Hl.
  - (* f.err holds the reason of the winning Close *)
    unfold T in *. rewrite total_app, (total_upd _ _ _ _ _ _ Hn).
    step_cases Ht; cbn [perr] in Gperr; try (destruct timer); try (destruct p0);
      unfold after_lock; try (destruct (forwards s)); try (destruct (forwards s')); try (destruct (has_timer s));
      cbn [total fo map perr]; fields; intros Hz Hcl;
      try lia; try congruence;
      try (eapply err_ok_mono; [exact Hx | apply He; [lia | first [assumption | reflexivity | congruence]]]);
      try (eapply err_ok_mono; [exact Hx | exact Hl]).
Qed.

Theorem inv2_reachable st : reach init st -> Inv2 st.
Proof.
  intros Hr. induction Hr as [|st i c st' e Hr IH Hg]; [exact inv2_init|].
  eapply inv2_step; [apply inv_reachable; exact Hr | exact IH | exact Hg].
Qed.

(* outcome: once done is closed, Result() = (f.message, f.err) is one of
     - (a message delivered to THIS process, nil)              — or (nil, nil) only after a user Close(nil);
     - (_, ErrorFutureTimeout) and the timer had been armed and has fired;
     - (_, e) for an error reply e delivered to THIS process;
     - (_, reason) for a reason passed to Close by the user;
   and f.message, when set, is always a message delivered to THIS process. *)
Theorem outcome st : reach init st -> done (fst st) = true ->
  let s := fst st in
  (forall m, message s = Some m -> In m (delivered s)) /\
  match err s with
  | None => (exists m, message s = Some m /\ In m (delivered s)) \/ In None (reasons s)
  | Some RTimeout => has_timer s = true /\ fired s = true
  | Some (RErr e) => In e (errs_in s)
  | Some (RUser e) => In (Some e) (reasons s)
  end.
Proof.
  intros Hr Hd s. destruct (inv2_reachable st Hr) as (_ & Hm & He).
  destruct (inv_reachable st Hr) as (H1 & _ & _ & _ & H5 & _). fold s in Hm, He, H1, H5.
  split; [exact Hm|].
  assert (Hd' : done s = true) by exact Hd. rewrite Hd' in H1.
  pose proof (total_nonneg Fut pre (snd st) nn_pre) as Npre.
  pose proof (total_nonneg Fut perr (snd st) nn_perr) as Nperr.
  pose proof (total_le Fut perr pre (snd st) perr_le_pre) as Lpp.
  pose proof (b2z_bounds (closed s)) as Bc. unfold T in *.
  assert (Hc : closed s = true) by (destruct (closed s); [reflexivity | cbn [b2z] in H1; lia]).
  rewrite Hc in H1. cbn [b2z] in H1.
  assert (Hok : err_ok s (err s)) by (apply He; [lia | exact Hc]).
  destruct (err s) as [[|e|e]|]; cbn [err_ok] in Hok; auto.
  - split; [|exact Hok]. rewrite Hok in H5.
    pose proof (total_nonneg Fut tm (snd st) nn_tm). pose proof (b2z_bounds (cancelled s)).
    destruct (has_timer s); [reflexivity | cbn [b2z] in H5; lia].
  - destruct Hok as [Hne|Hin]; [left | right; exact Hin].
    destruct (message s) as [m|] eqn:Em; [|congruence]. exists m. split; [reflexivity | apply Hm; reflexivity].
Qed.

(* ------------------------------------------------------------------ what is NOT true of future.go *)

(* timer armed; a reply (message 7) is being delivered: the deliverer reads closed = false; the timer fires and
   completes the future with the timeout; Result() = (nil, timeout); then the deliverer executes its pending
   `f.message = message` (its CAS will fail): Result() = (7, timeout) *)
Definition late_store_sched : list (nat * choice) :=
  [(0%nat, CInit true); (0%nat, CDeliver (PMsg 7%nat)); (2%nat, CNone);
   (1%nat, CNone); (1%nat, CNone); (1%nat, CNone); (1%nat, CNone)].

Theorem message_after_completion_refuted :
  exists st st', reach init st /\ done (fst st) = true /\ result (fst st) = (None, Some RTimeout) /\
                 reach st st' /\ result (fst st') = (Some 7%nat, Some RTimeout).
Proof.
  destruct (run init late_store_sched) as [[st es]|] eqn:E; [|vm_compute in E; discriminate].
  destruct (gstep st 2%nat CNone) as [[st' e']|] eqn:E2.
  - exists st, st'. split; [eapply run_reach; [constructor | exact E]|].
    assert (Hr2 : reach st st') by (eapply reach_step; [apply reach_init | exact E2]).
    vm_compute in E. inversion E; subst; clear E. vm_compute in E2. inversion E2; subst; clear E2.
    cbn [fst]. repeat split; try reflexivity. exact Hr2.
  - vm_compute in E. inversion E; subst. vm_compute in E2. discriminate.
Qed.
