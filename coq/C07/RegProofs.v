(* MV.C07.RegProofs — the creation of a future and the release of its reply address, over every reachable state of
   MV.C07.RegModel (every interleaving of the creator's steps, the timer goroutine and any number of Close callers;
   every timeout: the timer goroutine may run immediately after it is armed), for EVERY creation order accepted by
   [order_ok] — in particular the order of the unchanged source — and the refuting schedules for two other orders. *)
From MV Require Import Lib.ListX Lib.Sched C07.FutLib C07.RegModel.
Open Scope Z_scope.
Arguments Z.add : simpl never.
Arguments Z.sub : simpl never.

Definition KT (f : kpc -> Z) (p : pool Reg) : Z := @total Reg f p.

Definition ready (s : regsh) : bool := published s && rc_set s && ref_set s.
Definition is_arm (c : cstep) : bool := match c with SArm => true | _ => false end.

Definition RInv (st : state Reg) : Prop :=
  let s := fst st in let p := snd st in
  ok_from (published s) (rc_set s) (ref_set s) (prog s) = true /\
  (ready s = false -> KT kbusy p = 0) /\
  (created s = true -> ready s = true /\ prog s = []) /\
  nil_deref s = false /\
  missed s = 0 /\
  Z.b2z (in_registry s) = Z.b2z (published s) - releases s /\
  releases s + KT kpend p = Z.b2z (fclosed s) /\
  0 <= releases s /\
  stores s = Z.b2z (published s) /\
  Z.b2z (fdone s) <= Z.b2z (fclosed s) /\
  (KT kcreating p = 0 -> created s = true).

(* the timer is armed by the time New returns (when the order arms it at all and the timeout is positive) *)
Definition AInv (st : state Reg) : Prop :=
  let s := fst st in
  existsb is_arm (prog s) || timer_armed s || negb (timeout_pos s) = true.

Lemma nn_kpend l : 0 <= kpend l. Proof. destruct l; simpl; lia. Qed.
Lemma nn_kbusy l : 0 <= kbusy l. Proof. destruct l; simpl; lia. Qed.
Lemma nn_kcreating l : 0 <= kcreating l. Proof. destruct l; simpl; lia. Qed.
Lemma kpend_le_kbusy l : kpend l <= kbusy l. Proof. destruct l; simpl; lia. Qed.

Lemma rinv_init o t : ok_from false false false o = true -> RInv (reg_init o t).
Proof.
  intros H. unfold RInv, reg_init, KT, ready; cbn. repeat split; try lia; try assumption; try discriminate.
Qed.

Ltac kfields :=
  cbn [set_prog do_publish set_rc set_ref set_armed set_tstopped set_fclosed set_fdone set_created do_unregister set_nil_deref
       prog timeout_pos in_registry rc_set ref_set timer_armed timer_stopped fclosed fdone created published stores releases missed nil_deref] in *.

Ltac kclean :=
  repeat match goal with
  | H : ?b = ?b -> _ |- _ => specialize (H eq_refl)
  | H : ?a -> _, Hx : ?a |- _ => specialize (H Hx)
  | H : true = false -> _ |- _ => clear H
  | Hx : prog _ = _ |- _ => rewrite Hx in *
  | H : false = true -> _ |- _ => clear H
  | H : _ /\ _ |- _ => destruct H
  end.

Lemma rinv_step st i c st' e : RInv st -> gstep st i c = Some (st', e) -> RInv st'.
Proof.
  destruct st as [s p]. unfold RInv, gstep. cbn [fst snd].
  intros (H1 & H2 & H3 & H4 & H5 & H6 & H7 & H8 & H9 & H10 & H11).
  destruct (nth_error p i) as [[l|]|] eqn:Hn; try discriminate.
  pose proof (total_ge_nth Reg kpend p i l nn_kpend Hn) as Gpend.
  pose proof (total_ge_nth Reg kbusy p i l nn_kbusy Hn) as Gbusy.
  pose proof (total_ge_nth Reg kcreating p i l nn_kcreating Hn) as Gcr.
  pose proof (total_nonneg Reg kpend p nn_kpend) as Npend.
  pose proof (total_nonneg Reg kbusy p nn_kbusy) as Nbusy.
  pose proof (total_nonneg Reg kcreating p nn_kcreating) as Ncr.
  pose proof (total_le Reg kpend kbusy p kpend_le_kbusy) as Lpb.
  unfold KT, ready in *.
  cbn [tstep Reg]. destruct l; cbn [regstep]; cbn [kpend kbusy kcreating] in Gpend, Gbusy, Gcr;
  repeat match goal with
  | |- context [match ?c with KCNone => _ | KCClose => _ end] => destruct c
  | |- context [match prog ?s with [] => _ | _ => _ end] => let Hp := fresh "Hp" in destruct (prog s) as [|[] ?] eqn:Hp
  | |- context [if created ?s then _ else _] => let Hc := fresh "Hcr" in destruct (created s) eqn:Hc
  | |- context [if timeout_pos ?s then _ else _] => let Hc := fresh "Htp" in destruct (timeout_pos s) eqn:Hc
  | |- context [if timer_stopped ?s then _ else _] => let Hc := fresh "Hts" in destruct (timer_stopped s) eqn:Hc
  | |- context [if timer_armed ?s then _ else _] => let Hc := fresh "Hta" in destruct (timer_armed s) eqn:Hc
  | |- context [if fclosed ?s then _ else _] => let Hc := fresh "Hfc" in destruct (fclosed s) eqn:Hc
  | |- context [if rc_set ?s && ref_set ?s then _ else _] => let Hc := fresh "Hrr" in destruct (rc_set s && ref_set s) eqn:Hc
  end;
  try discriminate;
  (intros Hstep; inversion Hstep; subst; clear Hstep; cbn [fst snd];
   repeat rewrite total_app; repeat rewrite (total_upd _ _ _ _ _ _ Hn);
   kfields; cbn [total fo map kpend kbusy kcreating ok_from] in *;
   repeat match goal with Hx : _ = true |- _ => rewrite Hx in * | Hx : _ = false |- _ => rewrite Hx in * end;
   destruct (published s) eqn:Hpub, (rc_set s) eqn:Hrc, (ref_set s) eqn:Href, (in_registry s) eqn:Hir, (fclosed s) eqn:Hfc', (fdone s) eqn:Hfd';
   cbn [andb negb Z.b2z] in *;
   try discriminate; kclean; try discriminate; try (exfalso; lia);
   repeat split; intros; kclean; try assumption; try reflexivity; try discriminate; try lia; try (apply H11; lia)).
Qed.

Theorem rinv_reachable o t st : ok_from false false false o = true -> reach (reg_init o t) st -> RInv st.
Proof. intros Ho. apply inv_reach; [exact (rinv_init o t Ho) | exact rinv_step]. Qed.

Lemma order_ok_from o : order_ok o = true -> ok_from false false false o = true.
Proof. unfold order_ok. intros H. apply andb_prop in H. tauto. Qed.

(* ---- the timer is armed before New returns ---- *)
Lemma ainv_step st i c st' e : AInv st -> gstep st i c = Some (st', e) -> AInv st'.
Proof.
  destruct st as [s p]. unfold AInv. cbn [fst snd]. intros HA Hg.
  destruct (gstep_inv _ _ _ _ _ Hg) as (l & s' & ol & sp & Hn & Ht & ->). cbn [fst snd] in *.
  cbn [tstep Reg] in Ht. destruct l; cbn [regstep] in Ht;
  repeat match type of Ht with
  | context [match ?c with KCNone => _ | KCClose => _ end] => destruct c
  | context [match prog ?s with [] => _ | _ => _ end] => let Hp := fresh "Hp" in destruct (prog s) as [|[] ?] eqn:Hp
  | context [if ?b then _ else _] => let Hb := fresh "Hb" in destruct b eqn:Hb
  end; try discriminate; inversion Ht; subst; clear Ht; kfields; cbn [existsb is_arm orb] in *;
  repeat match goal with Hx : _ = true |- _ => rewrite Hx in * | Hx : _ = false |- _ => rewrite Hx in * end;
  cbn [orb negb] in *; try assumption; try reflexivity;
  repeat match goal with |- context [?a || true] => rewrite (orb_true_r a) end; try reflexivity;
  try (rewrite Hp; cbn [existsb orb]; assumption).
Qed.

Lemma ainv_reachable o t st : order_ok o = true -> reach (reg_init o t) st -> AInv st.
Proof.
  intros Ho. apply inv_reach; [|exact ainv_step].
  unfold AInv, reg_init; cbn. unfold order_ok in Ho. apply andb_prop in Ho. destruct Ho as [_ Ho].
  unfold is_arm. rewrite Ho. reflexivity.
Qed.

(* ------------------------------------------------------------------ the statements, for every accepted order *)

(* no goroutine ever dereferences a nil controller / reference (the crash repaired by 2879fd7); every Unregister finds
   the future; the future is stored into the registry at most once and removed at most once; it is in the registry
   exactly from its publication to its release *)
Theorem reg_sound o t st : order_ok o = true -> reach (reg_init o t) st ->
  nil_deref (fst st) = false /\ missed (fst st) = 0 /\
  0 <= stores (fst st) <= 1 /\ 0 <= releases (fst st) <= 1 /\
  (in_registry (fst st) = true <-> stores (fst st) = 1 /\ releases (fst st) = 0).
Proof.
  intros Ho Hr. destruct (rinv_reachable o t st (order_ok_from o Ho) Hr) as (_ & _ & _ & H4 & H5 & H6 & H7 & H8 & H9 & _).
  pose proof (total_nonneg Reg kpend (snd st) nn_kpend) as N. unfold KT in *.
  destruct (in_registry (fst st)), (published (fst st)), (fclosed (fst st)); cbn [Z.b2z] in *;
    repeat split; try assumption; try lia; intros; try discriminate; try lia.
Qed.

(* released: once the ask is complete (the CAS was won) and the winner has got past its Unregister statement, the
   address is not registered: it was stored once and removed once *)
Theorem reg_released o t st : order_ok o = true -> reach (reg_init o t) st ->
  fclosed (fst st) = true -> KT kpend (snd st) = 0 ->
  in_registry (fst st) = false /\ stores (fst st) = 1 /\ releases (fst st) = 1.
Proof.
  intros Ho Hr Hc Hz. destruct (rinv_reachable o t st (order_ok_from o Ho) Hr) as (_ & _ & _ & _ & _ & H6 & H7 & H8 & H9 & _).
  rewrite Hc, Hz in H7. cbn [Z.b2z] in H7.
  destruct (in_registry (fst st)), (published (fst st)); cbn [Z.b2z] in *; repeat split; try lia; try reflexivity.
Qed.

(* ... and stays so for ever: from such a state on, whatever runs (late replies, a second Close, the cancelled timer),
   the address is never registered again *)
Lemma settled_step (st : state Reg) i c st' e :
  fclosed (fst st) = true -> KT kpend (snd st) = 0 -> KT kcreating (snd st) = 0 -> gstep st i c = Some (st', e) ->
  fclosed (fst st') = true /\ KT kpend (snd st') = 0 /\ KT kcreating (snd st') = 0 /\
  in_registry (fst st') = in_registry (fst st) /\ stores (fst st') = stores (fst st) /\ releases (fst st') = releases (fst st).
Proof.
  destruct st as [s p]. cbn [fst snd]. intros Hc Hz Hk Hg.
  destruct (gstep_inv _ _ _ _ _ Hg) as (l & s' & ol & sp & Hn & Ht & ->). cbn [fst snd] in *.
  pose proof (total_ge_nth Reg kpend p i l nn_kpend Hn) as Gpend.
  pose proof (total_ge_nth Reg kcreating p i l nn_kcreating Hn) as Gcr.
  unfold KT in *.
  cbn [tstep Reg] in Ht. destruct l; cbn [regstep] in Ht; cbn [kpend kcreating] in Gpend, Gcr; try lia;
  repeat match type of Ht with
  | context [match ?c with KCNone => _ | KCClose => _ end] => destruct c
  | context [if ?b then _ else _] => let Hb := fresh "Hb" in destruct b eqn:Hb
  end; try discriminate; try congruence; inversion Ht; subst; clear Ht; kfields;
  repeat rewrite total_app; repeat rewrite (total_upd _ _ _ _ _ _ Hn);
  cbn [total fo map kpend kcreating]; repeat split; try assumption; try reflexivity; try lia.
Qed.

Lemma settled_reach (st st' : state Reg) :
  fclosed (fst st) = true -> KT kpend (snd st) = 0 -> KT kcreating (snd st) = 0 -> reach st st' ->
  fclosed (fst st') = true /\ KT kpend (snd st') = 0 /\ KT kcreating (snd st') = 0 /\
  in_registry (fst st') = in_registry (fst st) /\ stores (fst st') = stores (fst st) /\ releases (fst st') = releases (fst st).
Proof.
  intros Hc Hz Hk Hr. induction Hr as [|st1 i c st2 e Hr IH Hg].
  - repeat split; assumption.
  - destruct IH as (A & B & C & D & E & F).
    destruct (settled_step st1 i c st2 e A B C Hg) as (A' & B' & C' & D' & E' & F').
    repeat split; try assumption; congruence.
Qed.

Theorem reg_released_for_ever o t st st' : order_ok o = true -> reach (reg_init o t) st ->
  fclosed (fst st) = true -> KT kpend (snd st) = 0 -> KT kcreating (snd st) = 0 -> reach st st' ->
  in_registry (fst st') = false /\ stores (fst st') = 1 /\ releases (fst st') = 1.
Proof.
  intros Ho Hr Hc Hz Hk Hr'.
  destruct (reg_released o t st Ho Hr Hc Hz) as (A & B & C).
  destruct (settled_reach st st' Hc Hz Hk Hr') as (_ & _ & _ & D & E & F).
  repeat split; congruence.
Qed.

Lemma KT_quiescent (f : kpc -> Z) st : kquiescent st -> f KEnv = 0 -> KT f (snd st) = 0.
Proof.
  intros Hq Hf. unfold KT. apply (total_all_live_zero (M:=Reg) f is_kenv); [|exact Hq].
  intros l Hl. unfold is_kenv in Hl. subst. exact Hf.
Qed.

(* when nothing is running any more (New returned, every Close call returned, the timer goroutine ran or was cancelled)
   and the ask is complete, its address is not registered; and the timer had been armed when the timeout is positive *)
Theorem reg_released_quiescent o t st : order_ok o = true -> reach (reg_init o t) st -> kquiescent st ->
  created (fst st) = true /\ (t = true -> timer_armed (fst st) = true) /\
  (fdone (fst st) = true -> in_registry (fst st) = false /\ stores (fst st) = 1 /\ releases (fst st) = 1).
Proof.
  intros Ho Hr Hq. pose proof (rinv_reachable o t st (order_ok_from o Ho) Hr) as HI.
  destruct HI as (_ & _ & H3 & _ & _ & _ & _ & _ & _ & H10 & H11).
  pose proof (H11 (KT_quiescent kcreating st Hq eq_refl)) as Hcr.
  split; [exact Hcr|]. split.
  - intros ->. pose proof (ainv_reachable o true st Ho Hr) as HA. unfold AInv in HA.
    destruct (H3 Hcr) as [_ Hp]. rewrite Hp in HA. cbn [existsb orb] in HA.
    assert (Htp : timeout_pos (fst st) = true).
    { clear -Hr. induction Hr as [|st1 i c st2 e Hr IH Hg]; [reflexivity|].
      destruct (gstep_inv _ _ _ _ _ Hg) as (l & s' & ol & sp & Hn & Ht & ->). cbn [fst snd] in *.
      cbn [tstep Reg] in Ht. destruct l; cbn [regstep] in Ht;
      repeat match type of Ht with
      | context [match ?c with KCNone => _ | KCClose => _ end] => destruct c
      | context [match prog ?s with [] => _ | _ => _ end] => destruct (prog s) as [|[] ?]
      | context [if ?b then _ else _] => let Hb := fresh "Hb" in destruct b eqn:Hb
      end; try discriminate; inversion Ht; subst; kfields; assumption. }
    rewrite Htp in HA. cbn [negb] in HA. rewrite orb_false_r in HA. exact HA.
  - intros Hd. apply (reg_released o t st Ho Hr); [|apply (KT_quiescent kpend st Hq eq_refl)].
    rewrite Hd in H10. destruct (fclosed (fst st)); [reflexivity | cbn [Z.b2z] in H10; lia].
Qed.

(* ------------------------------------------------------------------ the orders of the source and of two changes *)

Lemma source_order_ok : order_ok source_order = true. Proof. reflexivity. Qed.
Lemma source_order_is_model : creation_order model_register model_initialize model_new = source_order. Proof. reflexivity. Qed.
Lemma init_first_order_not_ok : order_ok init_first_order = false. Proof. reflexivity. Qed.
Lemma ref_after_timer_order_not_ok : order_ok ref_after_timer_order = false. Proof. reflexivity. Qed.

(* "Initialize before publishing" (Register = Load ; Initialize ; LoadOrStore), tiny timeout: the creator arms the timer
   (steps 1-4), the timer goroutine runs at once and completes the ask — CAS, close(done), Stop, Unregister of an address
   that is not registered yet (missed = 1) — and only then does the creator store the completed future. Everything has
   returned, the ask is complete (timeout), and the address is registered — for ever: nothing that can still run removes it. *)
Definition leak_schedule : list (nat * kchoice) :=
  [(1, KCNone); (1, KCNone); (1, KCNone); (1, KCNone);                 (* creator: Load ; f.rc ; f.ref ; AfterFunc *)
   (2, KCNone); (2, KCNone); (2, KCNone); (2, KCNone); (2, KCNone);    (* timer: fire ; CAS ; done ; Stop ; Unregister *)
   (1, KCNone); (1, KCNone); (1, KCNone)]%nat.                         (* creator: LoadOrStore ; fp.ref ; return *)

Theorem init_first_leaks :
  exists st, reach (reg_init init_first_order true) st /\
    fdone (fst st) = true /\ kquiescent st /\ snd st = [Some KEnv; None; None] /\
    in_registry (fst st) = true /\ releases (fst st) = 0 /\ missed (fst st) = 1 /\ nil_deref (fst st) = false /\
    forall st', reach st st' -> in_registry (fst st') = true /\ releases (fst st') = 0.
Proof.
  destruct (run (reg_init init_first_order true) leak_schedule) as [[st es]|] eqn:E; [|vm_compute in E; discriminate].
  exists st. split; [eapply run_reach; [apply reach_init | exact E]|].
  vm_compute in E. inversion E; subst; clear E. cbn [fst snd].
  split; [reflexivity|]. split.
  { intros j l Hn. destruct j as [|[|[|j]]]; cbn in Hn; try discriminate.
    - inversion Hn; reflexivity.
    - destruct j; discriminate. }
  split; [reflexivity|]. split; [reflexivity|]. split; [reflexivity|]. split; [reflexivity|]. split; [reflexivity|].
  intros st' Hr'.
  match type of Hr' with reach ?st0 _ =>
    destruct (settled_reach st0 st' eq_refl eq_refl eq_refl Hr') as (_ & _ & _ & D & _ & F) end.
  cbn [fst] in D, F. split; [exact D | exact F].
Qed.

(* the text before fix 2879fd7 (the reference is stored only after the timer was armed), tiny timeout: the timer's Close
   reaches rc.Unregister(f.ref, f.ref) with f.ref == nil: nil dereference in the timer goroutine, the process dies *)
Theorem ref_after_timer_crashes :
  exists st, reach (reg_init ref_after_timer_order true) st /\ nil_deref (fst st) = true /\ fdone (fst st) = true /\ in_registry (fst st) = true.
Proof.
  destruct (run (reg_init ref_after_timer_order true)
              [(1, KCNone); (1, KCNone); (1, KCNone); (2, KCNone); (2, KCNone); (2, KCNone); (2, KCNone); (2, KCNone)]%nat)
    as [[st es]|] eqn:E; [|vm_compute in E; discriminate].
  exists st. split; [eapply run_reach; [apply reach_init | exact E]|].
  vm_compute in E. inversion E; subst; clear E. cbn [fst snd]. repeat split; reflexivity.
Qed.

(* non-vacuity: on the source order the same race (the timer fires as early as it can) releases the address *)
Example source_order_tiny_timeout :
  exists st es, run (reg_init source_order true)
    [(1, KCNone); (1, KCNone); (1, KCNone); (1, KCNone); (2, KCNone); (2, KCNone); (2, KCNone); (2, KCNone); (2, KCNone);
     (1, KCNone); (1, KCNone); (0, KCClose); (3, KCNone)]%nat = Some (st, es) /\
    fdone (fst st) = true /\ in_registry (fst st) = false /\ stores (fst st) = 1 /\ releases (fst st) = 1 /\ missed (fst st) = 0 /\
    snd st = [Some KEnv; None; None; None].
Proof. eexists. eexists. split; [vm_compute; reflexivity | vm_compute; repeat split; reflexivity]. Qed.
