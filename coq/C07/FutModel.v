(* MV.C07.FutModel — layer-A machine transcribing engine/future/future.go (one future process,
   its slot in the resource controller's registry, and every goroutine that can touch it).
   One [mstep] per statement that touches shared memory:

     New / Register / Initialize   [Env0]   rc.Register(id, fp) (LoadOrStore) ; f.rc = rc ;
                                             if timeout > 0 { f.timer = time.AfterFunc(timeout, func(){ f.Close(ErrorFutureTimeout) }) }
     timer goroutine               [TFire]  runs at any time after it is armed, unless Stop() came first ("no later than
                                             its timeout" is model time: the scheduler decides when the deadline is)
     DeliveryUserMessage(m)        [DLoad]  if f.closed.Load() { return }
       (= DeliverySystemMessage)   [DStore] f.message = message        (ordinary reply; error replies skip this and
                                             go to Close(err) directly)
     Close(reason)                 [CCas]   if !f.closed.CompareAndSwap(false, true) { return }
                                   [CErr]   f.err = reason
                                   [CDone]  close(f.done)
                                   [CStop]  if f.timer != nil { f.timer.Stop() }      (no step when no timer was armed)
                                   [CUnreg] f.rc.Unregister(f.ref, f.ref)              (LoadAndDelete)
                                   [CLock]  f.forwardsMutex.Lock()  (+ reads f.forwards / f.err of execForward)
                                   [XFwd]   one DeliveryUserMessage per forward target ; f.forwards = nil after the last
                                   [XUnlock] deferred Unlock
     Forward(ref)                  [FLock]  Lock() ; f.forwards = append(f.forwards, ref)
                                   [FLoad]  if f.closed.Load() { execForward() }  -> XFwd ... ; XUnlock
     Result() / Wait()             [RWait]  <-f.done ; read f.message, f.err      (enabled only once done is closed)

   The REPAIRED DeliveryUserMessage (fixes/C07-error-reply.patch) is modelled: a reply whose payload is an
   error — bare or inside a *prc.MessageWrapper, which is how every actor's Reply arrives — goes to Close(err).
   The environment thread spawns any number of deliverers (arbitrary payloads), user Close calls (nil or
   non-nil reason), Forward calls and readers, at any time.  No proofs in this file. *)
From MV Require Import Lib.ListX Lib.Sched.
Open Scope Z_scope.

Definition msg := nat.
Inductive reason := RTimeout | RErr (e : nat) | RUser (e : nat).   (* ErrorFutureTimeout / an error reply / Close(reason) by the user *)
Definition oreason := option reason.                               (* None = nil error *)
Inductive payload := PMsg (m : msg) | PErr (e : nat).

Inductive pc :=
| Env0 | Env | TFire
| DLoad (p : payload) | DStore (m : msg)
| CCas (r : oreason) | CErr (r : oreason) | CDone | CStop | CUnreg | CLock
| FLock (ref : nat) | FLoad
| XFwd (rest : list nat) (m : oreason) | XUnlock
| RWait.

Inductive choice :=
| CNone | CInit (timer : bool) | CDeliver (p : payload) | CClose (r : option nat) | CForward (ref : nat) | CRead.

Inductive event :=
| EvInit (timer : bool)
| EvSpawn (c : choice)
| EvFire | EvCancelled
| EvLoad (b : bool)
| EvStoreMsg (m : msg)
| EvCas (ok : bool)
| EvStoreErr (r : oreason)
| EvCloseDone
| EvStop
| EvUnreg (found : bool)
| EvLock | EvUnlock
| EvForward (ref : nat) (m : oreason)
| EvRead (m : option msg) (r : oreason)
| EvExit                                  (* pseudo-event of the replay log: the thread's code has ended *)
| EvOther (n : nat).                      (* an operation the machine does not have; never produced by [mstep] *)

(* fields 1-9: the memory of the algorithm; 10-15: ghost history, never read by it *)
Record sh := {
  closed : bool;
  message : option msg;
  err : oreason;
  done : bool;
  has_timer : bool;
  stopped : bool;
  registered : bool;
  fmutex : bool;
  forwards : list nat;
  closes : Z;
  delivered : list msg;
  errs_in : list nat;
  reasons : list (option nat);
  fired : bool;
  cancelled : bool
}.

Definition set_closed (b : bool) (s : sh) : sh :=
  {| closed := b; message := message s; err := err s; done := done s; has_timer := has_timer s; stopped := stopped s; registered := registered s; fmutex := fmutex s; forwards := forwards s; closes := closes s; delivered := delivered s; errs_in := errs_in s; reasons := reasons s; fired := fired s; cancelled := cancelled s |}.
Definition set_message (m : option msg) (s : sh) : sh :=
  {| closed := closed s; message := m; err := err s; done := done s; has_timer := has_timer s; stopped := stopped s; registered := registered s; fmutex := fmutex s; forwards := forwards s; closes := closes s; delivered := delivered s; errs_in := errs_in s; reasons := reasons s; fired := fired s; cancelled := cancelled s |}.
Definition set_err (r : oreason) (s : sh) : sh :=
  {| closed := closed s; message := message s; err := r; done := done s; has_timer := has_timer s; stopped := stopped s; registered := registered s; fmutex := fmutex s; forwards := forwards s; closes := closes s; delivered := delivered s; errs_in := errs_in s; reasons := reasons s; fired := fired s; cancelled := cancelled s |}.
Definition set_has_timer (b : bool) (s : sh) : sh :=
  {| closed := closed s; message := message s; err := err s; done := done s; has_timer := b; stopped := stopped s; registered := registered s; fmutex := fmutex s; forwards := forwards s; closes := closes s; delivered := delivered s; errs_in := errs_in s; reasons := reasons s; fired := fired s; cancelled := cancelled s |}.
Definition set_stopped (s : sh) : sh :=
  {| closed := closed s; message := message s; err := err s; done := done s; has_timer := has_timer s; stopped := true; registered := registered s; fmutex := fmutex s; forwards := forwards s; closes := closes s; delivered := delivered s; errs_in := errs_in s; reasons := reasons s; fired := fired s; cancelled := cancelled s |}.
Definition set_registered (b : bool) (s : sh) : sh :=
  {| closed := closed s; message := message s; err := err s; done := done s; has_timer := has_timer s; stopped := stopped s; registered := b; fmutex := fmutex s; forwards := forwards s; closes := closes s; delivered := delivered s; errs_in := errs_in s; reasons := reasons s; fired := fired s; cancelled := cancelled s |}.
Definition set_fmutex (b : bool) (s : sh) : sh :=
  {| closed := closed s; message := message s; err := err s; done := done s; has_timer := has_timer s; stopped := stopped s; registered := registered s; fmutex := b; forwards := forwards s; closes := closes s; delivered := delivered s; errs_in := errs_in s; reasons := reasons s; fired := fired s; cancelled := cancelled s |}.
Definition set_forwards (l : list nat) (s : sh) : sh :=
  {| closed := closed s; message := message s; err := err s; done := done s; has_timer := has_timer s; stopped := stopped s; registered := registered s; fmutex := fmutex s; forwards := l; closes := closes s; delivered := delivered s; errs_in := errs_in s; reasons := reasons s; fired := fired s; cancelled := cancelled s |}.
Definition add_delivered (m : msg) (s : sh) : sh :=
  {| closed := closed s; message := message s; err := err s; done := done s; has_timer := has_timer s; stopped := stopped s; registered := registered s; fmutex := fmutex s; forwards := forwards s; closes := closes s; delivered := delivered s ++ [m]; errs_in := errs_in s; reasons := reasons s; fired := fired s; cancelled := cancelled s |}.
Definition add_err_in (e : nat) (s : sh) : sh :=
  {| closed := closed s; message := message s; err := err s; done := done s; has_timer := has_timer s; stopped := stopped s; registered := registered s; fmutex := fmutex s; forwards := forwards s; closes := closes s; delivered := delivered s; errs_in := errs_in s ++ [e]; reasons := reasons s; fired := fired s; cancelled := cancelled s |}.
Definition add_reason (r : option nat) (s : sh) : sh :=
  {| closed := closed s; message := message s; err := err s; done := done s; has_timer := has_timer s; stopped := stopped s; registered := registered s; fmutex := fmutex s; forwards := forwards s; closes := closes s; delivered := delivered s; errs_in := errs_in s; reasons := reasons s ++ [r]; fired := fired s; cancelled := cancelled s |}.
Definition set_fired (s : sh) : sh :=
  {| closed := closed s; message := message s; err := err s; done := done s; has_timer := has_timer s; stopped := stopped s; registered := registered s; fmutex := fmutex s; forwards := forwards s; closes := closes s; delivered := delivered s; errs_in := errs_in s; reasons := reasons s; fired := true; cancelled := cancelled s |}.
Definition set_cancelled (s : sh) : sh :=
  {| closed := closed s; message := message s; err := err s; done := done s; has_timer := has_timer s; stopped := stopped s; registered := registered s; fmutex := fmutex s; forwards := forwards s; closes := closes s; delivered := delivered s; errs_in := errs_in s; reasons := reasons s; fired := fired s; cancelled := true |}.
Definition close_done (s : sh) : sh :=
  {| closed := closed s; message := message s; err := err s; done := true; has_timer := has_timer s; stopped := stopped s; registered := registered s; fmutex := fmutex s; forwards := forwards s; closes := closes s + 1; delivered := delivered s; errs_in := errs_in s; reasons := reasons s; fired := fired s; cancelled := cancelled s |}.

Definition init_sh : sh :=
  {| closed := false; message := None; err := None; done := false; has_timer := false; stopped := false;
     registered := true; fmutex := false; forwards := [];
     closes := 0; delivered := []; errs_in := []; reasons := []; fired := false; cancelled := false |}.

Definition user_reason (r : option nat) : oreason := match r with Some e => Some (RUser e) | None => None end.
Definition record_payload (p : payload) (s : sh) : sh :=
  match p with PMsg m => add_delivered m s | PErr e => add_err_in e s end.
Definition after_lock (s : sh) : pc :=
  match forwards s with [] => XUnlock | l => XFwd l (err s) end.

Definition R := (sh * option pc * list pc * event)%type.

Definition mstep (s : sh) (l : pc) (c : choice) : option R :=
  match l with
  | Env0 =>
      match c with
      | CInit t => Some (set_has_timer t s, Some Env, (if t then [TFire] else []), EvInit t)
      | _ => None
      end
  | Env =>
      match c with
      | CDeliver p => Some (record_payload p s, Some Env, [DLoad p], EvSpawn c)
      | CClose r => Some (add_reason r s, Some Env, [CCas (user_reason r)], EvSpawn c)
      | CForward ref => Some (s, Some Env, [FLock ref], EvSpawn c)
      | CRead => Some (s, Some Env, [RWait], EvSpawn c)
      | _ => None
      end
  | TFire =>
      if stopped s then Some (set_cancelled s, None, [], EvCancelled)
      else Some (set_fired s, Some (CCas (Some RTimeout)), [], EvFire)
  | DLoad p =>
      if closed s then Some (s, None, [], EvLoad true)
      else Some (s, Some (match p with PMsg m => DStore m | PErr e => CCas (Some (RErr e)) end), [], EvLoad false)
  | DStore m => Some (set_message (Some m) s, Some (CCas None), [], EvStoreMsg m)
  | CCas r =>
      if closed s then Some (s, None, [], EvCas false)
      else Some (set_closed true s, Some (CErr r), [], EvCas true)
  | CErr r => Some (set_err r s, Some CDone, [], EvStoreErr r)
  | CDone => Some (close_done s, Some (if has_timer s then CStop else CUnreg), [], EvCloseDone)
  | CStop => Some (set_stopped s, Some CUnreg, [], EvStop)
  | CUnreg => Some (set_registered false s, Some CLock, [], EvUnreg (registered s))
  | CLock =>
      if fmutex s then None
      else Some (set_fmutex true s, Some (after_lock s), [], EvLock)
  | FLock ref =>
      if fmutex s then None
      else Some (set_fmutex true (set_forwards (forwards s ++ [ref]) s), Some FLoad, [], EvLock)
  | FLoad =>
      if closed s then Some (s, Some (after_lock s), [], EvLoad true)
      else Some (s, Some XUnlock, [], EvLoad false)
  | XFwd rest m =>
      match rest with
      | [] => None
      | [ref] => Some (set_forwards [] s, Some XUnlock, [], EvForward ref m)
      | ref :: t => Some (s, Some (XFwd t m), [], EvForward ref m)
      end
  | XUnlock => Some (set_fmutex false s, None, [], EvUnlock)
  | RWait =>
      if done s then Some (s, None, [], EvRead (message s) (err s)) else None
  end.

Definition Fut : machine :=
  {| shared := sh; local := pc; Sched.choice := choice; ev := event; tstep := mstep |}.

Definition init : state Fut := (init_sh, [Some Env0]).

(* ---- observables used by the statements ---- *)
(* what Result() returns in a state where done is closed *)
Definition result (s : sh) : option msg * oreason := (message s, err s).
(* a thread that won the CAS and has not yet closed done *)
Definition pre (l : pc) : Z := match l with CErr _ | CDone => 1 | _ => 0 end.
(* a thread that won the CAS and has not yet unregistered the address *)
Definition pend (l : pc) : Z := match l with CErr _ | CDone | CStop | CUnreg => 1 | _ => 0 end.
(* a deliverer that saw closed = false and has not yet written f.message *)
Definition storing (l : pc) : Z := match l with DStore _ => 1 | _ => 0 end.
Definition in_flight_stores (st : state Fut) : Z := @total Fut storing (snd st).
(* nothing but the environment thread is left: every call that was started has returned, the timer
   goroutine has run or was cancelled *)
Definition is_env (l : pc) : Prop := l = Env.
Definition quiescent (st : state Fut) : Prop := @all_live Fut is_env (snd st).
