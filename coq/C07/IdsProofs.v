(* MV.C07.IdsProofs — the reply addresses: distinctness of the ids handed out by nextChildGuid (one
   sequential asker on the code as written; any number of concurrent askers on the repaired, atomic counter),
   and what distinct ids buy: every future is initialised (timer armed) and completes only with the reply
   to its own request. *)
From MV Require Import Lib.ListX Lib.Sched C07.FutLib C07.IdsModel.
Open Scope Z_scope.
Arguments Z.add : simpl never.
Arguments Z.sub : simpl never.
Arguments Z.of_nat : simpl never.

Definition IT (f : ipc -> Z) (p : pool Ids) : Z := @total Ids f p.

Ltac istep_cases Ht :=
  match type of Ht with
  | tstep Ids ?s ?l ?c = _ =>
      cbn [tstep Ids] in Ht; destruct l; cbn [istep] in Ht;
      repeat match type of Ht with
      | context [match ?c with ICNone => _ | _ => _ end] => destruct c
      | context [if atomic_ids ?s then _ else _] => let Hc := fresh "Hat" in destruct (atomic_ids s) eqn:Hc
      | context [match lookup ?id ?r with _ => _ end] => let Hc := fresh "Hlk" in destruct (lookup id r) eqn:Hc
      | context [if resolved ?o ?r then _ else _] => let Hc := fresh "Hres" in destruct (resolved o r) eqn:Hc
      end;
      try discriminate; inversion Ht; subst; clear Ht
  end.

Ltac ifields :=
  cbn [set_guid issue register refuse complete add_asker
       atomic_ids guid reg issued armed unarmed results everreg askers] in *.

Lemma NoDup_snoc {A} (l : list A) x : NoDup l -> ~ In x l -> NoDup (l ++ [x]).
Proof.
  intros Hn Hx. induction Hn as [|a l Ha Hn IH]; simpl.
  - constructor; [intros []|constructor].
  - constructor.
    + intros Hin. apply in_app_or in Hin. destruct Hin as [Hin|[<-|[]]]; [contradiction|]. apply Hx. left; reflexivity.
    + apply IH. intros Hin. apply Hx. right; exact Hin.
Qed.

Lemma NoDup_app_l {A} (l m : list A) : NoDup (l ++ m) -> NoDup l.
Proof. induction l as [|a l IH]; simpl; intros H; [constructor|]. inversion H; subst. constructor; [|auto]. intros Hin. apply H2. apply in_or_app. left; exact Hin. Qed.

Lemma Forall_snoc {A} (P : A -> Prop) l x : Forall P l -> P x -> Forall P (l ++ [x]).
Proof. intros Hl Hx. apply Forall_app. split; [exact Hl | constructor; [exact Hx | constructor]]. Qed.

(* ------------------------------------------------------------------ repaired counter: atomic add *)

Definition plainpc (l : ipc) : Z := match l with AStore _ | ARet => 1 | _ => 0 end.
Lemma nn_plainpc l : 0 <= plainpc l. Proof. destruct l; simpl; lia. Qed.

Definition InvA (st : state Ids) : Prop :=
  let s := fst st in
  atomic_ids s = true /\ IT plainpc (snd st) = 0 /\ Forall (fun x => x <= guid s) (issued s) /\ NoDup (issued s).

Lemma invA_step st i c st' e : InvA st -> gstep st i c = Some (st', e) -> InvA st'.
Proof.
  intros (Ha & Hp & Hle & Hnd) Hg. destruct (gstep_inv st i c st' e Hg) as (l & s' & ol & sp & Hn & Ht & ->).
  destruct st as [s p]. cbn [fst snd] in *. unfold InvA, IT in *. cbn [fst snd].
  pose proof (total_ge_nth Ids plainpc p i l nn_plainpc Hn) as G.
  rewrite total_app, (total_upd _ _ _ _ _ _ Hn).
  istep_cases Ht; cbn [plainpc] in G; try lia; try congruence; ifields; cbn [total fo map plainpc];
    (split; [assumption|]); (split; [lia|]); try (split; assumption).
  all: split;
    [ apply Forall_snoc; [|lia]; eapply Forall_impl; [|exact Hle]; simpl; intros; lia
    | apply NoDup_snoc; [exact Hnd|]; intros Hin; rewrite Forall_forall in Hle; specialize (Hle _ Hin); simpl in Hle; lia ].
Qed.

(* any number of concurrent askers on one context: all ids handed out are pairwise distinct *)
Theorem ids_distinct_concurrent st : reach (iinit true) st -> NoDup (issued (fst st)).
Proof.
  intros Hr. assert (H : InvA st).
  { revert st Hr. apply inv_reach; [|exact invA_step]. unfold InvA, iinit, IT; simpl. repeat split; constructor. }
  destruct H as (_ & _ & _ & H). exact H.
Qed.

(* ------------------------------------------------------------------ code as written, one sequential asker *)

Lemma nn_isasker l : 0 <= isasker l. Proof. destruct l; simpl; lia. Qed.

Definition lwf (s : ish) (l : ipc) : Prop :=
  match l with
  | AStore v => v = guid s
  | ARet => Forall (fun x => x < guid s) (issued s)
  | _ => True
  end.

Definition InvS (st : state Ids) : Prop :=
  let s := fst st in let p := snd st in
  askers s <= 1 ->
  IT isasker p <= askers s /\ Forall (fun x => x <= guid s) (issued s) /\ NoDup (issued s) /\ @all_live Ids (lwf s) p.

Lemma askers_mono (st : state Ids) i c st' e : gstep st i c = Some (st', e) -> askers (fst st) <= askers (fst st').
Proof.
  intros Hg. destruct (gstep_inv st i c st' e Hg) as (l & s' & ol & sp & Hn & Ht & ->).
  destruct st as [s p]. cbn [fst snd] in *. istep_cases Ht; ifields; lia.
Qed.

Lemma invS_step st i c st' e : InvS st -> gstep st i c = Some (st', e) -> InvS st'.
Proof.
  intros HI Hg Hle'. pose proof (askers_mono st i c st' e Hg) as Hmono.
  destruct (HI ltac:(lia)) as (Hcnt & Hle & Hnd & Hw). clear HI.
  destruct (gstep_inv st i c st' e Hg) as (l & s' & ol & sp & Hn & Ht & ->).
  destruct st as [s p]. cbn [fst snd] in *. unfold IT in *.
  pose proof (total_ge_nth Ids isasker p i l nn_isasker Hn) as G.
  pose proof (Hw i l Hn) as Hl.
  (* any other live thread is not an asker when the stepping thread is one *)
  assert (Hother : isasker l = 1 -> forall j l', j <> i -> nth_error p j = Some (Some l') -> isasker l' = 0).
  { intros H1 j l' Hne Hj. pose proof (total_two (M:=Ids) isasker p i j l l' nn_isasker (not_eq_sym Hne) Hn Hj).
    pose proof (nn_isasker l'). lia. }
  rewrite total_app, (total_upd _ _ _ _ _ _ Hn).
  rewrite total_map_Some.
  istep_cases Ht; cbn [isasker lwf] in *; ifields; cbn [total fo fold_right isasker];
    (split; [lia|]).
  all: try subst v.
  all: split;
    [ first [ assumption
            | apply Forall_snoc; [eapply Forall_impl; [|exact Hle]; simpl; intros; lia | lia]
            | apply Forall_snoc; [exact Hle | lia]
            | eapply Forall_impl; [|exact Hle]; simpl; intros; lia ] |].
  all: split;
    [ first [ assumption
            | apply NoDup_snoc; [exact Hnd|]; intros Hin; rewrite Forall_forall in Hle; specialize (Hle _ Hin); simpl in Hle; lia
            | apply NoDup_snoc; [exact Hnd|]; intros Hin; rewrite Forall_forall in Hl; specialize (Hl _ Hin); simpl in Hl; lia ] |].
  all: apply all_live_step;
    [ first [ (intros j l' _ Hj; exact (Hw j l' Hj))
            | (intros j l' Hne Hj; pose proof (Hother eq_refl j l' Hne Hj) as Hz; destruct l'; simpl in Hz; try lia; exact I) ]
    | first [ discriminate
            | (intros l' Hl'; inversion Hl'; subst; cbn [lwf]; ifields;
               first [ exact I | reflexivity | (eapply Forall_impl; [|exact Hle]; simpl; intros; lia) ]) ]
    | intros l' Hin; cbn [In] in Hin; first [ contradiction | (destruct Hin as [<-|[]]; exact I) ] ].
Qed.

(* the code as written, used by ONE asker thread (any number of asks, one after the other): ids distinct *)
Theorem ids_distinct_sequential st : reach (iinit false) st -> askers (fst st) <= 1 -> NoDup (issued (fst st)).
Proof.
  intros Hr. assert (H : InvS st).
  { revert st Hr. apply inv_reach; [|exact invS_step]. unfold InvS, iinit, IT; simpl. intros _.
    repeat split; try constructor; try lia.
    intros j l H. destruct j as [|j]; simpl in H; [inversion H; subst; exact I | destruct j; discriminate]. }
  intros Hle. destruct (H Hle) as (_ & _ & Hnd & _). exact Hnd.
Qed.

(* ------------------------------------------------------------------ distinct addresses => own reply only *)

Definition owf (s : ish) (l : ipc) : Prop :=
  match l with
  | AReg r id | ASend r id | RReply r id | ITimer r id => nth_error (issued s) r = Some id
  | _ => True
  end.

Lemma nth_error_snoc_old {A} (l : list A) x r v : nth_error l r = Some v -> nth_error (l ++ [x]) r = Some v.
Proof. intros H. rewrite nth_error_app1; [exact H|]. apply nth_error_Some. congruence. Qed.

Lemma nth_error_snoc_new {A} (l : list A) x : nth_error (l ++ [x]) (length l) = Some x.
Proof. rewrite nth_error_app2 by lia. rewrite Nat.sub_diag. reflexivity. Qed.

Lemma lookup_In id l o : lookup id l = Some o -> In (id, o) l.
Proof.
  induction l as [|[k o'] t IH]; simpl; [discriminate|].
  destruct (Z.eqb_spec k id) as [->|Hne]; intros H; [inversion H; subst; left; reflexivity | right; auto].
Qed.

Lemma In_unreg x id l : In x (unreg id l) -> In x l.
Proof. unfold unreg. intros H. apply filter_In in H. tauto. Qed.

Definition InvO (st : state Ids) : Prop :=
  let s := fst st in
  @all_live Ids (owf s) (snd st) /\
  (NoDup (issued s) ->
     (forall id o, In (id, o) (reg s) -> nth_error (issued s) o = Some id) /\
     (forall o r, In (o, Some r) (results s) -> o = r)).

Lemma owf_issue s id l : owf s l -> owf (issue id s) l.
Proof. destruct l; simpl; auto using nth_error_snoc_old. Qed.

Lemma invO_step st i c st' e : InvO st -> gstep st i c = Some (st', e) -> InvO st'.
Proof.
  intros (Hw & HN) Hg. destruct (gstep_inv st i c st' e Hg) as (l & s' & ol & sp & Hn & Ht & ->).
  destruct st as [s p]. cbn [fst snd] in *. pose proof (Hw i l Hn) as Hl.
  unfold InvO. cbn [fst snd].
  istep_cases Ht; cbn [owf] in Hl; ifields.
  all: split;
    [ apply all_live_step;
      [ intros j l' _ Hj; first [ exact (Hw j l' Hj) | (apply owf_issue; exact (Hw j l' Hj)) ]
      | first [ discriminate
              | (intros l' Hl'; inversion Hl'; subst; cbn [owf]; ifields;
                 first [ exact I | assumption | apply nth_error_snoc_new ]) ]
      | intros l' Hin; cbn [In] in Hin; first [ contradiction | (destruct Hin as [<-|[]]; cbn [owf]; first [exact I | assumption]) ] ]
    | ].
  all: intros Hnd; ifields;
    try (assert (Hnd0 : NoDup (issued s)) by (eapply NoDup_app_l; exact Hnd));
    first [ destruct (HN Hnd) as (HR & HO) | destruct (HN Hnd0) as (HR & HO) ].
  all: try (split; [exact HR | exact HO]).
  (* issue: registry and results unchanged, issued extended *)
  all: try (split; [intros id0 o0 Hin; apply nth_error_snoc_old; apply HR; exact Hin | exact HO]).
  (* register *)
  - split; [|exact HO]. intros id0 o0 Hin. apply in_app_or in Hin. destruct Hin as [Hin|[Heq|[]]]; [apply HR; exact Hin|].
    inversion Heq; subst. exact Hl.
  (* reply delivered to the future registered under the address *)
  - split.
    + intros id0 o0 Hin. apply HR. eapply In_unreg; exact Hin.
    + intros o0 r0 Hin. apply in_app_or in Hin. destruct Hin as [Hin|[Heq|[]]]; [apply HO; exact Hin|].
      inversion Heq; subst. apply lookup_In in Hlk. apply HR in Hlk.
      eapply NoDup_nth_error; [exact Hnd | apply nth_error_Some; congruence | congruence].
  (* timeout *)
  - split.
    + intros id0 o0 Hin. apply HR. eapply In_unreg; exact Hin.
    + intros o0 r0 Hin. apply in_app_or in Hin. destruct Hin as [Hin|[Heq|[]]]; [apply HO; exact Hin|]. discriminate.
Qed.

(* whatever the counter does: as long as the ids handed out so far are pairwise distinct, a future completes
   with a reply only if it is the reply to its own request *)
Theorem own_reply b st : reach (iinit b) st -> NoDup (issued (fst st)) ->
  forall o r, In (o, Some r) (results (fst st)) -> o = r.
Proof.
  intros Hr. assert (H : InvO st).
  { revert st Hr. apply inv_reach; [|exact invO_step]. unfold InvO, iinit; simpl. split.
    - intros j l H. destruct j as [|j]; simpl in H; [inversion H; subst; exact I | destruct j; discriminate].
    - intros _. split; intros; contradiction. }
  intros Hnd. destruct H as (_ & H). destruct (H Hnd) as (_ & HO). exact HO.
Qed.

(* ------------------------------------------------------------------ repaired counter => every future is initialised *)

Definition atreg (id : Z) (l : ipc) : Z := match l with AReg _ id' => if Z.eqb id id' then 1 else 0 | _ => 0 end.
Lemma nn_atreg id l : 0 <= atreg id l. Proof. destruct l; simpl; try lia. destruct (Z.eqb id id0); lia. Qed.
Definition memz (id : Z) (l : list Z) : bool := existsb (Z.eqb id) l.

Lemma memz_snoc id l x : memz id (l ++ [x]) = memz id l || Z.eqb id x.
Proof. unfold memz. rewrite existsb_app. simpl. rewrite orb_false_r. reflexivity. Qed.

Lemma memz_In id l : In id l -> memz id l = true.
Proof. intros H. unfold memz. apply existsb_exists. exists id. split; [exact H | apply Z.eqb_refl]. Qed.

Definition InvR (st : state Ids) : Prop :=
  let s := fst st in let p := snd st in
  atomic_ids s = true /\ IT plainpc p = 0 /\ 0 <= guid s /\ unarmed s = [] /\
  (forall id o, In (id, o) (reg s) -> In id (everreg s)) /\
  (forall id, IT (atreg id) p + b2z (memz id (everreg s)) <= 1 /\
              (~ (1 <= id <= guid s) -> IT (atreg id) p = 0 /\ memz id (everreg s) = false)).

Lemma invR_step st i c st' e : InvR st -> gstep st i c = Some (st', e) -> InvR st'.
Proof.
  intros (Ha & Hp & Hg0 & Hun & Hreg & Hid) Hg. destruct (gstep_inv st i c st' e Hg) as (l & s' & ol & sp & Hn & Ht & ->).
  destruct st as [s p]. cbn [fst snd] in *. unfold InvR, IT in *. cbn [fst snd].
  pose proof (total_ge_nth Ids plainpc p i l nn_plainpc Hn) as G.
  assert (Gat : forall id, atreg id l <= @total Ids (atreg id) p) by (intros id; apply (total_ge_nth Ids (atreg id) p i l (nn_atreg id) Hn)).
  assert (Nat_ : forall id, 0 <= @total Ids (atreg id) p) by (intros id; apply (total_nonneg Ids (atreg id) p (nn_atreg id))).
  rewrite total_app, (total_upd _ _ _ _ _ _ Hn), total_map_Some.
  istep_cases Ht; cbn [plainpc] in G; try lia; try congruence; ifields; cbn [total fo fold_right plainpc].
  (* an address that is still in the registry was stored there once: Register cannot report it taken for a
     thread that holds the only copy of that id *)
  all: try match goal with Hlk : lookup ?id (reg _) = Some _ |- _ =>
         match goal with Hn : nth_error _ _ = Some (Some (AReg _ _)) |- _ =>
           exfalso; apply lookup_In in Hlk; apply Hreg in Hlk; apply memz_In in Hlk;
           destruct (Hid id) as (Hsum & _); rewrite Hlk in Hsum; specialize (Gat id); cbn [atreg] in Gat;
           rewrite Z.eqb_refl in Gat; cbn [b2z] in Hsum; lia end end.
  all: (split; [assumption|]); (split; [lia|]); (split; [lia|]); (split; [assumption|]).
  all: split; [ intros id0 o0 Hin;
                first [ (apply Hreg with o0; exact Hin)
                      | (apply in_app_or in Hin; apply in_or_app; destruct Hin as [Hin|[Heq|[]]];
                         [left; apply Hreg with o0; exact Hin | right; inversion Heq; subst; left; reflexivity])
                      | (apply Hreg with o0; eapply In_unreg; exact Hin) ] |].
  all: intros id0; rewrite total_app, (total_upd _ _ _ _ _ _ Hn), total_map_Some; rewrite ?memz_snoc;
       destruct (Hid id0) as (Hsum & Hout); specialize (Gat id0); specialize (Nat_ id0);
       cbn [total fo fold_right atreg] in *;
       match type of Hsum with _ + b2z (memz id0 ?L) <= 1 => destruct (memz id0 L) eqn:Em end;
       repeat match goal with
       | |- context [Z.eqb id0 ?x] => destruct (Z.eqb_spec id0 x)
       | H : context [Z.eqb id0 ?x] |- _ => destruct (Z.eqb_spec id0 x)
       end; subst;
       cbn [b2z orb] in *;
       (split; [try lia | intros Hrange; try (split; [lia | try reflexivity; try tauto])]).
  all: try (destruct (Hout ltac:(lia)) as (Hz & Hmm); try congruence; try lia).
  all: try (destruct (Hout Hrange) as (Hz & Hmm); try congruence; try lia; split; [lia | congruence]).
  all: try (destruct Hout as (Hz & Hmm); [lia|]; try congruence; try lia).
Qed.

(* repaired counter, any number of concurrent askers: Register never reports a reply address taken, so every
   future is initialised (f.rc set, timer armed) *)
Theorem every_ask_armed st : reach (iinit true) st -> unarmed (fst st) = [].
Proof.
  intros Hr. assert (H : InvR st).
  { revert st Hr. apply inv_reach; [|exact invR_step]. unfold InvR, iinit, IT; simpl.
    repeat split; try lia; try contradiction; try reflexivity. }
  destruct H as (_ & _ & _ & H & _). exact H.
Qed.

(* ------------------------------------------------------------------ code as written, two concurrent askers *)

Definition witness_sched : list (nat * ichoice) :=
  [(0%nat, ICAsker); (0%nat, ICAsker);
   (1%nat, ICNone); (2%nat, ICNone); (1%nat, ICNone); (2%nat, ICNone);     (* load, load, store, store *)
   (1%nat, ICNone); (2%nat, ICNone);                                       (* both return 1 *)
   (1%nat, ICNone); (2%nat, ICNone);                                       (* Register: stored / "exists" *)
   (2%nat, ICReply); (4%nat, ICNone);                                      (* reply to request 1 lands in future 0 *)
   (1%nat, ICReply); (5%nat, ICNone);                                      (* reply to request 0 finds nobody *)
   (3%nat, ICNone); (1%nat, ICStop); (2%nat, ICStop)].

(* the counter as written (`ctx.childGuid++ ; return ctx.childGuid`) under two concurrent askers: both asks get
   the same reply address; the second future is never initialised (no timer) and never completes; the first
   completes with the reply to the OTHER request *)
Theorem ids_distinct_concurrent_refuted :
  exists st, reach (iinit false) st /\
    issued (fst st) = [1; 1] /\ ~ NoDup (issued (fst st)) /\
    unarmed (fst st) = [1%nat] /\ results (fst st) = [(0%nat, Some 1%nat)] /\
    snd st = [Some IEnv; None; None; None; None; None].
Proof.
  destruct (run (iinit false) witness_sched) as [[st es]|] eqn:E; [|vm_compute in E; discriminate].
  exists st. split; [eapply run_reach; [constructor | exact E]|].
  vm_compute in E. inversion E; subst; clear E. cbn [fst snd issued unarmed results].
  repeat split; try reflexivity. intros Hnd. inversion Hnd; subst. apply H1. left; reflexivity.
Qed.
