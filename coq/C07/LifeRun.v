(* MV.C07.LifeRun — differential run for the lifetime machine (tie T1, sub-harness "life" of harness/cmd/c07ask):
   the harness drives ONE asker actor on the real ActorSystem through a script (asks of several kinds, AwaitForward,
   anonymous children, restarts by a panic under a Restart strategy, termination + re-creation under the same name)
   and reports, per step, the last component of the address the implementation allocated and how each ask resolved.
   [model_run] executes the same script with [lstep] of LifeModel (configuration = the source as it is:
   [rst = None], re-creation allowed) and [rmismatches] returns the cases whose addresses or outcomes differ. *)
From MV Require Import Lib.ListX Lib.Sched C07.LifeModel.
Open Scope Z_scope.

Inductive sop :=
| SAsk (replied_first imm : bool)  (* FutureAsk / typed helper; replied_first = the target's reply was delivered before the
                                   deadline; imm = ... and the ask was seen resolved before the next step of the script began *)
| SFwd                          (* AwaitForward *)
| SChild                        (* ActorOf without a name *)
| SRestart                      (* the handler panics, the supervisor restarts the actor *)
| SRespawn.                     (* the actor is terminated and created again under the same name *)

Inductive routcome :=
| ROwn | RTimeout
| RForeign                       (* resolved with the reply to another request *)
| RNever                         (* never resolved, not even by a timeout *)
| RNA                            (* not an ask *)
| RBad.                          (* anything else (panic, resolved twice, ...): the model never produces it *)

Record rop := { rs : sop; rid : option Z; rout : routcome }.   (* rid = None: the address is not observable (AwaitForward, lifecycle steps) *)
Record rcase := { rcid : nat; rops : list rop }.

Definition step3 (s : lsh) (l : lpc) (c : lchoice) : lsh * option lpc * list lpc :=
  match lstep s l c with Some (s', ol, sp, _) => (s', ol, sp) | None => (s, None, []) end.

(* run one thread with choice LCNone until it ends, collecting what it spawns *)
Fixpoint drain1 (fuel : nat) (s : lsh) (l : lpc) : lsh :=
  match fuel with
  | O => s
  | S f => match step3 s l LCNone with (s', Some l', _) => drain1 f s' l' | (s', None, _) => s' end
  end.

Record rstate := { rsh : lsh; early : list lpc; timers : list lpc; late : list lpc; ids : list (option Z); asks : list (option nat) }.

Definition id_of (l : option lpc) : option Z :=
  match l with Some (LReg _ id) | Some (LFwd id) | Some (LKid id) => Some id | _ => None end.

Definition run_op (st : rstate) (o : sop) : rstate :=
  let s := rsh st in
  match o with
  | SAsk first imm =>
      match step3 s LNext LCAsk with
      | (s1, Some (LReg r id), _) =>
          match step3 s1 (LReg r id) LCNone with
          | (s2, Some l2, tm) =>
              match step3 s2 l2 LCReply with
              | (s3, _, rp) =>
                  let now := first && imm in
                  {| rsh := if now then fold_left (fun s l => drain1 2%nat s l) rp s3 else s3;
                     early := if first && negb imm then early st ++ rp else early st; timers := timers st ++ tm;
                     late := if first then late st else late st ++ rp; ids := ids st ++ [Some id]; asks := asks st ++ [Some r] |}
              end
          | _ => st
          end
      | _ => st
      end
  | SFwd =>
      match step3 s LNext LCAwait with
      | (s1, Some l1, _) => let '(s2, _, _) := step3 s1 l1 LCNone in
          {| rsh := s2; early := early st; timers := timers st; late := late st; ids := ids st ++ [Some (match id_of (Some l1) with Some i => i | None => 0 end)]; asks := asks st ++ [None] |}
      | _ => st
      end
  | SChild =>
      match step3 s LNext LCChild with
      | (s1, Some l1, _) => let '(s2, _, _) := step3 s1 l1 LCNone in
          {| rsh := s2; early := early st; timers := timers st; late := late st; ids := ids st ++ [Some (match id_of (Some l1) with Some i => i | None => 0 end)]; asks := asks st ++ [None] |}
      | _ => st
      end
  | SRestart =>
      let '(s1, _, _) := step3 s LEnv LCRestart in
      {| rsh := s1; early := early st; timers := timers st; late := late st; ids := ids st ++ [None]; asks := asks st ++ [None] |}
  | SRespawn =>
      let '(s1, _, _) := step3 s LEnv LCRespawn in
      {| rsh := s1; early := early st; timers := timers st; late := late st; ids := ids st ++ [None]; asks := asks st ++ [None] |}
  end.

Definition rinit : rstate := {| rsh := linit_sh None true; early := []; timers := []; late := []; ids := []; asks := [] |}.

(* replies delivered before their deadlines first, then every timer, then the late replies *)
Definition finish (st : rstate) : lsh :=
  fold_left (fun s l => drain1 2%nat s l) (early st ++ timers st ++ late st) (rsh st).

Fixpoint find_result (o : nat) (l : list (nat * option nat)) : option (option nat) :=
  match l with
  | [] => None
  | (k, w) :: t => if Nat.eqb k o then Some w else find_result o t
  end.
Definition outcome_of (s : lsh) (a : option nat) : routcome :=
  match a with
  | None => RNA
  | Some r => match find_result r (lresults s) with
              | Some (Some q) => if Nat.eqb q r then ROwn else RForeign
              | Some None => RTimeout
              | None => RNever
              end
  end.

Definition model_run (ops : list sop) : list (option Z * routcome) :=
  let st := fold_left run_op ops rinit in
  let s := finish st in
  combine (ids st) (map (outcome_of s) (asks st)).

Definition routcome_eqb (a b : routcome) : bool :=
  match a, b with ROwn, ROwn | RTimeout, RTimeout | RForeign, RForeign | RNever, RNever | RNA, RNA => true | _, _ => false end.   (* RBad equals nothing *)
Definition id_ok (obs model : option Z) : bool :=
  match obs, model with
  | None, _ => true                      (* not observable *)
  | Some a, Some b => Z.eqb a b
  | Some _, None => false
  end.
Fixpoint ops_ok (obs : list rop) (m : list (option Z * routcome)) : bool :=
  match obs, m with
  | [], [] => true
  | o :: t, (i, w) :: t' => id_ok (rid o) i && routcome_eqb (rout o) w && ops_ok t t'
  | _, _ => false
  end.
Definition rcase_ok (c : rcase) : bool := ops_ok (rops c) (model_run (map rs (rops c))).
Definition rmismatches (cs : list rcase) : list nat := fail_ids rcase_ok rcid cs.
