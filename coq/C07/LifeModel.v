(* MV.C07.LifeModel — layer-A machine for the LIFETIME of the id source of the temporary reply addresses:
   one actor address, the actor context(s) behind it, everything that consumes the context's counter, and the
   lifecycle steps that could touch the counter.

     actor_context.go   type actorContext struct { ...; childGuid uint64; ... }     one counter per context
                        newActorContext():  ctx := &actorContext{...}               childGuid = 0 (zero value)   [respawn]
                        nextChildGuid():    return atomic.AddUint64(&ctx.childGuid, 1)                           [LNext]
                        FutureAsk():        id := ctx.ref.Derivation(nextChildGuid()); future.New(rc, id, t)     [LCAsk ; LReg ; LSend]
       vivid/future.go  FutureAsk[M]():     same, through c.nextChildGuid()                                      [LCAsk ; LReg ; LSend]
                        AwaitForward():     id := ctx.ref.Derivation(nextChildGuid()); future.New(rc, id, 0)     [LCAwait ; LFwd]
                        ActorOf():          descriptor.name = nextChildGuid() when no name was given;
                                            rc.Register(ctx.ref.Derivation(name), process); panics when taken    [LCChild ; LKid]
                        onRestart():        children terminated (and unregistered)                               }
                        tryRestarted():     ctx.actor = ctx.provider.Provide(): SAME context, the counter is     } [LCRestart]
                                            not touched by the source; [rst = Some v] models a tree whose        }
                                            restart path stores v into the counter (tie T3 reads which one it is)
                        tryTerminated() + ActorOf under the same name by the parent: a NEW context (counter 0)
                                            under the SAME address; the futures of the old context that are
                                            still pending stay registered                                        [LCRespawn]
     future.go          New():              rc.Register — LoadOrStore; ONLY when the address was free does
                                            Initialize run (f.rc = rc, timer armed when timeout > 0)
                        timer / reply:      Close -> Unregister                                                  [LTimer ; LReply]

   The environment thread spawns any number of threads that use the context (the handler of the current instance
   and any goroutine holding the ActorContext), restarts the actor at any moment, terminates anonymous children,
   and — when [respawnable] — replaces the context by a new one under the same address.
   The inside of a future is the machine of FutModel; here a future is "completed once with the reply to request
   r' / with the timeout", the completion unregistering the address in the same step (FutProofs).
   No proofs in this file. *)
From MV Require Import Lib.ListX Lib.Sched.
Open Scope Z_scope.

Inductive lproc := PFut (o : nat) | PFwd | PKid.     (* what is registered under an address below the actor's *)

Inductive lpc :=
| LEnv
| LNext                        (* a thread holding the context: about to call a consumer of the counter, or to stop *)
| LReg (r : nat) (id : Z)      (* ask r was given address id; about to rc.Register(id, future r) *)
| LSend (r : nat) (id : Z)     (* about to deliver request r with sender = address id *)
| LFwd (id : Z)                (* AwaitForward: about to register its timer-less future under id *)
| LKid (id : Z)                (* ActorOf without a name: about to register the child under id *)
| LReply (r : nat) (id : Z)    (* the target's reply to request r, routed through the registry to address id *)
| LTimer (r : nat) (id : Z).   (* the timer armed by Initialize of future r *)

Inductive lchoice :=
| LCNone | LCThread | LCRestart | LCRespawn | LCKill (id : Z)     (* environment *)
| LCAsk | LCAwait | LCChild | LCStop                              (* at LNext *)
| LCReply | LCSilent.                                             (* at LSend: the target answers / does not *)

Inductive levent :=
| LEvSpawn | LEvRestart | LEvRespawn | LEvKill
| LEvId (id : Z)
| LEvRegister (id : Z) (exist : bool)
| LEvSend (r : nat)
| LEvDeliver (r : nat) (won : bool)
| LEvTimeout (r : nat) (won : bool)
| LEvStop.

Record lsh := {
  rst : option Z;                   (* configuration: a store into the counter on the restart path (None = the source has none) *)
  respawnable : bool;               (* configuration: may the actor terminate and be created again under the same name *)
  lguid : Z;                        (* childGuid of the CURRENT context *)
  lreg : list (Z * lproc);          (* rc.processes restricted to the addresses <actor>/<id> *)
  lctx : nat;                       (* number of the current context (respawns so far) *)
  linc : nat;                       (* restarts so far *)
  (* ghost *)
  lhanded : list (nat * Z);         (* (context, id) for every value nextChildGuid returned, to whichever consumer *)
  lissued : list Z;                 (* lissued[r] = the id that names the reply address of ask r *)
  lowner : list nat;                (* lowner[r] = the context that issued ask r *)
  larmed : list nat;                (* asks whose future was initialised (timer armed) *)
  lunarmed : list nat;              (* asks whose Register reported the address taken: never initialised *)
  lresults : list (nat * option nat); (* (o, Some r): future o completed with the reply to request r; (o, None): timeout *)
  leverreg : list Z;                (* every id ever stored in the registry *)
  lrefused : nat                    (* ActorOf / AwaitForward calls whose Register reported the address taken *)
}.

Definition linit_sh (r : option Z) (b : bool) : lsh :=
  {| rst := r; respawnable := b; lguid := 0; lreg := []; lctx := 0; linc := 0; lhanded := []; lissued := []; lowner := [];
     larmed := []; lunarmed := []; lresults := []; leverreg := []; lrefused := 0 |}.

Fixpoint llookup (id : Z) (l : list (Z * lproc)) : option lproc :=
  match l with
  | [] => None
  | (k, p) :: t => if Z.eqb k id then Some p else llookup id t
  end.
Definition lunreg (id : Z) (l : list (Z * lproc)) : list (Z * lproc) := filter (fun x => negb (Z.eqb (fst x) id)) l.
Definition iskid (p : lproc) : bool := match p with PKid => true | _ => false end.
Definition rmkids (l : list (Z * lproc)) : list (Z * lproc) := filter (fun x => negb (iskid (snd x))) l.
Definition rmkid (id : Z) (l : list (Z * lproc)) : list (Z * lproc) :=
  filter (fun x => negb (Z.eqb (fst x) id && iskid (snd x))) l.
Definition lresolved (o : nat) (l : list (nat * option nat)) : bool := existsb (fun x => Nat.eqb (fst x) o) l.

Definition take_id id s := {| rst := rst s; respawnable := respawnable s; lguid := id; lreg := lreg s; lctx := lctx s; linc := linc s;
  lhanded := lhanded s ++ [(lctx s, id)]; lissued := lissued s; lowner := lowner s; larmed := larmed s; lunarmed := lunarmed s;
  lresults := lresults s; leverreg := leverreg s; lrefused := lrefused s |}.
Definition lissue id s := {| rst := rst s; respawnable := respawnable s; lguid := lguid s; lreg := lreg s; lctx := lctx s; linc := linc s;
  lhanded := lhanded s; lissued := lissued s ++ [id]; lowner := lowner s ++ [lctx s]; larmed := larmed s; lunarmed := lunarmed s;
  lresults := lresults s; leverreg := leverreg s; lrefused := lrefused s |}.
Definition lregister id (p : lproc) s := {| rst := rst s; respawnable := respawnable s; lguid := lguid s; lreg := lreg s ++ [(id, p)];
  lctx := lctx s; linc := linc s; lhanded := lhanded s; lissued := lissued s; lowner := lowner s; larmed := larmed s; lunarmed := lunarmed s;
  lresults := lresults s; leverreg := leverreg s ++ [id]; lrefused := lrefused s |}.
Definition larm r s := {| rst := rst s; respawnable := respawnable s; lguid := lguid s; lreg := lreg s; lctx := lctx s; linc := linc s;
  lhanded := lhanded s; lissued := lissued s; lowner := lowner s; larmed := larmed s ++ [r]; lunarmed := lunarmed s;
  lresults := lresults s; leverreg := leverreg s; lrefused := lrefused s |}.
Definition lrefuse_ask r s := {| rst := rst s; respawnable := respawnable s; lguid := lguid s; lreg := lreg s; lctx := lctx s; linc := linc s;
  lhanded := lhanded s; lissued := lissued s; lowner := lowner s; larmed := larmed s; lunarmed := lunarmed s ++ [r];
  lresults := lresults s; leverreg := leverreg s; lrefused := lrefused s |}.
Definition lrefuse s := {| rst := rst s; respawnable := respawnable s; lguid := lguid s; lreg := lreg s; lctx := lctx s; linc := linc s;
  lhanded := lhanded s; lissued := lissued s; lowner := lowner s; larmed := larmed s; lunarmed := lunarmed s;
  lresults := lresults s; leverreg := leverreg s; lrefused := S (lrefused s) |}.
Definition set_reg rg s := {| rst := rst s; respawnable := respawnable s; lguid := lguid s; lreg := rg; lctx := lctx s; linc := linc s;
  lhanded := lhanded s; lissued := lissued s; lowner := lowner s; larmed := larmed s; lunarmed := lunarmed s;
  lresults := lresults s; leverreg := leverreg s; lrefused := lrefused s |}.
Definition lcomplete o (w : option nat) id s := {| rst := rst s; respawnable := respawnable s; lguid := lguid s; lreg := lunreg id (lreg s);
  lctx := lctx s; linc := linc s; lhanded := lhanded s; lissued := lissued s; lowner := lowner s; larmed := larmed s; lunarmed := lunarmed s;
  lresults := lresults s ++ [(o, w)]; leverreg := leverreg s; lrefused := lrefused s |}.
(* restart: same context; the children are gone; the counter is what the restart path makes of it *)
Definition lrestart s := {| rst := rst s; respawnable := respawnable s;
  lguid := match rst s with Some v => v | None => lguid s end; lreg := rmkids (lreg s);
  lctx := lctx s; linc := S (linc s); lhanded := lhanded s; lissued := lissued s; lowner := lowner s; larmed := larmed s; lunarmed := lunarmed s;
  lresults := lresults s; leverreg := leverreg s; lrefused := lrefused s |}.
(* terminate + ActorOf under the same name: a new context, counter 0; the pending futures stay registered *)
Definition lrespawn s := {| rst := rst s; respawnable := respawnable s; lguid := 0; lreg := rmkids (lreg s);
  lctx := S (lctx s); linc := linc s; lhanded := lhanded s; lissued := lissued s; lowner := lowner s; larmed := larmed s; lunarmed := lunarmed s;
  lresults := lresults s; leverreg := leverreg s; lrefused := lrefused s |}.

Definition LR := (lsh * option lpc * list lpc * levent)%type.

Definition lstep (s : lsh) (l : lpc) (c : lchoice) : option LR :=
  match l with
  | LEnv =>
      match c with
      | LCThread => Some (s, Some LEnv, [LNext], LEvSpawn)
      | LCRestart => Some (lrestart s, Some LEnv, [], LEvRestart)
      | LCRespawn => if respawnable s then Some (lrespawn s, Some LEnv, [], LEvRespawn) else None
      | LCKill id => Some (set_reg (rmkid id (lreg s)) s, Some LEnv, [], LEvKill)
      | _ => None
      end
  | LNext =>
      let id := lguid s + 1 in
      match c with
      | LCStop => Some (s, None, [], LEvStop)
      | LCAsk => Some (lissue id (take_id id s), Some (LReg (length (lissued s)) id), [], LEvId id)
      | LCAwait => Some (take_id id s, Some (LFwd id), [], LEvId id)
      | LCChild => Some (take_id id s, Some (LKid id), [], LEvId id)
      | _ => None
      end
  | LReg r id =>
      match llookup id (lreg s) with
      | Some _ => Some (lrefuse_ask r s, Some (LSend r id), [], LEvRegister id true)
      | None => Some (larm r (lregister id (PFut r) s), Some (LSend r id), [LTimer r id], LEvRegister id false)
      end
  | LSend r id =>
      match c with
      | LCReply => Some (s, Some LNext, [LReply r id], LEvSend r)
      | LCSilent => Some (s, Some LNext, [], LEvSend r)
      | _ => None
      end
  | LFwd id =>
      match llookup id (lreg s) with
      | Some _ => Some (lrefuse s, Some LNext, [], LEvRegister id true)
      | None => Some (lregister id PFwd s, Some LNext, [], LEvRegister id false)
      end
  | LKid id =>
      match llookup id (lreg s) with
      | Some _ => Some (lrefuse s, Some LNext, [], LEvRegister id true)       (* panic "actor ... already exists" *)
      | None => Some (lregister id PKid s, Some LNext, [], LEvRegister id false)
      end
  | LReply r id =>
      match llookup id (lreg s) with
      | None => Some (s, None, [], LEvDeliver r false)                       (* no such process: the abyss *)
      | Some (PFut o) =>
          if lresolved o (lresults s) then Some (s, None, [], LEvDeliver r false)
          else Some (lcomplete o (Some r) id s, None, [], LEvDeliver r true)
      | Some PFwd => Some (set_reg (lunreg id (lreg s)) s, None, [], LEvDeliver r false)   (* closes the forwarding future *)
      | Some PKid => Some (s, None, [], LEvDeliver r false)                  (* lands in an actor's mailbox *)
      end
  | LTimer r id =>
      if lresolved r (lresults s) then Some (s, None, [], LEvTimeout r false)
      else Some (lcomplete r None id s, None, [], LEvTimeout r true)
  end.

Definition Life : machine :=
  {| shared := lsh; local := lpc; Sched.choice := lchoice; ev := levent; tstep := lstep |}.

(* [linit None false]: the source as it is, one actor context over its whole life (restarts included)
   [linit None true] : the source as it is, the actor may also be terminated and created again under the same name
   [linit (Some v) _]: a tree whose restart path stores v into the counter *)
Definition linit (r : option Z) (b : bool) : state Life := (linit_sh r b, [Some LEnv]).

(* ---- observables ---- *)
(* ask r is live: it was issued and has not been resolved (neither by a reply nor by its timeout) *)
Definition llive (s : lsh) (r : nat) : Prop := (r < length (lissued s))%nat /\ lresolved r (lresults s) = false.
