(* MV.C08.SchedModel — executable model of toolkit/chrono/scheduler.go + scheduler_task.go on top of the
   contract of github.com/RussellLuo/timingwheel (layer C, sequential task machine).
   No proofs here: this file must keep evaluating even when a proof breaks.

   Units: instants and durations are nanoseconds (Go's time.Duration / UnixNano); the timing wheel
   works in milliseconds: a timer with expiration E (ms) sits in the bucket [trunc E tick] and runs
   when that bucket expires.  Each task instance has at most one timer in the wheel ([t_pend]).

   [s_fixed] = true is the code repaired by fixes/C08-timer-handle.patch (task.timer := the handle
   returned by wheel.ScheduleFunc); [s_fixed] = false is the code as shipped: the handle is never
   stored and close() dereferences nil whenever it decides to Stop. *)
From MV Require Import Lib.ListX.
Open Scope Z_scope.

Definition MS : Z := 1000000.
Definition SEC : Z := 1000000000.
Definition DAY : Z := 86400 * SEC.

Definition to_ms (t : Z) : Z := Z.quot t MS.                         (* timeToMs *)
Definition trunc (x m : Z) : Z := if m <=? 0 then x else x - Z.rem x m.  (* timingwheel.truncate *)

(* what can be registered *)
Inductive spec :=
| SAfter (after : Z)                         (* RegisterAfterTask *)
| SRepeat (after interval times : Z)         (* RegisterRepeatedTask *)
| SCron (k : Z) (imm : bool)                 (* Register[Immediate]CronTask "*/k * * * * * *", k divides 60 *)
| SDay (since_last offset h m s : Z).        (* RegisterDayMomentTask, lastExecuted = now + offset - since_last; time.Local = UTC *)

(* what the callback of a task does to its own name at its n-th firing *)
Inductive reaction := RUnreg | RRereg (sp : spec).

Record task := {
  t_name : nat;
  t_after : Z; t_interval : Z;
  t_cron : option Z;
  t_total : Z; t_trigger : Z;
  t_kill : bool;
  t_timer : bool;            (* task.timer holds the handle *)
  t_pend : option Z;         (* expiration (ms) of the task's timer in the wheel *)
  t_react : list (Z * reaction);
  t_fired : Z;               (* ghost: number of callback executions so far *)
  t_reg : Z                  (* ghost: instant of registration *)
}.

Definition set_pend (t : task) (p : option Z) : task :=
  {| t_name := t_name t; t_after := t_after t; t_interval := t_interval t; t_cron := t_cron t;
     t_total := t_total t; t_trigger := t_trigger t; t_kill := t_kill t; t_timer := t_timer t;
     t_pend := p; t_react := t_react t; t_fired := t_fired t; t_reg := t_reg t |}.
Definition set_trigger (t : task) (n : Z) : task :=
  {| t_name := t_name t; t_after := t_after t; t_interval := t_interval t; t_cron := t_cron t;
     t_total := t_total t; t_trigger := n; t_kill := t_kill t; t_timer := t_timer t;
     t_pend := t_pend t; t_react := t_react t; t_fired := t_fired t; t_reg := t_reg t |}.
Definition set_kill (t : task) : task :=
  {| t_name := t_name t; t_after := t_after t; t_interval := t_interval t; t_cron := t_cron t;
     t_total := t_total t; t_trigger := t_trigger t; t_kill := true; t_timer := t_timer t;
     t_pend := t_pend t; t_react := t_react t; t_fired := t_fired t; t_reg := t_reg t |}.
Definition set_fired (t : task) (n : Z) : task :=
  {| t_name := t_name t; t_after := t_after t; t_interval := t_interval t; t_cron := t_cron t;
     t_total := t_total t; t_trigger := t_trigger t; t_kill := t_kill t; t_timer := t_timer t;
     t_pend := t_pend t; t_react := t_react t; t_fired := n; t_reg := t_reg t |}.

Definition dummy_task : task :=
  {| t_name := 0%nat; t_after := 0; t_interval := 0; t_cron := None; t_total := 1; t_trigger := 1; t_kill := true;
     t_timer := true; t_pend := None; t_react := []; t_fired := 0; t_reg := 0 |}.

Record sched := {
  s_tick : Z;                  (* Scheduler.tick (ns) *)
  s_fixed : bool;
  s_now : Z;
  s_insts : list task;         (* every task ever created; index = instance id *)
  s_map : list (nat * nat);    (* Scheduler.tasks: name -> instance id *)
  s_stopped : bool             (* wheel.Stop() was called *)
}.

Definition with_insts (s : sched) (l : list task) : sched :=
  {| s_tick := s_tick s; s_fixed := s_fixed s; s_now := s_now s; s_insts := l; s_map := s_map s; s_stopped := s_stopped s |}.
Definition with_map (s : sched) (m : list (nat * nat)) : sched :=
  {| s_tick := s_tick s; s_fixed := s_fixed s; s_now := s_now s; s_insts := s_insts s; s_map := m; s_stopped := s_stopped s |}.
Definition with_now (s : sched) (n : Z) : sched :=
  {| s_tick := s_tick s; s_fixed := s_fixed s; s_now := n; s_insts := s_insts s; s_map := s_map s; s_stopped := s_stopped s |}.
Definition with_stopped (s : sched) : sched :=
  {| s_tick := s_tick s; s_fixed := s_fixed s; s_now := s_now s; s_insts := s_insts s; s_map := s_map s; s_stopped := true |}.

Definition new_sched (fixed : bool) (tick start : Z) : sched :=
  {| s_tick := tick; s_fixed := fixed; s_now := start; s_insts := []; s_map := []; s_stopped := false |}.

Definition tick_ms (s : sched) : Z := Z.quot (s_tick s) MS.
Definition inst (s : sched) (i : nat) : task := nth i (s_insts s) dummy_task.
Definition set_inst (s : sched) (i : nat) (t : task) : sched := with_insts s (upd i t (s_insts s)).

Fixpoint lookup (n : nat) (m : list (nat * nat)) : option nat :=
  match m with
  | [] => None
  | (k, i) :: r => if Nat.eqb k n then Some i else lookup n r
  end.
Fixpoint remove (n : nat) (m : list (nat * nat)) : list (nat * nat) :=
  match m with
  | [] => []
  | (k, i) :: r => if Nat.eqb k n then remove n r else (k, i) :: remove n r
  end.

(* a callback execution: instant (ms), instance, ordinal of this firing of the instance (0 = the immediate
   call of a missed day moment / of an "immediate" cron task), did the callback's own reaction crash *)
Record event := { e_ms : Z; e_inst : nat; e_ord : Z; e_crash : bool }.

(* schedulerTask.close(): (task, crashed) *)
Definition needs_stop (t : task) : bool := (t_total t <=? 0) || (t_trigger t <? t_total t).
Definition close_task (t : task) : task * bool :=
  if t_kill t then (t, false)
  else if needs_stop t then
         (if t_timer t then (set_pend (set_kill t) None, false) else (set_kill t, true))
       else (set_kill t, false).

(* Scheduler.unlockUnregisterTask *)
Definition unregister (n : nat) (s : sched) : sched * bool :=
  match lookup n (s_map s) with
  | None => (s, false)
  | Some i =>
      let '(t', c) := close_task (inst s i) in
      let s1 := set_inst s i t' in
      if c then (s1, true) else (with_map s1 (remove n (s_map s1)), false)
  end.

(* the loop of Clear / Close over the task table (the model visits it in list order; Go's map order is
   unspecified, which is observable only when close() crashes, i.e. never in the repaired code) *)
Fixpoint close_all (m : list (nat * nat)) (s : sched) : sched * bool :=
  match m with
  | [] => (s, false)
  | (n, _) :: r => let '(s1, c) := unregister n s in if c then (s1, true) else close_all r s1
  end.

Definition cron_next (k prev : Z) : Z := (Z.div prev (k * SEC) + 1) * (k * SEC).

(* parameters of the task created by a registration: (after, interval, cron, total, immediate call, immediate-before-registration) *)
Definition spec_params (now : Z) (sp : spec) : Z * Z * option Z * Z * bool :=
  match sp with
  | SAfter a => (a, 0, None, 1, false)               (* interval := s.tick by the clamp below *)
  | SRepeat a i n => (a, i, None, n, false)
  | SCron k imm => (0, 0, Some k, 0, imm)
  | SDay since off h m sc =>
      let now' := now + off in
      let m0 := (now' - Z.modulo now' DAY) + (h * 3600 + m * 60 + sc) * SEC in
      let moment := if m0 <=? now' then m0 + DAY else m0 in
      (moment - now', DAY, None, -1, (0 <? since) && (DAY <? since))
  end.
Definition is_day (sp : spec) : bool := match sp with SDay _ _ _ _ _ => true | _ => false end.

(* Scheduler.task (+ the wrappers): (state, crashed, events) *)
Definition register (n : nat) (sp : spec) (re : list (Z * reaction)) (s : sched) : sched * bool * list event :=
  let now := s_now s in
  let '(a, iv, cr, total, imm) := spec_params now sp in
  let a' := match cr with Some _ => a | None => if a <? s_tick s then s_tick s else a end in
  let iv' := match cr with Some _ => iv | None => if iv <? s_tick s then s_tick s else iv end in
  let id := length (s_insts s) in
  let ev := {| e_ms := to_ms now; e_inst := id; e_ord := 0; e_crash := false |} in
  let pre := if imm && is_day sp then [ev] else [] in            (* RegisterDayMomentTask calls before registering *)
  let t0 := {| t_name := n; t_after := a'; t_interval := iv'; t_cron := cr; t_total := total; t_trigger := 0;
               t_kill := false; t_timer := false; t_pend := None; t_react := re; t_fired := 0; t_reg := now |} in
  let '(s1, c) := unregister n s in
  if c then (with_insts s1 (s_insts s1 ++ [set_kill t0]), true, pre)
  else
    (* wheel.ScheduleFunc: Next(now) *)
    let e := match cr with
             | Some k => to_ms (cron_next k now)
             | None => to_ms (now + a')
             end in
    let t1 := {| t_name := n; t_after := a'; t_interval := iv'; t_cron := cr; t_total := total;
                 t_trigger := match cr with Some _ => 0 | None => 1 end;
                 t_kill := false; t_timer := s_fixed s; t_pend := Some e; t_react := re; t_fired := 0; t_reg := now |} in
    let s2 := with_map (with_insts s1 (s_insts s1 ++ [t1])) ((n, id) :: remove n (s_map s1)) in
    (s2, false, pre ++ (if imm && negb (is_day sp) then [ev] else [])).

Fixpoint find_react (k : Z) (re : list (Z * reaction)) : option reaction :=
  match re with
  | [] => None
  | (j, r) :: t => if j =? k then Some r else find_react k t
  end.

(* expiry of the timer of instance i (expiration e): Next(e), then the caller *)
Definition fire (s : sched) (i : nat) (e : Z) : sched * list event :=
  let t := inst s i in
  let b := trunc e (tick_ms s) in
  let s := with_now s (Z.max (s_now s) (b * MS)) in
  let fin := t_kill t || ((0 <? t_total t) && (t_total t <=? t_trigger t)) in
  let t1 := match t_cron t with
            | Some k => set_pend t (Some (to_ms (cron_next k (e * MS))))
            | None => if fin then set_pend t None
                      else set_trigger (set_pend t (Some (to_ms (e * MS + (if t_trigger t =? 0 then t_after t else t_interval t)))))
                                       (t_trigger t + 1)
            end in
  if t_kill t1 then (set_inst s i t1, [])
  else
    let s1 := set_inst s i t1 in
    (* "if t.total > 0 && t.trigger > t.total { UnregisterTask }": shown unreachable (sched_inv) *)
    let '(s2, c0) := if (0 <? t_total t1) && (t_total t1 <? t_trigger t1) then unregister (t_name t1) s1 else (s1, false) in
    let k := t_fired t1 + 1 in
    let s3 := set_inst s2 i (set_fired (inst s2 i) k) in
    let '(s4, c1) := match find_react k (t_react t1) with
                     | None => (s3, false)
                     | Some RUnreg => unregister (t_name t1) s3
                     | Some (RRereg sp) => let '(s', c, _) := register (t_name t1) sp [] s3 in (s', c)
                     end in
    (s4, [{| e_ms := b; e_inst := i; e_ord := k; e_crash := c0 || c1 |}]).

(* the timer that runs next: smallest (bucket, instance id) among those whose bucket has expired at instant T *)
Fixpoint earliest (tk T : Z) (l : list task) (i : nat) (best : option (nat * Z)) : option (nat * Z) :=
  match l with
  | [] => best
  | t :: r =>
      let best' := match t_pend t with
                   | Some e => if trunc e tk * MS <=? T then
                                 match best with
                                 | Some (_, e0) => if trunc e tk <? trunc e0 tk then Some (i, e) else best
                                 | None => Some (i, e)
                                 end
                               else best
                   | None => best
                   end in
      earliest tk T r (S i) best'
  end.

(* bounded iteration with early exit; the bound is binary, so it costs nothing when unused *)
Fixpoint iter_pos {S R : Type} (p : positive) (step : S -> S + R) (s : S) : S + R :=
  match p with
  | xH => step s
  | xO q => match iter_pos q step s with inl s' => iter_pos q step s' | r => r end
  | xI q => match step s with
            | inl s' => match iter_pos q step s' with inl s'' => iter_pos q step s'' | r => r end
            | r => r
            end
  end.

Definition adv_step (T : Z) (st : sched * list event) : (sched * list event) + (sched * list event) :=
  let '(s, acc) := st in
  if s_stopped s then inr (s, acc)
  else match earliest (tick_ms s) T (s_insts s) 0%nat None with
       | None => inr (s, acc)
       | Some (i, e) => let '(s', evs) := fire s i e in inl (s', acc ++ evs)
       end.

Definition FUEL : positive := 1099511627776.   (* 2^40 timer expirations per Advance *)

Inductive op :=
| Register (n : nat) (sp : spec) (re : list (Z * reaction))
| Unregister (n : nat)
| Clear
| Close
| Names
| Advance (T : Z).                 (* time passes until instant T: everything due runs, in order *)

Inductive out :=
| ORes (crashed : bool) (evs : list event)
| ONames (l : list nat)
| OOutOfFuel
| OBad.                            (* never produced by the model *)

Fixpoint insert_nat (x : nat) (l : list nat) : list nat :=
  match l with
  | [] => [x]
  | y :: r => if Nat.leb x y then x :: l else y :: insert_nat x r
  end.
Definition sort_nat (l : list nat) : list nat := fold_right insert_nat [] l.

Definition step (s : sched) (o : op) : sched * out :=
  match o with
  | Register n sp re => let '(s', c, evs) := register n sp re s in (s', ORes c evs)
  | Unregister n => let '(s', c) := unregister n s in (s', ORes c [])
  | Clear => let '(s', c) := close_all (s_map s) s in (s', ORes c [])
  | Close =>
      let '(s', c) := close_all (s_map s) s in
      if c then (s', ORes true [])
      else if s_stopped s' then (s', ORes true [])        (* close of a closed channel *)
      else (with_stopped s', ORes false [])
  | Names => (s, ONames (sort_nat (map fst (s_map s))))
  | Advance T =>
      if T <=? s_now s then (s, ORes false [])
      else match iter_pos FUEL (adv_step T) (s, []) with
           | inr (s', evs) => (with_now s' (Z.max (s_now s') T), ORes false evs)
           | inl (s', _) => (s', OOutOfFuel)
           end
  end.

Fixpoint run (s : sched) (ops : list op) : sched * list out :=
  match ops with
  | [] => (s, [])
  | o :: t => let '(s1, x) := step s o in let '(s2, xs) := run s1 t in (s2, x :: xs)
  end.
