(* MV.C08.SchedRun — evaluation of recorded runs of chrono.Scheduler (virtual time) against the model (tie T1).
   A case = tick, start instant, operation list (with explicit Advance steps), outputs observed on the Go code. *)
From Coq Require Import Uint63.
From MV Require Import Lib.ListX C08.SchedModel.
Open Scope Z_scope.

(* integers of the generated cases are written as primitive-integer literals (parsed several times faster than
   decimal Z literals): [zi n] = n, [zn n] = -n *)
Definition zi (n : int) : Z := Uint63.to_Z n.
Definition zn (n : int) : Z := - Uint63.to_Z n.
Arguments zi n%uint63.
Arguments zn n%uint63.

Definition event_eqb (a b : event) : bool :=
  (e_ms a =? e_ms b) && Nat.eqb (e_inst a) (e_inst b) && (e_ord a =? e_ord b) && Bool.eqb (e_crash a) (e_crash b).

Definition out_eqb (a b : out) : bool :=
  match a, b with
  | ORes c1 l1, ORes c2 l2 => Bool.eqb c1 c2 && list_eqb event_eqb l1 l2
  | ONames l1, ONames l2 => list_eqb Nat.eqb l1 l2
  | _, _ => false
  end.

Definition ev (ms : Z) (i : nat) (k : Z) (c : bool) : event := {| e_ms := ms; e_inst := i; e_ord := k; e_crash := c |}.

Record case := { cid : nat; ctick : Z; cstart : Z; cops : list op; cimpl : list out }.

(* the model of the REPAIRED code *)
Definition model_outs (c : case) : list out := snd (run (new_sched true (ctick c) (cstart c)) (cops c)).
Definition case_ok (c : case) : bool := list_eqb out_eqb (model_outs c) (cimpl c).
Definition mismatches (cs : list case) : list nat := fail_ids case_ok cid cs.
