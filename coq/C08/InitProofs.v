(* MV.C08.InitProofs — the lazy creation of the per-context scheduler, over every reachable state of MV.C08.InitModel
   (every interleaving of any number of callers of "ensure the scheduler ; register a task"):
   under the once-guard exactly one scheduler object is ever created, nobody dereferences a nil field, every
   registration is made in the object the field holds (so StopTask / re-registration / Clear / Close reach it), every
   caller gets through (no deadlock) and registers exactly once; under the unguarded lazy initialisation two
   goroutines create two objects and the task registered in the first is orphaned (refuting schedule). *)
From Coq Require Import String.
From MV Require Import Lib.ListX Lib.Sched C08.InitModel.
Open Scope Z_scope.
Arguments Z.add : simpl never.
Arguments Z.sub : simpl never.

Definition IT (f : ipc -> Z) (p : pool Init) : Z := @total Init f p.

Lemma igstep_inv (st : state Init) i c st' e :
  gstep st i c = Some (st', e) ->
  exists l s' ol sp, nth_error (snd st) i = Some (Some l) /\
    istep (fst st) l c = Some (s', ol, sp, e) /\ st' = (s', upd i ol (snd st) ++ map Some sp).
Proof.
  unfold gstep. destruct (nth_error (snd st) i) as [[l|]|] eqn:Hn; try discriminate.
  cbn [tstep Init]. destruct (istep (fst st) l c) as [[[[s' ol] sp] e']|] eqn:Ht; try discriminate.
  intros H; inversion H; subst. exists l, s', ol, sp. auto.
Qed.

Lemma total_pos_ex (f : ipc -> Z) (p : pool Init) :
  0 < IT f p -> exists i l, nth_error p i = Some (Some l) /\ 0 < f l.
Proof.
  unfold IT. induction p as [|[l|] t IH]; simpl; intros H; try lia.
  - destruct (Z_lt_le_dec 0 (f l)) as [Hl|Hl].
    + exists 0%nat, l. split; [reflexivity | exact Hl].
    + destruct IH as (i & l' & Hn & Hf); [lia|]. exists (S i), l'. split; assumption.
  - destruct IH as (i & l' & Hn & Hf); [lia|]. exists (S i), l'. split; assumption.
Qed.

(* ---- indicator functions ---- *)
Definition b2z (b : bool) : Z := if b then 1 else 0.
Lemma b2z_bounds b : 0 <= b2z b <= 1. Proof. destruct b; simpl; lia. Qed.
Definition isSomeZ (o : option Z) : Z := match o with Some _ => 1 | None => 0 end.
Definition nChk (l : ipc) : Z := match l with ICheck _ => 1 | _ => 0 end.
Definition nCr (l : ipc) : Z := match l with ICreate _ => 1 | _ => 0 end.
Definition nSt (l : ipc) : Z := match l with IStore _ _ => 1 | _ => 0 end.
Definition nSd (l : ipc) : Z := match l with ISetDone _ => 1 | _ => 0 end.
Definition nUnl (l : ipc) : Z := match l with IUnlock _ => 1 | _ => 0 end.
Definition nUse (l : ipc) : Z := match l with IUse _ | IReg _ _ => 1 | _ => 0 end.
(* a caller that the once-machine never has: a lazy test, or an object other than the first in its hands *)
Definition nBad (l : ipc) : Z :=
  match l with
  | ILoadNil _ => 1
  | IStore _ k | IReg _ k => if Z.eqb k 0 then 0 else 1
  | _ => 0
  end.
Definition nTag (t : nat) (l : ipc) : Z := if Nat.eqb (tag_of l) t then 1 else 0.

Lemma nn_nChk l : 0 <= nChk l. Proof. destruct l; simpl; lia. Qed.
Lemma nn_nCr l : 0 <= nCr l. Proof. destruct l; simpl; lia. Qed.
Lemma nn_nSt l : 0 <= nSt l. Proof. destruct l; simpl; lia. Qed.
Lemma nn_nSd l : 0 <= nSd l. Proof. destruct l; simpl; lia. Qed.
Lemma nn_nUnl l : 0 <= nUnl l. Proof. destruct l; simpl; lia. Qed.
Lemma nn_nUse l : 0 <= nUse l. Proof. destruct l; simpl; lia. Qed.
Lemma nn_nBad l : 0 <= nBad l. Proof. destruct l; simpl; try lia; destruct (Z.eqb k 0); lia. Qed.
Lemma nn_nTag t l : 0 <= nTag t l. Proof. unfold nTag. destruct (Nat.eqb (tag_of l) t); lia. Qed.

(* ---- the invariant of the once-guarded machine ---- *)
Definition OInv (tags : list nat) (st : state Init) : Prop :=
  let s := fst st in let p := snd st in
  dsc s = DOnce /\
  IT nChk p + IT nCr p + IT nSt p + IT nSd p + IT nUnl p = b2z (omu s) /\          (* the mutex: one caller inside *)
  IT nCr p + IT nSt p + IT nSd p + b2z (odone s) <= 1 /\                            (* one creation, before done is set *)
  made s = IT nSt p + IT nSd p + b2z (odone s) /\                                   (* objects created *)
  isSomeZ (fld s) = IT nSd p + b2z (odone s) /\                                     (* the field is stored once *)
  IT nBad p = 0 /\
  (forall k, fld s = Some k -> k = 0) /\
  (odone s = false -> IT nUnl p + IT nUse p = 0 /\ regs s = []) /\                  (* nobody uses the field before done *)
  nilderef s = false /\
  Forall (fun r => fst r = 0) (regs s) /\
  (forall t, cnt t (regs s) + IT (nTag t) p = cnt_tags t tags).                    (* every caller registers its task once *)

Lemma IT_entry_zero (f : ipc -> Z) tags :
  (forall t, f (IFast t) = 0) -> IT f (map (fun t => Some (entry DOnce t)) tags) = 0.
Proof. intros Hf. unfold IT, entry. induction tags as [|t r IH]; simpl; [reflexivity|]. rewrite Hf, IH. reflexivity. Qed.

Lemma IT_entry_tag t tags : IT (nTag t) (map (fun t' => Some (entry DOnce t')) tags) = cnt_tags t tags.
Proof. unfold IT, entry. induction tags as [|t' r IH]; simpl; [reflexivity|]. rewrite IH. unfold nTag. simpl. reflexivity. Qed.

Lemma oinv_init tags : OInv tags (init_state DOnce tags).
Proof.
  unfold OInv, init_state. cbn [fst snd ish0 dsc fld odone omu made regs nilderef].
  rewrite !IT_entry_zero by reflexivity. cbn [b2z isSomeZ].
  repeat split; try reflexivity; try lia; try discriminate; try constructor.
  intros t. rewrite IT_entry_tag. cbn [cnt]. lia.
Qed.

Ltac ifields :=
  cbn [set_fld set_odone set_omu inc_made add_reg set_nilderef dsc fld odone omu made regs nilderef] in *.

Ltac splits := repeat match goal with |- _ /\ _ => split end.
Ltac h7_goal H7 :=
  let Hd := fresh "Hd7" in intros Hd; first [discriminate Hd | destruct (H7 Hd); split; [lia | assumption]].
Ltac tag_goal HT H10 :=
  let t' := fresh "t'" in
  intros t'; rewrite HT; cbn [fo total map cnt]; specialize (H10 t'); unfold nTag in *; cbn [tag_of] in *; lia.
Ltac totals Hn :=
  repeat rewrite total_app; repeat rewrite (total_upd _ _ _ _ _ _ Hn);
  cbn [total fo map nChk nCr nSt nSd nUnl nUse nBad b2z Z.eqb isSomeZ] in *.
Ltac close_inv H7 HT H10 :=
  splits; try assumption; try lia; try (h7_goal H7); try (tag_goal HT H10).

Lemma oinv_step tags st i c st' e : OInv tags st -> gstep st i c = Some (st', e) -> OInv tags st'.
Proof.
  destruct st as [s p]. unfold OInv. cbn [fst snd].
  intros (H0 & H1 & H2 & H3 & H4 & H5 & H6 & H7 & H8 & H9 & H10) Hg.
  destruct (igstep_inv _ _ _ _ _ Hg) as (l & s' & ol & sp & Hn & Ht & ->). cbn [fst snd] in *. clear Hg.
  pose proof (total_ge_nth Init nChk p i l nn_nChk Hn) as GChk.
  pose proof (total_ge_nth Init nCr p i l nn_nCr Hn) as GCr.
  pose proof (total_ge_nth Init nSt p i l nn_nSt Hn) as GSt.
  pose proof (total_ge_nth Init nSd p i l nn_nSd Hn) as GSd.
  pose proof (total_ge_nth Init nUnl p i l nn_nUnl Hn) as GUnl.
  pose proof (total_ge_nth Init nUse p i l nn_nUse Hn) as GUse.
  pose proof (total_ge_nth Init nBad p i l nn_nBad Hn) as GBad.
  pose proof (total_nonneg Init nChk p nn_nChk) as NChk.
  pose proof (total_nonneg Init nCr p nn_nCr) as NCr.
  pose proof (total_nonneg Init nSt p nn_nSt) as NSt.
  pose proof (total_nonneg Init nSd p nn_nSd) as NSd.
  pose proof (total_nonneg Init nUnl p nn_nUnl) as NUnl.
  pose proof (total_nonneg Init nUse p nn_nUse) as NUse.
  pose proof (b2z_bounds (omu s)) as Bmu. pose proof (b2z_bounds (odone s)) as Bdn.
  unfold IT in *.
  assert (HT : forall t, @total Init (nTag t) (upd i ol p ++ map Some sp) =
                         @total Init (nTag t) p - nTag t l + @fo Init (nTag t) ol + @total Init (nTag t) (map Some sp)).
  { intros t. rewrite total_app, (total_upd _ _ _ _ _ _ Hn). reflexivity. }
  destruct l as [t|t|t|t|t|t k|t|t|t|t k]; cbn [istep] in Ht;
    cbn [nChk nCr nSt nSd nUnl nUse nBad] in GChk, GCr, GSt, GSd, GUnl, GUse, GBad.
  - (* IFast *)
    destruct (odone s) eqn:Hd; inversion Ht; subst; clear Ht; rewrite ?Hd; totals Hn; close_inv H7 HT H10.
  - (* ILock *)
    destruct (omu s) eqn:Hm; [discriminate|]. inversion Ht; subst; clear Ht; ifields. totals Hn. close_inv H7 HT H10.
  - (* ICheck *)
    destruct (odone s) eqn:Hd; inversion Ht; subst; clear Ht; rewrite ?Hd; totals Hn; close_inv H7 HT H10.
  - (* ILoadNil: the once machine has no such caller *)
    exfalso; lia.
  - (* ICreate *)
    inversion Ht; subst; clear Ht; ifields.
    assert (Hm : made s = 0) by (destruct (odone s); cbn [b2z] in *; lia).
    rewrite Hm in *. totals Hn. close_inv H7 HT H10.
  - (* IStore *)
    rewrite H0 in Ht. inversion Ht; subst; clear Ht; ifields.
    assert (Hk : k = 0) by (destruct (Z.eqb_spec k 0); [assumption | lia]). subst k.
    assert (Hd : odone s = false) by (destruct (odone s); [cbn [b2z] in *; lia | reflexivity]).
    rewrite Hd in *. totals Hn. close_inv H7 HT H10.
    intros k' Hk'. inversion Hk'. reflexivity.
  - (* ISetDone *)
    inversion Ht; subst; clear Ht; ifields.
    assert (Hd : odone s = false) by (destruct (odone s); [cbn [b2z] in *; lia | reflexivity]).
    rewrite Hd in *. totals Hn. close_inv H7 HT H10.
  - (* IUnlock *)
    inversion Ht; subst; clear Ht; ifields.
    assert (Hd : odone s = true) by (destruct (odone s); [reflexivity | destruct (H7 eq_refl); lia]).
    assert (Hm : omu s = true) by (destruct (omu s); [reflexivity | cbn [b2z] in *; lia]).
    rewrite Hd, Hm in *. totals Hn. close_inv H7 HT H10.
  - (* IUse *)
    assert (Hd : odone s = true) by (destruct (odone s); [reflexivity | destruct (H7 eq_refl); lia]).
    rewrite Hd in *. cbn [b2z] in *.
    destruct (fld s) as [k|] eqn:Hf; cbn [isSomeZ] in *; [|exfalso; lia].
    inversion Ht; subst; clear Ht. pose proof (H6 k eq_refl) as Hk. subst k.
    totals Hn. rewrite ?Hd, ?Hf. cbn [b2z isSomeZ]. close_inv H7 HT H10.
  - (* IReg *)
    inversion Ht; subst; clear Ht; ifields.
    assert (Hk : k = 0) by (destruct (Z.eqb_spec k 0); [assumption | lia]). subst k.
    assert (Hd : odone s = true) by (destruct (odone s); [reflexivity | destruct (H7 eq_refl); lia]).
    rewrite Hd in *. totals Hn. close_inv H7 HT H10.
    constructor; [reflexivity | assumption].
Qed.

Theorem oinv_reachable tags st : reach (init_state DOnce tags) st -> OInv tags st.
Proof. apply inv_reach; [exact (oinv_init tags) | exact (oinv_step tags)]. Qed.

(* ------------------------------------------------------------------ the statements for the once-guard *)

(* exactly one scheduler object is ever created (none before the first caller gets that far); no caller dereferences a nil
   field; every registration made so far was made in the object the field holds NOW — no task is orphaned, so StopTask,
   a re-registration of the name, Clear (restart) and Close (termination), which all go through the field, reach it *)
Theorem once_sound tags st : reach (init_state DOnce tags) st ->
  nilderef (fst st) = false /\ 0 <= made (fst st) <= 1 /\
  (forall k t, In (k, t) (regs (fst st)) -> fld (fst st) = Some k) /\
  (forall k t, ~ orphaned (fst st) k t) /\
  (regs (fst st) <> [] -> made (fst st) = 1) /\
  (forall k, fld (fst st) = Some k -> k = 0 /\ made (fst st) = 1).
Proof.
  intros Hr. destruct (oinv_reachable tags st Hr) as (H0 & H1 & H2 & H3 & H4 & H5 & H6 & H7 & H8 & H9 & H10).
  pose proof (total_nonneg Init nCr (snd st) nn_nCr) as NCr.
  pose proof (total_nonneg Init nSt (snd st) nn_nSt) as NSt.
  pose proof (total_nonneg Init nSd (snd st) nn_nSd) as NSd.
  pose proof (total_nonneg Init nUse (snd st) nn_nUse) as NUse.
  pose proof (total_nonneg Init nUnl (snd st) nn_nUnl) as NUnl.
  pose proof (b2z_bounds (odone (fst st))) as Bdn. unfold IT in *.
  assert (Hreg : regs (fst st) <> [] -> odone (fst st) = true).
  { intros Hne. destruct (odone (fst st)); [reflexivity|]. destruct (H7 eq_refl) as [_ Hnil]. contradiction. }
  assert (Hin : forall k t, In (k, t) (regs (fst st)) -> fld (fst st) = Some k).
  { intros k t Hi. assert (Hd : odone (fst st) = true) by (apply Hreg; intros E; rewrite E in Hi; exact Hi).
    rewrite Hd in *. cbn [b2z] in *. rewrite Forall_forall in H9. specialize (H9 _ Hi). cbn [fst] in H9. subst k.
    destruct (fld (fst st)) as [k'|] eqn:Hf; cbn [isSomeZ] in *; [|lia]. rewrite (H6 k' eq_refl). reflexivity. }
  split; [exact H8|]. split; [lia|]. split; [exact Hin|]. split.
  - intros k t [Hi Hne]. apply Hne. exact (Hin k t Hi).
  - split.
    + intros Hne. rewrite (Hreg Hne) in *. cbn [b2z] in *. lia.
    + intros k Hf. split; [exact (H6 k Hf)|]. rewrite Hf in H4. cbn [isSomeZ] in H4. lia.
Qed.

(* once stored, the field never changes: the object a task was registered in stays the one the context holds *)
Lemma fld_step tags st i c st' e : OInv tags st -> gstep st i c = Some (st', e) ->
  forall k, fld (fst st) = Some k -> fld (fst st') = Some k.
Proof.
  destruct st as [s p]. unfold OInv. cbn [fst snd].
  intros (H0 & H1 & H2 & H3 & H4 & _) Hg k Hf.
  destruct (igstep_inv _ _ _ _ _ Hg) as (l & s' & ol & sp & Hn & Ht & ->). cbn [fst snd] in *.
  pose proof (total_ge_nth Init nSt p i l nn_nSt Hn) as GSt.
  pose proof (total_nonneg Init nCr p nn_nCr) as NCr.
  pose proof (total_nonneg Init nSd p nn_nSd) as NSd.
  pose proof (b2z_bounds (odone s)) as Bdn. unfold IT in *.
  destruct l as [t|t|t|t|t|t k0|t|t|t|t k0]; cbn [istep] in Ht; cbn [nSt] in GSt;
    repeat match type of Ht with
    | context [match fld ?s with Some _ => _ | None => _ end] => destruct (fld s) eqn:?
    | context [if ?b then _ else _] => destruct b
    end; try discriminate; inversion Ht; subst; ifields; try assumption; try congruence.
  rewrite Hf in H4. cbn [isSomeZ] in H4. exfalso; lia.
Qed.

Theorem once_field_stable tags st st' k : reach (init_state DOnce tags) st -> reach st st' ->
  fld (fst st) = Some k -> fld (fst st') = Some k.
Proof.
  intros Hr Hr' Hf. pose proof (oinv_reachable tags st Hr) as HI.
  assert (G : OInv tags st' /\ fld (fst st') = Some k).
  { induction Hr' as [|st1 i c st2 e Hr1 IH Hg]; [split; assumption|].
    destruct IH as [HI1 Hf1]. split; [exact (oinv_step tags st1 i c st2 e HI1 Hg) | exact (fld_step tags st1 i c st2 e HI1 Hg k Hf1)]. }
  exact (proj2 G).
Qed.

(* when every caller has returned, every task was registered exactly once (each caller once), all in the one object *)
Theorem once_all_registered tags st : reach (init_state DOnce tags) st -> all_done (snd st) ->
  (forall t, cnt t (regs (fst st)) = cnt_tags t tags) /\
  (tags <> [] -> fld (fst st) = Some 0 /\ made (fst st) = 1).
Proof.
  intros Hr Hd. pose proof (once_sound tags st Hr) as (_ & _ & Hin & _ & Hm & _).
  destruct (oinv_reachable tags st Hr) as (_ & _ & _ & _ & _ & _ & _ & _ & _ & H9 & H10). unfold IT in *.
  assert (Hc : forall t, cnt t (regs (fst st)) = cnt_tags t tags).
  { intros t. specialize (H10 t). rewrite (total_all_done Init (nTag t) (snd st) Hd) in H10. lia. }
  split; [exact Hc|]. intros Hne.
  destruct tags as [|t0 r]; [contradiction|]. specialize (Hc t0). cbn [cnt_tags] in Hc. rewrite Nat.eqb_refl in Hc.
  assert (Hpos : 0 <= cnt_tags t0 r).
  { clear. induction r as [|a r IH]; cbn [cnt_tags]; [lia|]. destruct (Nat.eqb a t0); lia. }
  destruct (regs (fst st)) as [|[k t] rs] eqn:Hrg; [cbn [cnt] in Hc; lia|].
  assert (Hne' : (k, t) :: rs <> []) by discriminate. split; [|exact (Hm Hne')].
  rewrite Forall_forall in H9. specialize (H9 (k, t) (or_introl eq_refl)). cbn [fst] in H9. subst k.
  apply (Hin 0 t). left; reflexivity.
Qed.

(* nobody waits for ever: as long as some caller has not returned, some caller can take a step *)
Theorem once_progress tags st j l : reach (init_state DOnce tags) st -> nth_error (snd st) j = Some (Some l) ->
  exists i st' e, gstep st i tt = Some (st', e).
Proof.
  intros Hr Hn. destruct (oinv_reachable tags st Hr) as (H0 & H1 & _). destruct st as [s p]. cbn [fst snd] in *.
  assert (En : forall i l', nth_error p i = Some (Some l') -> (omu s = false \/ forall t, l' <> ILock t) ->
               exists st' e, gstep (s, p) i tt = Some (st', e)).
  { intros i l' Hi Hok. unfold gstep. cbn [fst snd]. rewrite Hi. cbn [tstep Init].
    destruct l' as [t|t|t|t|t|t k|t|t|t|t k]; cbn [istep];
      try (destruct (odone s); eexists; eexists; reflexivity);
      try (destruct (fld s); eexists; eexists; reflexivity);
      try (eexists; eexists; reflexivity).
    destruct Hok as [Hm|Hl]; [rewrite Hm; eexists; eexists; reflexivity | exfalso; exact (Hl t eq_refl)]. }
  destruct (omu s) eqn:Hm.
  - cbn [b2z] in H1.
    pose proof (total_nonneg Init nChk p nn_nChk). pose proof (total_nonneg Init nCr p nn_nCr).
    pose proof (total_nonneg Init nSt p nn_nSt). pose proof (total_nonneg Init nSd p nn_nSd).
    pose proof (total_nonneg Init nUnl p nn_nUnl). unfold IT in H1.
    assert (Hex : exists i l', nth_error p i = Some (Some l') /\ 0 < nChk l' + nCr l' + nSt l' + nSd l' + nUnl l').
    { destruct (Z_lt_le_dec 0 (IT nChk p)) as [G|G]; [destruct (total_pos_ex _ _ G) as (i & l' & A & B); exists i, l'; split; [exact A|]; pose proof (nn_nCr l'); pose proof (nn_nSt l'); pose proof (nn_nSd l'); pose proof (nn_nUnl l'); lia|].
      destruct (Z_lt_le_dec 0 (IT nCr p)) as [G2|G2]; [destruct (total_pos_ex _ _ G2) as (i & l' & A & B); exists i, l'; split; [exact A|]; pose proof (nn_nChk l'); pose proof (nn_nSt l'); pose proof (nn_nSd l'); pose proof (nn_nUnl l'); lia|].
      destruct (Z_lt_le_dec 0 (IT nSt p)) as [G3|G3]; [destruct (total_pos_ex _ _ G3) as (i & l' & A & B); exists i, l'; split; [exact A|]; pose proof (nn_nChk l'); pose proof (nn_nCr l'); pose proof (nn_nSd l'); pose proof (nn_nUnl l'); lia|].
      destruct (Z_lt_le_dec 0 (IT nSd p)) as [G4|G4]; [destruct (total_pos_ex _ _ G4) as (i & l' & A & B); exists i, l'; split; [exact A|]; pose proof (nn_nChk l'); pose proof (nn_nCr l'); pose proof (nn_nSt l'); pose proof (nn_nUnl l'); lia|].
      destruct (Z_lt_le_dec 0 (IT nUnl p)) as [G5|G5]; [destruct (total_pos_ex _ _ G5) as (i & l' & A & B); exists i, l'; split; [exact A|]; pose proof (nn_nChk l'); pose proof (nn_nCr l'); pose proof (nn_nSt l'); pose proof (nn_nSd l'); lia|].
      unfold IT in *. exfalso; lia. }
    destruct Hex as (i & l' & Hi & Hpos). exists i.
    apply (En i l' Hi). right. intros t ->. cbn in Hpos. lia.
  - exists j. apply (En j l Hn). left; reflexivity.
Qed.

(* ------------------------------------------------------------------ the unguarded lazy initialisation *)

(* both goroutines of a spawn find the field nil; the owner creates object 0, stores it and registers "tick" in it; the
   spawner then creates object 1, OVERWRITES the field and registers ":expire:" there. Everything has returned, two
   scheduler objects exist, the context holds object 1, and "tick" lives in object 0, which nothing can reach any more. *)
Definition lazy_schedule : list (nat * unit) :=
  [(0, tt); (1, tt);                              (* owner, spawner: if ctx.scheduler == nil *)
   (0, tt); (0, tt); (0, tt); (0, tt);            (* owner: NewScheduler ; ctx.scheduler = #0 ; load ; #0.Register("tick") *)
   (1, tt); (1, tt); (1, tt); (1, tt)]%nat.       (* spawner: NewScheduler ; ctx.scheduler = #1 ; load ; #1.Register(":expire:") *)

Theorem lazy_orphans_task :
  exists st, reach (init_state DLazy spawn_tags) st /\ all_done (snd st) /\
    made (fst st) = 2 /\ fld (fst st) = Some 1 /\ nilderef (fst st) = false /\
    regs (fst st) = [(1, T_EXPIRE); (0, T_TICK)] /\ orphaned (fst st) 0 T_TICK /\
    forall st', reach st st' -> st' = st.
Proof.
  destruct (run (init_state DLazy spawn_tags) lazy_schedule) as [[st es]|] eqn:E; [|vm_compute in E; discriminate].
  exists st. split; [eapply run_reach; [apply reach_init | exact E]|].
  vm_compute in E. inversion E; subst; clear E. cbn [fst snd fld made regs nilderef].
  split; [repeat constructor|]. repeat (split; [reflexivity|]). split.
  - split; [right; left; reflexivity | discriminate].
  - intros st' Hr. induction Hr as [|st1 i c st2 e Hr IH Hg]; [reflexivity|]. subst st1.
    exfalso. unfold gstep in Hg. cbn [snd] in Hg. destruct i as [|[|[|i]]]; cbn in Hg; discriminate.
Qed.

(* ------------------------------------------------------------------ tie T3 *)

Lemma model_source_ok : source_ok model_writes model_once_fields [] model_users = true. Proof. reflexivity. Qed.
Lemma lazy_source_not_ok : source_ok lazy_writes [] [] model_users = false. Proof. reflexivity. Qed.
Lemma lazy_source_is_lazy : source_discipline lazy_writes [] [] = Some DLazy. Proof. reflexivity. Qed.

(* a source accepted by [source_ok] is the once machine: the statements above hold of it *)
Theorem at_source ws once_fields misuse us : source_ok ws once_fields misuse us = true ->
  forall tags st, reach (init_src ws once_fields misuse tags) st ->
  nilderef (fst st) = false /\ 0 <= made (fst st) <= 1 /\
  (forall k t, In (k, t) (regs (fst st)) -> fld (fst st) = Some k) /\
  (forall k t, ~ orphaned (fst st) k t) /\
  (regs (fst st) <> [] -> made (fst st) = 1) /\
  (forall k, fld (fst st) = Some k -> k = 0 /\ made (fst st) = 1).
Proof.
  unfold source_ok, init_src. intros H tags st.
  destruct (source_discipline ws once_fields misuse) as [[|]|]; try discriminate. apply once_sound.
Qed.
