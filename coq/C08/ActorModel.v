(* MV.C08.ActorModel — executable model of the scheduler part of engine/vivid/actor_context.go, on top of
   MV.C08.SchedModel (the context's own chrono.Scheduler: tick 10 ms).

   What is modelled: one actor (no children).  Every processMessage is bracketed by refreshIdleDeadline(true) /
   refreshIdleDeadline(false) (StopTask ":idle:" / AfterTask ":idle:"); the callback of a timer is not run by the
   wheel but posted to the owner as a system message (onSchedulerFunc) and executed as a turn of its own; while a
   handler blocks, expired timers pile up in the mailbox and run after it, in order, unless the actor has terminated
   meanwhile (ProcessSystemMessage drops them); a restart runs OnRestarting / OnTerminate / OnTerminated, clears the
   scheduler (tryRestarted), re-arms ":expire:" and posts OnRestarted / OnLaunch behind whatever is already queued;
   termination runs OnTerminate / OnTerminated and closes the scheduler (tryTerminated); ":idle:" and ":expire:"
   callbacks ask for a graceful termination (a user message, handled after the queued system messages).

   No proofs here. *)
From MV Require Import Lib.ListX C08.SchedModel.
Open Scope Z_scope.

Definition N_IDLE : nat := 0.
Definition N_EXPIRE : nat := 1.
Definition uname (n : nat) : nat := S (S n).
Definition ACTOR_TICK : Z := 10000000.          (* chrono.DefaultSchedulerTick *)

Inductive areact := ARUnreg | ARRereg (tag : nat) (sp : spec).
Inductive aact :=
| AReg (n tag : nat) (sp : spec) (re : list (Z * areact))   (* AfterTask / RepeatedTask / CronTask from a handler *)
| AStop (n : nat).                                           (* StopTask *)

Record ainfo := { i_tag : nat; i_name : nat; i_re : list (Z * areact); i_count : Z }.

Record aevent := { ae_ms : Z; ae_tag : nat; ae_ord : Z }.

Record actor := {
  a_s : sched;
  a_idle : Z;                      (* descriptor: idle deadline (0 = none) *)
  a_expire_at : Z;                 (* expireTime (0 = none) *)
  a_alive : bool;
  a_tags : list (nat * nat);       (* scheduler instance id -> tag of the registration *)
  a_info : list ainfo;
  a_queue : list nat;              (* instance ids whose onSchedulerFunc message waits in the mailbox *)
  a_gterm : bool;                  (* a graceful-termination request (user message) waits in the mailbox *)
  a_events : list aevent;          (* executed callbacks, latest first *)
  a_term : option Z;               (* instant (ms) of the final OnTerminated *)
  a_racy : option Z;               (* Some b: in bucket b (ms) a deadline timer expired together with another timer: the order
                                      of their messages is not determined, the model is compared up to b only *)
  a_lastcb : Z;                    (* bucket (ms) of the latest callback execution *)
  a_last : Z                       (* ghost: instant of the last refreshIdleDeadline(false) *)
}.

Definition upd_s (a : actor) (s : sched) : actor :=
  {| a_s := s; a_idle := a_idle a; a_expire_at := a_expire_at a; a_alive := a_alive a; a_tags := a_tags a;
     a_info := a_info a; a_queue := a_queue a; a_gterm := a_gterm a; a_events := a_events a; a_term := a_term a;
     a_racy := a_racy a; a_lastcb := a_lastcb a; a_last := a_last a |}.
Definition upd_queue (a : actor) (q : list nat) : actor :=
  {| a_s := a_s a; a_idle := a_idle a; a_expire_at := a_expire_at a; a_alive := a_alive a; a_tags := a_tags a;
     a_info := a_info a; a_queue := q; a_gterm := a_gterm a; a_events := a_events a; a_term := a_term a;
     a_racy := a_racy a; a_lastcb := a_lastcb a; a_last := a_last a |}.
Definition upd_gterm (a : actor) (g : bool) : actor :=
  {| a_s := a_s a; a_idle := a_idle a; a_expire_at := a_expire_at a; a_alive := a_alive a; a_tags := a_tags a;
     a_info := a_info a; a_queue := a_queue a; a_gterm := g; a_events := a_events a; a_term := a_term a;
     a_racy := a_racy a; a_lastcb := a_lastcb a; a_last := a_last a |}.
Definition upd_racy (a : actor) (b : Z) : actor :=
  {| a_s := a_s a; a_idle := a_idle a; a_expire_at := a_expire_at a; a_alive := a_alive a; a_tags := a_tags a;
     a_info := a_info a; a_queue := a_queue a; a_gterm := a_gterm a; a_events := a_events a; a_term := a_term a;
     a_racy := match a_racy a with None => Some b | r => r end; a_lastcb := a_lastcb a; a_last := a_last a |}.
Definition upd_last (a : actor) : actor :=
  {| a_s := a_s a; a_idle := a_idle a; a_expire_at := a_expire_at a; a_alive := a_alive a; a_tags := a_tags a;
     a_info := a_info a; a_queue := a_queue a; a_gterm := a_gterm a; a_events := a_events a; a_term := a_term a;
     a_racy := a_racy a; a_lastcb := a_lastcb a; a_last := s_now (a_s a) |}.

Definition now (a : actor) : Z := s_now (a_s a).

(* ---- the scheduler API as the context uses it (the repaired scheduler never crashes: C08_no_crash) *)
Definition sreg (a : actor) (n : nat) (sp : spec) : actor := upd_s a (fst (fst (register n sp [] (a_s a)))).
Definition sunreg (a : actor) (n : nat) : actor := upd_s a (fst (unregister n (a_s a))).

Definition refresh_on (a : actor) : actor := if 0 <? a_idle a then sunreg a N_IDLE else a.
Definition refresh_off (a : actor) : actor := if 0 <? a_idle a then upd_last (sreg a N_IDLE (SAfter (a_idle a))) else upd_last a.

Fixpoint info_of (tag : nat) (l : list ainfo) : option ainfo :=
  match l with
  | [] => None
  | x :: r => if Nat.eqb (i_tag x) tag then Some x else info_of tag r
  end.
Fixpoint bump (tag : nat) (l : list ainfo) : list ainfo :=
  match l with
  | [] => []
  | x :: r => if Nat.eqb (i_tag x) tag
              then {| i_tag := i_tag x; i_name := i_name x; i_re := i_re x; i_count := i_count x + 1 |} :: r
              else x :: bump tag r
  end.

Definition reg_user (a : actor) (n tag : nat) (sp : spec) (re : list (Z * areact)) : actor :=
  let id := length (s_insts (a_s a)) in
  let a1 := sreg a (uname n) sp in
  {| a_s := a_s a1; a_idle := a_idle a; a_expire_at := a_expire_at a; a_alive := a_alive a;
     a_tags := (id, tag) :: a_tags a;
     a_info := {| i_tag := tag; i_name := n; i_re := re; i_count := 0 |} :: a_info a;
     a_queue := a_queue a; a_gterm := a_gterm a; a_events := a_events a; a_term := a_term a; a_racy := a_racy a;
     a_lastcb := a_lastcb a; a_last := a_last a |}.

Definition do_act (a : actor) (x : aact) : actor :=
  match x with
  | AReg n tag sp re => reg_user a n tag sp re
  | AStop n => sunreg a (uname n)
  end.
Definition do_acts (a : actor) (l : list aact) : actor := fold_left do_act l a.

(* time passes while a handler blocks: expired timers post their message *)
Definition pass_time (a : actor) (d : Z) : actor :=
  if d <=? 0 then a
  else match step (a_s a) (Advance (now a + d)) with
       | (s', ORes _ evs) => upd_queue (upd_s a s') (a_queue a ++ map e_inst evs)
       | (s', _) => upd_s a s'
       end.

Fixpoint find_areact (k : Z) (re : list (Z * areact)) : option areact :=
  match re with
  | [] => None
  | (j, r) :: t => if j =? k then Some r else find_areact k t
  end.

(* one onSchedulerFunc message is processed *)
Definition cb_turn (a : actor) (i : nat) : actor :=
  let nm := t_name (inst (a_s a) i) in
  if Nat.eqb nm N_IDLE || Nat.eqb nm N_EXPIRE then
    (* ctx.Terminate(ctx.Ref(), true): a user message *)
    refresh_off (upd_gterm (refresh_on a) true)
  else
    match lookup i (a_tags a) with
    | None => a
    | Some tag =>
        match info_of tag (a_info a) with
        | None => a
        | Some inf =>
            let a1 := refresh_on a in
            let k := i_count inf + 1 in
            let a2 := {| a_s := a_s a1; a_idle := a_idle a1; a_expire_at := a_expire_at a1; a_alive := a_alive a1;
                         a_tags := a_tags a1; a_info := bump tag (a_info a1); a_queue := a_queue a1; a_gterm := a_gterm a1;
                         a_events := {| ae_ms := to_ms (now a1); ae_tag := tag; ae_ord := k |} :: a_events a1;
                         a_term := a_term a1; a_racy := a_racy a1; a_lastcb := to_ms (now a1); a_last := a_last a1 |} in
            let a3 := match find_areact k (i_re inf) with
                      | None => a2
                      | Some ARUnreg => sunreg a2 (uname (i_name inf))
                      | Some (ARRereg tag' sp) => reg_user a2 (i_name inf) tag' sp []
                      end in
            refresh_off a3
        end
    end.

(* tryTerminated, preceded by the OnTerminate / OnTerminated handlers (which may block) *)
Definition terminate_flow (a : actor) (busy busy2 : Z) : actor :=
  let a1 := refresh_on a in                         (* system message OnTerminate *)
  let a2 := refresh_off (pass_time (refresh_on a1) busy) in     (* the actor's OnTerminate handler *)
  let tms := to_ms (now a2) in
  let a3 := refresh_off (pass_time (refresh_on a2) busy2) in    (* the actor's OnTerminated handler *)
  let s4 := fst (step (a_s a3) Close) in
  let a4 := refresh_off (upd_s a3 s4) in            (* the deferred re-arm of the outer processMessage: on a closed wheel *)
  {| a_s := a_s a4; a_idle := a_idle a4; a_expire_at := a_expire_at a4; a_alive := false; a_tags := a_tags a4;
     a_info := a_info a4; a_queue := []; a_gterm := false; a_events := a_events a4; a_term := Some tms;
     a_racy := a_racy a4; a_lastcb := a_lastcb a4; a_last := a_last a4 |}.

(* the mailbox is emptied: system messages first, then the graceful-termination request *)
Definition drain (a : actor) : actor :=
  let a1 := fold_left (fun x i => if a_alive x then cb_turn x i else x) (a_queue a) (upd_queue a []) in
  if a_alive a1 && a_gterm a1 then
    (* user message OnTerminate{Gracefully}: ctx.Terminate(self, false); then the system message *)
    terminate_flow (refresh_off (refresh_on (upd_gterm a1 false))) 0 0
  else a1.

Definition expire_arm (a : actor) : actor :=
  if a_expire_at a =? 0 then a else sreg a N_EXPIRE (SAfter (a_expire_at a - now a)).

(* onRestart ... tryRestarted *)
Definition restart_flow (a : actor) (busy busy2 : Z) : actor :=
  let a0 := refresh_off (refresh_on a) in                        (* the message whose handler fails *)
  let a1 := refresh_on a0 in                                     (* system message onRestart *)
  let a2 := refresh_off (pass_time (refresh_on a1) busy) in      (* OnRestarting *)
  let a3 := refresh_off (refresh_on a2) in                       (* OnTerminate *)
  let a4 := refresh_off (pass_time (refresh_on a3) busy2) in     (* OnTerminated *)
  let a5 := upd_s a4 (fst (step (a_s a4) Clear)) in
  let a6 := refresh_off (expire_arm a5) in
  (* queued callbacks of the old incarnation, then OnRestarted, OnLaunch *)
  let a7 := drain a6 in
  if a_alive a7 then refresh_off (refresh_off (refresh_on (refresh_on (refresh_off (refresh_on a7))))) else a7.

Inductive aop :=
| ASpawn (idle expire : Z)
| AMsg (acts : list aact) (busy : Z) (post : list aact)
| AFail (busy busy2 : Z)
| AStopOp (graceful : bool) (busy busy2 : Z)
| AAdvance (T : Z).

Definition is_deadline (t : task) : bool :=
  (Nat.eqb (t_name t) N_IDLE || Nat.eqb (t_name t) N_EXPIRE) && negb (t_kill t).

(* among the timers of bucket b other than instance i: is there any / is there a live deadline timer *)
Definition bucket_others (s : sched) (i : nat) (b : Z) : bool * bool :=
  fold_left (fun acc p =>
               match t_pend (snd p) with
               | Some e => if negb (Nat.eqb (fst p) i) && (trunc e (tick_ms s) =? b)
                           then (true, snd acc || is_deadline (snd p)) else acc
               | None => acc
               end)
            (combine (seq 0 (length (s_insts s))) (s_insts s)) (false, false).

(* time passes while the actor is idle: each expired timer posts its message, which is processed at once *)
Definition aadv_step (T : Z) (a : actor) : actor + actor :=
  let s := a_s a in
  if s_stopped s then inr a
  else match earliest (tick_ms s) T (s_insts s) 0%nat None with
       | None => inr a
       | Some (i, e) =>
           let b := trunc e (tick_ms s) in
           let '(others, dl_others) := bucket_others s i b in
           let racy := if is_deadline (inst s i) then others || (a_lastcb a =? b) else dl_others in
           let a0 := if racy then upd_racy a b else a in
           let '(s', evs) := fire s i e in
           inl (drain (upd_queue (upd_s a0 s') (map e_inst evs)))
       end.

Definition astep (a : actor) (o : aop) : actor :=
  match o with
  | ASpawn idle expire =>
      let s0 := new_sched true ACTOR_TICK (now a) in
      let a0 := {| a_s := s0; a_idle := idle; a_expire_at := if 0 <? expire then now a + expire else 0; a_alive := true;
                   a_tags := []; a_info := []; a_queue := []; a_gterm := false; a_events := []; a_term := None;
                   a_racy := None; a_lastcb := -1; a_last := now a |} in
      (* ActorOf: setExpireDuration; the child's first message OnLaunch (system, then as a user-level message) *)
      refresh_off (refresh_off (refresh_on (refresh_on (expire_arm a0))))
  | AMsg acts busy post =>
      if a_alive a then drain (refresh_off (do_acts (pass_time (do_acts (refresh_on a) acts) busy) post)) else a
  | AFail busy busy2 => if a_alive a then restart_flow a busy busy2 else a
  | AStopOp graceful busy busy2 =>
      if a_alive a then
        let a1 := if graceful then refresh_off (refresh_on a) else a in
        terminate_flow a1 busy busy2
      else a
  | AAdvance T =>
      if T <=? now a then a
      else match iter_pos FUEL (aadv_step T) a with
           | inr a' => upd_s a' (with_now (a_s a') (Z.max (now a') T))
           | inl a' => a'
           end
  end.

Definition new_actor (start : Z) : actor :=
  {| a_s := new_sched true ACTOR_TICK start; a_idle := 0; a_expire_at := 0; a_alive := false; a_tags := []; a_info := [];
     a_queue := []; a_gterm := false; a_events := []; a_term := None; a_racy := None; a_lastcb := -1; a_last := start |}.

Definition arun (a : actor) (ops : list aop) : actor := fold_left astep ops a.
